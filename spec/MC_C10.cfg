CONSTANTS
  Family = "atoms"
  PrefixSet = {8}
  Variants = {"in_base"}
  CompStride = 4
  NCand = 1
  KiloPrefix = 8
  DeclStride = 8
  VCSet = {"c128"}
INIT Init
NEXT Next
INVARIANT Export
CHECK_DEADLOCK FALSE
