------------------------------- MODULE Parser -------------------------------
(* The unit-string interface of unyt (C20).                                   *)
(*                                                                            *)
(* Valid side.  A unit expression is an abstract syntax tree over name        *)
(* spellings, numeric coefficients, product, quotient, rational power and     *)
(* sqrt.  Trees are encoded as prefix (Polish) sequences of integers so that  *)
(* TLC can enumerate, hash and export them:                                   *)
(*     MUL a b | DIV a b | SQRT a | POW(e) a | NAME(k) | COEF(c)              *)
(* `Sem` is the semantic function [[e]]: a monomial = sparse exponent vector  *)
(* (sorted sequence of <<id, n, d>>) and a rational coefficient; `DimOfAst`   *)
(* the dimension.  `Render` prints a tree in one of several equivalent        *)
(* spellings (operator spacing, minimal / full parentheses, a/b vs a*b**-1,   *)
(* x**-p vs 1/x**p, rational vs decimal exponents, sqrt(x) vs x**0.5 vs       *)
(* x**(1/2), alternative name spellings: unicode vs ASCII, alias words).      *)
(*                                                                            *)
(* Total side.  A string is a sequence of tokens of a small alphabet joined   *)
(* by a joiner.  `TokPredict` is the implementation-shaped prediction         *)
(* (transcribed from parse_unyt_expr + sympy's evaluation of the transformed  *)
(* Python expression + _get_unit_data_from_expr): "Ok", "UnitParseError" or   *)
(* "?" (not transcribed).                                                     *)
(*                                                                            *)
(* Property predicates C20_xxx    at the bottom only say what the property says. *)
EXTENDS Integers, Sequences, FiniteSets, TLC, Rational, Dim, Json, IOUtils

\* The name table is regenerated from the tree under test on every run (ASCII JSON; names travel by index):
\* a sequence of records [cls, atom, alt, dim, off, kind, neg, lg], one per name spelling
\* (lg = 1000 x log10 of the scale, rounded: the magnitude class of a tree is decided here, not in Python).
Names == JsonDeserialize(IOEnv.NAMES)
\* numeric coefficients (positive rationals) and exponents (non-zero rationals) of the generated trees
Coefs == << <<2, 1>>, <<5, 2>>, <<1000, 1>>, <<1, 4>> >>
\* (entries 11.. are the large integer exponents of the magnitude instance)
Exps == << <<-1, 1>>, <<1, 2>>, <<2, 1>>, <<-3, 2>>, <<1, 3>>, <<3, 1>>, <<-2, 1>>, <<2, 3>>, <<-1, 2>>, <<3, 4>>, <<7, 1>>, <<14, 1>>, <<-14, 1>>, <<19, 1>>, <<13, 1>>, <<-13, 1>>, <<103, 1>> >>

\* ---------------------------------------------------------------- encoding
MUL == 1
DIV == 2
SQRT == 3
NameTok(k) == 10000 + k
CoefTok(c) == 200 + c
PowTok(e) == 300 + e
IsNameTok(t) == t > 10000
IsCoefTok(t) == t > 200 /\ t < 300
IsPowTok(t) == t > 300 /\ t < 400
NameOf(t) == t - 10000
CoefOf(t) == Coefs[t - 200]
ExpOf(t) == Exps[t - 300]

\* ------------------------------------------------- sparse exponent vectors
RECURSIVE VAdd(_, _)
VAdd(a, b) ==
  IF a = <<>> THEN b ELSE IF b = <<>> THEN a
  ELSE IF a[1][1] < b[1][1] THEN <<a[1]>> \o VAdd(Tail(a), b)
  ELSE IF a[1][1] > b[1][1] THEN <<b[1]>> \o VAdd(a, Tail(b))
  ELSE LET s == RAdd(<<a[1][2], a[1][3]>>, <<b[1][2], b[1][3]>>) IN
       (IF s[1] = 0 THEN <<>> ELSE << <<a[1][1], s[1], s[2]>> >>) \o VAdd(Tail(a), Tail(b))
VScale(a, q) == IF q[1] = 0 THEN <<>>
                ELSE [i \in DOMAIN a |-> LET s == RMul(<<a[i][2], a[i][3]>>, q) IN <<a[i][1], s[1], s[2]>>]
VNeg(a) == VScale(a, <<-1, 1>>)

\* coefficient ** (n/d): exact when d = 1, or d = 2 on perfect squares; otherwise irrational
CoefPowOk(c, q) == q[2] = 1 \/ c = ROne \/ (q[2] = 2 /\ RIsSquare(c))
CoefPow(c, q) == IF c = ROne THEN ROne
                 ELSE IF q[2] = 1 THEN RPow(c, q[1])
                 ELSE RPow(RSqrt(c), q[1])

\* ------------------------------------------------- the semantic function
\* mode "name": ids are spelling indices; "atom": the symbol the implementation keeps
\* (alias -> canonical, transcription of inv_name_alternatives); "cls": the unit denoted.
\* "altatom": the symbol kept when the alternative spelling of the name is written.
IdOf(k, mode) == IF mode = "name" THEN k ELSE IF mode = "atom" THEN Names[k].atom
                 ELSE IF mode = "altatom" THEN Names[Names[k].alt].atom ELSE Names[k].cls
Half == <<1, 2>>
RECURSIVE Ev(_, _, _)
Ev(a, i, mode) ==
  LET t == a[i] IN
  IF IsNameTok(t) THEN [vec |-> << <<IdOf(NameOf(t), mode), 1, 1>> >>, coef |-> ROne, irr |-> FALSE, nx |-> i + 1]
  ELSE IF IsCoefTok(t) THEN [vec |-> <<>>, coef |-> CoefOf(t), irr |-> FALSE, nx |-> i + 1]
  ELSE IF t = MUL \/ t = DIV THEN
    LET l == Ev(a, i + 1, mode)
        r == Ev(a, l.nx, mode) IN
    IF t = MUL THEN [vec |-> VAdd(l.vec, r.vec), coef |-> RMul(l.coef, r.coef), irr |-> l.irr \/ r.irr, nx |-> r.nx]
    ELSE [vec |-> VAdd(l.vec, VNeg(r.vec)), coef |-> RDiv(l.coef, r.coef), irr |-> l.irr \/ r.irr, nx |-> r.nx]
  ELSE
    LET q == IF t = SQRT THEN Half ELSE ExpOf(t)
        x == Ev(a, i + 1, mode) IN
    [vec |-> VScale(x.vec, q), coef |-> IF CoefPowOk(x.coef, q) THEN CoefPow(x.coef, q) ELSE ROne,
     irr |-> x.irr \/ ~CoefPowOk(x.coef, q), nx |-> x.nx]
Sem(a, mode) == LET r == Ev(a, 1, mode) IN [vec |-> r.vec, coef |-> r.coef]
Irrational(a) == Ev(a, 1, "name").irr

\* dimension (12x exponents); DimOk: every intermediate power keeps 12x exponents integral
RECURSIVE EvDim(_, _)
EvDim(a, i) ==
  LET t == a[i] IN
  IF IsNameTok(t) THEN [d |-> Names[NameOf(t)].dim, ok |-> TRUE, nx |-> i + 1]
  ELSE IF IsCoefTok(t) THEN [d |-> DZero, ok |-> TRUE, nx |-> i + 1]
  ELSE IF t = MUL \/ t = DIV THEN
    LET l == EvDim(a, i + 1)
        r == EvDim(a, l.nx) IN
    [d |-> IF t = MUL THEN DMul(l.d, r.d) ELSE DDiv(l.d, r.d), ok |-> l.ok /\ r.ok, nx |-> r.nx]
  ELSE
    LET q == IF t = SQRT THEN Half ELSE ExpOf(t)
        x == EvDim(a, i + 1) IN
    [d |-> IF DPowOk(x.d, q[1], q[2]) THEN DPow(x.d, q[1], q[2]) ELSE DZero, ok |-> x.ok /\ DPowOk(x.d, q[1], q[2]), nx |-> x.nx]
DimOfAst(a) == EvDim(a, 1).d
DimOk(a) == EvDim(a, 1).ok
IsSingleName(a) == Len(a) = 1 /\ IsNameTok(a[1])
\* magnitude: 1000 x log10(scale) of every subtree; a tree is EXTREME when some subtree's scale leaves (or comes
\* within ~18 decades of) the range of a double - there the scale of [[e]] is inf / 0 / nan-prone and only
\* totality, agreement of the spellings and re-readability are demanded, not a numeric scale.
LgLimit == 290000
RECURSIVE EvLg(_, _)
EvLg(a, i) ==
  LET t == a[i] IN
  IF IsNameTok(t) THEN [lg |-> Names[NameOf(t)].lg, ext |-> FALSE, nx |-> i + 1]
  ELSE IF IsCoefTok(t) THEN [lg |-> 0, ext |-> FALSE, nx |-> i + 1]
  ELSE IF t = MUL \/ t = DIV THEN
    LET l == EvLg(a, i + 1)
        r == EvLg(a, l.nx)
        v == IF t = MUL THEN l.lg + r.lg ELSE l.lg - r.lg IN
    [lg |-> v, ext |-> l.ext \/ r.ext \/ v > LgLimit \/ v < -LgLimit, nx |-> r.nx]
  ELSE
    LET q == IF t = SQRT THEN Half ELSE ExpOf(t)
        x == EvLg(a, i + 1)
        v == (x.lg * q[1]) \div q[2] IN
    [lg |-> v, ext |-> x.ext \/ v > LgLimit \/ v < -LgLimit, nx |-> x.nx]
Extreme(a) == EvLg(a, 1).ext
DimlessId == 9999  \* stands for the symbol "dimensionless" in observed vectors
\* every exponent of the monomial small enough for the 32-bit pipeline
SmallVec(v) == \A i \in DOMAIN v : v[i][2] < 1000 /\ v[i][2] > -1000 /\ v[i][3] < 1000
\* size guard evaluated first (TLC integers are 32 bit): an upper bound on the bit length of the coefficient
RECURSIVE EvBits(_, _)
EvBits(a, i) ==
  LET t == a[i] IN
  IF IsNameTok(t) THEN [b |-> 0, ok |-> TRUE, nx |-> i + 1]
  ELSE IF IsCoefTok(t) THEN [b |-> 10, ok |-> TRUE, nx |-> i + 1]
  ELSE IF t = MUL \/ t = DIV THEN
    LET l == EvBits(a, i + 1)
        r == EvBits(a, l.nx) IN
    [b |-> l.b + r.b, ok |-> l.ok /\ r.ok /\ l.b + r.b <= 28, nx |-> r.nx]
  ELSE
    LET q == IF t = SQRT THEN Half ELSE ExpOf(t)
        x == EvBits(a, i + 1)
        n == IF q[1] < 0 THEN -q[1] ELSE q[1] IN
    [b |-> x.b * n, ok |-> x.ok /\ x.b * n <= 28, nx |-> x.nx]
BitsOk(a) == EvBits(a, 1).ok
\* a fractional power of a name with a negative scale (lat) has no real scale: not a valid unit expression
HasNegName(a) == \E i \in DOMAIN a : IsNameTok(a[i]) /\ Names[NameOf(a[i])].neg
HasFracPow(a) == \E i \in DOMAIN a : a[i] = SQRT \/ (IsPowTok(a[i]) /\ ExpOf(a[i])[2] # 1)
Good(a) == BitsOk(a) /\ ~(HasNegName(a) /\ HasFracPow(a)) /\ ~Irrational(a) /\ DimOk(a) /\ SmallVec(Sem(a, "name").vec)
           /\ LET c == Sem(a, "name").coef IN c[1] < 1000000 /\ c[2] < 1000000

\* ---------------------------------------------------------------- rendering
\* A style is a record [sp, par, div, inv, expo, sq, alt]:
\*   sp   "" | " "            spacing around binary operators
\*   par  "full" | "min"      parenthesise every operand | only where Python's precedence needs it
\*   div  "slash" | "negpow"  a/b | a*b**-1
\*   inv  "negexp" | "over"   x**-p | 1/x**p
\*   expo "rat" | "float"     x**(3/2) | x**1.5 (dyadic exponents and coefficients only)
\*   sq   "sqrt" | "half" | "float"   sqrt(x) | x**(1/2) | x**0.5
\*   alt  BOOLEAN             use the alternative spelling of every name (unicode <-> ASCII, alias word)
\*   ef   0 | 3..12          exponent / coefficient FORM (0: as `expo` says).  Every rational p = n/d in every
\*        syntactic position: 3 "(1.5)"  4 "( 1.5 )"  5 "((1.5))"  6 ".5" / "-.5" bare  7 "(.5)"  8 "15e-1" bare
\*        9 "(15e-1)"  10 sign outside "-(1.5)" / "+(1.5)"  11 "(3/2.0)"  12 "((3)/(2))"; sqrt(x) is spelled
\*        x**<1/2 in that form>, coefficients take the same form.  Non-dyadic p (thirds) only have 11 and 12.
BaseStyle == [sp |-> "", par |-> "min", div |-> "slash", inv |-> "negexp", expo |-> "rat", sq |-> "sqrt", alt |-> FALSE, ef |-> 0]
Styles == <<
  [BaseStyle EXCEPT !.par = "full"],
  [BaseStyle EXCEPT !.sp = " "],
  [BaseStyle EXCEPT !.div = "negpow", !.sq = "half"],
  [BaseStyle EXCEPT !.inv = "over"],
  [BaseStyle EXCEPT !.expo = "float", !.sq = "float"],
  [BaseStyle EXCEPT !.sp = " ", !.alt = TRUE],
  [BaseStyle EXCEPT !.sp = " ", !.par = "full", !.div = "negpow", !.inv = "over", !.expo = "float", !.sq = "half", !.alt = TRUE],
  [BaseStyle EXCEPT !.ef = 3, !.sq = "form"], [BaseStyle EXCEPT !.ef = 4, !.sq = "form"], [BaseStyle EXCEPT !.ef = 5, !.sq = "form"],
  [BaseStyle EXCEPT !.ef = 6, !.sq = "form"], [BaseStyle EXCEPT !.ef = 7, !.sq = "form"], [BaseStyle EXCEPT !.ef = 8, !.sq = "form"],
  [BaseStyle EXCEPT !.ef = 9, !.sq = "form"], [BaseStyle EXCEPT !.ef = 10, !.sq = "form"], [BaseStyle EXCEPT !.ef = 11, !.sq = "form"],
  [BaseStyle EXCEPT !.ef = 12, !.sq = "form"]
>>
NStyles == Len(Styles)
PlainStyles == <<1, 2, 3, 4, 5, 6, 7>>
FormStyles == <<1, 5, 8, 9, 10, 11, 12, 13, 14, 15, 16, 17>>

Par(s) == "(" \o s \o ")"
\* decimal spelling of a dyadic rational (denominator 1, 2 or 4), sign included
DecOk(q) == q[2] \in {1, 2, 4}
DecAbs(n, d) == IF d = 1 THEN ToString(n) \o ".0"
                ELSE IF d = 2 THEN ToString(n \div 2) \o ".5"
                ELSE ToString(n \div 4) \o (IF n % 4 = 1 THEN ".25" ELSE ".75")
Dec(q) == IF q[1] < 0 THEN "-" \o DecAbs(-q[1], q[2]) ELSE DecAbs(q[1], q[2])
RatStr(q) == IF q[2] = 1 THEN ToString(q[1]) ELSE ToString(q[1]) \o "/" \o ToString(q[2])
ShortAbs(n, d) == IF n < d /\ d = 2 THEN ".5" ELSE IF n < d /\ d = 4 THEN (IF n = 1 THEN ".25" ELSE ".75") ELSE DecAbs(n, d)
SciAbs(n, d) == IF d = 1 THEN ToString(n) \o "e0" ELSE IF d = 2 THEN ToString(n * 5) \o "e-1" ELSE ToString(n * 25) \o "e-2"
\* a rational in form ef (sign included); q = <<n, d>>
FormStr(q, ef) ==
  LET neg == q[1] < 0
      n == IF neg THEN -q[1] ELSE q[1]
      d == q[2]
      sg == IF neg THEN "-" ELSE "" IN
  IF ef = 11 THEN "(" \o ToString(q[1]) \o (IF d = 1 THEN ".0)" ELSE "/" \o ToString(d) \o ".0)")
  ELSE IF ef = 12 THEN (IF d = 1 THEN "((" \o ToString(q[1]) \o "))" ELSE "((" \o ToString(q[1]) \o ")/(" \o ToString(d) \o "))")
  ELSE IF ~DecOk(q) THEN Par(RatStr(q))
  ELSE IF ef = 3 THEN "(" \o sg \o DecAbs(n, d) \o ")"
  ELSE IF ef = 4 THEN "( " \o sg \o DecAbs(n, d) \o " )"
  ELSE IF ef = 5 THEN "((" \o sg \o DecAbs(n, d) \o "))"
  ELSE IF ef = 6 THEN sg \o ShortAbs(n, d)
  ELSE IF ef = 7 THEN "(" \o sg \o ShortAbs(n, d) \o ")"
  ELSE IF ef = 8 THEN sg \o SciAbs(n, d)
  ELSE IF ef = 9 THEN "(" \o sg \o SciAbs(n, d) \o ")"
  ELSE (IF neg THEN "-" ELSE "+") \o "(" \o DecAbs(n, d) \o ")"
\* spelling of an exponent after "**" (a bare negative number is legal there)
ExpStr(q, st) == IF st.ef # 0 THEN FormStr(q, st.ef)
                 ELSE IF st.expo = "float" /\ DecOk(q) /\ q[2] # 1 THEN Dec(q)
                 ELSE IF q[2] = 1 THEN ToString(q[1]) ELSE Par(RatStr(q))
NameStr(k, st) == "{" \o ToString(IF st.alt THEN Names[k].alt ELSE k) \o "}"
\* (form 10 "+(2.5)" as a coefficient would be a unary plus: written "(2.5)" there)
CoefStr(c, st) == IF st.ef # 0 THEN FormStr(c, IF st.ef = 10 THEN 3 ELSE st.ef)
                  ELSE IF c[2] = 1 THEN ToString(c[1])
                  ELSE IF st.expo = "float" /\ DecOk(c) THEN Dec(c) ELSE Par(RatStr(c))
\* precedence levels of a rendered string: 4 atom, 3 power, 2 product/quotient
Wrap(r, need, st) == IF st.par = "full" \/ r.lvl < need THEN Par(r.s) ELSE r.s
RECURSIVE Ren(_, _, _)
RenPow(x, q, st) ==
  LET b == Wrap(x, 4, st) IN
  IF q[1] < 0 /\ st.inv = "over" THEN
    [s |-> IF q = <<-1, 1>> THEN "1" \o st.sp \o "/" \o st.sp \o b
           ELSE "1" \o st.sp \o "/" \o st.sp \o b \o st.sp \o "**" \o st.sp \o ExpStr(RNeg(q), st), lvl |-> 2, nx |-> x.nx]
  ELSE [s |-> b \o st.sp \o "**" \o st.sp \o ExpStr(q, st), lvl |-> 3, nx |-> x.nx]
Ren(a, i, st) ==
  LET t == a[i] IN
  IF IsNameTok(t) THEN [s |-> NameStr(NameOf(t), st), lvl |-> 4, nx |-> i + 1]
  ELSE IF IsCoefTok(t) THEN [s |-> CoefStr(CoefOf(t), st), lvl |-> 4, nx |-> i + 1]
  ELSE IF t = MUL THEN
    LET l == Ren(a, i + 1, st)
        r == Ren(a, l.nx, st) IN
    [s |-> Wrap(l, 2, st) \o st.sp \o "*" \o st.sp \o Wrap(r, 2, st), lvl |-> 2, nx |-> r.nx]
  ELSE IF t = DIV THEN
    LET l == Ren(a, i + 1, st)
        r == Ren(a, l.nx, st) IN
    IF st.div = "negpow" THEN [s |-> Wrap(l, 2, st) \o st.sp \o "*" \o st.sp \o Wrap(r, 4, st) \o "**-1", lvl |-> 2, nx |-> r.nx]
    ELSE [s |-> Wrap(l, 2, st) \o st.sp \o "/" \o st.sp \o Wrap(r, 3, st), lvl |-> 2, nx |-> r.nx]
  ELSE IF t = SQRT THEN
    LET x == Ren(a, i + 1, st) IN
    IF st.sq = "sqrt" THEN [s |-> "sqrt(" \o x.s \o ")", lvl |-> 4, nx |-> x.nx]
    ELSE IF st.sq = "form" THEN [s |-> Wrap(x, 4, st) \o "**" \o ExpStr(Half, st), lvl |-> 3, nx |-> x.nx]
    ELSE IF st.sq = "float" THEN [s |-> Wrap(x, 4, st) \o "**0.5", lvl |-> 3, nx |-> x.nx]
    ELSE [s |-> Wrap(x, 4, st) \o "**(1/2)", lvl |-> 3, nx |-> x.nx]
  ELSE RenPow(Ren(a, i + 1, st), ExpOf(t), st)
Render(a, j) == Ren(a, 1, Styles[j]).s
Spellings(a, sts) == [j \in DOMAIN sts |-> Render(a, sts[j])]

\* ------------------------------------------------- tree generation
Leaves(GN, GC) == {<<NameTok(k)>> : k \in GN} \cup {<<CoefTok(c)>> : c \in GC}
Grow(S, GE) == S \cup {<<PowTok(e)>> \o a : e \in GE, a \in S} \cup {<<SQRT>> \o a : a \in S}
                 \cup {<<op>> \o a \o b : op \in {MUL, DIV}, a \in S, b \in S}
RECURSIVE Trees(_, _, _, _)
Trees(d, GN, GC, GE) == IF d = 0 THEN Leaves(GN, GC) ELSE Grow(Trees(d - 1, GN, GC, GE), GE)

\* ======================================================== total side: tokens
\* Alphabet: records [s |-> the lexeme, c |-> class].  Classes:
\*   name (a valid unit name), num (positive integer literal), frac (decimal literal), negnum (parenthesised
\*   negative integer), mul div pow lp rp sqrt minus plus comma, and "foreign" lexemes that are not part of
\*   the parser's vocabulary: dot lb rb eq kw (Python keyword) attr (name.__dunder__) dunder (__import__)
\*   lambda str (string literal) callable (a name of the evaluation namespace: Symbol) builtin (open).
Toks == <<
  [s |-> "m", c |-> "name"], [s |-> "s", c |-> "name"], [s |-> "9", c |-> "num"], [s |-> "2", c |-> "num"],
  [s |-> "*", c |-> "mul"], [s |-> "/", c |-> "div"], [s |-> "**", c |-> "pow"], [s |-> "(", c |-> "lp"],
  [s |-> ")", c |-> "rp"], [s |-> "sqrt", c |-> "sqrt"], [s |-> "-", c |-> "minus"], [s |-> "+", c |-> "plus"],
  [s |-> ".", c |-> "dot"], [s |-> ",", c |-> "comma"], [s |-> "[", c |-> "lb"], [s |-> "=", c |-> "eq"],
  \* ---- 16 core tokens above; extended alphabet below
  [s |-> "]", c |-> "rb"], [s |-> "if", c |-> "kw"], [s |-> "m.__class__", c |-> "attr"], [s |-> "__import__", c |-> "dunder"],
  [s |-> "lambda", c |-> "lambda"], [s |-> "0.3", c |-> "frac"], [s |-> "(-2)", c |-> "negnum"], [s |-> "''", c |-> "str"],
  [s |-> "Symbol", c |-> "callable"], [s |-> "open", c |-> "builtin"], [s |-> ":", c |-> "colon"], [s |-> "0.5", c |-> "frac"]
>>
NCore == 16
NToks == Len(Toks)
\* keywords, dunder names, lambda and builtin names lex as NAME and are turned into Symbols like any
\* unknown unit name (_auto_positive_symbol knows no keywords): "uname"
UnknownName == {"kw", "dunder", "lambda", "builtin"}
Cls(seq) == [i \in DOMAIN seq |-> IF Toks[seq[i]].c \in UnknownName THEN "uname" ELSE Toks[seq[i]].c]
Has(seq, c) == \E i \in DOMAIN seq : Toks[seq[i]].c = c
HardForeign == {"lb", "rb", "eq", "attr", "dot", "colon"}

\* Recursive-descent recogniser of the pure unit grammar over token classes (Python precedence):
\*   E := T (('*'|'/') T)* ;  T := ('-'|'+') T | P ;  P := A ['**' T] ;
\*   A := name | num | frac | negnum | '(' E ')' | 'sqrt' '(' E ')'
\* Returns [ok, nx, num] where num = "the value contains no name" (needed for exponents:
\* _get_unit_data_from_expr refuses a Symbol exponent, anything else symbolic escapes - see known findings).
Fail == [ok |-> FALSE, nx |-> 0, num |-> FALSE, neg |-> FALSE]
At(c, i) == IF i <= Len(c) THEN c[i] ELSE "eof"
RECURSIVE PE(_, _), PEtail(_, _, _), PT(_, _), PP(_, _), PA(_, _)
PA(c, i) ==
  IF At(c, i) \in {"num", "frac"} THEN [ok |-> TRUE, nx |-> i + 1, num |-> TRUE, neg |-> FALSE]
  ELSE IF At(c, i) = "negnum" THEN [ok |-> TRUE, nx |-> i + 1, num |-> TRUE, neg |-> TRUE]
  ELSE IF At(c, i) \in {"name", "uname"} THEN [ok |-> TRUE, nx |-> i + 1, num |-> FALSE, neg |-> FALSE]
  ELSE IF At(c, i) = "lp" THEN
    LET e == PE(c, i + 1) IN
    IF e.ok /\ At(c, e.nx) = "rp" THEN [e EXCEPT !.nx = e.nx + 1] ELSE Fail
  ELSE IF At(c, i) = "sqrt" /\ At(c, i + 1) = "lp" THEN
    LET e == PE(c, i + 2) IN
    IF e.ok /\ ~e.neg /\ At(c, e.nx) = "rp" THEN [e EXCEPT !.nx = e.nx + 1] ELSE Fail
  ELSE Fail
PP(c, i) ==
  LET a == PA(c, i) IN
  IF ~a.ok THEN Fail
  ELSE IF At(c, a.nx) = "pow" THEN
    LET x == PT(c, a.nx + 1) IN
    \* a name in the exponent is refused (or escapes); a negative base under a power is outside the transcription
    IF x.ok /\ x.num /\ ~a.neg THEN [ok |-> TRUE, nx |-> x.nx, num |-> a.num, neg |-> FALSE] ELSE Fail
  ELSE a
PT(c, i) ==
  IF At(c, i) \in {"minus", "plus"} THEN
    LET t == PT(c, i + 1) IN IF t.ok THEN [t EXCEPT !.neg = (At(c, i) = "minus") # t.neg] ELSE Fail
  ELSE PP(c, i)
PEtail(c, l, i) ==
  IF At(c, i) \in {"mul", "div"} THEN
    LET r == PT(c, i + 1) IN
    IF r.ok THEN PEtail(c, [ok |-> TRUE, nx |-> r.nx, num |-> l.num /\ r.num, neg |-> l.neg # r.neg], r.nx) ELSE Fail
  ELSE l
PE(c, i) == LET t == PT(c, i) IN IF t.ok THEN PEtail(c, t, t.nx) ELSE Fail
Recognised(seq) == LET c == Cls(seq) r == PE(c, 1) IN r.ok /\ r.nx = Len(c) + 1

\* Structural features of an input, over its *primitive* lexical classes (the expansion of compound
\* lexemes; for fuzzed strings the harness projects Python's tokenisation onto the same classes, with
\* "bignum" = an integer literal >= 9).  They make the keys of verdicts specific:
\*   intpow:   a power whose operands include two big integer literals (9**9**9: computed exactly)
\*   symexp:   a name somewhere after a "**" (m**-m: a symbolic exponent that is not a bare Symbol)
\*   negfrac:  a minus sign and a "**" together with a fraction, a division, a sqrt or a second minus sign
\*             ((-2)**0.3, (-2)**9**(-2), 9**sqrt(-2): complex scale)
\*   emptysym: Symbol('' ...
Expand(t) == CASE t.c = "negnum" -> <<"lp", "minus", "num", "rp">>
               [] t.c = "attr" -> <<"name", "dot", "name">>
               [] t.c = "dunder" -> <<"name">>
               [] t.c = "kw" -> <<"name">>
               [] t.c = "lambda" -> <<"name">>
               [] t.c = "builtin" -> <<"name">>
               [] t.c = "num" /\ t.s = "9" -> <<"bignum">>
               [] OTHER -> <<t.c>>
RECURSIVE PrimFrom(_, _)
PrimFrom(seq, i) == IF i > Len(seq) THEN <<>> ELSE Expand(Toks[seq[i]]) \o PrimFrom(seq, i + 1)
\* sympy's untokenize glues two adjacent "*" into "**" (and "/ /" into "//", see MulMul)
RECURSIVE MergeMul(_)
MergeMul(cs) == IF Len(cs) < 2 THEN cs
                ELSE IF cs[1] = "mul" /\ cs[2] = "mul" THEN <<"pow">> \o MergeMul(SubSeq(cs, 3, Len(cs)))
                ELSE <<cs[1]>> \o MergeMul(Tail(cs))
Prim(seq) == MergeMul(PrimFrom(seq, 1))
MulMul(seq) == \E i \in 1..(Len(seq) - 1) : Toks[seq[i]].c \in {"mul", "div"} /\ Toks[seq[i + 1]].c = Toks[seq[i]].c
Count(cs, c) == Cardinality({i \in DOMAIN cs : cs[i] = c})
FIntPow(cs) == Count(cs, "pow") >= 1 /\ Count(cs, "bignum") >= 2
FSymExp(cs) == \E i \in DOMAIN cs : cs[i] = "pow" /\ \E j \in (i + 1)..Len(cs) : cs[j] = "name"
FNegFrac(cs) == Count(cs, "minus") >= 1 /\ Count(cs, "pow") >= 1
                /\ (Count(cs, "frac") >= 1 \/ Count(cs, "div") >= 1 \/ Count(cs, "sqrt") >= 1 \/ Count(cs, "minus") >= 2)
FEmptySym(cs) == \E i \in 1..(Len(cs) - 2) : cs[i] = "callable" /\ cs[i + 1] = "lp" /\ cs[i + 2] = "str"
Features(cs) == (IF FIntPow(cs) THEN <<"intpow">> ELSE <<>>) \o (IF FSymExp(cs) THEN <<"symexp">> ELSE <<>>)
                \o (IF FNegFrac(cs) THEN <<"negfrac">> ELSE <<>>) \o (IF FEmptySym(cs) THEN <<"emptysym">> ELSE <<>>)
TokFeatures(seq) == Features(Prim(seq))

\* implementation-shaped prediction for space-joined sequences
TokPredict(seq) ==
  IF TokFeatures(seq) # <<>> \/ MulMul(seq) THEN "?"
  ELSE IF \E i \in DOMAIN seq : Toks[seq[i]].c \in HardForeign THEN "UnitParseError"
  \* an unknown name is refused by the table lookup unless it cancels (if/if = 1, if - if = 0)
  ELSE IF \E i \in DOMAIN seq : Toks[seq[i]].c \in UnknownName THEN
       (IF Recognised(seq) /\ ~(Has(seq, "div") \/ Has(seq, "minus") \/ Has(seq, "plus") \/ Has(seq, "comma")) THEN "UnitParseError"
        ELSE IF Recognised(seq) \/ Has(seq, "minus") \/ Has(seq, "plus") \/ Has(seq, "comma") THEN "?" ELSE "UnitParseError")
  ELSE IF Has(seq, "comma") \/ Has(seq, "plus") \/ Has(seq, "minus") \/ Has(seq, "str") \/ Has(seq, "callable") \/ Has(seq, "negnum") THEN
       (IF Recognised(seq) THEN "Ok" ELSE "?")
  ELSE IF Recognised(seq) THEN "Ok" ELSE "UnitParseError"

\* ============================================ total side: the Python corner
\* Strings built from what Python's own evaluation machinery offers: a head name (the dunder names that
\* eval() plants in, or resolves through, the globals it is given; a unit name; the parser's own callables;
\* a string constant), followed by trailers (subscripts with string constants, calls, star-args, attribute
\* chains), placed in a wrapper (product, f-string / format spec, walrus, comprehension, lambda, star-args,
\* conditional, sqrt argument, exponent).  A case also says whether the parser is WARM (it has evaluated at
\* least one expression in this process, so eval() has planted "__builtins__" in the shared global dict) or
\* COLD (that entry removed): the state of the shared dict is part of the input.
PyHeads == << "__builtins__", "__import__", "__name__", "__class__", "__dict__", "__globals__", "__loader__",
              "__spec__", "__build_class__", "__debug__", "m", "Symbol", "sqrt", "'abc'" >>
NDunder == 10
PyTrailers == << "['abs']", "[\"len\"]", "['__import__']", "['exec']", "(m)", "('abc')", "('os')", "()", "(*m)", "(**m)",
                 ".__class__", ".__dict__", ".__globals__", ".__call__", ".__builtins__", ".__init__" >>
\* wrapper = text before E, text between (when E occurs twice), text after
PyWraps == <<
  [a |-> "", two |-> FALSE, b |-> "", c |-> ""],
  [a |-> "", two |-> FALSE, b |-> "", c |-> "*m"],
  [a |-> "f'{", two |-> FALSE, b |-> "", c |-> "}'"],
  [a |-> "f'{m:{", two |-> FALSE, b |-> "", c |-> "}}'"],
  [a |-> "(x:=", two |-> FALSE, b |-> "", c |-> ")"],
  [a |-> "[x for x in ", two |-> FALSE, b |-> "", c |-> "]"],
  [a |-> "[", two |-> FALSE, b |-> "", c |-> " for x in (m,)]"],
  [a |-> "(lambda:", two |-> FALSE, b |-> "", c |-> ")()"],
  [a |-> "(lambda x=", two |-> FALSE, b |-> "", c |-> ":x)()"],
  [a |-> "sqrt(*", two |-> FALSE, b |-> "", c |-> ")"],
  [a |-> "sqrt(m,**", two |-> FALSE, b |-> "", c |-> ")"],
  [a |-> "", two |-> TRUE, b |-> " if ", c |-> " else m"],
  [a |-> "sqrt(", two |-> FALSE, b |-> "", c |-> ")"],
  [a |-> "m**", two |-> FALSE, b |-> "", c |-> ""]
>>
RECURSIVE PyTrail(_, _)
PyTrail(tr, i) == IF i > Len(tr) THEN "" ELSE PyTrailers[tr[i]] \o PyTrail(tr, i + 1)
PyExpr(h, tr) == PyHeads[h] \o PyTrail(tr, 1)
PyText(h, tr, w) == LET e == PyExpr(h, tr) x == PyWraps[w] IN
                    x.a \o e \o (IF x.two THEN x.b \o e ELSE "") \o x.c
\* transcription: _auto_positive_symbol turns every dunder name into Symbol('...') (warm or cold: the
\* "__builtins__" entry of the dict is neither a type nor callable), so the string is refused and evaluates
\* nothing foreign.  Other heads: not transcribed.
PyPredict(h) == IF h <= NDunder THEN "UnitParseError" ELSE "?"

\* ============================================== re-readable side: persistence
\* A unit is written by a persistence route and read back.  What denotes the unit is the text str(units)
\* TOGETHER WITH the symbol table that travels with it.  Registry kinds (the special symbol S of the case):
\*   default    untouched registry, S = pc
\*   user       S = code_length added by the user          userpfx   S = foo_bar added, prefixable
\*   usermod    S = code_length added, then modified
\*   modify     default symbol Msun re-valued by modify()  modifyq   default symbol pc re-valued by a quantity
\*   readd      default symbol pc re-valued by add() of the existing name
\*   mixed      pc re-valued + code_time added (unit pc/code_time)
\* Character class of the printed symbol (the text that is persisted is str(units); for the kinds above it is pure
\* ASCII).  Default-registry symbols whose canonical spelling is NOT ASCII - S is given to Unit() in its ASCII spelling:
\*   uni-micro     S = um  prints U+03BC m (beyond Latin-1)     uni-ohm    S = ohm prints U+03A9 (beyond Latin-1)
\*   uni-angstrom  S = angstrom prints U+00C5 (Latin-1 range)   uni-degree S = degC prints U+00B0 C (Latin-1, offset unit)
\*   uni-delta     S = delta_degC prints U+0394 U+00B0 C (both)
RegKinds == <<"default", "user", "userpfx", "usermod", "modify", "modifyq", "readd", "mixed",
              "uni-micro", "uni-ohm", "uni-angstrom", "uni-degree", "uni-delta">>
UniKind(rk) == rk \in {"uni-micro", "uni-ohm", "uni-angstrom", "uni-degree", "uni-delta"}
DefaultName(rk) == rk \in {"default", "modify", "modifyq", "readd", "mixed"} \/ UniKind(rk)   \* S is a key of the default table
Revalued(rk) == rk \in {"modify", "modifyq", "readd", "mixed"}                 \* ... with a value of the registry's own
Prefixable(rk) == rk \in {"default", "userpfx", "modifyq", "readd", "uni-ohm", "uni-degree", "uni-delta"}
OffsetSym(rk) == rk = "uni-degree"      \* powers / quotients of an offset unit are refused by unit arithmetic
\* "MS**14": the mega-prefixed symbol to the 14th power, built by unit arithmetic (M S)**7 * (M S)**7 - a scale beyond
\* the range of a double for pc
Forms == <<"S", "S**2", "S/s", "kS", "MS**14">>
\* "columns": two arrays written side by side, an ASCII column (km) and the column in S (savetxt only)
Carriers == <<"array", "quantity", "unit", "columns">>
Routes == <<"pickle2", "pickle3", "pickle4", "pickle5", "savetxt", "string", "hdf5">>
IsPickle(rt) == rt \in {"pickle2", "pickle3", "pickle4", "pickle5"}
PersistCase(rk, f, ca, rt) ==
  /\ (f \in {"kS", "MS**14"} => Prefixable(rk))
  /\ (f \in {"S**2", "S/s", "MS**14"} => ~OffsetSym(rk))
  /\ (ca = "unit" => IsPickle(rt))
  /\ (rt = "savetxt" => ca \in {"array", "columns"}) /\ (ca = "columns" => rt = "savetxt")
  /\ (rt = "string" => ca = "quantity")
\* transcription of what travels: pickle stores str(units) + the whole table (a bare Unit pickles its registry
\* object); write_hdf5 stores str(units) + the rows whose KEY is absent from the default table; savetxt and
\* to_string store the text only (from_string is given the writer's registry by the harness; loadtxt has no
\* registry argument and reads against the default table).
\* Predicted reading of the scale: "written", "stock" (the default table's value) or "raise".
HasUserName(rk) == rk \in {"user", "userpfx", "usermod", "mixed"}
\* from_string has a grammar of its own (letters, * / and integer powers): names with "_" or parentheses are refused
PersistPredict(rk, rt, f) ==
  IF IsPickle(rt) \/ (f = "MS**14" /\ DefaultName(rk) /\ ~UniKind(rk)) THEN "written"   \* (every reading of Mpc**14 is inf)
  \* (from_string: the degree sign, the angstrom sign and "_" are outside its grammar; kdegC prints in ASCII)
  ELSE IF rt = "string" THEN (IF HasUserName(rk) \/ rk \in {"uni-angstrom", "uni-delta"} \/ (rk = "uni-degree" /\ f # "kS") THEN "raise" ELSE "written")
  \* (today write_hdf5 drops re-valued default symbols - a known finding, P fails there; the prediction is the
  \* repaired behaviour so that the check is silent with the repair applied)
  ELSE IF rt = "hdf5" THEN "written"
  ELSE (IF HasUserName(rk) THEN "raise" ELSE IF Revalued(rk) THEN "stock" ELSE "written")
\* routes whose persisted form carries the symbol table
CarriesTable(rt) == IsPickle(rt) \/ rt = "hdf5"

\* ===================================================== total side: parsing history
\* What a string denotes in a registry - and whether it is a unit at all - is a function of the string and of the
\* registry's contents, not of the strings that registry happened to parse before (Unit.__new__ keeps a per-registry
\* string -> Unit memo, consulted when a registry is given explicitly or through a quantity).  A case is a token
\* sequence rendered with a joiner, tested in a COLD registry (fresh) and in a WARM one that has first parsed the
\* neighbouring spellings of the same tokens:
\*   "joiners"  the sequence under every other joiner (so "m s" is tested after "ms", "m\ts", "m  s")
\*   "case"     lower / upper / swapped / title case of the string
\*   "pad"      stripped, padded with blanks, wrapped in parentheses, with a trailing operator dropped
\* through three call forms: Unit(s, registry=r), unyt_quantity(1, s, registry=r), unyt_quantity(3, "s", registry=r).to(s).
HToks == << "m", "s", "k", "P", "a", "in", "1", "0", "*", "/", "**", "(", ")" >>
HJoiners == << " ", "", "\t" >>
HWarm == << "joiners", "case", "pad" >>
\* Registry contents.  What a string denotes is a function of the string and of the contents of the registry it is
\* read under - also not of what OTHER registries (with other contents) parsed before.  Kinds:
\*   default   UnitRegistry()                          plus    default + user symbols a, in (both prefixable)
\*   minus     default with the symbol m removed       bare    no default symbols: user symbols a (prefixable), in, s (not)
\* Warm-up kind "foreign": the string (under every joiner) is first parsed under a registry of ANOTHER kind q, then
\* read under a fresh registry of kind r; the cold reading is taken before, in a process where nothing else was parsed.
HRegs == << "default", "plus", "minus", "bare" >>
HText(seq, j) == LET RECURSIVE Go(_)
                     Go(i) == IF i > Len(seq) THEN "" ELSE (IF i > 1 THEN HJoiners[j] ELSE "") \o HToks[seq[i]] \o Go(i + 1)
                 IN Go(1)

\* ================================================================ property C20
\* --- totality: for any string, Unit(s) succeeds or raises UnitParseError; nothing foreign is evaluated.
\* `o` = observed outcome ("Ok", an exception class name, or "Hang"); `ev` = foreign things the evaluated
\* expression resolved/executed (names outside the vocabulary, attribute loads, lambdas, imports, builtin calls).
C20_Total(o) == o \in {"Ok", "UnitParseError"}
C20_NothingForeign(ev) == ev = <<>>

\* --- spellings: every spelling of e yields a unit equal to [[e]] (dimension, scale within rounding - matched
\* by the harness against the scale of [[e]] -, offset agreeing across spellings and, for a bare name, with the table)
C20_SpellingOk(a, ob, first) ==
  IF Extreme(a) THEN
    \* the scale leaves the range of a double: the string is accepted or refused - by every spelling alike -,
    \* an accepted one has the dimension of [[e]] (its scale may be inf, 0 or nan: "succeeds")
    /\ C20_Total(ob.o)
    /\ ob.o = first.o
    /\ (ob.o = "Ok" => ob.dim = DimOfAst(a) /\ ob.off = first.off)
  ELSE
  /\ ob.o = "Ok"
  /\ ob.dim = DimOfAst(a)
  /\ ob.sc
  /\ ob.off = first.off
  /\ (IsSingleName(a) => ob.off = Names[NameOf(a[1])].off)

\* --- re-readability: text printed for unit u parses back to an equal unit; identical when coefficient free.
\* `u` and `r` are projections of the printed unit and of the re-read one.
\* `ext`: the tree is EXTREME (see Extreme): float arithmetic on units over/underflows at intermediate products
\* (Gpc**7 * Gpc**-14 has scale 0.0, its text Gpc**(-7) reads 4e-179), so no numeric scale is demanded there - the
\* text must still be readable and denote the same dimension and offset.
C20_RoundTripEqual(u, r, ext) == r.o = "Ok" /\ r.dim = u.dim /\ r.off = u.off /\ (ext \/ r.sc)
\* --- persistence: the re-read unit equals the written one (dimension, offset, scale).  `w`/`r` project the
\* written and the re-read unit; r.sc says which scale the reader found ("written" / "stock" / "other").
\* Text-only routes (savetxt -> loadtxt reads against the default table; to_string -> from_string is given the
\* writer's registry but has a small grammar of its own): the text may be refused (Raise) but never read as
\* something else; for a re-valued default symbol nothing is demanded of savetxt/loadtxt (no table travels and
\* loadtxt takes no registry).
C20_PersistEqual(w, r) == r.o = "Ok" /\ r.dim = w.dim /\ r.off = w.off /\ r.sc = "written"
\* savetxt -> loadtxt: the reader has the default table only, so it may refuse text naming a symbol the user added
\* (Raise); text made of default symbols (whatever characters their canonical spelling uses) must denote the unit written.
C20_Persist(rk, rt, w, r) ==
  IF CarriesTable(rt) THEN C20_PersistEqual(w, r)
  ELSE IF rt = "savetxt" THEN Revalued(rk) \/ (HasUserName(rk) /\ r.o = "Raise") \/ C20_PersistEqual(w, r)
  ELSE r.o = "Raise" \/ C20_PersistEqual(w, r)
\* --- history freedom: the warm registry gives the outcome, dimension, offset and scale the cold one gives
\* (`w.sc`: harness tolerance match of the two scales); for the two constructor forms the outcome is total as well.
C20_HistoryFree(c, w) == w.o = c.o /\ (c.o = "Ok" => w.dim = c.dim /\ w.off = c.off /\ w.sc)
C20_RoundTripIdentical(u, r) == u.cf => (r.o = "Ok" /\ r.same /\ r.hash /\ r.vec = u.vec /\ r.coef = u.coef)
=============================================================================
