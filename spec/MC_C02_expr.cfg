CONSTANTS
  MaxTok = 3
  MaxStack = 2
  PoolMod = 480
  Sels = {480, 11}
  NoChain = FALSE
INIT Init
NEXT Next
INVARIANT ImplAgrees
INVARIANT Export
INVARIANT ExportPool
CHECK_DEADLOCK FALSE
