----------------------------- MODULE MC_C06_cat -----------------------------
(* Bounded instance of ArrayFnNumCat: the catalogue case table.  The          *)
(* catalogue (handled / unsupported / default-path functions of numpy,        *)
(* numpy.linalg, numpy.fft that dispatch through __array_function__, and the  *)
(* ndarray methods) is extracted from the tree under test (IOEnv.CAT); TLC     *)
(* enumerates function x template of its class x shape x dtype x seed and      *)
(* reports catalogue entries the specification has no template for.           *)
EXTENDS ArrayFnNumCat, Json, IOUtils, Integers
CONSTANTS Seeds, DTs, ShAll
Cat == JsonDeserialize(IOEnv.CAT)
Names(k) == {Cat[k][j] : j \in 1..Len(Cat[k])}
Catalogue == Names("handled") \cup Names("unsupported") \cup Names("default") \cup Names("methods") \cup Names("extra")
KindOfFn(fn) == IF fn \in Names("handled") THEN "handled" ELSE IF fn \in Names("unsupported") THEN "unsupported"
                ELSE IF fn \in Names("default") THEN "default" ELSE "method"
VARIABLE c
Init == c = <<>>
Next == /\ c = <<>>
        /\ \/ \E g \in GroupIdx : \E fn \in Groups[g].fns \cap Catalogue, t \in Groups[g].t, dt \in DTs, sd \in Seeds,
                 sh \in (IF Groups[g].sv THEN ShAll ELSE {"-"}) :
                 c' = [layer |-> "C", fn |-> fn, cls |-> Groups[g].cls, t |-> t, sh |-> sh, dt |-> dt, sd |-> sd, kind |-> KindOfFn(fn)]
           \/ \E fn \in Catalogue \ Known : c' = [layer |-> "U", fn |-> fn, kind |-> KindOfFn(fn)]
           \/ \E fn \in {f \in Known \ Catalogue : SubSeq(f, 1, 3) = "np."} : c' = [layer |-> "X", fn |-> fn, kind |-> "absent"]
Spec == Init /\ [][Next]_c
Export == c # <<>> => PrintT(ToJson(c))
=============================================================================
