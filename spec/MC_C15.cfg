CONSTANT CfgSel = "all"
INIT Init
NEXT Next
INVARIANT Export
INVARIANT Tables
CHECK_DEADLOCK FALSE
