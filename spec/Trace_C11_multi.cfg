CONSTANTS
  MaxSteps = 99
  Pairs <- NoPairs
  ClsSet <- NoCls
  HowSet <- NoHow
INIT TraceInit
NEXT TraceNext
CHECK_DEADLOCK FALSE
