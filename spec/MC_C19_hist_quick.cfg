CONSTANTS
  Tier = "quick"
  HistLen = 2
INIT Init
NEXT Next
INVARIANT Export
CHECK_DEADLOCK FALSE
