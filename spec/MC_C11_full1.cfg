CONSTANTS
  MaxChain = 1
  PathSet <- AllPaths
  Combos <- AllCombos
  ClsSet <- Classes
  OrderSet <- BothOrders
  PreSet <- PlainPre
INIT Init
NEXT Next
INVARIANT Export
CHECK_DEADLOCK FALSE
