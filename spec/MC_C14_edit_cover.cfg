CONSTANT MaxLen = 3
CONSTANT Deep = 3
INIT EditInit
NEXT Next
VIEW View
INVARIANT ExportDeep
CHECK_DEADLOCK FALSE
