"""C07 - NumPy functions propagate units covariantly and never drop them silently.

Spec: spec/ArrayFnUnit.tla (+ MC_C07, Trace_C07).
  1. the catalogue (functions dispatching through __array_function__ with their class in the working tree,
     ndarray methods/properties of unyt_array) is extracted from the tree under test (impl_c07.catalogue);
  2. TLC enumerates the bounded single-step instance MC_C07 over that catalogue: function x call template x
     shape x dimension assignment x re-expression pattern x factor (dyadic floats, integers, ordinary units);
     each case carries the property-side signature, the transcribed unit formula, the outcome the
     transcription predicts and the model-level counterexamples;
  3. every case is replayed twice on the real library (base units / re-expressed units) by harness/impl_c07.py;
  4. TLC (Trace_C07) evaluates C07_Cov, C07_Sig, C07_Keep on the observed outcomes (P) and compares them with
     the transcription (T).
"""

import json
import os

from common import MachineryFailure

CHUNK = 2500
# proposed repairs (fixes/C07-*.patch) already committed to the tree under test: the transcription (T) follows them.
# Names: "det", "einsum", "intersect1d", "methods".  P never depends on this.
TREE_FIXES = ("det", "einsum", "intersect1d", "methods")  # /repo HEAD carries these repairs (fix: commits 624838b..5b37fc0)
CASE_KEYS = ("f", "t", "sh", "n", "da", "u", "v", "rg", "ok", "bm", "bk", "pat", "rd", "r", "dt", "real", "ds", "cls", "hcls", "sig", "io", "exact", "nocov", "novals", "unord", "od", "tb", "tv")


def _key(r):
    """stable, specific identification of a failing call: function + template + clause + output (+ shape, pattern class)"""
    return {
        "f": r["f"],
        "t": r["t"],
        "clause": r["clause"],
        "out": r["out"],
        "sh": r["sh"],
        "reexpressed": "registries" if r["pat"] == "reg" else ("all" if r["pat"] == "bare" else "one-operand" if r["mixed"] else "all"),
        "data": "offset-units" if "Th" in r["da"] else "temperature-units" if "Tm" in r["da"] else ({"i8": "int", "f4": "float32", "c16": "complex"}.get(r["dt"]) or ("ordinary-units" if r["real"] else "dyadic")),
        "outkind": {"u": "unyt-other-unit", "r": "unyt-result-unit", "b": "plain-ndarray", "-": "none"}[r["ok"]],
        # call form: which operands are given bare ("b") / as quantities ("q"); "-" = all quantities
        "bare": r["bm"] if r["bm"] == "-" else r["bm"] + ":" + {"a": "ndarray", "l": "list"}[r["bk"]],
    }


def _strip(c):
    return {k: c[k] for k in CASE_KEYS}


def _validate(ck, cases, obs, label):
    import concurrent.futures as cf

    recs = [{"c": _strip(c), "o": o} for c, o in zip(cases, obs)]
    offs = list(range(0, len(recs), CHUNK))

    def one(off):
        part = recs[off : off + CHUNK]
        path = ck.write_json(f"obs_{label}_{off}.json", part)
        res = ck.tlc("Trace_C07", env={"OBS": path}, workers=1, coverage=False, label=f"trace-validation {label} [{off}:{off + len(part)}]", timeout=1800)
        if res.distinct != len(part) + 1:
            raise MachineryFailure(f"trace validation consumed {res.distinct} states, expected {len(part) + 1}")
        return off, len(part), res

    # independent chunks: validated by concurrent TLC runs, verdicts recorded in chunk order (deterministic)
    from common import NCPU

    with cf.ThreadPoolExecutor(max_workers=max(1, min(NCPU, len(offs)))) as ex:
        results = list(ex.map(one, offs))
    npf = 0
    for off, n, res in results:
        ck.validated(n)
        if os.environ.get("C07_DUMP"):  # development aid: every P-FAIL / T-FAIL record, one JSON per line
            with open(os.environ["C07_DUMP"], "a") as fh:
                for r in res.records:
                    fh.write(json.dumps(r, sort_keys=True) + "\n")
        for r in res.by_tag("T-FAIL"):
            ck.drift_step(f"{r['f']}:{r['t']}", {"sh": r["sh"], "pat": r["pat"], "run": r["run"], "model": r["model"], "observed": r["observed"]})
        for r in res.by_tag("P-FAIL"):
            npf += 1
            c = cases[off + r["i"] - 1]
            detail = {k: r[k] for k in ("pat", "da", "r", "ds", "hcls", "cls", "base", "var", "cmp", "expect")}
            detail["u"], detail["v"] = c["u"], c["v"]
            ck.violation(_key(r), detail, case=_strip(c))
    return npf


def _replay(ck, cases, label):
    obs = ck.pmap("impl_c07", "observe", cases, chunk_timeout=1500)
    bad = [(c, o) for c, o in zip(cases, obs) if "_error" in o]
    if bad:
        raise MachineryFailure("replay error on " + json.dumps({k: bad[0][0][k] for k in ("f", "t", "sh", "u", "v")}) + ": " + str(bad[0][1])[-1500:])
    return obs


def _suite_traces(ck):
    """code -> spec: TLC evaluates the event predicate S07 (spec/Trace_C07_suite.tla) on every call the repository's
    own test-suite makes through unyt_array.__array_function__ (recorded by the external tracer, harness/suite.py)."""
    import suite

    events, tail = suite.record(ck)
    arr = [e for e in events if e["ev"] == "arrfn"]
    if len(arr) < 100:
        raise MachineryFailure(f"only {len(arr)} array-function events recorded from the test-suite: {tail[-200:]}")
    path = ck.write_json("suite_arrfn.json", arr)
    res = ck.tlc("Trace_C07_suite", env={"EVENTS": path}, workers=1, coverage=False, label=f"suite trace validation: S07 on {len(arr)} __array_function__ events", timeout=1200)
    if res.distinct != len(arr) + 1:
        raise MachineryFailure(f"suite trace validation consumed {res.distinct - 1} of {len(arr)} events")
    judged = res.by_tag("APPLIED")
    if len(judged) < 50:
        raise MachineryFailure(f"S07 judged only {len(judged)} suite events (vacuous)")
    ck.validated(len(arr))
    ck.cov["suite"] = {"arrfn_events": len(arr), "judged_by_S07": len(judged), "functions_judged": len({r["fn"] for r in judged}), "pytest_tail": tail[-120:]}
    for r in res.by_tag("P-FAIL"):
        e = arr[r["idx"] - 1]
        ck.violation({"source": "suite", "pred": "S07", "f": r["fn"], "out": r["out"], "clause": "sig"}, {"unit": r["unit"], "observed_dim_x12": r["observed"], "event": suite.brief(e)}, case={"suite_event": e})


def run(ck):
    ck.level = "model_checking"
    ck.assumptions += [
        "model registry: custom UnitRegistry with units xl<k> (2^k m) and xt<k> (2^k s); operands hold fixed small dyadic numbers (multiples of 1/8), so every re-expression by a power of two is exact",
        "one fixed data set per shape (sc, v3, v4, 2x2, 3x3, 2x3, stack 3x2x2; symmetric positive definite where a factorisation needs it); covariance is checked on these inputs, not on all inputs",
        "ordinary units: m -> km/cm/inch, s -> ms/min/hr at rtol 1e-9 relative to the largest magnitude of the output (norm-wise)",
        "a refusal (exception) in either run is not a C07 violation; text and dtype results are recorded, not compared",
        "floats never enter TLC: the harness supplies exponent vectors, log2 scales and the booleans exact / within tolerance / same shape",
        "known findings are matched on (function, template, clause, output index, shape, re-expression class, data class)",
    ]
    if ck.replay:
        blob = json.load(open(ck.replay))
        if "suite_event" in blob["case"]:
            raise MachineryFailure("a suite event is replayed by re-running the test named in its detail under the tracer (./check C07 --tier thorough)")
        cases = [blob["case"]]
        obs = _replay(ck, cases, "replay")
        _validate(ck, cases, obs, "replay")
        return

    cat = ck.pmap("impl_c07", "catalogue", [{}], nproc=1)[0]
    if "_error" in cat:
        raise MachineryFailure("catalogue extraction failed: " + str(cat))
    cat = cat["cat"]
    if len(cat) < 200:
        raise MachineryFailure(f"catalogue too small ({len(cat)})")
    cpath = ck.write_json("catalogue.json", cat)
    byc = {}
    for n, cl in cat:
        byc[cl] = byc.get(cl, 0) + 1
    ck.cov["catalogue"] = byc

    cfg = ck.q("MC_C07_quick", "MC_C07_thorough")
    fixes = tuple(x for x in os.environ.get("C07_TREE_FIXES", "").split(",") if x) or TREE_FIXES
    if fixes:
        txt = open(ck.spec + f"/{cfg}.cfg").read().replace("Fixes <- NoFixes", "Fixes = {" + ", ".join('"%s"' % x for x in fixes) + "}")
        cfg = cfg + "_fixes"
        open(ck.spec + f"/{cfg}.cfg", "w").write(txt)
    ck.cov["tree_fixes"] = list(fixes)
    res = ck.tlc("MC_C07", cfg, env={"CAT": cpath}, workers=1, coverage=False, label=f"case table {cfg}", timeout=3000)
    cases = res.records
    if len(cases) != res.distinct - 1 or len(cases) < 1000:
        raise MachineryFailure(f"exported {len(cases)} cases for {res.distinct} states")
    cases.sort(key=lambda c: json.dumps({k: c[k] for k in ("f", "t", "sh", "da", "pat", "rd", "r", "dt", "real", "ds", "u", "rg", "ok", "bm", "bk")}, sort_keys=True))
    ck.cov["exhaustive"] = True

    names = {n for n, _ in cat}
    covered = {c["f"] for c in cases if c["sig"]["k"] != "unknown"}
    generic = sorted({c["f"] for c in cases if c["cls"] == "unknown"})
    ck.cov["functions_with_signature"] = len(covered)
    ck.cov["functions_with_transcription"] = len({c["f"] for c in cases if c["io"]["chk"] != "na"})
    ck.cov["functions_generic_only"] = generic
    ck.cov["functions_not_demanded"] = sorted(names - {c["f"] for c in cases})
    fams = {}
    for c in cases:
        k = ("bare" if c["bm"] != "-" else "tm" if "Tm" in c["da"] else "offset" if "Th" in c["da"] else {"i8": "int", "f4": "float32", "c16": "complex"}.get(c["dt"]) or ("real" if c["real"] else "dyadic")) + ":" + ("all" if c["pat"] in ("all", "bare") else "registries" if c["pat"] == "reg" else "one-operand")
        fams[k] = fams.get(k, 0) + 1
    ck.cov["cases_by_family"] = fams
    ck.cov["cases_by_out_kind"] = {k: sum(1 for c in cases if c["ok"] == k) for k in ("u", "r", "b")}
    ck.cov["cases_with_cancelling_units"] = sum(1 for c in cases if any(d in ("iL", "iT") for d in c["da"]))
    for fam in ("dyadic:all", "dyadic:one-operand", "int:all", "real:all", "dyadic:registries", "real:registries", "offset:all", "offset:one-operand", "tm:all", "bare:all"):
        if not fams.get(fam):
            raise MachineryFailure(f"no case of family {fam} generated (vacuous instance)")
    model_cex = {}
    for c in cases:
        if c["mp"]:
            k = f"{c['f']}:{c['t']}:{c['sh']}"
            model_cex[k] = model_cex.get(k, 0) + 1
    ck.cov["model_level_counterexamples"] = model_cex
    for f in ("np.linalg.det", "np.einsum", "np.sum", "nd.trace", "np.histogram"):
        ex = [c for c in cases if c["f"] == f]
        if ex:
            c = ex[len(ex) // 2]
            ck.sample({k: c[k] for k in ("f", "t", "sh", "u", "v", "pat", "dt", "real", "sig", "io", "tb")})

    obs = _replay(ck, cases, "table")
    npf = _validate(ck, cases, obs, "table")

    # functions the real library could not be called on through the plain template: uncovered
    inapplicable = sorted({c["f"] for c, o in zip(cases, obs) if o["b"]["k"] == "inapplicable"})
    refused = sorted({c["f"] + ":" + c["t"] for c, o in zip(cases, obs) if o["b"]["k"] == "raise" and c["pat"] == "all"})
    ck.cov["uncovered"] = [f"signature unknown (covariance only): {f}" for f in generic if f not in inapplicable] + [f"plain call not applicable: {f}" for f in inapplicable]
    ck.cov["refused_in_base_run"] = refused
    ck.cov["evaluations"] = len(cases)
    nontrivial = sum(1 for o in obs if o["b"]["k"] == "ok" and o["v"]["k"] == "ok")
    ck.cov["distinct_nontrivial"] = int(nontrivial)
    ck.cov["refusals_variant_only"] = sum(1 for o in obs if o["b"]["k"] == "ok" and o["v"]["k"] == "raise")
    ck.cov["rule"] = "cases exported by TLC (function x template x shape x dimension assignment x re-expression pattern x factor x data class) replayed on base and re-expressed operands; non-trivial = both runs returned, so that covariance, signature and keep clauses are all evaluated on real outputs"
    ck.cov["observed_p_fail_cases"] = npf
    ck.cov["model_level_p_fail_cases"] = sum(model_cex.values())

    if ck.tier == "thorough":
        _suite_traces(ck)
