"""Replay of MC_C08 cases on the real library (C08).

observe(case) -> {"k": "val"|"bool"|"raise", "exc": class name, "unit": {"base", "pfx"}, "v": [[n, d], ...]}

Python only turns a case into real calls and projects the result: the label of
the result is split into (prefix, base) by name; every float is divided by
10**k10 (the decimal exponent the specification assigned to the case) and
snapped to the nearest rational the specification listed for the case when it
is within RTOL of it; otherwise it is encoded as its own rational (never equal
to a listed one).  The verdicts are TLC's (spec/Trace_C08.tla)."""

import math
import operator
from fractions import Fraction

RTOL = 1e-10
RTOL_F4 = 5e-6
INT_LIMIT = 2**31 - 1
BASES = ["delta_degC", "delta_degF", "degC", "degF", "K", "R"]
PREFIXES = ["", "Y", "Z", "E", "P", "T", "G", "M", "k", "h", "da", "d", "c", "m", "u", "n", "p", "f", "a", "z", "y"]
_U = {}


def setup(common=None):
    import numpy as np
    import unyt

    _U.update(np=np, unyt=unyt, ua=unyt.unyt_array, uq=unyt.unyt_quantity)


_PFX_CHARS = {"micro_sign": "\u00b5", "micro_mu": "\u03bc"}
_DT = {"f8": "float64", "f4": "float32", "i2": "int16", "u2": "uint16", "i4": "int32", "u4": "uint32", "i8": "int64"}


def name(u):
    return _PFX_CHARS.get(u["pfx"], u["pfx"]) + u["base"]


_RTOL_SRC = {"f8": 1e-10, "i8": 1e-10, "f4": 5e-6, "i4": 5e-6, "u4": 5e-6, "i2": 2e-3, "u2": 2e-3}


def _rtol_of(r, case=None):
    """tolerance of the float type the library computed in: the result's, or the one its source dtype converts to
    (to_value of a scalar returns a Python float holding float16/float32 precision)."""
    if case is not None:
        return max(_rtol_of(r), _RTOL_SRC.get(case.get("dt", "f8"), RTOL))
    np = _U["np"]
    dt = np.asarray(r).dtype
    if dt.kind in "fc":
        size = dt.itemsize // (2 if dt.kind == "c" else 1)
        if size == 2:
            return 2e-3
        if size == 4:
            return RTOL_F4
    return RTOL


def _frac(p):
    return Fraction(int(p[0]), int(p[1]))


def _label(units):
    """unit of a result -> {"base", "pfx"} when it is one of the alphabet's names, else base "?"."""
    s = str(units.expr).replace("\u03bc", "u").replace("\u00b5", "u")  # unyt spells the micro prefix with a Greek mu
    for b in BASES:
        if s.endswith(b):
            p = s[: len(s) - len(b)]
            if p in PREFIXES and (p == "" or b in ("K", "degC", "delta_degC")):
                return {"base": b, "pfx": p}
    return {"base": "?", "pfx": s.encode("ascii", "backslashreplace").decode()[:60]}


_ZERO_K = {"degC": Fraction(27315, 100), "degF": Fraction(45967, 180)}
_EXP = dict(zip(PREFIXES, [0, 24, 21, 18, 15, 12, 9, 6, 3, 2, 1, -1, -2, -3, -6, -9, -12, -15, -18, -21, -24]))
_EXP.update(micro_sign=-6, micro_mu=-6)


def _scale(u):
    return (Fraction(5, 9) if u["base"] in ("R", "degF", "delta_degF") else Fraction(1)) * Fraction(10) ** _EXP[u["pfx"]]


def _conv_atol(case, rtol=RTOL):
    """absolute tolerance of a conversion, in target readings at the case's decimal exponent: a conversion
    between scales with different zero points (or through one) is only as accurate as the absolute
    temperatures involved allow (273.15 K expressed in ndegC cancels to ~1e-16 relative of 2.7e11)."""
    u, v = case["u0"], case["u1"]
    if u["base"] not in _ZERO_K and v["base"] not in _ZERO_K:
        return Fraction(0)
    xmax = max(abs(_frac(p)) for p in case["x0"])
    mag = (_ZERO_K.get(u["base"], 0) + _ZERO_K.get(v["base"], 0) + _scale(u) * xmax) / _scale(v)
    return Fraction(rtol) * mag / Fraction(10) ** int(case["t"]["k10"])


def _enc(x, cands, k10, atol=0, first=None):
    """float -> [n, d] at decimal exponent k10 (snap to the nearest listed rational within RTOL)."""
    try:
        x = float(x)
    except (TypeError, ValueError):
        return [0, 0]
    if math.isnan(x) or math.isinf(x):
        return [0, 0]
    f = Fraction(x) / (Fraction(10) ** k10)
    best = None
    if first is not None and abs(f - first) <= RTOL * abs(first) + atol:
        return [first.numerator, first.denominator]  # within tolerance of what the transcription predicts for this element
    for c in cands:
        d = abs(f - c)
        if d <= RTOL * abs(c) + atol and (best is None or d < best[0]):
            best = (d, c)
    if best is not None:
        return [best[1].numerator, best[1].denominator]
    if abs(f.numerator) <= INT_LIMIT and f.denominator <= INT_LIMIT:
        return [f.numerator, f.denominator]  # exactly this rational, and not within tolerance of a listed one
    for lim in (10**6, 10**4, 10**2, 1):
        g = f.limit_denominator(lim)
        if abs(g.numerator) <= INT_LIMIT and g not in cands:
            return [g.numerator, g.denominator]
    return [0, 0]


def _project(r, case, with_values=True):
    np = _U["np"]
    cands = [_frac(p) for p in case["cands"]]
    k10 = int(case["t"]["k10"])
    if isinstance(r, tuple):
        r = r[0]
    units = getattr(r, "units", None)
    arr = np.asarray(r)
    if units is None and arr.dtype.kind == "b":
        return {"k": "bool", "exc": "", "unit": {"base": "", "pfx": ""}, "v": [[int(bool(x)), 1] for x in arr.reshape(-1)]}
    if units is None:
        lab = {"base": "?", "pfx": "bare"}
    else:
        lab = _label(units)
    rtol = _rtol_of(arr, case)
    atol = _conv_atol(case, rtol) if case["fam"] == "conv" else 0
    tv = [_frac(p) for p in case["t"]["v"]]
    flat = list(arr.reshape(-1))
    v = [_enc_tol(x, cands, rtol, atol, tv[j] if len(tv) == len(flat) else None, k10) for j, x in enumerate(flat)] if with_values else []
    return {"k": "val", "exc": "", "unit": lab, "v": v}


def _operand(case, side, unit_name=None):
    np = _U["np"]
    xs = [float(_frac(p)) for p in case["x%d" % side]]
    un = unit_name or name(case["u%d" % side])
    dt = np.dtype(_DT[case.get("dt", "f8")] if case["fam"] == "conv" else "float64")
    if case["shape"] == "sc":
        return _U["uq"](dt.type(xs[0]), un)
    arr = np.array(xs, dtype=dt)
    if case["shape"][0] == "g":  # "g<r><c>": an r x c grid, row-major
        arr = arr.reshape(int(case["shape"][1]), int(case["shape"][2]))
    return _U["ua"](arr, un)


def _conv(case):
    q = _operand(case, 0)
    tgt = name(case["u1"])
    via = case["form"]
    if via == "in_units":
        return q.in_units(tgt)
    if via == "to":
        return q.to(tgt)
    if via == "convert_to_units":
        q.convert_to_units(tgt)
        return q
    if via == "to_value":
        # a bare number: it is labelled with the requested unit by construction
        return type(q)(q.to_value(tgt), tgt)
    if via == "in_base":
        return q.in_base()
    if via == "convert_to_base":
        q.convert_to_base()
        return q
    raise ValueError(via)


_BIN_OPERATOR = {
    "add": operator.add,
    "subtract": operator.sub,
    "less": operator.lt,
    "greater": operator.gt,
    "less_equal": operator.le,
    "greater_equal": operator.ge,
    "equal": operator.eq,
    "not_equal": operator.ne,
}
_BIN_INPLACE = {"add": operator.iadd, "subtract": operator.isub}


def _bin(case):
    np = _U["np"]
    a = _operand(case, 0)
    b = _operand(case, 1)
    op = case["op"]
    form = case["form"]
    uf = getattr(np, op)
    if form == "operator":
        f = _BIN_OPERATOR.get(op)
        return f(a, b) if f else uf(a, b)
    if form == "ufunc":
        return uf(a, b)
    if form == "inplace":
        f = _BIN_INPLACE.get(op)
        if f:
            return f(a, b)
        uf(a, b, out=a)
        return a
    if form == "out":
        o = _U["ua"](np.zeros(len(case["x0"])), "K")
        uf(a, b, out=o)
        return o
    # out= aliasing one of the operands: the operand itself, or a view sharing its memory
    if form in ("out0", "out1", "outv0", "outv1"):
        tgt = a if form.endswith("0") else b
        o = tgt[:] if form.startswith("outv") else tgt
        uf(a, b, out=o)
        return o
    raise ValueError(form)


def _red(case):
    np = _U["np"]
    a = _operand(case, 0)
    return {"diff": np.diff, "ediff1d": np.ediff1d, "ptp": np.ptp, "gradient": np.gradient}[case["op"]](a)


def _partner(case, a):
    part = case["part"]
    n = len(case["x0"])
    if part == "self":
        return a.copy()
    if part == "two":
        return 2.0
    if part == "bare":
        return _U["np"].array([2.0 + i for i in range(n)])
    if part == "list":
        return [2.0 + i for i in range(n)]
    if case["shape"] == "sc":
        return _U["uq"](2.0, {"K": "K", "m": "m", "nd": "dimensionless"}[part])
    return _U["ua"]([2.0 + i for i in range(n)], {"K": "K", "m": "m", "nd": "dimensionless"}[part])


_POW = {"2": 2, "3": 3, "half": 0.5, "m1": -1}
# the axis argument carried by the call form of a repeated product / quotient
_AXIS = {
    "function": {},
    "axnone": {"axis": None},
    "axnonek": {"axis": None, "keepdims": True},
    "ax0": {"axis": 0},
    "ax1": {"axis": 1},
    "axm1": {"axis": -1},
    "axm2": {"axis": -2},
    "axt01": {"axis": (0, 1)},
    "ax0k": {"axis": 0, "keepdims": True},
    "ax1k": {"axis": 1, "keepdims": True},
    "axm1k": {"axis": -1, "keepdims": True},
}
_REDLIKE = {
    "prod_reduce": lambda np, a, kw: np.multiply.reduce(a, **kw),
    "div_reduce": lambda np, a, kw: np.divide.reduce(a, **kw),
    "tdiv_reduce": lambda np, a, kw: np.true_divide.reduce(a, **kw),
    "fdiv_reduce": lambda np, a, kw: np.floor_divide.reduce(a, **kw),
    "prod": lambda np, a, kw: np.prod(a, **kw),
    "prodmethod": lambda np, a, kw: a.prod(**kw),
    "nanprod": lambda np, a, kw: np.nanprod(a, **kw),
    "mul_accumulate": lambda np, a, kw: np.multiply.accumulate(a, **kw),
    "div_accumulate": lambda np, a, kw: np.divide.accumulate(a, **kw),
    "fdiv_accumulate": lambda np, a, kw: np.floor_divide.accumulate(a, **kw),
    "mul_reduceat": lambda np, a, kw: np.multiply.reduceat(a, [0], **kw),
    "div_reduceat": lambda np, a, kw: np.divide.reduceat(a, [0], **kw),
    "fdiv_reduceat": lambda np, a, kw: np.floor_divide.reduceat(a, [0], **kw),
    "cumprod": lambda np, a, kw: np.cumprod(a, **kw),
    "nancumprod": lambda np, a, kw: np.nancumprod(a, **kw),
    "cumulative_prod": lambda np, a, kw: np.cumulative_prod(a, **kw),
}
_AT = {"mul_at": "multiply", "div_at": "divide", "fdiv_at": "floor_divide"}
# product-like operations on two 1-d arrays of three elements
_PRODUCTS = {
    "dot": lambda np: np.dot,
    "matmul": lambda np: np.matmul,
    "at": lambda np: operator.matmul,
    "vecdot": lambda np: np.vecdot,
    "mouter": lambda np: np.multiply.outer,
    "douter": lambda np: np.divide.outer,
    "fdouter": lambda np: np.floor_divide.outer,
    "inner": lambda np: np.inner,
    "outer": lambda np: np.outer,
    "vdot": lambda np: np.vdot,
    "tensordot": lambda np: (lambda x, y: np.tensordot(x, y, axes=1)),
    "einsum": lambda np: (lambda x, y: np.einsum("i,i->", x, y)),
    "kron": lambda np: np.kron,
    "cross": lambda np: np.cross,
    "convolve": lambda np: np.convolve,
    "correlate": lambda np: np.correlate,
    "linalg_outer": lambda np: np.linalg.outer,
    "linalg_cross": lambda np: np.linalg.cross,
    "linalg_vecdot": lambda np: np.linalg.vecdot,
    "linalg_matmul": lambda np: np.linalg.matmul,
}


def _ref(case):
    np = _U["np"]
    a = _operand(case, 0)
    op = case["op"]
    form = case["form"]
    if op in ("multiply", "divide", "floor_divide"):
        b = _partner(case, a)
        pyop = {"multiply": operator.mul, "divide": operator.truediv, "floor_divide": operator.floordiv}[op]
        ipop = {"multiply": operator.imul, "divide": operator.itruediv, "floor_divide": operator.ifloordiv}[op]
        uf = getattr(np, op)
        if form == "operator":
            return pyop(a, b)
        if form == "roperator":
            return pyop(b, a)
        if form == "ufunc":
            return uf(a, b)
        if form == "rufunc":
            return uf(b, a)
        if form == "inplace":
            return ipop(a, b)
        if form == "out":
            o = _U["ua"](np.zeros(len(case["x0"])), "K")
            uf(a, b, out=o)
            return o
    if op == "divmod":
        b = _partner(case, a)
        return divmod(a, b) if form == "function" else divmod(b, a)
    if op == "true_divide":
        b = _partner(case, a)
        return np.true_divide(a, b) if form == "function" else np.true_divide(b, a)
    if op == "matmul" and form == "out":
        b = _partner(case, a)
        o = _U["ua"](np.zeros((1, 1)), "K")
        np.matmul(a.reshape(1, -1), np.asarray(b).reshape(-1, 1) if not hasattr(b, "units") else b.reshape(-1, 1), out=o)
        return o
    if op in _PRODUCTS:
        b = _partner(case, a)
        f = _PRODUCTS[op](np)
        return f(a, b) if form == "function" else f(b, a)
    if op in _REDLIKE:
        return _REDLIKE[op](np, a, _AXIS[form])
    if op in _AT:
        b = _partner(case, a)
        y = a.copy()
        getattr(np, _AT[op]).at(y, slice(None), np.asarray(b) if isinstance(b, list) else b)
        return y
    if op in ("square", "sqrt", "cbrt", "reciprocal"):
        uf = getattr(np, op)
        if form == "ufunc":
            return uf(a)
        o = _U["ua"](np.zeros(a.size).reshape(a.shape), "K")
        uf(a, out=o)
        return o
    if op.startswith("power"):
        p = _POW[op[5:]]
        if form == "ufunc":
            return np.power(a, p)
        o = _U["ua"](np.zeros(a.size).reshape(a.shape), "K")
        np.power(a, p, out=o)
        return o
    if op.startswith("pow"):
        p = _POW[op[3:]]
        if form == "operator":
            return a**p
        a **= p
        return a
    raise ValueError(op + "/" + form)


def _mag_atol(case, label, rtol):
    """cancellation allowance for a reading of the source expressed in `label` (see _conv_atol)."""
    u = case["u0"]
    if label.get("base") not in BASES or label.get("pfx") not in _EXP:
        return Fraction(0)
    xmax = max(abs(_frac(p)) for p in case["x0"] + case["x1"])
    mag = (_ZERO_K["degC"] + _ZERO_K["degF"] + (_scale(u) + 1) * xmax) / _scale(label)
    return Fraction(rtol) * mag


def _vals(r, case, label, cands, first, rtol):
    np = _U["np"]
    flat = list(np.asarray(r).reshape(-1))
    atol = _mag_atol(case, label, rtol)
    out = []
    for j, x in enumerate(flat):
        f = first[j] if first is not None and len(first) == len(flat) else None
        out.append(_enc_tol(x, cands, rtol, atol, f))
    return out


def _enc_tol(x, cands, rtol, atol, first, k10=0):
    global RTOL
    old = RTOL
    RTOL = rtol
    try:
        return _enc(x, cands, k10, atol, first)
    finally:
        RTOL = old


def _apply_route(x, s, prev):
    r = s["r"]
    tgt = name(s["v"]) if s["v"]["base"] else None
    if r == "to":
        return x.to(tgt), None
    if r == "in_units":
        return x.in_units(tgt), None
    if r == "to_value":
        return x.to_value(tgt), s["v"]          # bare: labelled with the requested unit by construction
    if r == "cconvert":
        y = x.copy()
        y.convert_to_units(tgt)
        return y, None
    if r in ("cconvert_base", "cconvert_mks", "cconvert_cgs", "cconvert_base_imperial"):
        y = x.copy()
        if r == "cconvert_base":
            y.convert_to_base()
        elif r == "cconvert_mks":
            y.convert_to_mks()
        elif r == "cconvert_cgs":
            y.convert_to_cgs()
        else:
            y.convert_to_base("imperial")
        return y, None
    if r == "in_base_mks":
        return x.in_base("mks"), None
    if r == "in_base_cgs":
        return x.in_base("cgs"), None
    if r == "in_base_imperial":
        return x.in_base("imperial"), None
    if r == "in_mks":
        return x.in_mks(), None
    if r == "in_cgs":
        return x.in_cgs(), None
    raise ValueError(r)


def _chain(case):
    np = _U["np"]
    dt = np.dtype(_DT[case["dt"]]).type
    rtol = RTOL
    xs = [float(_frac(p)) for p in case["x0"]]
    ds = [float(_frac(p)) for p in case["x1"]]
    src = name(case["u0"])
    if case["shape"] == "sc":
        x = _U["uq"](dt(xs[0]), src)
    else:
        x = _U["ua"](np.array(xs, dtype=dt), src)
    cands = [_frac(p) for p in case["cands"]]
    readings = [_frac(p) for p in case["x0"]]
    steps = []
    prev = None
    prev_lab = None
    for i, s in enumerate(case["chain"]):
        model = [_frac(p) for p in case["t"]["steps"][i]["v"]]
        try:
            if s["r"] == "prev_iadd":
                if prev is None:
                    raise LookupError("no previous result")
                if hasattr(prev, "units"):
                    prev += _U["uq"](1.0, prev.units)
                    r, forced = prev, None
                elif isinstance(prev, np.ndarray):
                    prev += 1.0
                    r, forced = prev, prev_lab
                else:
                    r, forced = prev + 1.0, prev_lab
            elif s["r"] == "add_diff":
                ddt = dt if np.dtype(dt).kind == "f" else np.float64  # the difference readings are not integral
                d = _U["uq"](ddt(ds[0]), name(s["v"])) if case["shape"] == "sc" else _U["ua"](np.array(ds, dtype=ddt), name(s["v"]))
                r, forced = x + d, None
            else:
                r, forced = _apply_route(x, s, prev)
            units = getattr(r, "units", None)
            lab = forced if forced is not None else (_label(units) if units is not None else {"base": "?", "pfx": "bare"})
            o = {"k": "val", "exc": "", "unit": lab, "v": _vals(r, case, lab, cands, model, _rtol_of(r, case))}
            prev, prev_lab = r, lab
        except (ValueError, KeyError, AttributeError, NameError, ImportError, LookupError) as e:
            if not type(e).__module__.startswith("unyt"):
                raise
            o = {"k": "raise", "exc": type(e).__name__, "unit": {"base": "", "pfx": ""}, "v": []}
            prev = None
        except Exception as e:  # noqa: BLE001 - the observation is the refusal
            o = {"k": "raise", "exc": type(e).__name__, "unit": {"base": "", "pfx": ""}, "v": []}
            prev = None
        # what the source holds now
        o["srcunit"] = _label(x.units)
        o["srcv"] = _vals(x, case, {"base": "?"}, cands, readings, rtol)
        steps.append(o)
    return {"steps": steps}


def observe(case):
    fam = case["fam"]
    if fam == "chain":
        return _chain(case)
    try:
        if fam == "conv":
            r = _conv(case)
        elif fam == "bin":
            r = _bin(case)
        elif fam == "red":
            r = _red(case)
        elif fam == "ref":
            r = _ref(case)
        else:
            raise ValueError(fam)
    except (ValueError, KeyError, AttributeError, NameError, ImportError) as e:
        # harness trouble must not be mistaken for a refusal by the library
        if type(e).__module__.startswith("unyt"):
            return {"k": "raise", "exc": type(e).__name__, "unit": {"base": "", "pfx": ""}, "v": []}
        raise
    except Exception as e:  # noqa: BLE001 - the observation is the refusal
        return {"k": "raise", "exc": type(e).__name__, "unit": {"base": "", "pfx": ""}, "v": []}
    return _project(r, case, with_values=(fam != "ref"))
