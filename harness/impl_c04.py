"""Replay of Arith.tla programs in real unyt (C04).

observe(case) -> {"events": [...], "errors": [...]}

A case is one TLC-generated program: `steps` (op, method, set of call forms,
operand registers, parameter) plus, for the two runs A and B (leaves of B are
the leaves of A re-expressed in another commensurable unit), the registers of
the specification: unit (exponents x6 over the atom table), the transcription's
numbers `v` and the reference numbers `rv` in that unit.

Each run is executed once per call-form variant (operator / ufunc / in-place /
out= / ...).  Every executed step becomes one event carrying the operands as
observed before the call and the observed result.  Python only projects:
floats are matched to the rationals the specification expected (exactly, or
within a stated tolerance) - otherwise they travel as the exact fraction of the
float, or as the sentinel [0, 0].  All verdicts are TLC's (Trace_C04.tla)."""

import math
import operator
from fractions import Fraction

import numpy as np

INT_LIMIT = 2**31 - 1
RTOL = 1e-12
STEP = math.pi / 12.0  # a number in radian is carried by the model as a multiple of pi/12

_U = {}


def setup(common=None):
    import unyt
    from unyt import dimensions
    from unyt.unit_registry import UnitRegistry

    tab = common["table"]
    names, grp, pv = tab["names"], tab["grp"], tab["pv"]
    primes = [2, 3, 5, 127]
    reg = UnitRegistry()
    dims = {1: dimensions.length, 2: dimensions.time, 3: dimensions.angle, 4: dimensions.energy, 0: dimensions.dimensionless}
    mscale = []
    for n, g, v in zip(names, grp, pv):
        s = Fraction(1)
        for p, e in zip(primes, v):
            s *= Fraction(p) ** e
        mscale.append(s)
        if n.startswith("x"):
            # custom atoms: power-of-two scales (exact float arithmetic); `xst` = 15 degrees = pi/12 rad
            if n in reg.lut:
                raise RuntimeError("custom atom collides with a unyt symbol: " + n)
            reg.add(n, float(s) * (math.pi / 180.0) if g == 3 else float(s), dims[g] if g != 5 else dimensions.length / dimensions.time)
    from unyt.unit_object import Unit

    atoms = [Unit(n, registry=reg) for n in names]
    keys = [str(a.expr) for a in atoms]
    _U.update(unyt=unyt, reg=reg, names=names, pv=pv, grp=grp, mscale=mscale, idx={k: i for i, k in enumerate(keys)}, ua=unyt.unyt_array, uq=unyt.unyt_quantity, dims=dims, rad=names.index("radian"))
    _U["rscale"] = [float(a.base_value) for a in atoms]
    _U["rdim"] = [a.dimensions for a in atoms]


# ------------------------------------------------------------------ projection
def _unit_str(u):
    parts = []
    for n, e in zip(_U["names"], u):
        if e:
            parts.append(f"{n}**{e // 6}" if e % 6 == 0 else f"{n}**({e // 3}/2)" if e % 3 == 0 else f"{n}**({e // 2}/3)")
    return "*".join(parts) if parts else "dimensionless"


def _mscale(u):
    """model scale of a unit vector: Fraction when rational, else float"""
    r = _mratio(u, [0] * len(u))
    return r


def _mratio(ua, ub):
    """model scale(ua) / scale(ub): exact Fraction when the prime exponents come out integral, else float"""
    primes = [2, 3, 5, 127]
    ex = [0, 0, 0, 0]
    for ea, eb, pv in zip(ua, ub, _U["pv"]):
        d = ea - eb
        if d:
            for k in range(4):
                ex[k] += d * pv[k]
    if all(e % 6 == 0 for e in ex):
        r = Fraction(1)
        for p, e in zip(primes, ex):
            r *= Fraction(p) ** (e // 6)
        return r
    r = 1.0
    for p, e in zip(primes, ex):
        r *= float(p) ** (e / 6.0)
    return r


def _unit_vec(units):
    """exponent vector x6 of a real Unit over the atom table; (vec, coherent)"""
    import sympy

    vec = [0] * len(_U["names"])
    ok = True
    for b, e in units.expr.as_powers_dict().items():
        if getattr(b, "is_Number", False):
            if b != 1:
                ok = False
            continue
        if str(b) == "dimensionless":
            continue
        i = _U["idx"].get(str(b))
        e6 = sympy.Rational(e) * 6
        if i is None or e6.q != 1:
            ok = False
            continue
        vec[i] = int(e6)
    if not ok:
        return vec, False
    want = 1.0
    dim = 1
    for s, d, e in zip(_U["rscale"], _U["rdim"], vec):
        if e:
            want *= s ** (e / 6.0)
            dim = dim * d ** sympy.Rational(e, 6)
    coherent = math.isclose(float(units.base_value), want, rel_tol=1e-11) and units.dimensions == dim and not units.base_offset
    return vec, bool(coherent)


def _safe(f):
    return abs(f.numerator) <= INT_LIMIT and f.denominator <= INT_LIMIT


def _snap(x, cands, erad, atol):
    """float -> ([n, d], exact).  cands: Fractions the specification expects in the observed unit."""
    if math.isnan(x) or math.isinf(x):
        return [0, 0], False
    proj = STEP ** (erad / 6.0) if erad else 1.0
    if not erad:
        f = Fraction(x)
        for c in cands:
            if isinstance(c, Fraction) and c == f and _safe(c):
                return [c.numerator, c.denominator], True
    for c in cands:
        rc = float(c) * proj
        if abs(x - rc) <= RTOL * abs(rc) + atol:
            c = c if isinstance(c, Fraction) else None
            if c is not None and _safe(c):
                return [c.numerator, c.denominator], False
    if not erad:
        if _safe(f):
            return [f.numerator, f.denominator], True
    return [0, 0], False


def _project(x, model, magnitude):
    """observed register: kind, unit vector, numbers as rationals, exactness"""
    ua = _U["ua"]
    if isinstance(x, ua):
        vec, coherent = _unit_vec(x.units)
        k = "q"
        vals = np.asarray(x.d, dtype=float).ravel().tolist()
    else:
        vec, coherent, k = [0] * len(_U["names"]), True, "b"
        vals = np.asarray(x, dtype=float).ravel().tolist()
    erad = vec[_U["rad"]]
    out = []
    exact = True
    mu = model["u"] if model else None
    factor = None
    if model is not None and model["k"] == k:
        if mu == vec:
            factor = Fraction(1)
        else:
            factor = _mratio(mu, vec)
    for j, xv in enumerate(vals):
        cands = []
        if factor is not None and j < len(model["v"]):
            for src in (model["v"], model["rv"], model.get("pv", model["rv"])):
                c = Fraction(src[j][0], src[j][1])
                c = c * factor if isinstance(factor, Fraction) else float(c) * factor
                if c not in cands:
                    cands.append(c)
        mag = max([magnitude] + [abs(float(c)) * (STEP ** (erad / 6.0) if erad else 1.0) for c in cands])
        r, ex = _snap(xv, cands, erad, 1e-12 * mag)
        out.append(r)
        exact = exact and ex
    return {"k": k, "u": vec, "v": out, "ex": bool(exact)}, coherent


ZERO = None


def _bare(p):
    return {"k": "n", "u": [0] * len(_U["names"]), "v": [list(p)], "ex": True}


def _dummy():
    return {"k": "x", "u": [0] * len(_U["names"]), "v": [[1, 1]], "ex": True}


# ------------------------------------------------------------------ execution
_PYOP = {
    "add": operator.add, "subtract": operator.sub, "multiply": operator.mul, "divide": operator.truediv,
    "floor_divide": operator.floordiv, "remainder": operator.mod, "less": operator.lt, "less_equal": operator.le,
    "greater": operator.gt, "greater_equal": operator.ge, "equal": operator.eq, "not_equal": operator.ne,
    "negative": operator.neg, "positive": operator.pos, "absolute": abs, "power": operator.pow,
}
_IOP = {
    "add": operator.iadd, "subtract": operator.isub, "multiply": operator.imul, "divide": operator.itruediv,
    "floor_divide": operator.ifloordiv, "remainder": operator.imod, "power": operator.ipow,
}
_FN = {"add": "sum", "multiply": "prod", "maximum": "max", "minimum": "min"}


def _out_like(shape):
    if shape == ():
        return _U["ua"](np.zeros(()), "xta", registry=_U["reg"])
    return _U["ua"](np.zeros(shape), "xta", registry=_U["reg"])


def _exec(st, form, a, b):
    """returns list of (label, result object)"""
    op, meth, p = st["op"], st["meth"], st["p"]
    pf = p[0] / p[1]
    if op == "dot":
        if form == "meth":
            return [("", a.dot(b))]
        if form == "fn":
            return [("", np.dot(a, b))]
        if form == "op":
            return [("", a @ b)]
        return [("", getattr(np, form)(a, b))]
    if op in ("divmod_q", "divmod_r"):
        r = np.divmod(a, b) if form == "uf" else divmod(a, b)
        return [("", r[0] if op == "divmod_q" else r[1])]
    uf = getattr(np, op)
    if meth == "reduce":
        if form == "fn":
            return [("", getattr(a, _FN[op])())]
        return [("", uf.reduce(a))]
    if meth == "accumulate":
        if form == "fn":
            return [("", a.cumsum())]
        return [("", uf.accumulate(a))]
    if meth == "outer":
        return [("", uf.outer(a, b))]
    if op == "power":
        b = pf
    unary = b is None
    if form == "uf":
        return [("", uf(a) if unary else uf(a, b))]
    if form == "op":
        return [("", _PYOP[op](a) if unary else _PYOP[op](a, b))]
    if form == "iop":
        t = a.copy()
        t = _IOP[op](t, b)
        return [("", t)]
    if form == "outself":
        t = a.copy()
        r = uf(t, b, out=t) if not unary else uf(t, out=t)
        return [("", t), (".ret", r)]
    if form == "out":
        shape = np.broadcast(np.asarray(a), np.asarray(b)).shape if not unary else np.shape(a)
        o = _out_like(shape)
        r = uf(a, out=o) if unary else uf(a, b, out=o)
        return [("", o), (".ret", r)]
    raise ValueError("unknown form " + form)


def _tb():
    import traceback

    lines = [ln.strip() for ln in traceback.format_exc().splitlines() if ln.strip().startswith("File")]
    return lines[:4] + lines[-6:]


def _leaf(model):
    vals = [Fraction(n, d) for n, d in model["v"]]
    erad = model["u"][_U["rad"]]
    fl = [float(v) * (STEP ** (erad // 6) if erad else 1.0) for v in vals]
    us = _unit_str(model["u"])
    if len(fl) == 1:
        return _U["uq"](fl[0], us, registry=_U["reg"])
    return _U["ua"](np.array(fl, dtype=float), us, registry=_U["reg"])


def _run(case, run, variant):
    model = case[run]
    steps = case["steps"]
    real = []
    obs = []
    events = []
    errors = []
    for i in range(2):
        x = _leaf(model[i])
        o, _ = _project(x, model[i], 0.0)
        real.append(x)
        obs.append(o)
    for si, st in enumerate(steps):
        forms = sorted(st["forms"])
        form = forms[variant % len(forms)]
        ia, ib = st["a"], st["b"]
        pf = st["p"][0] / st["p"][1]
        unary = st["op"] in ("negative", "positive", "absolute", "fabs", "sqrt", "cbrt", "square", "reciprocal", "sin", "cos", "tan", "sign", "power") or st["meth"] in ("reduce", "accumulate")
        a = real[ia - 1] if ia else pf
        b = None if unary else (real[ib - 1] if ib else pf)
        oa = obs[ia - 1] if ia else _bare(st["p"])
        ob = _dummy() if unary else (obs[ib - 1] if ib else _bare(st["p"]))
        if a is None or (not unary and b is None) or oa is None or ob is None:
            real.append(None)
            obs.append(None)
            continue
        if form in ("iop", "outself") and not unary and np.ndim(a) < np.ndim(b):
            form = "op"
        if form in ("iop", "outself") and not ia:
            form = "op"
        try:
            results = _exec(st, form, a, b)
        except Exception as ex:  # noqa: BLE001 - a refusal is an observation (no quantity was produced)
            errors.append({"run": run, "variant": variant, "step": si, "op": st["op"], "meth": st["meth"], "form": form, "exc": type(ex).__name__, "msg": str(ex)[:160], "tb": _tb()})
            real.append(None)
            obs.append(None)
            continue
        mag = 0.0
        for x in (a, b):
            if x is not None:
                try:
                    mag = max(mag, float(np.max(np.abs(np.asarray(x, dtype=float)))))
                except Exception:  # noqa: BLE001
                    pass
        first = None
        for label, r in results:
            o, coherent = _project(r, model[si + 2], mag if st["op"] in ("sin", "cos", "tan", "add", "subtract", "dot", "remainder", "fmod", "divmod_r") or st["meth"] in ("reduce", "accumulate") else 0.0)
            if first is None:
                first = (r, o)
            events.append({"kind": "step", "op": st["op"], "meth": st["meth"], "form": form + label, "p": st["p"], "A": oa, "B": ob, "R": {"k": o["k"], "u": o["u"], "v": o["v"]}, "ucons": bool(coherent), "run": run, "variant": variant, "step": si})
        real.append(first[0] if isinstance(first[0], _U["ua"]) else None)
        obs.append(first[1])
    return events, errors, obs


def observe(case):
    nvar = max(len(st["forms"]) for st in case["steps"])
    if "only_variant" in case:
        variants = [case["only_variant"]]
    else:
        variants = range(nvar)
    events = []
    errors = []
    for variant in variants:
        ea, xa, oa = _run(case, "A", variant)
        eb, xb, ob = _run(case, "B", variant)
        events += ea + eb
        errors += xa + xb
        for i in range(2, len(oa)):
            if oa[i] is not None and ob[i] is not None:
                events.append({"kind": "reex", "A": {"k": oa[i]["k"], "u": oa[i]["u"], "v": oa[i]["v"]}, "B": {"k": ob[i]["k"], "u": ob[i]["u"], "v": ob[i]["v"]}, "variant": variant, "step": i - 2, "op": case["steps"][i - 2]["op"]})
    return {"events": events, "errors": errors}
