CONSTANT MaxLen = 1
CONSTANT DeepLen = 2
CONSTANT WideAll = FALSE
CONSTANT DeepAllInPlace = FALSE
INIT Init
NEXT Next
INVARIANT Export
INVARIANT ModelKeeps
CHECK_DEADLOCK FALSE
