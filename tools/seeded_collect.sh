#!/bin/bash
# usage: tools/seeded_collect.sh Cxx  -> copies /tmp/adv_Cxx/out/Cxx-*/ to seeded/, removes the scratch worktree
P="$1"; cd "$(dirname "$0")/.."
for d in /tmp/adv_$P/out/$P-*/; do id=$(basename "$d"); [ -f "$d/patch.diff" ] || continue; mkdir -p seeded/$id; cp "$d"/patch.diff "$d"/demo.py "$d"/meta.json seeded/$id/ 2>/dev/null; echo "collected $id"; done
git -C /repo worktree remove --force /tmp/adv_$P && echo "worktree removed"
