----------------------------- MODULE MC_C06_cat -----------------------------
(* Bounded instance of ArrayFnNumCat: the catalogue case table.  The          *)
(* catalogue (handled / unsupported / default-path functions of numpy,        *)
(* numpy.linalg, numpy.fft that dispatch through __array_function__, and the  *)
(* ndarray methods) is extracted from the tree under test (IOEnv.CAT); TLC     *)
(* enumerates function x template of its class x shape x dtype x seed and      *)
(* reports catalogue entries the specification has no template for.           *)
EXTENDS ArrayFnNumCat, Json, IOUtils, Integers
CONSTANTS Seeds, DTs, ShAll, InLays, OutLays, KwKinds, KwShapes, KwDC,
          AliasCombos,  \* {<<alias, data class>>}: "N" = no aliasing
          UCs,          \* unit-carrier patterns (which operand carries the units)
          AllClsDC      \* special-value data classes run on EVERY class (unsorted data with NaNs: in-place partition/sort of an input is visible)
Cat == JsonDeserialize(IOEnv.CAT)
Names(k) == {Cat[k][j] : j \in 1..Len(Cat[k])}
Catalogue == Names("handled") \cup Names("unsupported") \cup Names("default") \cup Names("methods") \cup Names("extra")
KindOfFn(fn) == IF fn \in Names("handled") THEN "handled" ELSE IF fn \in Names("unsupported") THEN "unsupported"
                ELSE IF fn \in Names("default") THEN "default"
                ELSE IF fn \in Names("overridden_methods") THEN "override" ELSE "method"
\* keywords (parameters with a default) of NumPy's own signature of fn
SigKw(fn) == (IF fn \in DOMAIN Cat.sig THEN {Cat.sig[fn][j] : j \in 1..Len(Cat.sig[fn])} ELSE {}) \cup DocKw(fn)
VARIABLE c
Init == c = <<>>
CaseX(g, fn, t, sh, dt, sd, li, lo, kw, kv, dc, rk, al) ==
  [layer |-> "C", fn |-> fn, cls |-> Groups[g].cls, t |-> t, sh |-> sh, dt |-> dt, sd |-> sd, kind |-> KindOfFn(fn),
   li |-> li, lo |-> lo, tg |-> HasTarget(Groups[g].cls, t), kw |-> kw, kv |-> kv, dc |-> dc, rk |-> rk, al |-> al, uc |-> "N"]
CaseU(g, fn, t, sh, dt, dc, uc) == [CaseX(g, fn, t, sh, dt, 0, "C", "C", "", "", dc, 0, "N") EXCEPT !.uc = uc]
Case(g, fn, t, sh, dt, sd, li, lo, kw, kv, dc) == CaseX(g, fn, t, sh, dt, sd, li, lo, kw, kv, dc, 0, "N")
\* named combos for the cfgs
CombosQuick == {<<"S", "plain">>, <<"S", "nan">>, <<"S", "inf">>, <<"S", "nz">>, <<"V", "nan">>, <<"N", "nan">>, <<"N", "nz">>}
CombosAll == ((Aliases \cup {"N"}) \X (SpecialDC \cup {"plain"})) \ {<<"N", "plain">>}
Next == /\ c = <<>>
        /\ \/ \E g \in GroupIdx : \E fn \in Groups[g].fns \cap Catalogue, t \in Groups[g].t, dt \in DTs, sd \in Seeds,
                 sh \in (IF Groups[g].sv THEN ShAll ELSE {"-"}), li \in InLays :
                 \E lo \in (IF HasTarget(Groups[g].cls, t) THEN OutLays ELSE {"C"}) :
                    c' = Case(g, fn, t, sh, dt, sd, li, lo, "", "", "plain")
           \* input rank above the natural rank (templates without a target)
           \/ \E g \in GroupIdx : \E fn \in Groups[g].fns \cap Catalogue, t \in {x \in Groups[g].t : ~HasTarget(Groups[g].cls, x)}, dt \in DTs,
                 sd \in Seeds, sh \in (IF Groups[g].sv THEN ShAll ELSE {"-"}) :
                    c' = CaseX(g, fn, t, sh, dt, sd, "C", "C", "", "", "plain", 1, "N")
           \* argument aliasing x special values (multi-operand classes; special values need a float type)
           \/ \E g \in {x \in GroupIdx : Groups[x].cls \in MultiOpCls} : \E fn \in Groups[g].fns \cap Catalogue, t \in Groups[g].t,
                 dt \in DTs, sh \in (IF Groups[g].sv THEN ShAll ELSE {"-"}), ac \in AliasCombos :
                    (ac[2] = "plain" \/ dt # "i") /\ DataOK(Groups[g].cls, ac[2]) /\ c' = CaseX(g, fn, t, sh, dt, 0, "C", "C", "", "", ac[2], 0, ac[1])
           \* who carries the units (multi-operand classes) x plain data / operand pairs inside the tolerance band
           \/ \E g \in {x \in GroupIdx : Groups[x].cls \in CarrierCls} : \E fn \in Groups[g].fns \cap Catalogue, t \in Groups[g].t,
                 dt \in DTs, sh \in (IF Groups[g].sv THEN ShAll ELSE {"-"}), uc \in UCs \cup {"N"},
                 dc \in {"plain"} \cup (IF Groups[g].cls \in BandCls THEN {"band"} ELSE {}) :
                    (uc # "N" \/ dc = "band") /\ (dc = "plain" \/ dt # "i") /\ c' = CaseU(g, fn, t, sh, dt, dc, uc)
           \* special values on every class (no aliasing)
           \/ \E g \in GroupIdx : \E fn \in Groups[g].fns \cap Catalogue, t \in {x \in Groups[g].t : ~HasTarget(Groups[g].cls, x)},
                 dt \in DTs \ {"i"}, sh \in (IF Groups[g].sv THEN ShAll ELSE {"-"}), dc \in AllClsDC :
                    DataOK(Groups[g].cls, dc) /\ c' = CaseX(g, fn, t, sh, dt, 0, "C", "C", "", "", dc, 0, "N")
           \* keyword completeness: function x keyword of NumPy's signature x value class x data class, on sizes above
           \* NumPy's small-array thresholds
           \/ \E g \in GroupIdx : \E fn \in {f \in Groups[g].fns \cap Catalogue : KindOfFn(f) \in KwKinds}, dt \in DTs, dc \in KwDC,
                 sh \in (IF Groups[g].sv THEN KwShapes ELSE {"-"}) :
                 \E kw \in SigKw(fn) \cap DOMAIN KwVal : \E kv \in KwVal[kw] :
                    (dc # "nan" \/ dt # "i") /\ c' = Case(g, fn, KwBase(g), sh, dt, 0, "C", "C", kw, kv, dc)
           \/ \E fn \in {f \in Catalogue : KindOfFn(f) \in KwKinds} : \E kw \in SigKw(fn) \ (DOMAIN KwVal \cup KwCoveredElsewhere) :
                 c' = [layer |-> "K", fn |-> fn, kw |-> kw, kind |-> KindOfFn(fn)]
           \/ \E fn \in Catalogue \ Known : c' = [layer |-> "U", fn |-> fn, kind |-> KindOfFn(fn)]
           \/ \E fn \in {f \in Known \ Catalogue : SubSeq(f, 1, 3) = "np."} : c' = [layer |-> "X", fn |-> fn, kind |-> "absent"]
Spec == Init /\ [][Next]_c
Export == c # <<>> => PrintT(ToJson(c))
=============================================================================
