"""C19 - unit-checking helpers decide by physical equality, not by spelling.

Spec: spec/Helpers.tla (closeness/equality helpers), spec/HelpersDeco.tla (accepts/returns),
      bounded instances MC_C19 / MC_C19_deco, trace validation Trace_C19 / Trace_C19_deco.
  1. TLC enumerates the single-step case table of the closeness/equality helpers (operand kinds x unit pairs
     x tolerance spellings x value grid straddling every reading of the tolerance) and, for the decorators, the
     single-call sweep (every dimension of unyt.dimensions x units) plus all bounded histories of calls of
     once-decorated functions; for every case the implementation-shaped outcome, the property verdict on it
     (model-level counterexamples) and the physical identity for the re-expression clause are exported.
  2. every case/history is replayed on the real library (harness/impl_c19.py).
  3. TLC evaluates the C19 predicates on the observed outcomes (P), the re-expression clause on groups of
     physically identical cases, and compares with the transcription (T).
"""

import json

from common import MachineryFailure

CHUNK = 30000
CASE_FIELDS = ("helper", "reg", "ka", "kd", "a", "au", "d", "du", "rt", "at")


def _strip(c):
    return {k: c[k] for k in CASE_FIELDS}


def _key(r):
    return {
        "fam": "close",
        "clause": r["clause"],
        "explains": r["explains"],
        "helper": r["helper"],
        "registry": r["reg"],
        "actual_kind": r["actual_kind"],
        "desired_kind": r["desired_kind"],
        "atol": r["atol"],
        "rtol": r["rtol"],
        "units": r["units"],
    }


def _validate_close(ck, cases, obs, label):
    """cases: exported MC_C19 records (with phys); returns number of P-FAILs"""
    # group physically identical cases (projection only: the identity was computed by TLC) and make groups contiguous
    gid = {}
    recs = []
    for c, o in zip(cases, obs):
        ph = c.get("phys") or []
        g = 0
        if ph:
            g = gid.setdefault(json.dumps(ph, sort_keys=True), len(gid) + 1)
        recs.append({"c": _strip(c), "obs": o, "g": g})
    order = sorted(range(len(recs)), key=lambda k: (recs[k]["g"], k))
    recs = [recs[k] for k in order]
    cases = [cases[k] for k in order]
    npf = 0
    for off in range(0, len(recs), CHUNK):
        part = recs[off : off + CHUNK]
        path = ck.write_json(f"obs_{label}_{off}.json", part)
        res = ck.tlc("Trace_C19", env={"OBS": path}, workers=1, coverage=False, label=f"trace-validation {label} [{off}:{off + len(part)}]", timeout=2400)
        if res.distinct != len(part) + 1:
            raise MachineryFailure(f"trace validation consumed {res.distinct} states, expected {len(part) + 1}")
        ck.validated(len(part))
        for r in res.by_tag("T-FAIL"):
            ck.drift_step(r["helper"], {"kinds": [r["actual_kind"], r["desired_kind"]], "units": r["units"], "atol": r["atol"], "rtol": r["rtol"], "model": r["model"], "observed": r["observed"], "case": _strip(cases[off + r["i"] - 1])})
        for r in res.by_tag("P-FAIL"):
            npf += 1
            c = cases[off + r["i"] - 1]
            cls = f"{r['helper']}|{r['clause']}|{r['explains']}|atol={r['atol']}|rtol={r['rtol']}|{r['units']}"
            ck.cov.setdefault("close_p_fail_classes", {})
            ck.cov["close_p_fail_classes"][cls] = ck.cov["close_p_fail_classes"].get(cls, 0) + 1
            ck.violation(_key(r), {"observed": r["observed"], "model": r["model"], "case": _strip(c)}, case=dict(_strip(c), fam="close"))
    return npf, len(gid)


def _nontrivial_close(c):
    """the case exercises the property beyond 'same unit, zero tolerance': operands in different units or kinds,
    a tolerance with a unit, or a bare atol with operands of different scale"""
    units = set(c["au"]) | set(c["du"])
    return len(units) > 1 or c["rt"]["k"] == "q" or c["at"]["k"] == "q" or c["ka"] != c["kd"]


def _run_close(ck):
    cfg = ck.q("MC_C19_quick", "MC_C19_thorough")
    res = ck.tlc("MC_C19", cfg, workers=1, coverage=False, label=f"closeness/equality case table {cfg}", timeout=3000)
    cases = [r["c"] for r in res.by_tag("CASE")]
    if len(cases) != res.distinct - 1 or len(cases) < 1000:
        raise MachineryFailure(f"exported {len(cases)} cases for {res.distinct} states")
    cases.sort(key=lambda c: json.dumps(_strip(c), sort_keys=True))
    by = {}
    cex = {}
    for c in cases:
        k = f"{c['reg']}:{c['helper']}"
        by[k] = by.get(k, 0) + 1
        if c["mp"]:
            k = f"{c['helper']}:{c['mp']}"
            cex[k] = cex.get(k, 0) + 1
    ck.cov["close_cases_by_helper"] = by
    ck.cov["close_model_level_counterexamples"] = cex
    for h in ("allclose_units", "np.isclose", "assert_array_equal_units"):
        ex = [c for c in cases if c["helper"] == h]
        if ex:
            ck.sample(_strip(ex[len(ex) // 2]))
    for c in cases:
        c["fam"] = "close"
    obs = ck.pmap("impl_c19", "observe", cases)
    bad = [o for o in obs if "_error" in o]
    if bad:
        raise MachineryFailure("replay error: " + str(bad[0]))
    npf, ngroups = _validate_close(ck, cases, obs, "close")
    ck.cov["close_cases"] = len(cases)
    ck.cov["close_reexpression_groups"] = ngroups
    ck.cov["close_observed_p_fail"] = npf
    return len(cases), sum(1 for c in cases if _nontrivial_close(c))


def run(ck):
    ck.level = "model_checking"
    ck.assumptions += [
        "closeness family: dyadic model registry (la=1, lb=ld=2^10, lc=2^-3 length; ta=1, tb=16 time; na=1, nq=1/4 dimensionless) where the float computation is exact, plus m/km/cm/inch, s/ms, dimensionless/percent, K/degC kept off every tolerance boundary by a 25% relative margin",
        "a bare operand of allclose_units/assert_*/array_equal* is dimensionless ('arrays without units are considered dimensionless'); for np.isclose/np.allclose a bare or scale-1 dimensionless operand may adopt the other operand's unit or be refused, and a bare atol may be read in either operand's unit",
        "np.isclose/np.allclose are only called with bare rtol/atol and with at least one unyt operand (otherwise NumPy's own code runs)",
        "known findings are matched on (helper, clause, the tolerance misreading that reproduces the wrong verdict, tolerance spelling, unit relation)",
    ]
    if ck.replay:
        blob = json.load(open(ck.replay))
        case = blob["case"]
        obs = ck.pmap("impl_c19", "observe", [case], nproc=1)
        if "_error" in obs[0]:
            raise MachineryFailure("replay error: " + str(obs[0]))
        if case.get("fam") == "deco":
            import c19_deco

            c19_deco.validate(ck, [case], obs, "replay")
        else:
            _validate_close(ck, [dict(case, phys=[])], obs, "replay")
        return

    n_close, nt_close = _run_close(ck)
    import c19_deco

    n_deco, nt_deco = c19_deco.run(ck)
    ck.cov["exhaustive"] = True
    ck.cov["evaluations"] = n_close + n_deco
    ck.cov["distinct_nontrivial"] = nt_close + nt_deco
    ck.cov["rule"] = (
        "closeness/equality: operands in different units or kinds, or a tolerance carrying a unit; "
        "decorators: a history in which at least one checked argument or return value is present"
    )
