CONSTANTS
  Stride = 1
  Phase = 0
INIT Init
NEXT NextPrefix
INVARIANT Export
CHECK_DEADLOCK FALSE
