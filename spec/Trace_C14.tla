----------------------------- MODULE Trace_C14 -----------------------------
(* Trace validation for C14: the observations of the real library (one per   *)
(* case: the string used as a unit string in the default registry, in a      *)
(* custom registry, as the unit of a quantity, and the attribute of          *)
(* unyt.unit_symbols / of the top-level namespace / of an add_symbols        *)
(* namespace of a custom registry) are consumed one by one.  For each, TLC   *)
(* evaluates the C14 predicates on the observation (P -> P-FAIL records) and *)
(* compares the observation with the transition (T -> T-FAIL records).       *)
EXTENDS Names
Obs == JsonDeserialize(IOEnv.OBS)
VARIABLE c       \* the case under validation: [pk, pi, b, k] (k = number of the observation)
StrRoutes == {"str", "reg", "qty"}
AttrRoutes == {"us", "top", "ns"}
\* (measured: TLC evaluates these predicates ~100x faster when the case is a state variable built by a record
\* constructor one step from the initial state than along a chain i' = i + 1; hence the flat shape)
NoCase == [pk |-> "init", pi |-> 0, b |-> 0, k |-> 0, same |-> TRUE]
PFail(k, clause, route) == PrintT(ToJson([tag |-> "P-FAIL", k |-> k, clause |-> clause, route |-> route, w |-> Witness(c),
                                          doc |-> Documented(c)]))
TFail(k, route, m) == PrintT(ToJson([tag |-> "T-FAIL", k |-> k, route |-> route, model |-> m, observed |-> Obs[k].r[route]]))

\* T: the transcription files the string and the canonical name under the same symbol iff SameSym
\* (SameSym is evaluated once per case, when the case record is built: c.same)
TSame(k, route, a) == (a.ok /\ Obs[k].r["str"].ok /\ (a.sx /\ a.sh) # c.same) => TFail(k, route, [same |-> c.same])
CheckStr(k, route) ==
  LET o == Obs[k].r[route]
      m == Resolve(CaseStr(c)) IN
  o.present =>
    /\ (~C14_Accept(c, o) => PFail(k, "Accept", route))
    /\ (~C14_Denote(c, o) => PFail(k, "Denote", route))
    /\ (~C14_TableWins(c, o) => PFail(k, "TableWins", route))
    /\ (~C14_NonPrefixable(c, o) => PFail(k, "NonPrefixable", route))
    /\ (~C14_NoDoublePrefix(c, o) => PFail(k, "NoDoublePrefix", route))
    /\ ((route # "str" /\ ~C14_Agree(c, Obs[k].r["str"], o)) => PFail(k, "Agree", route))
    /\ ((route # "str" /\ ~C14_SameUnit(c, Obs[k].r["str"], o)) => PFail(k, "SameUnit", route))
    /\ (~TOk(m, o) => TFail(k, route, m))
    /\ ((o.ok /\ Obs[k].r["str"].ok /\ ~(o.sx /\ o.sh)) => TFail(k, route, [same |-> TRUE]))
CheckAttr(k, route) ==
  LET a == Obs[k].r[route]
      m == ResolveAttr(CaseStr(c)) IN
  a.present =>
    /\ (~C14_AttrDenote(c, a) => PFail(k, "AttrDenote", route))
    /\ (~C14_Agree(c, Obs[k].r["str"], a) => PFail(k, "Agree", route))
    /\ (~C14_SameUnit(c, Obs[k].r["str"], a) => PFail(k, "SameUnit", route))
    /\ (~TOk(m, a) => TFail(k, route, m))
    /\ TSame(k, route, a)
\* the canonical spelling (the key of name_alternatives the string is filed under), used as a unit string
CheckCan(k) ==
  LET a == Obs[k].r["can"]
      m == ResolveAttr(CaseStr(c)) IN
  a.present =>
    /\ (~C14_Agree(c, Obs[k].r["str"], a) => PFail(k, "Agree", "can"))
    /\ (~C14_SameUnit(c, Obs[k].r["str"], a) => PFail(k, "SameUnit", "can"))
    /\ (~TOk(m, a) => TFail(k, "can", m))
    /\ TSame(k, "can", a)

TraceInit == c = NoCase
TraceNext == c = NoCase /\ \E k \in 1..Len(Obs) : c' = [pk |-> Obs[k].pk, pi |-> Obs[k].pi, b |-> Obs[k].b, k |-> k, same |-> SameSym(CaseStr(Obs[k]))]
Check == c # NoCase => /\ \A route \in StrRoutes : CheckStr(c.k, route)
                       /\ \A route \in AttrRoutes : CheckAttr(c.k, route)
                       /\ CheckCan(c.k)
=============================================================================
