INIT TraceInit
NEXT TraceNext
CHECK_DEADLOCK FALSE
