CONSTANTS
  MaxChain = 9
  PathSet <- AllPaths
  Combos <- NoCombos
  ClsSet <- Classes
  OrderSet <- NoOrders
  PreSet <- NoOrders
INIT TraceInit
NEXT TraceNext
CHECK_DEADLOCK FALSE
