CONSTANTS
  Slice = 0
  NSlices = 1
  Ext = {0, 1, 2, 3}
  Ext3 = {0, 1, 2}
  MaxRank = 3
  RootSet = "mixed"
  Layouts = {"C", "F"}
  LayCtors = {"mixlist"}
  MixQuick = FALSE
  MixRich = TRUE
  IntSet <- IntsB
  SliceSet = {"from1"}
  FancySet = {"f00"}
  MaskSet = {"malt"}
  IdxForms = {"plain"}
  MaxNonAll = 1
  MaxNonAll3 = 1
  TargetRank = 1
  LiteOthers = TRUE
  RedSet = {"sum"}
  Lite = TRUE
  Depth = 1
  Ctors = {"mixlist"}
  RichCtors = {}
INIT Init
NEXT Next
INVARIANT Export
CHECK_DEADLOCK FALSE
