----------------------------- MODULE MC_C02_expr -----------------------------
(* Unit expressions for C02(b).  A small stack machine builds expression     *)
(* trees the way a user writes them (reverse Polish): push a name, apply a    *)
(* power / sqrt / numeric coefficient to the top, combine the two top trees   *)
(* by product or quotient.  Every state with exactly one tree on the stack is *)
(* a complete expression and is exported once: its tokens, the meaning the    *)
(* property side assigns (exponent vector over the atoms + coefficient as an  *)
(* exponent vector over primes) and its dimension.  TLC checks on every such  *)
(* state that the implementation-shaped bottom-up evaluation (the recursion   *)
(* of _get_unit_data_from_expr / Unit.__mul__, __truediv__, __pow__) agrees   *)
(* with the free-abelian-group semantics.                                     *)
(*                                                                            *)
(* The atom alphabet (Pool) is a sequence of name spellings of the tree under *)
(* test, chosen by the variable sel in the initial state: the fixed alphabet  *)
(* below (symbols, a prefixed symbol, an alias with a prefix word, half-      *)
(* integer cgs dimensions, a measured unit) or every PoolMod-th eligible name *)
(* of the name table starting at sel.                                         *)
EXTENDS Defs
CONSTANTS MaxTok, MaxStack, PoolMod, Sels, NoChain
VARIABLES stack, sel
vars == <<stack, sel>>

NameIdx(str) == IF \E n \in DOMAIN Names : Names[n].name = str THEN CHOOSE n \in DOMAIN Names : Names[n].name = str ELSE 0
FixedNames == <<"m", "km", "kilometer", "g", "s", "mile", "hr", "erg", "G", "Msun", "percent">>
\* eligible atoms for the multiplicative semantics: readable, defined, no offset (C08), not logarithmic (the library
\* refuses products of those by design), positive scale, and not the empty spelling
HasNeg(g) == \E i \in DOMAIN g : Gens[g[i][1]].kind = "neg"
Eligible(n) == LET r == KeyRead[Names[n].key] IN
               /\ r[1] >= 0 /\ TabNode[r[2]] # 0 /\ ~Table[r[2]].off /\ Len(Names[n].name) > 0
               /\ DefDim(r[2])[NB] = RZero /\ ~HasNeg(FlatTab[TabNode[r[2]]].g)
RECURSIVE SetToSeq(_)
SetToSeq(S) == IF S = {} THEN <<>> ELSE LET m == CHOOSE x \in S : \A y \in S : x <= y IN <<m>> \o SetToSeq(S \ {m})
\* selector PoolMod = the fixed alphabet; 0..PoolMod-1 = every PoolMod-th eligible name starting there
PoolFor(s) == IF s = PoolMod THEN SelectSeq([i \in DOMAIN FixedNames |-> NameIdx(FixedNames[i])], LAMBDA n : n # 0 /\ Eligible(n))
              ELSE SetToSeq({n \in DOMAIN Names : n % PoolMod = s /\ Eligible(n)})
ASSUME TLCSet(121, [s \in Sels |-> PoolFor(s)])
PoolTab == TLCGet(121)
Pool == PoolTab[sel]

Toks == LET RECURSIVE S(_) S(i) == IF i > Len(stack) THEN 0 ELSE Len(stack[i]) + S(i + 1) IN S(1)
IsUnaryTok(t) == t = SQRT \/ t = INV \/ IsCoef(t) \/ IsPow(t)
Top == stack[Len(stack)]

Init == stack = <<>> /\ sel \in Sels
Push(k) == /\ Len(stack) < MaxStack /\ Toks + 1 + Len(stack) <= MaxTok
           /\ stack' = Append(stack, <<NameTok(k)>>)
Unary(tok) == /\ Len(stack) >= 1 /\ Toks + Len(stack) <= MaxTok
              /\ (NoChain => ~IsUnaryTok(Top[1]))
              /\ stack' = [stack EXCEPT ![Len(stack)] = <<tok>> \o @]
Binary(op) == /\ Len(stack) >= 2
              /\ stack' = SubSeq(stack, 1, Len(stack) - 2) \o << <<op>> \o stack[Len(stack) - 1] \o Top >>
Next == /\ \/ \E k \in DOMAIN Pool : Push(k)
           \/ \E e \in DOMAIN Exps : Unary(PowTok(e))
           \/ Unary(SQRT)
           \/ Unary(INV)
           \/ \E cc \in DOMAIN Coefs : Unary(CoefTok(cc))
           \/ \E op \in {MUL, DIV} : Binary(op)
        /\ UNCHANGED sel

Complete == Len(stack) = 1
\* TLC: transcription of the implementation's recursion = the property's semantics, on every generated expression
ImplAgrees == Complete => ImplMeaning(stack[1]) = Meaning(stack[1])
RECURSIVE SumSeq(_, _)
SumSeq(s, i) == IF i > Len(s) THEN 0 ELSE s[i] + SumSeq(s, i + 1)
Export == Complete =>
  LET a == stack[1]
      m == Meaning(a) IN
  PrintT(ToJson([tag |-> "EXPR", sel |-> sel, toks |-> a, at |-> m.at, co |-> m.co, dim |-> ExprDim(m.at, Pool),
                 kk |-> Len(a), style |-> 1 + (SumSeq(a, 1) % 2)]))
ExportPool == stack = <<>> => PrintT(ToJson([tag |-> "POOL", sel |-> sel, pool |-> Pool, coefs |-> Coefs, exps |-> Exps]))
=============================================================================
