"""C13 - registries are isolated from each other and the default registry is read-only.

Spec: spec/MultiReg.tla (+ MC_C13, Trace_C13): registries with dict identity explicit.
  1. TLC explores the bounded space of histories over the default registry and up to
     2-3 custom registries created by every route (history hidden by VIEW), checks the
     model-level predicates (C13_NoSharing, C13_Frame) and exports one witness history
     per distinct state (and, in the thorough tier, per explored transition of a smaller bound).
  2. every witness history is replayed on real registries; after EVERY step the result,
     table rows, memo keys, dict identities and the resolution digest of every registry,
     the default tables, the exported namespace and built-in conversions are recorded.
  3. TLC validates the recorded traces against the MultiReg actions (T) and evaluates
     the C13 predicates on the observations (P).
  4. beyond the bound: TLC -simulate histories (3 custom registries, warm lru memos).
  5. the repository's own test-suite under the tracer: event predicate P13 (thorough tier).
"""

import json
import random
from concurrent.futures import ThreadPoolExecutor

from common import NCPU, MachineryFailure

TRACE_REGS = 3  # Trace_C13 / impl_c13 always carry 1 + 3 registry slots


def _strip(e):
    keep = ("op", "r", "r2", "new", "sym", "scale", "pfx", "str", "str2", "defs", "usys", "deep", "bypass", "fn", "warm", "how", "sys", "via", "obj")
    return {k: v for k, v in e.items() if k in keep}


def _short(e):
    s = _strip(e)
    txt = " ".join(f"{k}={s[k]}" for k in ("op", "fn", "how", "sys", "r", "r2", "new", "sym", "str", "str2", "scale", "via", "obj", "pfx", "defs", "usys", "deep", "bypass", "warm") if k in s)
    return txt + " -> " + str(e.get("obs", {}).get("k", "")) + (":" + e["exc"] if e.get("exc") else "")


def _trace_cfg(ck):
    cfg = open(ck.spec + "/Trace_C13.cfg").read().replace("MaxRegs = 2", f"MaxRegs = {TRACE_REGS}")
    open(ck.spec + "/Trace_C13_run.cfg", "w").write(cfg)


def _validate(ck, traces, label, stats):
    if not traces:
        return
    bad = [t for t in traces if "_error" in t]
    if bad:
        raise MachineryFailure("replay error: " + str(bad[0])[:1500])
    nthreads = max(1, min(NCPU, 8))
    CH = min(2500, max(400, -(-len(traces) // nthreads)))
    parts = [(off, traces[off : off + CH]) for off in range(0, len(traces), CH)]

    def one(item):
        off, part = item
        path = ck.write_json(f"traces_{label}_{off}.json", part)
        return ck.tlc("Trace_C13", "Trace_C13_run", env={"TRACES": path}, workers=1, coverage=False, label=f"trace-validation {label}", timeout=1800)

    # the chunks are independent linear behaviours: validate them concurrently, report in chunk order
    with ThreadPoolExecutor(nthreads) as ex:
        results = list(ex.map(one, parts))
    for (off, part), res in zip(parts, results):
        expect = 1 + sum(len(t["ev"]) + 1 for t in part)
        if res.distinct != expect:
            raise MachineryFailure(f"trace validation consumed {res.distinct} states, expected {expect}")
        ck.validated(len(part))
        stats["steps"] += sum(len(t["ev"]) for t in part)
        for r in res.by_tag("T-FAIL"):
            t = part[r["tid"] - 1]
            ck.drift_step(r["op"], {"history": [_short(e) for e in t["ev"][: r["l"]]], "model": r["model"], "observed": r["observed"], "model_rows": r["rows"], "observed_rows": t["ev"][r["l"] - 1]["rows"], "model_cache": r["cache"], "observed_cache": t["ev"][r["l"] - 1]["cache"], "model_lutof": r["lutof"], "observed_lutof": t["ev"][r["l"] - 1]["lutof"]})
        for r in res.by_tag("P-FAIL"):
            t = part[r["tid"] - 1]
            e = t["ev"][r["l"] - 1]
            key = {"clause": r["clause"], "op": r["op"], "cls": r["cls"], "victim": r["victim"], "actor": r["actor"]}
            prev = t["ev"][r["l"] - 2] if r["l"] > 1 else t["init"]
            detail = {"step": _short(e), "history": [_short(x) for x in t["ev"][: r["l"]]]}
            if r["clause"] == "Frame":
                detail["digest_before"] = prev["dig"]
                detail["digest_after"] = e["dig"]
            ck.violation(key, detail, case={"h": [_strip(x) for x in t["ev"]]})


def _nontrivial(h):
    """A history exercises C13 non-trivially when a second registry exists while something is done through
    another one (so the frame clause has something to protect) or the default registry is asked to change."""
    return any(e["op"] in ("binop", "rebind", "convert") or (e["r"] == 0 and e["op"] in ("modify", "remove")) for e in h) or (
        sum(1 for e in h if e["op"] in ("new", "lutalias", "lutcopy", "json", "deepcopy", "unpickle", "unitcopy", "handle", "picklereg")) >= 1 and len(h) >= 2
    )


def _model_verdicts(ck, res, label):
    sh = res.by_tag("MODEL-SHARING")
    fr = res.by_tag("MODEL-FRAME")
    ck.cov.setdefault("model_level", {})[label] = {"sharing_counterexamples": len(sh), "frame_counterexamples": len(fr)}
    for r in (sh + fr)[:3]:
        ck.note({"model_counterexample": r["tag"], "history": [_short(e) for e in r["h"]]})


SLIM = dict(ModVias='{"num"}', DefVias='{"num"}', ConvHows='{"to"}', PickleH='{"registry"}', InBaseQ='{"km", "m"}', InBaseS='"slim"', HandleH='{"copyreg", "unitcopy"}', PickleP='{"m"}', DPfx="{TRUE}", DScales="{2}", AddScales="{2}", ModScales="{4}", ReadKeys='{"kfoo"}', ReadProbes='{"kfoo/km"}', BinP='{"foo", "m"}', BinF='{"mul", "add"}', CopyP='{"kfoo"}')
FULL = dict(ModVias='{"num"}', DefVias='{"num"}', ConvHows='{"to", "in_units", "to_value", "convert_to_units"}', PickleH='{"registry", "unit"}', InBaseQ='{"km", "m", "foo"}', InBaseS='"full"', HandleH='{"copyreg", "unitcopy"}', PickleP='{"foo", "kfoo", "m", "km"}', DPfx="{FALSE, TRUE}", DScales="{2, 4}", AddScales="{2, 4}", ModScales="{2, 4}", ReadKeys='{"foo", "kfoo", "m", "km"}', ReadProbes='{"foo", "kfoo", "m", "km", "foo*m", "kfoo/km"}', BinP='{"foo", "kfoo", "m"}', BinF='{"mul", "div", "add"}', CopyP='{"foo", "kfoo", "m"}')


def _write_cfg(ck, name, MaxRegs=2, MaxLen=3, ExportLen=3, Mixed="TRUE", Namespaces="TRUE", Editing="TRUE", WarmSet="{FALSE}", export="state", alphabet=None):
    """Instance of MC_C13 (same shape as spec/MC_C13_cover.cfg): export = state | trans | hist."""
    lines = [
        "CONSTANTS",
        f"  MaxRegs = {MaxRegs}",
        f"  MaxLen = {MaxLen}",
        f"  ExportLen = {ExportLen}",
        f"  Mixed = {Mixed}",
        f"  Namespaces = {Namespaces}",
        f"  Editing = {Editing}",
        f"  WarmSet = {WarmSet}",
    ]
    lines += [f"  {k} = {v}" for k, v in (alphabet or SLIM).items()]
    lines += [
        "INIT Init",
        "NEXT Next",
    ]
    if export != "hist":
        lines.append("VIEW View2" if export in ("mixed", "state2") else "VIEW View")
    lines.append({"state": "INVARIANT ExportState", "state2": "INVARIANT ExportState", "mixed": "INVARIANT ExportMixedState", "args": "INVARIANT ExportArgState", "trans": "ACTION_CONSTRAINT ExportTrans", "hist": "INVARIANT ExportHist"}[export])
    lines += ["INVARIANT ModelSharing", "ACTION_CONSTRAINT ModelFrame", "CHECK_DEADLOCK FALSE"]
    open(ck.spec + f"/{name}.cfg", "w").write("\n".join(lines) + "\n")


def run(ck):
    ck.level = "model_checking"
    ck.assumptions += [
        "alphabet: custom symbol foo and built-in symbol m with their kilo forms, scales {2,4}, one dimension (length), 6 probe strings; real registries hold unyt's other built-in symbols as well",
        "registries created by UnitRegistry(lut=r.lut) are not 'independently created' (the caller handed over the same dict): isolation between them is not demanded; Unit.copy() (shallow) returns the memoised original and creates no registry",
        "a call may change what its own registry (group) resolves; only mixed binary operations, re-binding data to another registry and modify/remove on the default registry must change nothing at all",
        "built-in symbols are never re-added to the default registry during replay; process-wide state is restored and verified after every case",
        "TLC 32-bit integers: scales are small integers; floats never enter TLC",
    ]
    _trace_cfg(ck)
    common = {"max_regs": TRACE_REGS}
    stats = {"steps": 0}
    if ck.replay:
        blob = json.load(open(ck.replay))
        traces = ck.pmap("impl_c13", "observe", [blob["case"]], nproc=1, common=common)
        _validate(ck, traces, "replay", stats)
        return

    cases = []
    seen = set()

    def take(res, label):
        _model_verdicts(ck, res, label)
        n = 0
        for r in res.by_tag("HIST"):
            k = json.dumps(r["h"], sort_keys=True)
            if k not in seen:
                seen.add(k)
                cases.append({"h": r["h"]})
                n += 1
        return n

    quick = ck.tier == "quick"
    # every value class of object-valued arguments (see MultiReg!Vias)
    ARGS = dict(ModVias='{"num", "qty", "ns"}', DefVias='{"num", "ns"}')
    LRU = dict(FULL, BinP='{"m"}', BinF='{"mul", "add"}', CopyP='{"m"}', PickleP='{"m"}')
    # (1) exhaustive bounded state spaces (history hidden by VIEW; kind of the last call and creation routes visible)
    covers = [
        # routes x edits: the creation route of every registry is part of the state, no mixed operations
        ("routes3-slim", dict(MaxRegs=2, MaxLen=3, ExportLen=3, Mixed="FALSE", Namespaces=ck.q("FALSE", "TRUE"), alphabet=SLIM, export="state"),
         "state space MaxRegs=2 MaxLen=3, creation routes visible, no mixed operations, slim alphabet, state cover export"),
    ]
    if quick:
        # mixed operations: creation route hidden, histories ending in a binary operation / re-binding / conversion
        covers.append(("mixed3-slim", dict(MaxRegs=2, MaxLen=3, ExportLen=3, Namespaces="FALSE", alphabet=dict(SLIM, BinF='{"mul", "div", "add"}', PickleP='{"kfoo"}', PickleH="{}", InBaseS='"none"'), export="mixed"),
                       "state space MaxRegs=2 MaxLen=3 with mixed operations, slim alphabet, cover of the states reached by a mixed operation"))
        ck.cov["bound"] = [{"MaxRegs": 2, "MaxLen": 3, "alphabet": "slim, no namespaces", "mixed": False, "routes_visible": True}, {"MaxRegs": 2, "MaxLen": 3, "alphabet": "slim", "mixed": True, "routes_visible": False}, {"MaxRegs": 1, "MaxLen": 2, "alphabet": "slim + namespace helpers + every value class of the modify / define_unit / UnitSystem argument", "mixed": False, "routes_visible": True}]
        # arguments handed over as OBJECTS (caller's quantity / object exported by the namespace): one custom registry of every
        # creation route, then every value class of modify / define_unit and the unit-object form of UnitSystem; depth 3 of
        # these classes is in the thorough tier (instance args3) and, in both tiers, in the simulated histories
        covers.append(("args2", dict(MaxRegs=1, MaxLen=2, ExportLen=2, Mixed="FALSE", Namespaces="TRUE", alphabet=dict(SLIM, InBaseS='"none"', **ARGS), export="args"),
                       "state space MaxRegs=1 MaxLen=2, every value class of the argument of modify / define_unit / UnitSystem, creation routes visible, cover of the states whose witness history hands over an object"))
    else:
        covers.append(("cover3-full", dict(MaxRegs=2, MaxLen=3, ExportLen=3, alphabet=FULL, export="state2"),
                       "state space MaxRegs=2 MaxLen=3 full alphabet incl. mixed operations, state cover export"))
        covers.append(("cover4-warm", dict(MaxRegs=2, MaxLen=4, ExportLen=4, Namespaces="FALSE", Editing="FALSE", WarmSet="{FALSE, TRUE}", alphabet=dict(SLIM, BinP='{"m"}', CopyP='{"m"}', PickleP='{"m"}'), export="mixed"),
                       "state space MaxRegs=2 MaxLen=4, creations + mixed operations with warm/cold lru memos, cover of the states reached by a mixed operation"))
        covers.append(("args3", dict(MaxRegs=1, MaxLen=3, ExportLen=3, Mixed="FALSE", Namespaces="TRUE", alphabet=dict(SLIM, InBaseS='"none"', **ARGS), export="args"),
                       "state space MaxRegs=1 MaxLen=3, every value class of the argument of modify / define_unit / UnitSystem, creation routes visible, cover of the states whose witness history hands over an object"))
        ck.cov["bound"] = [{"MaxRegs": 2, "MaxLen": 3, "alphabet": "slim", "mixed": False, "routes_visible": True}, {"MaxRegs": 2, "MaxLen": 3, "alphabet": "full", "mixed": True, "routes_visible": False}, {"MaxRegs": 2, "MaxLen": 4, "alphabet": "creations + mixed operations on m, warm/cold", "routes_visible": False}, {"MaxRegs": 1, "MaxLen": 3, "alphabet": "slim + namespace helpers + every value class of object-valued arguments", "routes_visible": True}]
    # (2) beyond the bound: TLC's simulator, 3 custom registries, lru memos warm or cold
    simspecs = [
        ("hist", "FALSE", "TRUE", dict(FULL, **ARGS), ck.q(20, 300), ck.q(6, 8)),
        ("mixed", "TRUE", "TRUE", dict(FULL, **ARGS), ck.q(20, 400), ck.q(5, 7)),
        ("lru", "TRUE", "FALSE", LRU, ck.q(30, 200), ck.q(5, 6)),
    ]

    def gen_cover(job):
        tag, kw, label = job
        _write_cfg(ck, "MC_C13_" + tag.replace("-", "_"), **kw)
        return ck.tlc("MC_C13", "MC_C13_" + tag.replace("-", "_"), workers=1, label=label, required_actions=["Next"], timeout=3000)

    def gen_sim(job):
        tag, mixed, editing, alphabet, n_sim, depth = job
        _write_cfg(ck, f"MC_C13_sim_{tag}", MaxRegs=3, MaxLen=depth + 5, ExportLen=depth, Mixed=mixed, Editing=editing, Namespaces=editing, WarmSet="{FALSE, TRUE}", export="hist", alphabet=alphabet)
        return ck.tlc("MC_C13", f"MC_C13_sim_{tag}", workers=1, simulate=n_sim, depth=depth + 1, label=f"simulation {tag} depth={depth} MaxRegs=3", timeout=1800)

    # the generating TLC runs are independent (each single-threaded because it exports): run them side by side
    with ThreadPoolExecutor(max(1, min(NCPU, len(covers) + len(simspecs)))) as ex:
        fc = [ex.submit(gen_cover, j) for j in covers]
        fs = [ex.submit(gen_sim, j) for j in simspecs]
        rc = [f.result() for f in fc]
        rs = [f.result() for f in fs]
    n = sum(take(res, job[0]) for job, res in zip(covers, rc))
    if n < 1000:
        raise MachineryFailure("too few histories exported")
    ck.cov["exhaustive"] = True
    n_cover = len(cases)
    rnd = random.Random(ck.seed)
    sims_all = []
    for res in rs:
        sims = [{"h": r["h"]} for r in res.by_tag("HIST")]
        fam = {}
        for c in sims:
            fam.setdefault(json.dumps(c["h"][:-1], sort_keys=True), []).append(c)
        sims_all += [c for k in sorted(fam) for c in rnd.sample(fam[k], min(ck.q(5, 6), len(fam[k])))]
    ck.sample({"history": cases[len(cases) // 2]["h"]})
    if sims_all:
        ck.sample({"simulated_history": sims_all[0]["h"]})
    # (3) replay everything, (4) TLC trace validation
    traces = ck.pmap("impl_c13", "observe", cases + sims_all, common=common, chunk_timeout=3000)
    _validate(ck, traces[:n_cover], "cover", stats)
    _validate(ck, traces[n_cover:], "sim", stats)
    ck.cov["simulated_histories"] = len(sims_all)

    allc = cases + sims_all
    ck.cov["evaluations"] = stats["steps"]
    ck.cov["histories_replayed"] = len(allc)
    ck.cov["cover_histories"] = n_cover
    ck.cov["distinct_nontrivial"] = sum(1 for c in allc if _nontrivial(c["h"]))
    ck.cov["rule"] = "history has a mixed binary operation / re-binding / modify-remove on the default registry, or creates a second registry and makes at least one more call (so that a registry other than the acting one exists and is snapshotted)"
    ck.cov["uncovered"] = [
        "HDF5 route (h5py not installed)",
        "UnitRegistry(lut=default_unit_registry.lut) and re-adding built-in symbols on the default registry (would damage the process-wide tables of the replay workers)",
        "dimensions other than length; symbols other than foo / m",
    ]

    # (3) code -> spec: the repository's test-suite under the tracer, event predicate P13
    if ck.tier == "thorough":
        import suite

        suite.check(ck, ["P13"])
