CONSTANTS
  ArithP = {"", "m", "k"}
  ConvSrcP = {"", "m", "k", "c", "da", "M", "n"}
  ConvDstP = {"", "m", "k", "h", "u", "G", "y"}
  ReadSets = {1}
  Shapes = {"arr", "sc"}
  BinForms = {"operator", "ufunc", "inplace", "out"}
  BinOpSet = {"add", "subtract", "maximum", "less", "equal"}
  ConvVias = {"in_units", "convert_to_units", "to_value", "in_base"}
  ChainP = {""}
  ChainTgt = {"K", "degC", "degF"}
  ChainDT = {"f8", "f4"}
  ChainLen3 = FALSE
INIT Init
NEXT Next
INVARIANT Export
CHECK_DEADLOCK FALSE
