--------------------------- MODULE MC_C02_regname ---------------------------
(* User registries, the NAME of the user symbol as a case dimension (round 7). *)
(* Single-step case table: candidate name k outside the frozen vocabulary     *)
(* (DefsReg!UDemanded: names of the tree's table that the vocabulary does not *)
(* know, single letters, user-style names, variants of alternative names) x   *)
(* route (define_unit tuple / registry.add) x prefixable, template and unit    *)
(* systems rotating with k.  The exported record has the shape of MC_C02_reg's *)
(* HIST (same replay, same trace validation); the harness spells the atoms     *)
(* FOO / KFOO with USpell(k) / "k" \o USpell(k).                               *)
EXTENDS DefsReg
CONSTANTS Thin, CoefIdx, VarMod, VarSel
VARIABLE c
Ev(op, r, sym, t, cc, form, pfx) == [op |-> op, r |-> r, sym |-> sym, t |-> t, c |-> cc, form |-> form, pfx |-> pfx]
Shapes == <<[form |-> "tuple", pfx |-> FALSE], [form |-> "number", pfx |-> TRUE], [form |-> "tuple", pfx |-> TRUE], [form |-> "number", pfx |-> FALSE]>>
SysPairs == << <<"mks", "cgs">>, <<"cgs", "imperial">>, <<"imperial", "galactic">>, <<"galactic", "mks">> >>
\* variants of alternative names: 1 of VarMod (by seed), one rotating shape each when Thin; every other candidate: all shapes
ShapesOf(k) == IF UClass(k) = "variant" THEN (IF k % VarMod # VarSel THEN {} ELSE IF Thin THEN {1 + ((k \div VarMod) % 4)} ELSE 1..4) ELSE 1..4
Init == c = <<>>
Next == /\ c = <<>>
        /\ \E k \in UDemanded, j \in 1..4 :
             /\ j \in ShapesOf(k)
             /\ c' = [k |-> k, sys |-> SysPairs[1 + ((k \div 3) % 4)],
                      e |-> Ev(IF Shapes[j].form = "number" THEN "add" ELSE "define", 1, "foo", 1 + ((k \div 5) % 2), CoefIdx, Shapes[j].form,
                               Shapes[j].pfx /\ UKiloFree(k))]
StOf == Apply(InitSt(c.sys), c.e)
\* TLC: the generator is sane - the call is enabled in a fresh registry, the name is outside the vocabulary, pairs commensurable
Sane == c # <<>> => /\ Enabled(InitSt(c.sys), c.e)
                    /\ UDemandedName(USpell(c.k))
                    /\ PairsCommensurable(StOf)
                    /\ Run(c.sys, <<c.e>>) = StOf
Export == c # <<>> =>
  LET st == StOf
      e == c.e IN
  PrintT(ToJson([tag |-> "HIST", uk |-> c.k, ucls |-> UClass(c.k), sys |-> c.sys,
     h |-> <<[op |-> e.op, r |-> e.r, sym |-> e.sym, t |-> e.t, c |-> e.c, form |-> e.form, pfx |-> e.pfx,
              gens |-> EventGens(InitSt(c.sys), e), dim |-> EventDim(InitSt(c.sys), e), text |-> Tmpl[e.t]]>>,
     probes |-> [i \in DOMAIN Probes(st) |-> LET p == Probes(st)[i] IN
                  [r |-> p.r, toks |-> p.toks, gens |-> ExprGens(p.toks, st.slot[p.r]), dim |-> Dense(ExprDimV(p.toks, st.slot[p.r]))]],
     pairs |-> Pairs(st), snap |-> SnapExprs,
     names |-> RegNames \o UserNames, coefs |-> Coefs, exps |-> Exps]))
=============================================================================
