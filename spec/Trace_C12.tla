----------------------------- MODULE Trace_C12 -----------------------------
(* Trace validation for C12: executions recorded from the real library      *)
(* (replayed TLC histories, random histories, ...) are stepped through the   *)
(* Registry actions.  For every step the transition is compared with the     *)
(* observation (T: result, table rows, memo keys); at the end of each trace  *)
(* the property predicates are evaluated on the observation (P).             *)
(*                                                                           *)
(* The reference view used by P (`ruser`) is driven by the *observed*        *)
(* outcome of each edit (a call that returned put its row in), so P does not *)
(* depend on the implementation-shaped part of the model being right.        *)
EXTENDS Registry, IOUtils
Traces == JsonDeserialize(IOEnv.TRACES)
VARIABLES tid, l, ruser, redit, sync
tvars == <<vars, tid, l, ruser, redit, sync>>
KeyIdx(k) == CHOOSE i \in DOMAIN KeySeq : KeySeq[i] = k
ProbeIdx(p) == CHOOSE i \in DOMAIN ProbeSeq : ProbeSeq[i] = p

TraceInit == Init /\ tid = 1 /\ l = 1 /\ ruser = InitTable /\ redit = [s \in Keys |-> "none"] /\ sync = TRUE

Ev == Traces[tid].ev[l]
StepAction(e) ==
  CASE e.op = "add" -> Add(e.sym, e.scale, e.pfx, e.dim)
    [] e.op = "modify" -> Modify(e.sym, e.scale)
    [] e.op = "modifyq" -> ModifyQ(e.sym, e.scale, e.dim)
    [] e.op = "remove" -> Remove(e.sym)
    [] e.op = "contains" -> Contains(e.sym)
    [] e.op = "define" -> DefineUnit(e.sym, e.scale, e.pfx, e.dim)
    [] e.op = "unit" -> Construct(e.str)

\* observed row of key k after the step: <<scale, pfx, dim>>
ObsRow(e, k) == e.rows[KeyIdx(k)]
RUser(e) ==
  IF e.obs.k # "ok" THEN ruser
  ELSE CASE e.op \in {"add", "define"} -> [ruser EXCEPT ![e.sym] = [scale |-> e.scale, pfx |-> e.pfx, dim |-> e.dim]]
         [] e.op = "modify" -> IF ruser[e.sym].scale # 0 THEN [ruser EXCEPT ![e.sym].scale = e.scale]
                               ELSE [ruser EXCEPT ![e.sym] = [scale |-> e.scale, pfx |-> FALSE, dim |-> ObsRow(e, e.sym)[3]]]
         [] e.op = "modifyq" -> IF ruser[e.sym].scale # 0 THEN [ruser EXCEPT ![e.sym].scale = e.scale, ![e.sym].dim = e.dim]
                                ELSE [ruser EXCEPT ![e.sym] = [scale |-> e.scale, pfx |-> FALSE, dim |-> e.dim]]
         [] e.op = "remove" -> [ruser EXCEPT ![e.sym] = Absent]
         [] OTHER -> ruser
REdit(e) ==
  IF e.obs.k # "ok" THEN redit
  ELSE CASE e.op \in {"add", "define"} -> [redit EXCEPT ![e.sym] = IF ruser[e.sym].scale # 0 \/ redit[e.sym] # "none" THEN "readd" ELSE "add"]
         [] e.op \in {"modify", "modifyq"} -> [redit EXCEPT ![e.sym] = "modify"]
         [] e.op = "remove" -> [redit EXCEPT ![e.sym] = "remove"]
         [] OTHER -> redit

\* T: does the observation agree with the transition?
ModelRow(k) == <<lut'[k].scale, lut'[k].pfx, IF lut'[k].scale = 0 THEN "L" ELSE lut'[k].dim>>
TOk(e) == /\ last' = e.obs
          /\ \A k \in Keys : ModelRow(k) = ObsRow(e, k)
          /\ \A p \in Probes : (ucache'[p] # None) = e.cache[ProbeIdx(p)]

\* P at the end of a trace, on the observation
Final == Traces[tid].final
RLastEdit(p) == LET as == Atoms(p)
                    es == {redit[Base(as[i])] : i \in DOMAIN as} \cup {redit[as[i]] : i \in DOMAIN as} IN
                IF "remove" \in es THEN "remove" ELSE IF "modify" \in es THEN "modify"
                ELSE IF "readd" \in es THEN "readd" ELSE IF "add" \in es THEN "add" ELSE "none"
\* which memo layer explains a stale probe: a derived prefixed row that outlived its base symbol's edit, or the string memo
DerivedRowInvolved(p) == \E i \in DOMAIN Atoms(p) : LET a == Atoms(p)[i] IN
                            IsPrefixed(a) /\ ruser[a].scale = 0 /\ Final.rows[KeyIdx(a)][1] # 0
RLayer(p) == IF DerivedRowInvolved(p) THEN "lutrow" ELSE "ucache"
PFail == {p \in Probes : Final.probes[ProbeIdx(p)] # RefResolve(ruser, p)}
PReport ==
  /\ \A p \in PFail :
       PrintT(ToJson([tag |-> "P-FAIL", tid |-> tid, clause |-> "C12_Fresh", probe |-> p,
                      layer |-> RLayer(p), spelling |-> Spelling(p), via |-> "Unit() at end",
                      edit |-> RLastEdit(p), kind |-> ProbeKind(p),
                      observed |-> Final.probes[ProbeIdx(p)], expected |-> RefResolve(ruser, p)]))
  /\ (~Final.kept => PrintT(ToJson([tag |-> "P-FAIL", tid |-> tid, clause |-> "C12_Keep", probe |-> "", layer |-> "", edit |-> "", kind |-> "object", spelling |-> "", via |-> "", observed |-> Final.keptdetail, expected |-> ""])))
  /\ (Final.arith # <<>> => \A i \in DOMAIN Final.arith :
        LET a == Final.arith[i]
            want == RefResolve(ruser, a.p)
            got == a.obs IN
        (got # want) => PrintT(ToJson([tag |-> "P-FAIL", tid |-> tid, clause |-> "C12_HistoryFree", probe |-> a.p, layer |-> RLayer(a.p), via |-> a.via, spelling |-> Spelling(a.p),
                      edit |-> RLastEdit(a.p), kind |-> ProbeKind(a.p), observed |-> got, expected |-> want])))

\* P on every observed construction step (not only at the end of the trace): the unit the call returned, and the
\* unit the same string resolves to through the conversion entry points (x.to(str), x.convert_to_units(str)) at that
\* moment, are what a fresh registry with the current contents resolves  (C12_Fresh / C12_HistoryFree per step)
StepLayer(e, p) == IF \E i \in DOMAIN Atoms(p) : LET a == Atoms(p)[i] IN IsPrefixed(a) /\ ruser[a].scale = 0 /\ ObsRow(e, a)[1] # 0
                   THEN "lutrow" ELSE "ucache"
StepP(e) ==
  e.op = "unit" =>
    LET want == RefResolve(ruser, e.str) IN
    /\ (e.obs # want) => PrintT(ToJson([tag |-> "P-FAIL", tid |-> tid, clause |-> "C12_Fresh", probe |-> e.str, layer |-> StepLayer(e, e.str),
                                          edit |-> RLastEdit(e.str), kind |-> ProbeKind(e.str), spelling |-> Spelling(e.str), via |-> "Unit() at step",
                                          observed |-> e.obs, expected |-> want]))
    /\ \A i \in DOMAIN e.via : (e.via[i].obs # want) =>
          PrintT(ToJson([tag |-> "P-FAIL", tid |-> tid, clause |-> "C12_HistoryFree", probe |-> e.str, layer |-> StepLayer(e, e.str),
                         edit |-> RLastEdit(e.str), kind |-> ProbeKind(e.str), spelling |-> Spelling(e.str), via |-> e.via[i].via,
                         observed |-> e.via[i].obs, expected |-> want]))

TraceNext ==
  \/ /\ tid <= Len(Traces) /\ l <= Len(Traces[tid].ev)
     /\ StepAction(Ev)
     /\ StepP(Ev)
     /\ ruser' = RUser(Ev) /\ redit' = REdit(Ev)
     /\ sync' = (sync /\ TOk(Ev))
     /\ (sync /\ ~TOk(Ev)) => PrintT(ToJson([tag |-> "T-FAIL", tid |-> tid, l |-> l, op |-> Ev.op, model |-> last', observed |-> Ev.obs,
                                               rows |-> [i \in DOMAIN KeySeq |-> ModelRow(KeySeq[i])], cache |-> [i \in DOMAIN ProbeSeq |-> ucache'[ProbeSeq[i]] # None]]))
     /\ l' = l + 1 /\ tid' = tid
  \/ /\ tid <= Len(Traces) /\ l > Len(Traces[tid].ev)
     /\ PReport
     /\ tid' = tid + 1 /\ l' = 1
     /\ user' = InitTable /\ lut' = InitTable /\ ucache' = [p \in Probes |-> None]
     /\ edit' = [s \in Keys |-> "none"] /\ hist' = <<>> /\ last' = None
     /\ ruser' = InitTable /\ redit' = [s \in Keys |-> "none"] /\ sync' = TRUE
TraceSpec == TraceInit /\ [][TraceNext]_tvars
\* acceptance: every line of every trace was consumed
Consumed == TLCGet("stats").distinct
=============================================================================
