"""Replay of UnitAlg cases (C05) in the real library.

setup(common):  common = {"mode": "MR"|"TAB", "mr": {"atoms": [...], "leaves": [...]} | None, "tab": [leaf descriptors] | None}
    MR : builds two real UnitRegistry objects from the model registry exported by the specification
         (registry 1: every atom but xb, registry 2: every atom); scales are 2**lg, so float arithmetic is exact
    TAB: leaves are rows of the real table: (registry id 0 = default registry | 3 = a custom registry, unit string)
observe(case): executes the case's register program (exported by TLC) with real Unit objects and projects every
    register to ints/strings/bools/rationals.  Nothing is judged here; deviations of float scales are *measured*
    against high-precision references (mpmath) and reported as integers in units of 1e-16.
"""

import math
import signal
from fractions import Fraction

_U = {}
CAP = 2_000_000_000
DIMNAMES = ["mass", "length", "time", "temperature", "angle", "current_mks", "luminous_intensity", "logarithmic"]


def setup(common=None):
    import mpmath
    import sympy
    import unyt
    from unyt import dimensions as D
    from unyt.unit_object import Unit
    from unyt.unit_registry import UnitRegistry

    mpmath.mp.dps = 40
    import unyt.array as uarray

    import decimal

    import numpy

    _U.update(np=numpy, Decimal=decimal.Decimal)
    _U.update(array=uarray, unyt=unyt, D=D, Unit=Unit, UnitRegistry=UnitRegistry, sympy=sympy, mp=mpmath, mode=common["mode"])
    base = [getattr(D, n) for n in DIMNAMES]
    others = [b for b in D.base_dimensions if not any(b == x for x in base) and b != 1 and str(b) != "1" and str(b) != "(dimensionless)"]
    _U["dimbase"] = base
    _U["dim_unknown_bases"] = [str(b) for b in others]
    regs = {}
    if common["mode"] == "MR":
        mr = common["mr"]

        def dimexpr(vec):
            d = sympy.S.One
            for b, e in zip(base, vec):
                d = d * b ** sympy.Rational(e[0], e[1])
            return d

        _U["mr_atoms"] = {a["n"]: a for a in mr["atoms"]}
        _U["dimexpr"] = dimexpr
        t5 = {a["n"]: Fraction(x[0], x[1]) for a, x in zip(mr["atoms"], mr["table5"])}
        for rid in (1, 2, 3, 4, 5):  # 4 = the registry the histories of law "state" edit; 5 defines some symbols differently
            reg = UnitRegistry()
            for a in mr["atoms"]:
                if a["n"] == "xb" and rid != 2:
                    continue
                lg = t5[a["n"]] if rid == 5 else Fraction(a["lg"][0], a["lg"][1])
                assert lg.denominator == 1
                reg.add(a["n"], (-1.0 if a["neg"] else 1.0) * 2.0 ** int(lg), dimexpr(a["dim"]), offset=float(Fraction(a["off"][0], a["off"][1])), prefixable=bool(a.get("pfx", False)))
            reg.unit_system_id
            regs[rid] = reg
        _U["leaves"] = [(l["reg"], l["s"]) for l in mr["leaves"]]
        _U["xscale"] = [2.0 ** int(Fraction(l["xlg"][0], l["xlg"][1])) if l["xs"] else None for l in mr["leaves"]]
    else:
        from unyt.unit_registry import default_unit_registry

        regs[0] = default_unit_registry
        reg = UnitRegistry()
        reg.add("code_length", 3.0856775809623245e21 * 0.7, D.length)
        reg.add("code_mass", 1.98841586e43, D.mass)
        reg.add("code_time", 3.15576e16 / 3.0, D.time)
        reg.add("code_temp", 1.0e4, D.temperature)
        reg.add("h", 0.6766, D.dimensionless)
        reg.unit_system_id
        regs[3] = reg
        # a second data set with its own code units: the same names, other definitions
        reg6 = UnitRegistry()
        reg6.add("code_length", 3.0856775809623245e21 * 0.4, D.length)
        reg6.add("code_mass", 1.98841586e43 * 5.0, D.mass)
        reg6.add("code_time", 3.15576e16, D.time)
        reg6.add("code_temp", 1.0, D.temperature)
        reg6.add("h", 0.7, D.dimensionless)
        reg6.unit_system_id
        regs[6] = reg6
        _U["leaves"] = [(l["reg"], l["s"]) for l in common["tab"]]
        _U["xscale"] = [l.get("xv") for l in common["tab"]]
    _U["regs"] = regs
    # state classes of the registries: equal tables -> equal class (named by the smallest registry id of the class)
    rs = {}
    for k in sorted(regs):
        rs[k] = k if k == 4 else next((j for j in sorted(rs) if j != 4 and regs[j].lut == regs[k].lut), k)
    _U["rs"] = rs
    _U["regid"] = {id(r): k for k, r in regs.items()}


def _rat(fr):
    fr = Fraction(fr)
    if abs(fr.numerator) >= 2**31 or fr.denominator >= 2**31:
        return None
    return [fr.numerator, fr.denominator]


def _rat_any(fr):
    """a rational that always fits TLC's integers: exact when possible, else the nearest one with a denominator
    <= 10**6 (then it differs from every value the specification can expect), else a sentinel."""
    r = _rat(fr)
    if r is None:
        r = _rat(Fraction(fr).limit_denominator(10**6))
    return r if r is not None else [2**30 + 1, 1]


def _err(x, ref):
    """relative deviation of float x from the reference, in units of 1e-16 (int, capped)."""
    mp = _U["mp"]
    try:
        if isinstance(x, float) and x == float(ref) and math.isfinite(x) and mp.mpf(x) == ref:
            return 0
        x = mp.mpf(x)
        ref = mp.mpf(ref)
        if not (mp.isfinite(x) and mp.isfinite(ref)):
            return CAP
        m = max(abs(x), abs(ref))
        if m == 0:
            return 0
        v = abs(x - ref) / m * mp.mpf(10) ** 16
        return int(min(CAP, mp.ceil(v))) if v > mp.mpf("0.5") else 0
    except Exception:  # noqa: BLE001
        return CAP


def _snap_lg(s):
    """float scale -> (rational log2, ok) ; ok iff s is 2**(n/d), d <= 10000, within 1e-12."""
    mp = _U["mp"]
    try:
        s = abs(float(s))
        if not (s > 0) or math.isinf(s):
            return [0, 1], False
        m, e = math.frexp(s)
        if m == 0.5:
            return [e - 1, 1], True
        x = Fraction(math.log2(s)).limit_denominator(10000)
        ref = mp.mpf(2) ** (mp.mpf(x.numerator) / x.denominator)
        ok = abs(mp.mpf(s) / ref - 1) <= mp.mpf("1e-12")
        r = _rat(x)
        return (r, bool(ok)) if r else ([0, 1], False)
    except Exception:  # noqa: BLE001
        return [0, 1], False


def _dimvec(dim):
    sympy = _U["sympy"]
    out = [[0, 1] for _ in DIMNAMES]
    if dim == 1:
        return out
    pd = sympy.sympify(dim).as_powers_dict()
    for b, e in pd.items():
        hit = False
        for k, bd in enumerate(_U["dimbase"]):
            if b == bd:
                e = sympy.Rational(e)
                out[k] = _rat_any(Fraction(int(e.p), int(e.q)))
                hit = True
        if not hit:
            raise ValueError("dimension outside the 8 base dimensions: " + str(dim))
    return out


def _atoms_of(units):
    names = set()
    for u in units:
        for a in u.expr.free_symbols:
            names.add(a.name)
    return sorted(names)


def _proj(u, atoms, lut, exact):
    """Unit -> register record."""
    sympy = _U["sympy"]
    mp = _U["mp"]
    alien = False
    coeff, rest = u.expr.as_coeff_Mul()
    ex = [Fraction(0)] * len(atoms)
    if rest != 1:
        for b, e in rest.as_powers_dict().items():
            if isinstance(b, sympy.Symbol) and b.name in atoms and getattr(e, "is_Rational", False):
                ex[atoms.index(b.name)] += Fraction(int(e.p), int(e.q))
            else:
                alien = True
    try:
        cfl = float(coeff)
    except Exception:  # noqa: BLE001
        cfl = float("nan")
    c1 = coeff is sympy.S.One or coeff == 1 or cfl == 1.0  # a Float 1.0 left by 4 * 0.25 counts as "no coefficient"
    clg, clgok = ([0, 1], True)
    if exact:
        clg, clgok = _snap_lg(cfl)
        if not clgok:
            alien = True
    elif not (cfl > 0):
        alien = True
    if any(_rat(x) is None for x in ex):
        alien = True
    exr = [_rat_any(x) for x in ex]
    # denotation of the expression through the registry's table (scale only; dimensions are summed by TLC)
    syncerr = 0
    if not alien:
        try:
            den = mp.mpf(cfl)
            for a, x in zip(atoms, ex):
                if x != 0:
                    den *= mp.mpf(float(lut[a][0])) ** (mp.mpf(x.numerator) / x.denominator)
            syncerr = _err(u.base_value, den)
        except KeyError:
            alien = True
    lg, lgok = _snap_lg(u.base_value) if exact else ([0, 1], True)
    off = _rat_any(Fraction(repr(float(u.base_offset))))
    return {
        "k": "unit",
        "ex": exr,
        "c1": bool(c1),
        "clg": clg,
        "lg": lg,
        "lgok": bool(lgok),
        "dim": _dimvec(u.dimensions),
        "off": off,
        "reg": _U["regid"].get(id(u.registry), 99),
        "rs": _U["rs"].get(_U["regid"].get(id(u.registry), 99), 99),
        "alien": bool(alien),
        "syncerr": int(syncerr),
        "cf": [0, 1],
        "neg": bool(float(u.base_value) < 0),
        "exc": "",
    }


def _exponent(e):
    n, d, kind = e["n"], e["d"], e["kind"]
    if kind == "int":
        return int(n)
    if kind == "frac":
        return Fraction(n, d)
    if kind == "sym":
        return _U["sympy"].Rational(n, d)
    if kind == "float":
        return n / d
    if kind == "dec2":
        return float(f"{n / d:.2f}")
    # spellings whose value as a float is not the rational they are read as (UnitAlg!ReadKinds)
    if kind == "dec7":
        return float(f"{n / d:.7f}")
    if kind == "f32":
        return _U["np"].float32(n / d)
    if kind == "f16":
        return _U["np"].float16(n / d)
    if kind == "np64":
        return _U["np"].float64(n / d)
    if kind == "dcm":
        return _U["Decimal"](f"{n / d:.7f}")
    if kind == "str":
        return f"{n}/{d}"
    if kind == "strd":
        return f"{n / d:.7f}"
    raise ValueError(kind)


RAISE = {"k": "raise"}
STEP_TIMEOUT = 20  # seconds per instruction: a non-terminating simplify becomes the outcome "raise:StepTimeout"


_TIMEOUTS = [0]


class StepTimeout(Exception):
    pass


def _alarm(signum, frame):
    raise StepTimeout()
_LEAFCACHE = {}


QUERY_KINDS = ("has", "get", "unit", "define", "keys", "pfx", "samedim", "json", "id", "lutcopy", "dcopy", "pickle", "baseq", "latex")


def _apply_query(reg, e):
    """one read-only question to the registry (the answer is not part of the observation; an exception is an answer)."""
    import copy
    import pickle

    U = _U
    k, sym = e["k"], e["sym"]
    try:
        if k == "has":
            sym in reg
        elif k == "get":
            reg[sym]
        elif k == "unit":
            hash(U["Unit"](sym, registry=reg))
        elif k == "define":  # only asked for names that resolve: define_unit refuses (RuntimeError) and defines nothing
            if sym not in reg.lut and not any(sym.endswith(b) for b in reg.lut):
                raise ValueError("define query for a name that would be defined: " + sym)
            U["unyt"].define_unit(sym, (1.0, "la"), registry=reg)
        elif k == "keys":
            list(reg.keys())
        elif k == "pfx":
            list(reg.prefixable_units)
        elif k == "samedim":
            reg.list_same_dimensions(U["Unit"](sym, registry=reg))
        elif k == "json":
            reg.to_json()
        elif k == "id":
            reg.unit_system_id
        elif k == "lutcopy":
            hash(U["Unit"]("la", registry=U["UnitRegistry"](lut=dict(reg.lut), add_default_symbols=False)))
        elif k == "dcopy":
            hash(U["Unit"]("la", registry=copy.deepcopy(reg)))
        elif k == "pickle":
            pickle.dumps(U["Unit"](sym, registry=reg))
        elif k == "baseq":
            U["Unit"](sym, registry=reg).get_base_equivalent()
        elif k == "latex":
            U["Unit"](sym, registry=reg).latex_repr
        else:
            raise ValueError("unknown query " + str(e))
    except ValueError:
        raise
    except Exception:  # noqa: BLE001 - SymbolNotFoundError / RuntimeError / ... are answers
        pass


def _apply_edit(reg, e):
    """one event of a history, through the public API: a registry edit or a read-only query."""
    if e["k"] in QUERY_KINDS:
        return _apply_query(reg, e)
    at = _U["mr_atoms"]
    scale = 2.0 ** int(e["lg"])
    pfx = bool(at[e["sym"]].get("pfx", False))  # (re-)definitions keep the symbol's prefixable flag
    if e["k"] == "modify":
        reg.modify(e["sym"], scale)
    elif e["k"] == "add":
        reg.add(e["sym"], scale, _U["dimexpr"](at[e["d"]]["dim"]), prefixable=pfx)
    elif e["k"] == "readd":
        reg.remove(e["sym"])
        reg.add(e["sym"], scale, _U["dimexpr"](at[e["d"]]["dim"]), prefixable=pfx)
    else:
        raise ValueError("unknown edit " + str(e))


def _history_registry(origin):
    """the registry object a history runs on (installed as registry 4 for the duration of the history)."""
    U = _U
    if origin == "long":
        return U["regs"][4]
    if origin == "fresh":  # made now: nothing resolved, nothing memoised, no id computed
        reg = U["UnitRegistry"]()
        for n, a in U["mr_atoms"].items():
            if n == "xb":
                continue
            reg.add(n, (-1.0 if a["neg"] else 1.0) * 2.0 ** int(Fraction(a["lg"][0], a["lg"][1])), U["dimexpr"](a["dim"]),
                    offset=float(Fraction(a["off"][0], a["off"][1])), prefixable=bool(a.get("pfx", False)))
        return reg
    if origin == "lutcopy":
        return U["UnitRegistry"](lut=dict(U["regs"][1].lut), add_default_symbols=False)
    raise ValueError("unknown origin " + str(origin))


def _reset_registry4():
    """registry 4 back to the model table - through the public API as well (it stays the same, warm, object)."""
    reg = _U["regs"][4]
    for n, a in _U["mr_atoms"].items():
        if n == "xb":
            continue
        want = (-1.0 if a["neg"] else 1.0) * 2.0 ** int(Fraction(a["lg"][0], a["lg"][1]))
        dim = _U["dimexpr"](a["dim"])
        row = reg.lut.get(n)
        if row is None or row[0] != want or row[1] != dim or bool(row[4]) != bool(a.get("pfx", False)):
            reg.add(n, want, dim, offset=float(Fraction(a["off"][0], a["off"][1])), prefixable=bool(a.get("pfx", False)))


def observe(case):
    """one case -> one observation; a registry history (law "state") -> {"phases": [one observation per phase]}."""
    if case["law"] != "state":
        return _run(case, 0, None)
    origin = case.get("origin", "long")
    long4 = _U["regs"][4]
    if origin == "long":
        _reset_registry4()
    if origin != "long":
        # a registry of its own: the process-wide memos of the unit rules (keyed on Unit == / hash, which do not see the
        # registry OBJECT) are emptied, so that a unit of an earlier history's registry in the same state cannot come back
        # as a result here (which registry a memoised result belongs to is C13's question, not this one's)
        for f in vars(_U["array"]).values():
            if callable(getattr(f, "cache_clear", None)):
                f.cache_clear()
    reg = _history_registry(origin)
    _U["regs"][4] = reg
    _U["regid"][id(reg)] = 4
    try:
        hashes = {}
        olds = []  # the leaf objects of phase 0: units created before the edits, used as operands later ("old")
        phases = []
        nlut = []
        for ph in range(len(case["edits"]) + 1):
            if ph > 0:
                _apply_edit(reg, case["edits"][ph - 1])
            nlut.append(len(reg.lut))
            o = _run(case, 4, hashes, olds)
            # dlut: rows the table's dict gained through the last event (T only: derived prefixed rows are written back)
            o.update(hist=True, ph=ph, edits=case["edits"], origin=origin, dlut=nlut[ph] - nlut[ph - 1] if ph else 0)
            phases.append(o)
    finally:
        _U["regs"][4] = long4
        if reg is not long4:
            _U["regid"].pop(id(reg), None)
    if origin == "long":
        _reset_registry4()
    return {"phases": phases}


def _run(case, hreg, hashes, olds=None):
    U = _U
    mp = U["mp"]
    exact = U["mode"] == "MR"
    Unit = U["Unit"]
    lv = [U["leaves"][i - 1] for i in case["lv"]]
    if hreg:
        lv = [(hreg, s) for _, s in lv]
    objs = [Unit(s, registry=U["regs"][r]) for r, s in lv]
    xs = []
    for k, i in enumerate(case["lv"]):
        xv = U["xscale"][i - 1]
        xs.append(xv is not None)
        if xv is not None:
            # a unit GIVEN with a scale: the expression object (not the string: the string memo would hand back, and
            # then keep, another unit), the dimension the expression has, an explicit base_value
            b = objs[k]
            scale = xv if U["mode"] == "MR" else float(b.base_value) * xv
            objs[k] = Unit(b.expr, base_value=scale, dimensions=b.dimensions, registry=b.registry)
    xs.append(False)
    if olds is not None and not olds:
        olds.extend(objs[:3])
    objs.append(Unit(registry=objs[0].registry))
    atoms = _atoms_of(objs)
    lut = objs[0].registry.lut
    # the table rows of the atoms (from the first leaf's registry; a row missing there comes from the leaf's own registry)
    alg, adim, aoff = [], [], []
    for a in atoms:
        row = lut.get(a)
        if row is None:
            for o in objs:
                if a in o.registry.lut:
                    row = o.registry.lut[a]
                    break
        if exact:
            lg, ok = _snap_lg(row[0])
            if not ok:
                raise ValueError("model registry scale is not a power of two: " + a)
            alg.append(lg)
        else:
            alg.append([0, 1])
        adim.append(_dimvec(row[1]))
        aoff.append(bool(float(row[2]) != 0.0))
    ain = [[k for k, r in sorted(U["regs"].items()) if a in r] for a in atoms]
    regs = []
    xvals = [U["xscale"][i - 1] for i in case["lv"]] + [None]
    for o, name, xv in zip(objs, lv + [(lv[0][0], "<one>")], xvals):
        key = (name, tuple(atoms), lv[0][0], xv)
        if hreg:  # the registry changes under the histories: nothing is remembered
            regs.append(_proj(o, atoms, lut, exact))
            continue
        if key not in _LEAFCACHE:
            _LEAFCACHE[key] = _proj(o, atoms, lut, exact)
        regs.append(_LEAFCACHE[key])
    scales = [float(o.base_value) for o in objs]
    herr = []
    hcond = []
    for ins in case["prog"]:
        op = ins["op"]
        a = objs[ins["a"] - 1]
        b = objs[ins["b"] - 1] if ins["b"] else None
        res = None
        rec = None
        err = 0
        try:
            signal.signal(signal.SIGALRM, _alarm)
            signal.alarm(STEP_TIMEOUT if _TIMEOUTS[0] < 3 else 2)
            if op == "old":
                a = (olds or objs)[ins["a"] - 1]
            if a is None or (op in ("mul", "div", "mulrule", "divrule") and b is None):
                raise LookupError("operand missing")
            sa = scales[ins["a"] - 1]
            if op == "mul":
                res = a * b
                ref = mp.mpf(sa) * mp.mpf(scales[ins["b"] - 1])
            elif op == "div":
                res = a / b
                ref = mp.mpf(sa) / mp.mpf(scales[ins["b"] - 1])
            elif op == "pow":
                res = a ** _exponent(ins["e"])
                ref = mp.mpf(sa) ** (mp.mpf(ins["eff"][0]) / ins["eff"][1])
            elif op == "old":
                res = a
                ref = mp.mpf(float(a.base_value))
            elif op == "simplify":
                res = a.simplify()
                ref = mp.mpf(sa)
            elif op == "coeff":
                cf, res = a.as_coeff_unit()
                ref = mp.mpf(sa) / mp.mpf(float(cf))
            elif op in ("sqrtrule", "recrule", "sqrrule"):
                fn = {"sqrtrule": U["array"]._sqrt_unit, "recrule": U["array"]._reciprocal_unit, "sqrrule": U["array"]._square_unit}[op]
                cf, res = fn(a)
                if cf != 1:
                    raise TypeError("unary rule with a factor")
                ref = {"sqrtrule": mp.sqrt(mp.mpf(sa)), "recrule": 1 / mp.mpf(sa), "sqrrule": mp.mpf(sa) ** 2}[op]
            elif op in ("mulrule", "divrule"):
                fn = U["array"]._multiply_units if op == "mulrule" else U["array"]._divide_units
                cf, res = fn(a, b)
                sb = mp.mpf(scales[ins["b"] - 1])
                ref = (mp.mpf(sa) * sb if op == "mulrule" else mp.mpf(sa) / sb) / mp.mpf(float(cf))
            else:
                raise ValueError("unknown op " + op)
            if not getattr(res, "is_Unit", False):
                raise TypeError("result is not a Unit: " + type(res).__name__)
            rec = _proj(res, atoms, lut, exact)
            err = _err(res.base_value, ref)
            if op in ("coeff", "mulrule", "divrule"):
                if exact:
                    rec["cf"], okc = _snap_lg(cf)
                    if not okc:
                        rec["alien"] = True
        except LookupError:
            rec = dict(RAISE, exc="operand")
            res = None
        except StepTimeout:
            _TIMEOUTS[0] += 1
            rec = dict(RAISE, exc="StepTimeout")
            res = None
        except Exception as ex:  # noqa: BLE001 - the observation is the exception
            rec = dict(RAISE, exc=type(ex).__name__)
            res = None
        finally:
            signal.alarm(0)
        try:
            hc = int(math.ceil(abs(math.log(abs(float(res.base_value)))))) if res is not None else 0
        except (ValueError, OverflowError):
            hc = 0
        hcond.append(min(hc, 100000))
        objs.append(res)
        scales.append(float(res.base_value) if res is not None else None)
        regs.append(rec)
        herr.append(int(err))
    pairs = []
    for pr in case["pairs"]:
        a, b = objs[pr["i"] - 1], objs[pr["j"] - 1]
        if a is None or b is None:
            pairs.append({"eq": False, "eqr": False, "ne": True, "ner": True, "heq": False, "same": False, "serr": CAP})
            continue
        pairs.append(
            {
                "eq": bool(a == b),
                "eqr": bool(b == a),
                "ne": bool(a != b),
                "ner": bool(b != a),
                "heq": hash(a) == hash(b),
                "same": bool(a.expr == b.expr),
                "serr": _err(a.base_value, b.base_value),
            }
        )
    hc = []
    for o in objs:
        if o is None or hashes is None:
            hc.append(0)
        else:
            hc.append(hashes.setdefault(hash(o), len(hashes) + 1))
    inrange = all(sc is None or (math.isfinite(sc) and 1e-290 < abs(sc) < 1e290) for sc in scales)
    return {
        "inrange": bool(inrange),
        "hist": False,
        "ph": 0,
        "edits": [],
        "origin": "-",
        "dlut": 0,
        "hc": hc,
        "law": case["law"],
        "lv": case["lv"],
        "p": case["p"],
        "q": case["q"],
        "exact": exact,
        "atoms": atoms,
        "alg": alg,
        "adim": adim,
        "ain": ain,
        "xs": xs,
        "aoff": aoff,
        "regs": regs,
        "herr": herr,
        "hcond": hcond,
        "pairs": pairs,
        "leafnames": [s for _, s in lv],
    }


def probe_leaves(leaves):
    """which table leaves resolve, and their dimension vectors (for the dimension classes TLC pairs by)."""
    out = []
    for l in leaves:
        try:
            u = _U["Unit"](l["s"], registry=_U["regs"][l["reg"]])
            out.append({"ok": True, "dim": _dimvec(u.dimensions), "why": ""})
        except Exception as ex:  # noqa: BLE001
            out.append({"ok": False, "dim": [], "why": type(ex).__name__ + ": " + str(ex)[:100]})
    return {"leaves": out, "unknown_bases": _U["dim_unknown_bases"]}
