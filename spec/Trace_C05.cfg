CONSTANTS
  Stripes = 8
INIT Init
NEXT Next
CHECK_DEADLOCK FALSE
