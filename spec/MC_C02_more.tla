----------------------------- MODULE MC_C02_more -----------------------------
(* Case tables of DefsMore, one state per case:                              *)
(*   ORD  a prefixable symbol and a sequence of prefixes resolved in that     *)
(*        order in a fresh registry: the chains of prefix spellings (d, da, a)*)
(*        in every order, as symbols and as word aliases, for EVERY           *)
(*        prefixable symbol; every ordered pair of different prefix spellings *)
(*        for the symbols selected by RowMod/RowSel (RowMod = 1: all)         *)
(*   POW  base unit x float exponent x call form x float type                 *)
(* TLC checks on every ORD case that the transcribed memo is order-free.      *)
EXTENDS DefsMore
CONSTANTS RowMod, RowSel
VARIABLE c
Init == c = [k |-> "start"]
NextOrdChain == c.k = "start" /\ \E t \in PfxRows, seq \in ChainSeqs, al \in BOOLEAN : c' = [k |-> "ord", t |-> t, seq |-> seq, al |-> al]
NextOrdPairs == c.k = "start" /\ \E t \in {u \in PfxRows : (u + RowSel) % RowMod = 0}, seq \in PairSeqs : c' = [k |-> "ord", t |-> t, seq |-> seq, al |-> FALSE]
NextPow == c.k = "start" /\ \E b \in DOMAIN PowBases, e \in DOMAIN PowExps, f \in DOMAIN PowForms, ty \in DOMAIN PowTypes :
             c' = [k |-> "pow", b |-> b, e |-> e, f |-> f, ty |-> ty]
Next == NextOrdChain \/ NextOrdPairs \/ NextPow

ModelOrderFree == c.k = "ord" => OrderFree(c.t, c.seq)
StepOf(t, p, al) == LET k == KeyOfTab[p][t] IN [p |-> p, key |-> k, n |-> IF al /\ k # 0 THEN AliasOfKey[k] ELSE 0, kexp |-> PfxExp(p)]
Export ==
  CASE c.k = "start" -> PrintT(ToJson([tag |-> "MORE", chains |-> Chains, pool |-> PowPool, bases |-> PowBases, coefs |-> Coefs, exps |-> Exps]))
    [] c.k = "ord" -> PrintT(ToJson([tag |-> "ORD", t |-> c.t, seq |-> c.seq, al |-> c.al, steps |-> [j \in DOMAIN c.seq |-> StepOf(c.t, c.seq[j], c.al)]]))
    [] c.k = "pow" -> PrintT(ToJson([tag |-> "POW", b |-> c.b, e |-> c.e, form |-> PowForms[c.f], ty |-> PowTypes[c.ty],
                                     p |-> PowP(c.e), cls |-> PowExps[c.e][3], dimu |-> Dense(BaseDimV(c.b))]))
=============================================================================
