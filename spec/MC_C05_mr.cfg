CONSTANTS
  Mode = "MR"
  Seed = 0
  PairN = 0
  TripleN = 60
  PowN = 0
  PowMulN = 80
  SimpN = 40
  RuleN = 0
  HistN = 12
  CoefN = 12
  QHistN = 2
  EqN = 0
INIT Init
NEXT Next
INVARIANT Export
INVARIANT ModelHolds
CHECK_DEADLOCK FALSE
