----------------------------- MODULE HelpersDeco -----------------------------
(* The accepts/returns decorators of unyt (unyt/dimensions.py), property C19. *)
(*                                                                            *)
(* A template describes ONE decorated function:                               *)
(*   params  <<[n, k, dv]>>  k: "pos" | "def" (default dv) | "var" ( *n ) |      *)
(*                              "kwo" | "kwd" (keyword-only, default dv) |    *)
(*                              "varkw" ( **n )                                 *)
(*   locals  names of local variables of the body (they follow the parameters *)
(*           in f.__code__.co_varnames)                                       *)
(*   acc     <<[n, dim]>>  accepts(n=dim, ...), hasAcc;  ret <<dim>>, hasRet  *)
(*   order   "acc_inner": returns(...)(accepts(...)(f))  (the documented one) *)
(*           "acc_outer": accepts(...)(returns(...)(f))                       *)
(*   result  what the body returns: <<[src |-> "param", n] | [src |-> "const", val]>>; single = not a tuple *)
(* A call is [pos |-> <<values>>, kw |-> <<[n, v]>>]; a value is              *)
(* [k |-> "q" | "arr" | "bare" | "int", u |-> unit expression].               *)
(* Unit and dimension expressions are trees <<"u", sym>> / <<"n", name>>,     *)
(* <<"mul", x, y>>, <<"div", x, y>>, <<"pow", x, num, den>>.                   *)
(*                                                                            *)
(*  * T: implementation-shaped - positional arguments are paired with         *)
(*    co_varnames of the function accepts() was applied to, keyword arguments *)
(*    by name; first mismatch raises; then the call; then returns() zips the  *)
(*    result tuple with the declared dimensions.                              *)
(*  * P: Python's own binding decides which argument a value is; a call goes  *)
(*    through iff every checked argument that was supplied and every checked  *)
(*    return value has the stated dimension; otherwise TypeError; a refused   *)
(*    argument means the body did not run; an accepted call returns the very  *)
(*    object the body returned.  The dimension of a unit is the specification *)
(*    table below (physics), not the library's.                               *)
EXTENDS Dim, FiniteSets, TLC, Json

\* arguments are 2x the exponents of mass, length, time, temperature, angle, current, luminous intensity, logarithmic
X(m, l, t, th, an, i, j, lg) == <<6 * m, 6 * l, 6 * t, 6 * th, 6 * an, 6 * i, 0, 6 * j, 6 * lg>>
Named == [
  mass |-> X(2,0,0,0,0,0,0,0), length |-> X(0,2,0,0,0,0,0,0), time |-> X(0,0,2,0,0,0,0,0), temperature |-> X(0,0,0,2,0,0,0,0),
  angle |-> X(0,0,0,0,2,0,0,0), current_mks |-> X(0,0,0,0,0,2,0,0), luminous_intensity |-> X(0,0,0,0,0,0,2,0),
  logarithmic |-> X(0,0,0,0,0,0,0,2), dimensionless |-> X(0,0,0,0,0,0,0,0),
  rate |-> X(0,0,-2,0,0,0,0,0), frequency |-> X(0,0,-2,0,0,0,0,0), angular_frequency |-> X(0,0,-2,0,2,0,0,0),
  spatial_frequency |-> X(0,-2,0,0,0,0,0,0), solid_angle |-> X(0,0,0,0,4,0,0,0),
  velocity |-> X(0,2,-2,0,0,0,0,0), acceleration |-> X(0,2,-4,0,0,0,0,0), jerk |-> X(0,2,-6,0,0,0,0,0), snap |-> X(0,2,-8,0,0,0,0,0),
  crackle |-> X(0,2,-10,0,0,0,0,0), pop |-> X(0,2,-12,0,0,0,0,0),
  area |-> X(0,4,0,0,0,0,0,0), volume |-> X(0,6,0,0,0,0,0,0), momentum |-> X(2,2,-2,0,0,0,0,0), force |-> X(2,2,-4,0,0,0,0,0),
  tension |-> X(2,0,-4,0,0,0,0,0), pressure |-> X(2,-2,-4,0,0,0,0,0), energy |-> X(2,4,-4,0,0,0,0,0), power |-> X(2,4,-6,0,0,0,0,0),
  flux |-> X(2,0,-6,0,0,0,0,0), specific_flux |-> X(2,0,-4,0,0,0,0,0), number_density |-> X(0,-6,0,0,0,0,0,0), density |-> X(2,-6,0,0,0,0,0,0),
  angular_momentum |-> X(2,4,-2,0,0,0,0,0), specific_angular_momentum |-> X(0,4,-2,0,0,0,0,0), specific_energy |-> X(0,4,-4,0,0,0,0,0),
  count_flux |-> X(0,-4,-2,0,0,0,0,0), count_intensity |-> X(0,-4,-2,0,-4,0,0,0),
  luminous_flux |-> X(0,0,0,0,4,0,2,0), luminance |-> X(0,-4,0,0,0,0,2,0),
  charge_cgs |-> X(1,3,-2,0,0,0,0,0), current_cgs |-> X(1,3,-4,0,0,0,0,0), electric_field_cgs |-> X(1,-1,-2,0,0,0,0,0),
  magnetic_field_cgs |-> X(1,-1,-2,0,0,0,0,0), electric_potential_cgs |-> X(1,1,-2,0,0,0,0,0), resistance_cgs |-> X(0,-2,2,0,0,0,0,0),
  magnetic_flux_cgs |-> X(1,3,-2,0,0,0,0,0),
  charge |-> X(0,0,2,0,0,2,0,0), charge_mks |-> X(0,0,2,0,0,2,0,0),
  electric_field |-> X(2,2,-6,0,0,-2,0,0), electric_field_mks |-> X(2,2,-6,0,0,-2,0,0),
  magnetic_field |-> X(2,0,-4,0,0,-2,0,0), magnetic_field_mks |-> X(2,0,-4,0,0,-2,0,0),
  electric_potential |-> X(2,4,-6,0,0,-2,0,0), electric_potential_mks |-> X(2,4,-6,0,0,-2,0,0),
  resistance |-> X(2,4,-6,0,0,-4,0,0), resistance_mks |-> X(2,4,-6,0,0,-4,0,0),
  capacitance |-> X(-2,-4,8,0,0,4,0,0), capacitance_mks |-> X(-2,-4,8,0,0,4,0,0),
  magnetic_flux |-> X(2,4,-4,0,0,-2,0,0), magnetic_flux_mks |-> X(2,4,-4,0,0,-2,0,0),
  inductance |-> X(2,4,-4,0,0,-4,0,0), inductance_mks |-> X(2,4,-4,0,0,-4,0,0)]
\* the same table as an operator (one row evaluated per use; TLC rebuilds a record constant on every use in a trace specification)
NamedVec(n) ==
  CASE n = "mass" -> X(2,0,0,0,0,0,0,0)
    [] n = "length" -> X(0,2,0,0,0,0,0,0)
    [] n = "time" -> X(0,0,2,0,0,0,0,0)
    [] n = "temperature" -> X(0,0,0,2,0,0,0,0)
    [] n = "angle" -> X(0,0,0,0,2,0,0,0)
    [] n = "current_mks" -> X(0,0,0,0,0,2,0,0)
    [] n = "luminous_intensity" -> X(0,0,0,0,0,0,2,0)
    [] n = "logarithmic" -> X(0,0,0,0,0,0,0,2)
    [] n = "dimensionless" -> X(0,0,0,0,0,0,0,0)
    [] n = "rate" -> X(0,0,-2,0,0,0,0,0)
    [] n = "frequency" -> X(0,0,-2,0,0,0,0,0)
    [] n = "angular_frequency" -> X(0,0,-2,0,2,0,0,0)
    [] n = "spatial_frequency" -> X(0,-2,0,0,0,0,0,0)
    [] n = "solid_angle" -> X(0,0,0,0,4,0,0,0)
    [] n = "velocity" -> X(0,2,-2,0,0,0,0,0)
    [] n = "acceleration" -> X(0,2,-4,0,0,0,0,0)
    [] n = "jerk" -> X(0,2,-6,0,0,0,0,0)
    [] n = "snap" -> X(0,2,-8,0,0,0,0,0)
    [] n = "crackle" -> X(0,2,-10,0,0,0,0,0)
    [] n = "pop" -> X(0,2,-12,0,0,0,0,0)
    [] n = "area" -> X(0,4,0,0,0,0,0,0)
    [] n = "volume" -> X(0,6,0,0,0,0,0,0)
    [] n = "momentum" -> X(2,2,-2,0,0,0,0,0)
    [] n = "force" -> X(2,2,-4,0,0,0,0,0)
    [] n = "tension" -> X(2,0,-4,0,0,0,0,0)
    [] n = "pressure" -> X(2,-2,-4,0,0,0,0,0)
    [] n = "energy" -> X(2,4,-4,0,0,0,0,0)
    [] n = "power" -> X(2,4,-6,0,0,0,0,0)
    [] n = "flux" -> X(2,0,-6,0,0,0,0,0)
    [] n = "specific_flux" -> X(2,0,-4,0,0,0,0,0)
    [] n = "number_density" -> X(0,-6,0,0,0,0,0,0)
    [] n = "density" -> X(2,-6,0,0,0,0,0,0)
    [] n = "angular_momentum" -> X(2,4,-2,0,0,0,0,0)
    [] n = "specific_angular_momentum" -> X(0,4,-2,0,0,0,0,0)
    [] n = "specific_energy" -> X(0,4,-4,0,0,0,0,0)
    [] n = "count_flux" -> X(0,-4,-2,0,0,0,0,0)
    [] n = "count_intensity" -> X(0,-4,-2,0,-4,0,0,0)
    [] n = "luminous_flux" -> X(0,0,0,0,4,0,2,0)
    [] n = "luminance" -> X(0,-4,0,0,0,0,2,0)
    [] n = "charge_cgs" -> X(1,3,-2,0,0,0,0,0)
    [] n = "current_cgs" -> X(1,3,-4,0,0,0,0,0)
    [] n = "electric_field_cgs" -> X(1,-1,-2,0,0,0,0,0)
    [] n = "magnetic_field_cgs" -> X(1,-1,-2,0,0,0,0,0)
    [] n = "electric_potential_cgs" -> X(1,1,-2,0,0,0,0,0)
    [] n = "resistance_cgs" -> X(0,-2,2,0,0,0,0,0)
    [] n = "magnetic_flux_cgs" -> X(1,3,-2,0,0,0,0,0)
    [] n = "charge" -> X(0,0,2,0,0,2,0,0)
    [] n = "charge_mks" -> X(0,0,2,0,0,2,0,0)
    [] n = "electric_field" -> X(2,2,-6,0,0,-2,0,0)
    [] n = "electric_field_mks" -> X(2,2,-6,0,0,-2,0,0)
    [] n = "magnetic_field" -> X(2,0,-4,0,0,-2,0,0)
    [] n = "magnetic_field_mks" -> X(2,0,-4,0,0,-2,0,0)
    [] n = "electric_potential" -> X(2,4,-6,0,0,-2,0,0)
    [] n = "electric_potential_mks" -> X(2,4,-6,0,0,-2,0,0)
    [] n = "resistance" -> X(2,4,-6,0,0,-4,0,0)
    [] n = "resistance_mks" -> X(2,4,-6,0,0,-4,0,0)
    [] n = "capacitance" -> X(-2,-4,8,0,0,4,0,0)
    [] n = "capacitance_mks" -> X(-2,-4,8,0,0,4,0,0)
    [] n = "magnetic_flux" -> X(2,4,-4,0,0,-2,0,0)
    [] n = "magnetic_flux_mks" -> X(2,4,-4,0,0,-2,0,0)
    [] n = "inductance" -> X(2,4,-4,0,0,-4,0,0)
    [] n = "inductance_mks" -> X(2,4,-4,0,0,-4,0,0)
DimNames == DOMAIN Named

\* units by their physical dimension (SI, prefixed, imperial, CGS-Gaussian electromagnetic, logarithmic)
UnitDimName == [
  m |-> "length", km |-> "length", cm |-> "length", inch |-> "length", mile |-> "length", AU |-> "length",
  s |-> "time", ms |-> "time", hr |-> "time", yr |-> "time",
  g |-> "mass", kg |-> "mass", lb |-> "mass", Msun |-> "mass",
  K |-> "temperature", degC |-> "temperature", degF |-> "temperature", R |-> "temperature",
  rad |-> "angle", degree |-> "angle", arcsec |-> "angle", sr |-> "solid_angle",
  A |-> "current_mks", mA |-> "current_mks", cd |-> "luminous_intensity", lm |-> "luminous_flux", lx |-> "illuminance",
  Np |-> "logarithmic", dB |-> "logarithmic",
  N |-> "force", dyn |-> "force", kN |-> "force", J |-> "energy", erg |-> "energy", eV |-> "energy", keV |-> "energy",
  W |-> "power", kW |-> "power", Pa |-> "pressure", bar |-> "pressure", atm |-> "pressure",
  Hz |-> "rate", kHz |-> "rate",
  C |-> "charge_mks", V |-> "electric_potential_mks", ohm |-> "resistance_mks", F |-> "capacitance_mks",
  T |-> "magnetic_field_mks", Wb |-> "magnetic_flux_mks", H |-> "inductance_mks",
  statC |-> "charge_cgs", esu |-> "charge_cgs", G |-> "magnetic_field_cgs", statV |-> "electric_potential_cgs",
  statohm |-> "resistance_cgs", Mx |-> "magnetic_flux_cgs", statA |-> "current_cgs",
  dimensionless |-> "dimensionless", percent |-> "dimensionless"]
\* (a record of strings is cheap to rebuild: TLC re-evaluates these tables on every use in the trace specifications)
DimOfName(n) == IF n = "illuminance" THEN X(0,-4,0,0,4,0,2,0) ELSE NamedVec(n)
UnitVec(sym) == DimOfName(UnitDimName[sym])
UnitSyms == DOMAIN UnitDimName

RECURSIVE UDimOf(_)
UDimOf(e) == CASE e[1] = "u" -> UnitVec(e[2])
               [] e[1] = "mul" -> DMul(UDimOf(e[2]), UDimOf(e[3]))
               [] e[1] = "div" -> DDiv(UDimOf(e[2]), UDimOf(e[3]))
               [] e[1] = "pow" -> DPow(UDimOf(e[2]), e[3], e[4])
RECURSIVE DDimOf(_)
DDimOf(e) == CASE e[1] = "n" -> NamedVec(e[2])
               [] e[1] = "mul" -> DMul(DDimOf(e[2]), DDimOf(e[3]))
               [] e[1] = "div" -> DDiv(DDimOf(e[2]), DDimOf(e[3]))
               [] e[1] = "pow" -> DPow(DDimOf(e[2]), e[3], e[4])
\* a bare number has no units: it is dimensionless (_has_dimensions(3, length) is False in the docstring)
ValDim(v) == IF v.k \in {"bare", "int"} THEN NamedVec("dimensionless") ELSE UDimOf(v.u)
Fits(v, dim) == ValDim(v) = DDimOf(dim)

Q(sym) == [k |-> "q", u |-> <<"u", sym>>]
QE(e) == [k |-> "q", u |-> e]
Arr(sym) == [k |-> "arr", u |-> <<"u", sym>>]
Bare == [k |-> "bare", u |-> <<>>]
IntV == [k |-> "int", u |-> <<>>]
NoVal == Bare

Min(a, b) == IF a < b THEN a ELSE b
SeqSet(s) == {s[i] : i \in DOMAIN s}
ParamsOfKind(t, ks) == SelectSeq(t.params, LAMBDA p : p.k \in ks)
NamesOf(ps) == {ps[i].n : i \in DOMAIN ps}
HasKind(t, k) == \E i \in DOMAIN t.params : t.params[i].k = k
PosParams(t) == ParamsOfKind(t, {"pos", "def"})
NamedParams(t) == NamesOf(ParamsOfKind(t, {"pos", "def", "kwo", "kwd"}))
KwNames(call) == {call.kw[i].n : i \in DOMAIN call.kw}
KwVal(call, n) == call.kw[CHOOSE i \in DOMAIN call.kw : call.kw[i].n = n].v

(* ======================= property side (P) ======================= *)
\* Python's binding of the call to the signature
PosAssigned(t, call) == {PosParams(t)[i].n : i \in 1..Min(Len(call.pos), Len(PosParams(t)))}
BindOk(t, call) ==
  LET supplied == PosAssigned(t, call) \cup (KwNames(call) \cap NamedParams(t)) IN
  /\ Len(call.pos) <= Len(PosParams(t)) \/ HasKind(t, "var")                               \* not too many positionals
  /\ \A n \in KwNames(call) : n \notin PosAssigned(t, call)                                  \* no argument given twice
  /\ \A n \in KwNames(call) : n \in NamedParams(t) \/ HasKind(t, "varkw")                   \* no unexpected keyword
  /\ \A i \in DOMAIN t.params : t.params[i].k \in {"pos", "kwo"} => t.params[i].n \in supplied  \* nothing required is missing
\* value bound to the argument called n (supplied explicitly, possibly through **kw), else its default
Supplied(t, call, n) == n \in PosAssigned(t, call) \/ n \in KwNames(call)
DefaultOf(t, n) == t.params[CHOOSE i \in DOMAIN t.params : t.params[i].n = n].dv
BoundVal(t, call, n) == IF Supplied(t, call, n) THEN
                          (IF n \in PosAssigned(t, call) THEN call.pos[CHOOSE i \in 1..Len(PosParams(t)) : PosParams(t)[i].n = n] ELSE KwVal(call, n))
                        ELSE DefaultOf(t, n)
\* every checked argument that the call supplies has the stated dimension (defaults left alone are not demanded)
ArgsFit(t, call) == ~t.hasAcc \/ \A i \in DOMAIN t.acc : Supplied(t, call, t.acc[i].n) => Fits(BoundVal(t, call, t.acc[i].n), t.acc[i].dim)
ResultVals(t, call) == [i \in DOMAIN t.result |-> IF t.result[i].src = "param" THEN BoundVal(t, call, t.result[i].n) ELSE t.result[i].val]
\* return values: demanded only when as many dimensions are declared as values are returned
RetDecided(t) == t.hasRet => Len(t.ret) = Len(t.result)
RetFit(t, call) == ~t.hasRet \/ \A i \in DOMAIN t.ret : Fits(ResultVals(t, call)[i], t.ret[i])
PStep(t, call, o) ==
  IF ~BindOk(t, call) THEN (IF o.k = "raise" /\ o.exc = "TypeError" /\ ~o.called THEN "" ELSE "ill-formed-call-not-refused-by-TypeError")
  ELSE IF ~ArgsFit(t, call) THEN
    (IF o.k = "ok" THEN "lets-through-argument-of-wrong-dimension"
     ELSE IF o.called THEN "calls-wrapped-function-before-refusing"
     ELSE IF o.exc # "TypeError" THEN "refuses-with-other-exception" ELSE "")
  ELSE IF ~o.called THEN "refuses-arguments-of-stated-dimension"
  ELSE IF ~RetDecided(t) THEN ""
  ELSE IF RetFit(t, call) THEN (IF o.k # "ok" THEN "refuses-result-of-stated-dimension" ELSE IF ~o.same THEN "alters-result" ELSE "")
  ELSE (IF o.k = "ok" THEN "lets-through-result-of-wrong-dimension" ELSE IF o.exc # "TypeError" THEN "refuses-with-other-exception" ELSE "")

(* ======================= implementation side (T) ======================= *)
OutD(k, exc, called, same) == [k |-> k, exc |-> exc, called |-> called, same |-> same]
NameSeq(ps) == [i \in DOMAIN ps |-> ps[i].n]
\* f.__code__.co_varnames of the function accepts() decorates: parameters (positional, keyword-only, *args, **kwargs), then locals;
\* for a function already wrapped by returns() these are the wrapper's own: (args, kwargs, results, result_tuple, result, dimension)
VarNames(t) ==
  IF t.order = "acc_outer" /\ t.hasRet THEN <<"args", "kwargs", "results", "result_tuple", "result", "dimension">>
  ELSE NameSeq(ParamsOfKind(t, {"pos", "def"})) \o NameSeq(ParamsOfKind(t, {"kwo", "kwd"})) \o NameSeq(ParamsOfKind(t, {"var"}))
       \o NameSeq(ParamsOfKind(t, {"varkw"})) \o t.locals \o <<"_r">>
AccDim(t, n) == t.acc[CHOOSE i \in DOMAIN t.acc : t.acc[i].n = n].dim
AccNames(t) == {t.acc[i].n : i \in DOMAIN t.acc}
AccCheckOk(t, call) ==
  /\ \A i \in 1..Min(Len(call.pos), Len(VarNames(t))) : VarNames(t)[i] \in AccNames(t) => Fits(call.pos[i], AccDim(t, VarNames(t)[i]))
  /\ \A i \in DOMAIN call.kw : call.kw[i].n \in AccNames(t) => Fits(call.kw[i].v, AccDim(t, call.kw[i].n))
RetStep(t, call) ==
  IF ~t.hasRet THEN OutD("ok", "", TRUE, TRUE)
  ELSE LET rv == ResultVals(t, call)
           n == IF t.single THEN 1 ELSE Min(Len(rv), Len(t.ret)) IN
       \* a single (non-tuple) result is checked against the first declared dimension only
       IF \A i \in 1..Min(n, Len(t.ret)) : Fits(rv[i], t.ret[i]) THEN OutD("ok", "", TRUE, TRUE) ELSE OutD("raise", "TypeError", TRUE, FALSE)
\* the code before fix: commit ee18517 (positional arguments paired with co_varnames); still accepted by TOkStep
TStepByVarnames(t, call) ==
  IF t.hasAcc /\ ~AccCheckOk(t, call) THEN OutD("raise", "TypeError", FALSE, FALSE)
  ELSE IF ~BindOk(t, call) THEN OutD("raise", "TypeError", FALSE, FALSE)
  ELSE RetStep(t, call)
\* today's code: arguments are identified by inspect.signature(f).bind_partial
TStep(t, call) ==
  IF ~BindOk(t, call) THEN OutD("raise", "TypeError", FALSE, FALSE)
  ELSE IF ~ArgsFit(t, call) THEN OutD("raise", "TypeError", FALSE, FALSE)
  ELSE RetStep(t, call)
SameStep(x, o) == o.k = x.k /\ o.exc = x.exc /\ o.called = x.called /\ o.same = x.same
TOkStep(t, call, o) == SameStep(TStep(t, call), o) \/ SameStep(TStepByVarnames(t, call), o)
=====================
