------------------------------- MODULE MC_C17 -------------------------------
(* Bounded instance of DType for C17: the case table                         *)
(*   conversion : copy route x dtype x value class x unit pair x shape,      *)
(*                each with the outcome of the route and of its in-place twin *)
(*   ufunc      : op x dtype0 x dtype1 x value classes x unit pair x shape x *)
(*                out (none / operand 0 / separate buffer of every dtype)    *)
(* Every case carries the outcome of the implementation-shaped transition    *)
(* (fields mc, mi, m) and the model-level verdict of the C17 predicates on it *)
(* (mfail: which clauses the design as transcribed breaks).  One state per   *)
(* case; exported from the invariant Export.                                 *)
EXTENDS DType
CONSTANTS DT,        \* dtypes of the data (and of operand 0 / operand 1)
          OutDT,     \* dtypes of separate out= buffers
          ConvVC,    \* value classes on the conversion routes
          UVC0, UVC1,\* value classes of operand 0 / operand 1
          Routes,    \* copy routes (each is paired with its in-place twin)
          Pairs,     \* <<from, to>> unit pairs for conversions
          UPairs,    \* <<u0, u1>> unit pairs for ufuncs
          Ops, OutOps, \* ufuncs without out / with out and in place
          Shapes, UShapes, Fams,
          CDA, CDE,  \* comb family: dtypes of the array / of the listed, assigned or compared elements
          CVB,       \* value classes of element 2
          CPairs,    \* <<unit of element 1, unit of element 2>>
          COps,      \* ufuncs with a list operand
          OffPairs,  \* round 7: dyadic pairs with factor one (same unit / another name) and pairs of units with an offset
          OffVC,     \* value classes on those pairs and on the round-7 pairs of the default registry
          RPairs,    \* unit pairs of the default registry
          RRoutes    \* copy routes replayed on them

\* ---- named constant values for the cfgs (cfg files cannot write tuples) ----
DT13 == {"i1", "i2", "i4", "i8", "u1", "u2", "u4", "u8", "f2", "f4", "f8", "c8", "c16"}
DT15 == DT13 \cup {"f16", "c32"}
AllVC == IntClasses \cup FloatClasses \cup ComplexClasses
QuickVC1 == {"s3", "n5", "g24", "max", "h", "z"}
BaseVC == {"s3", "h", "z"}
BaseMaxVC == {"s3", "h", "z", "max"}
AllCopyRoutes == CopyRoutes
PairsAll == {<<2, 1>>, <<3, 1>>, <<1, 2>>, <<1, 3>>, <<2, 3>>, <<3, 2>>, <<11, 1>>, <<1, 11>>, <<11, 3>>}
PairsSix == {<<2, 1>>, <<3, 1>>, <<1, 2>>, <<1, 3>>, <<2, 3>>, <<3, 2>>}
UPairsFull == PairsSix \cup {<<1, 11>>}
PairsQuick == {<<3, 1>>, <<2, 1>>, <<2, 3>>, <<11, 1>>, <<3, 11>>}
UPairsQuick == {<<1, 3>>, <<3, 2>>, <<1, 11>>}
UPairsOut == {<<1, 3>>}
OpsAll == ArithOps \cup CmpOps
OpsQuick == {"add", "subtract", "maximum", "less", "equal"}
OpsOutQuick == {"add"}
OpsOutAll == {"add", "subtract", "maximum"}
ShapesAll == {"q", "a"}
UShapesAll == {"qq", "aa"}
UShapesQuick == {"aa"}
FamsAll == {"conv", "ufunc", "out", "real", "comb", "ureal"}
FamsConv == {"conv", "real", "ureal"}
FamsUfunc == {"ufunc"}
FamsOut == {"out"}
FamsComb == {"comb"}
CDAQuick == {"i1", "i2", "i4", "i8", "u2", "u8", "f2", "f8", "c8"}
CDEQuick == {"i1", "i2", "i4", "i8", "u1", "u4", "u8", "f4", "c8"}
CVBQuick == {"s3", "n5", "max", "h", "z"}
CPairsQuick == {<<1, 3>>, <<3, 2>>, <<2, 1>>}
COpsQuick == {"add", "maximum", "less", "equal"}
COpsFull == {"add", "subtract", "maximum", "less", "equal", "greater_equal"}
\* km->mile, mile->km, mile->m; decimal prefixes: cm->m, mm->km, cm->Mm (1e-8: below float16), km->cm (1e5: above
\* float16), ym->Ym (1e-48: below float32), Ym->ym; table values held as NumPy scalars / int: l_pl->m, m->l_pl, Wh->J, dB->B
RealPairs == {<<4, 5>>, <<5, 4>>, <<5, 1>>, <<6, 1>>, <<7, 4>>, <<6, 8>>, <<4, 6>>, <<9, 10>>, <<10, 9>>,
              <<12, 1>>, <<1, 12>>, <<13, 14>>, <<15, 16>>}
\* <<u0, u1>> for mixed-unit ufuncs on real units (operand 1 is converted to u0): cm->m, km->cm, cm->Mm, mile->km, l_pl->m
URealPairs == {<<1, 6>>, <<6, 4>>, <<8, 6>>, <<4, 5>>, <<1, 12>>}
URealOps == {"add", "subtract", "maximum", "less"}
URealD0 == {"i2", "i4", "i8", "f4", "f8"}
URealVC1 == {"z0", "s3", "n5", "e11", "g24", "max", "h", "ng"}
\* round 7.  Dyadic: m -> m (identity), la -> lnd (same scale, other name), tc/tf/K (offset units, see DType.UnitOff)
OffPairsQuick == {<<1, 1>>, <<2, 11>>, <<22, 21>>, <<23, 22>>, <<22, 23>>}
OffPairsFull == OffPairsQuick \cup {<<21, 22>>, <<21, 23>>, <<23, 21>>, <<11, 2>>, <<3, 3>>}
OffVCQuick == {"z0", "s3", "n5", "e11", "max", "min", "h", "ulp", "z"}
\* `to` is `return self.in_units(...)`: the quick tier replays the alias on the dyadic families only
\* (so is the same-dimension branch of to_equivalent)
RRoutesQuick == CopyRoutes \ {"in_units", "to_equivalent"}
\* pairs that are there for the cgs base routes
CgsOnlyPairs == {<<24, 25>>, <<6, 6>>}
\* default registry: N -> kg*m/s**2, dyn -> g*cm/s**2 (factor one, another name), cm -> cm (identity; the base unit of cgs),
\* degC -> K, degC -> degF, degF -> degC, K -> degF, degF -> K, K -> degC
\* round 7b, electromagnetic pairs: mA -> A, kV -> V, uC -> C, A -> A (mks); A -> statA (x 2997924580), T -> G (x 1e4) (cgs)
EMPairs == {<<28, 26>>, <<31, 32>>, <<33, 34>>, <<26, 26>>, <<26, 27>>, <<29, 30>>}
R7Pairs == {<<17, 18>>, <<24, 25>>, <<6, 6>>, <<19, 21>>, <<19, 20>>, <<20, 19>>, <<21, 20>>, <<20, 21>>, <<21, 19>>}
RealPairsQuick == (RealPairs \ {<<5, 4>>, <<1, 12>>}) \cup {<<17, 18>>, <<24, 25>>, <<6, 6>>, <<19, 21>>, <<19, 20>>} \cup EMPairs
RealPairsFull == RealPairs \cup R7Pairs \cup EMPairs
\* the unit a base-unit route ends in must be the pair's target
BaseTargetOK(route, to) == CASE route \in {"in_base", "in_mks"} -> to \in {1, 14, 18, 21, 26, 32, 34}
                             [] route = "in_cgs" -> to \in {6, 25, 21, 27, 30}
                             [] OTHER -> TRUE
VARIABLE c
vars == <<c>>
Init == c = <<>>

BaseRoutes == {"in_base", "in_mks", "in_cgs"}
\* real == TRUE: units of the default registry (4 = km, 5 = mile, 1 = m), non-dyadic factors; k only keeps
\* the direction of the factor (+1 up, -1 down); values are then compared under a stated tolerance
ConvCase(route, d, vc, from, to, shape, real) ==
  LET vcs == Elems(vc, d, shape)
      k == IF real THEN RealDir(from, to) ELSE Factor(from, to)
      ident == from = to
      em == from \in EMUnits
      rc == ConvOutEM(route, d, vcs, k, shape, em, ident)
      ri == ConvOutEM(Twin(route), d, vcs, k, shape, em, ident) IN
  [fam |-> "conv", route |-> route, twin |-> Twin(route), d |-> d, vc |-> vc, from |-> from, to |-> to, k |-> k,
   shape |-> shape, vcs |-> vcs, real |-> real, mc |-> rc, mi |-> ri,
   \* sh: what the conversion adds after scaling (units with an offset); ident: source unit = target unit
   sh |-> IF real THEN RZero ELSE Shift(from, to), ident |-> ident, em |-> em,
   mfail |-> {[route |-> route, cl |-> x] : x \in ConvFailsI(route, d, vcs, rc, ident)}
             \cup {[route |-> Twin(route), cl |-> x] : x \in ConvFailsI(Twin(route), d, vcs, ri, ident)}
             \cup (IF C17c(rc, ri, rc.vok = ri.vok) THEN {} ELSE {[route |-> route, cl |-> "C17c"]})]

UElems(vc0, vc1, d0, d1, shape) ==
  IF shape = "qq" THEN <<<<vc0, vc1>>>> ELSE <<<<BaseClass(d0), BaseClass(d1)>>, <<vc0, vc1>>>>
UValid(op, d0, d1, out) ==
  /\ ((IsComplex(d0) \/ IsComplex(d1)) => op \in {"add", "subtract", "equal", "not_equal"})
  /\ (op \in CmpOps => out = "none")
  /\ ((out # "none" /\ (IsComplex(d0) \/ IsComplex(d1))) => IsComplex(OutDType(out, d0)))
UfuncCase(op, d0, d1, vc0, vc1, u0, u1, shape, out) ==
  LET r0 == UfuncOut(op, d0, d1, out)
      els == UElems(vc0, vc1, d0, d1, shape)
      r == IF r0.raise THEN r0 ELSE [r0 EXCEPT !.vok = UfuncVok(op, d0, d1, els, Factor(u1, u0))] IN
  [fam |-> "ufunc", op |-> op, d0 |-> d0, d1 |-> d1, vc0 |-> vc0, vc1 |-> vc1, u0 |-> u0, u1 |-> u1,
   k |-> Factor(u1, u0), shape |-> shape, out |-> out, els |-> UElems(vc0, vc1, d0, d1, shape), m |-> r,
   mfail |-> {[route |-> op, cl |-> x] : x \in UfuncFails(op, d0, d1, out, r)}]


\* ---- comb family
\* does the integer n fit the dtype d (only asked for small n)?
FitsInt(d, n) == IF ~IsInt(d) THEN IsRepR(R(n), Comp(d))   \* a float array must hold the integer exactly
                 ELSE (LET lim == IF MaxBits(d) >= 31 THEN 2147483647 ELSE Pow2Nat(MaxBits(d)) - 1 IN
                               n <= lim /\ n >= (IF IsSigned(d) THEN -lim - 1 ELSE 0))
\* a-side classes: base, or "tr" (floor of the partner's converted value) when that is small and fits
CombVA(form, da, de, vb, uf, us, ua) ==
  {<<BaseClass(da), BaseClass(da)>>} \cup
  (IF form \in ListOpForms \cup CloseForms /\ IsSmall(vb) /\ ~IsComplex(da) /\ ~IsComplex(de)
      /\ FitsInt(da, RFloor(CombBIn(form, de, vb, uf, us, 2, ua)[1])) /\ FitsInt(da, RFloor(CombBIn(form, de, vb, uf, us, 1, ua)[1]))
   THEN {<<"tr", "tr">>} ELSE {})
CombValid(form, op, da, de, vb, uf, us, ua) ==
  /\ Applies(vb, de)
  /\ ((IsComplex(da) \/ IsComplex(de)) => (form \notin CloseForms \cup RefusingForms /\ (form \in ListOpForms => op \in {"add", "subtract", "equal", "not_equal"})))
  \* __setitem__ into an integer array: only values the array can hold (anything else is undefined in C)
  /\ ((form \in SetForms /\ IsInt(da)) =>
        /\ IsInt(de) /\ IsSmall(vb)
        /\ \A j \in 1..2 : LET x == CombBIn(form, de, vb, uf, us, j, ua)[1] IN FitsInt(da, RFloor(x)) /\ FitsInt(da, RFloor(x) + 1)
        \* ... and whose float image (in the elements' float type, in either unit) is exact: an inf or a rounded
        \* number assigned to an integer is outside what C17 speaks about
        /\ \A j \in 1..2 : \A to \in {uf, ua} : IsRepR(CombBIn(form, de, vb, uf, us, j, to)[1], Comp(de)))
  \* NumPy assigns a 0-d long double *subclass* instance through Python's complex()/float(): not a unit matter
  /\ ((form \in SetForms /\ Comp(de) = 16) => (da = de /\ IsFloat(de)))
  /\ ((form \in SetForms /\ ~IsInt(da)) => (IsComplex(de) => IsComplex(da)))
CombCase(form, op, da, de, vb, uf, us, ua, va) ==
  LET r == CombOut(form, op, da, de, vb, uf, us, ua)
      tu == TargetUnit(form, uf, us, ua) IN
  [fam |-> "comb", form |-> form, op |-> op, d0 |-> da, d1 |-> de, vc1 |-> vb, vc0 |-> va[1], va |-> va, uf |-> uf, us |-> us, ua |-> ua,
   k |-> UnitExp(us) - UnitExp(tu), shape |-> form, out |-> "none", m |-> r,
   mfail |-> {[route |-> form, cl |-> x] : x \in CombFails(form, op, da, de, uf, ua, r)}]
CombNext ==
  \E form \in CombForms, da \in CDA, de \in CDE, vb \in CVB, p \in CPairs :
    \E op \in (IF form \in ListOpForms THEN COps ELSE {""}),
       ua \in (IF form \in CtorForms THEN {p[1]} ELSE IF form \in ListOpForms THEN {p[1], p[2]} ELSE {p[1]}) :
      \* (for the forms with one partner unit the array is in p[1] and the partner in p[2])
      /\ (form \in CtorForms => da = "f8")   \* the constructor has no array operand
      /\ CombValid(form, op, da, de, vb, p[1], p[2], ua)
      /\ \E va \in CombVA(form, da, de, vb, p[1], p[2], ua) :
           c' = CombCase(form, op, da, de, vb, p[1], p[2], ua, va)

\* mixed-unit ufuncs on units of the default registry: same transition; the rounding of factor products is not
\* transcribed (tv = does T predict the values?): today the factor is rounded to the float of operand 1's item
\* size before the product, so values are not predicted unless the tree carries "ufuncscale"
URealCase(op, d0, d1, vc0, vc1, u0, u1) ==
  LET r == UfuncOut(op, d0, d1, "none") IN
  [fam |-> "ureal", op |-> op, d0 |-> d0, d1 |-> d1, vc0 |-> vc0, vc1 |-> vc1, u0 |-> u0, u1 |-> u1,
   k |-> RealDir(u1, u0), shape |-> "aa", out |-> "none", els |-> UElems(vc0, vc1, d0, d1, "aa"), m |-> r,
   tv |-> (~IsInt(d1) \/ Size(d1) = 8 \/ "ufuncscale" \in Fixes),
   mfail |-> {[route |-> op, cl |-> x] : x \in UfuncFails(op, d0, d1, "none", r)}]

Next ==
  /\ c = <<>>
  /\ \/ /\ "conv" \in Fams
        /\ \E route \in Routes, d \in DT, vc \in ConvVC, p \in Pairs \cup OffPairs, shape \in Shapes :
             /\ Applies(vc, d)
             /\ (p \in OffPairs => vc \in OffVC)
             /\ (route \in BaseRoutes => (route # "in_cgs" /\ p[2] \in {1, 21}))
             /\ c' = ConvCase(route, d, vc, p[1], p[2], shape, FALSE)
     \/ /\ "real" \in Fams
        /\ \E route \in RRoutes, d \in DT, vc \in ConvVC, p \in RPairs, shape \in Shapes :
             /\ Applies(vc, d)
             /\ (p \in CgsOnlyPairs => route \in {"in_cgs", "to", "to_value"})
             /\ (p \in R7Pairs \cup EMPairs => vc \in OffVC)
             \* (the spectral equivalence does not relate mks and cgs E&M units; to_value = to(...).value)
             /\ (p \in EMPairs => route \in BaseRoutes \cup {"to", "in_units"})
             /\ BaseTargetOK(route, p[2])
             /\ (p[1] = 15 => ~IsComplex(d))
             /\ c' = ConvCase(route, d, vc, p[1], p[2], shape, TRUE)
     \/ /\ "ureal" \in Fams
        /\ \E op \in URealOps, d0 \in URealD0, d1 \in DT, vc1 \in URealVC1, p \in URealPairs :
             /\ Applies(vc1, d1) /\ ~IsComplex(d1)
             /\ c' = URealCase(op, d0, d1, BaseClass(d0), vc1, p[1], p[2])
     \/ /\ "comb" \in Fams /\ CombNext
     \/ /\ "ufunc" \in Fams
        /\ \E op \in Ops, d0 \in DT, d1 \in DT, vc0 \in UVC0, vc1 \in UVC1, p \in UPairs, shape \in UShapes :
             /\ Applies(vc0, d0) /\ Applies(vc1, d1) /\ UValid(op, d0, d1, "none")
             /\ c' = UfuncCase(op, d0, d1, vc0, vc1, p[1], p[2], shape, "none")
     \/ /\ "out" \in Fams
        /\ \E op \in OutOps, d0 \in DT, d1 \in DT, vc1 \in UVC1, p \in UPairs, shape \in UShapes, out \in OutDT \cup {"inplace"} :
             /\ Applies(vc1, d1) /\ UValid(op, d0, d1, out)
             /\ c' = UfuncCase(op, d0, d1, BaseClass(d0), vc1, p[1], p[2], shape, out)
Spec == Init /\ [][Next]_vars

Export == c # <<>> => PrintT(ToJson(c))

\* Model-level theorems about the transcription, checked on every case (plain invariants):
\* the transcribed design never yields integer data and refuses only where C17 allows a refusal
NoIntegerResult == c # <<>> =>
   IF c.fam = "conv" THEN (~c.mc.raise => (c.mc.kind \in {"f", "c"} \/ (c.em /\ c.ident /\ "embase" \notin Fixes)))
                          /\ (~c.mi.raise => c.mi.kind \in {"f", "c"})
   ELSE (~c.m.raise => (c.m.kind \in {"f", "c", "b"} \/ (c.fam = "comb" /\ c.form \in SetForms)))
RefusalsAllowed == c # <<>> =>
   IF c.fam = "conv" THEN \A x \in c.mfail : x.cl = "C17_refuse" => (x.route = "to_value" /\ IsComplex(c.d) /\ c.shape = "q")
   ELSE \A x \in c.mfail : x.cl # "C17_refuse"
\* float16/float32 data keep their width on every conversion route except to_value of a scalar
FloatsKeepWidth == (c # <<>> /\ c.fam = "conv" /\ IsFloat(c.d)) =>
   /\ (~c.mc.py => (c.mc.kind = "f" /\ c.mc.size = Size(c.d)))
   /\ (c.mi.kind = "f" /\ c.mi.size = Size(c.d))
=============================================================================
