------------------------------ MODULE Trace_C06 ------------------------------
(* Trace validation for C06.  Input (IOEnv.OBS): a JSON array of entries      *)
(*   layer "S": [c |-> structural case exported by MC_C06 (with exp/texp/     *)
(*               kinds/m), u |-> outcome on unyt inputs, b |-> outcome of      *)
(*               NumPy on the stripped data], numbers as exact rationals       *)
(*   layer "C": [c |-> catalogue case exported by MC_C06_cat, o |-> projected  *)
(*               differential observation (booleans)]                          *)
(* For every entry TLC evaluates the C06 predicates on the observation (P),    *)
(* compares it with the handler-level transition (T) and - structural layer -  *)
(* checks the specification's model of NumPy against NumPy itself (ORACLE).    *)
EXTENDS ArrayFnNum, ArrayFnNumCat, Json, IOUtils
Obs == JsonDeserialize(IOEnv.OBS)
Fx == JsonDeserialize(IOEnv.FIXES)
Fixes == {Fx[j] : j \in 1..Len(Fx)}
VARIABLE i
Init == i = 1
PFail(n, c, cl) == PrintT(ToJson([tag |-> "P-FAIL", i |-> n, layer |-> c.layer, fn |-> c.fn, t |-> c.t, cl |-> cl]))
TFail(n, c) == PrintT(ToJson([tag |-> "T-FAIL", i |-> n, layer |-> c.layer, fn |-> c.fn, t |-> c.t]))
ReportS(n, e) ==
  /\ \A cl \in S_Fails(e.c, e.u) : PFail(n, e.c, cl)
  /\ (~S_OracleOK(e.c, e.b) => PrintT(ToJson([tag |-> "ORACLE", i |-> n, fn |-> e.c.fn, t |-> e.c.t])))
  /\ (~S_T(e.c, e.u) => TFail(n, e.c))
ReportC(n, e) ==
  /\ \A cl \in C_Fails(e.c, e.o) : PFail(n, e.c, cl)
  /\ (~C_T(e.c, e.o, Fixes) => TFail(n, e.c))
Next == /\ i <= Len(Obs)
        /\ IF Obs[i].c.layer = "S" THEN ReportS(i, Obs[i]) ELSE ReportC(i, Obs[i])
        /\ i' = i + 1
=============================================================================
