CONSTANTS
  RowMod = 1
  RowSel = 0
INIT Init
NEXT Next
INVARIANT Export
CHECK_DEADLOCK FALSE
