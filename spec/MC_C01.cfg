CONSTANTS
  TableUnits <- NoTable
  Units = {"la","lb","ta","nd","pc","K","degC","delta_degC"}
  ConvUnits = {"la","lb","ta","nd","pc","K","degC","delta_degC","C","statC"}
  UKinds0 = {"q","a","az","bs","ba","z","za","lq","ts","tm","nz","tq","lzq","lbq","lqb","tlqm","lqm3"}
  UKinds1 = {"q","a","az","bs","ba","bl","z","za","lq","lqm","ts","tm","nz","tq","lzq","lbq","lqb","tlqm","lqm3"}
  UfOps = {"add","subtract","less","equal","maximum","hypot","divmod","multiply"}
  Forms = {"call","outer","operator","iop","out","at","reduce_initial"}
  ArrFns = {"concatenate","where","clip","copyto_where"}
  Fams = {"ufunc","arrfn","setitem","conv","unitop","hist","der"}
  SpUnits = {"la","K"}
  Hists = {"modify","readd","tworeg"}
  HUnits = {"la","lb","ta"}
  ArrForms = {"call","kw","kwall","out","kwout","lo","hi","kwlo","kwhi","alias","aliaslo","aliashi","aliasout","method","methodkw","methodlo","methodhi"}
  AliasOps = {"clip"}
  DlUnits = {"pc","nq","lr"}
  DerUnits = {"la^1/3","la^33/100","la^4/3","la^2/3","la^1/2","la^2/1","la^-1/1","la^1/1.ta^-1/1","la^-1/1.ta^1/1"}
  DHists = {"computed"}
  DArrFns = {"concatenate","where","clip","insert","putmask","isclose","searchsorted","array_equal","linspace","union1d"}
  DepthForms = {}
INIT Init
NEXT NextAll
INVARIANT Export
INVARIANT Uncovered
CHECK_DEADLOCK FALSE
