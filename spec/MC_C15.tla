------------------------------ MODULE MC_C15 ------------------------------
(* Bounded instance of Constants for C15: a single-step case table.  TLC     *)
(* enumerates every case                                                     *)
(*   guise : exported name x guise (plain, _mks, _cgs) x configuration x     *)
(*           comparison route (raw magnitude, .to(), in_base, cgs round      *)
(*           trip, ==, value ratio _cgs/_mks, the shown number re-entered    *)
(*           with the shown unit text, the tabulated guise / the guise       *)
(*           itself converted to the shown unit, the default constant        *)
(*           expressed in the configuration's unit system)                   *)
(*   rel   : defining relation x configuration x guise family                *)
(*   unit  : name that is also a unit name x configuration                   *)
(*   lit   : reference quantity (literature value, uncertainty class)        *)
(* evaluates the table-level clauses (dimension of each unit string,         *)
(* homogeneity of each relation by exponent-vector arithmetic, alias sets)   *)
(* and the transition's prediction, and exports one CASE record per case.    *)
EXTENDS Constants
CONSTANT CfgSel           \* "all" | "core": which configurations (quick tier drops nothing unless told to)
VARIABLE c

NoCase == [kind |-> "init", a |-> 0, g |-> "", cfg |-> 0, route |-> ""]
SelCfg == IF CfgSel = "all" THEN CfgIdx ELSE {k \in CfgIdx : Cfgs[k].core}
AllRoutes == {"raw", "to", "base", "cgsmks", "eq", "ratio", "shown", "tosys", "idem", "defbase"}
RoutesOf(g) == CASE g = "cgs" -> AllRoutes \ {"defbase"}
                 [] g = "mks" -> AllRoutes \ {"defbase", "ratio"}
                 [] OTHER -> AllRoutes \ {"ratio"}
\* the _mks / _cgs guises are built without the unit system: in the TLC-generated unit-system configurations only the
\* plain guise depends on the system (the other guises are covered by the registry configurations)
GuisesOf(k) == IF Cfgs[k].gensys THEN {"plain"} ELSE Guises
UnitNames == {n \in NameIdx : Names[n].isunit}
RelGuises(r) == IF Rels[r].form = "gauss" THEN {"cgs"} ELSE {"plain", "mks"}
Cases ==
  {[kind |-> "guise", a |-> n, g |-> g, cfg |-> k, route |-> rt] : n \in NameIdx, g \in Guises, k \in SelCfg, rt \in AllRoutes}
  \cup {[kind |-> "rel", a |-> r, g |-> g, cfg |-> k, route |-> "rel"] : r \in RelIdx, g \in Guises, k \in SelCfg}
  \cup {[kind |-> "unit", a |-> n, g |-> "plain", cfg |-> k, route |-> "unit"] : n \in UnitNames, k \in SelCfg}
  \cup {[kind |-> "lit", a |-> q, g |-> "plain", cfg |-> 1, route |-> "lit"] : q \in QIdx}
\* the TLC-generated edited registries (thorough tier) are compared through a representative subset of the routes
CfgRoutes(k) == IF Cfgs[k].genmod THEN {"raw", "to", "cgsmks", "eq", "shown", "tosys"} ELSE AllRoutes
Wanted(k) == CASE k.kind = "guise" -> k.route \in RoutesOf(k.g) \cap CfgRoutes(k.cfg) /\ (Bare(k.a) => (k.g = "plain" /\ k.route # "defbase")) /\ k.g \in GuisesOf(k.cfg)
               [] k.kind = "rel" -> k.g \in RelGuises(k.a) /\ k.g \in GuisesOf(k.cfg)
               [] OTHER -> TRUE

Init == c = NoCase
Next == c = NoCase /\ \E k \in Cases : Wanted(k) /\ c' = k
Spec == Init /\ [][Next]_c

\* the transition's prediction for a guise case (exported for the evidence; Trace_C15 recomputes it)
Model(k) == IF k.kind # "guise" THEN [present |-> TRUE, l2 |-> 0, gauss |-> FALSE]
            ELSE LET ci == RowOf(k.a) cur == Cfgs[k.cfg].cur IN
                 [present |-> ExpPresent(ci, k.g), l2 |-> ExpL2(ci, k.cfg), gauss |-> ExpDim(ci, k.g, cur) # RowDim(ci)]
Export == c # NoCase => PrintT(ToJson([tag |-> "CASE", kind |-> c.kind, a |-> c.a, g |-> c.g, cfg |-> c.cfg, route |-> c.route, m |-> Model(c)]))

TFail(clause, a) == PrintT(ToJson([tag |-> "TABLE-FAIL", clause |-> clause, a |-> a]))
\* table-level clauses, decided here (no observation needed)
Tables ==
  c = NoCase =>
    /\ \A n \in NameIdx : /\ (C15_RowDim(n) \/ TFail("RowDim", n))
                          /\ (C15_AliasRow(n) \/ TFail("AliasRow", n))
                          /\ (C15_NameUnique(n) \/ TFail("NameUnique", n))
    /\ \A r \in RelIdx : /\ (C15_RelHomog(r) \/ TFail("RelHomog", r))
                         /\ (RefRelHomog(r) \/ TFail("RefRelHomog", r))
                         /\ (RelExported(Rels[r]) \/ TFail("RelNotExported", r))
=============================================================================
