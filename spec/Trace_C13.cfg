CONSTANTS
  MaxRegs = 2
INIT TraceInit
NEXT TraceNext
CHECK_DEADLOCK FALSE
