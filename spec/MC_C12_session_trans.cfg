CONSTANTS
  Alias = FALSE
  MaxObj = 3
  PreKind = 1
  MaxLen = 5
  ExportLen = 5
INIT SInit
NEXT SNext
VIEW SView
ACTION_CONSTRAINT ExportTrans
PROPERTY ModelProps
INVARIANT ReportKeep
CHECK_DEADLOCK FALSE
