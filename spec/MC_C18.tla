------------------------------ MODULE MC_C18 ------------------------------
(* Bounded instances of Frame for C18.                                       *)
(*   Init picks an object-graph configuration (dtypes and units of A/V, B,   *)
(*   Q, C) from the constant sets; Next applies any enabled call of the      *)
(*   catalogue (success or fault decided by Frame!Apply) up to MaxLen calls. *)
(*   Every history of length ExportLen is exported (cfg, calls, and the      *)
(*   model-level verdict of the C18 predicates on the last step).            *)
(*   MC_C18_step.cfg : MaxLen = 1, all configurations x all calls            *)
(*   MC_C18_hist.cfg : multi-step histories: NEXT Next = all histories over  *)
(*                     the alphabet OpSet; NEXT NextRnd = Fan randomly chosen *)
(*                     enabled calls per state (seeded), full alphabet        *)
EXTENDS Frame, Json, SequencesExt
CONSTANTS MaxLen, ExportLen, DtAs, UAs, UBs, UQs, DtCs, DtBs, OpSet, OpSet2, FocusR, Fan, Seed, ValSet

VARIABLES cfg, st, hist, mv, hh
vars == <<cfg, st, hist, mv, hh>>

\* value classes (ValSet): "p2" powers of two - every float result is exact, T predicts the numbers;
\* "wide" numbers that need more significant bits than the float type of their own item size holds once they are scaled
\* or shifted (small readings for the non-dyadic scales, integers beyond the significand for the dyadic ones): every
\* rounding step of a conversion route is visible, so two routes that round in a different order or type differ
\* (in no particular order: a call that sorts or partitions its input in place is visible)
WideOf(dt) == CASE SizeOf(dt) = 8 -> <<1000003, 37, 2147483629, 123456789>>
                [] SizeOf(dt) = 4 -> <<16777219, 37, 123456789, 1000003>>
                [] SizeOf(dt) = 2 -> <<2051, 37, 32001, 12345>>
                [] OTHER -> <<100, 3, 127, 37>>
InitNums(c) ==
  IF c.vals = "wide"
  THEN LET a == WideOf(c.dtA) b == WideOf(c.dtB) cc == WideOf(c.dtC) IN
       [A |-> a, B |-> <<b[3], b[1]>>, Q |-> <<451>>, C |-> <<cc[3], cc[2]>>]
  ELSE [A |-> <<1, 2, 4, 8>>, B |-> <<2, 4>>, Q |-> <<2>>, C |-> <<16, 32>>]
RSeq(s) == [i \in DOMAIN s |-> R(s[i])]
InitState(c) ==
  LET iv == InitNums(c) IN
  [o \in Slots |->
     CASE o = "A" -> Obj("A", c.dtA, UnitOf(c.uA), RSeq(iv.A))
       [] o = "V" -> Obj("A", c.dtA, UnitOf(c.uA), RSeq(SubSeq(iv.A, 2, 3)))
       [] o = "B" -> Obj("A", c.dtB, UnitOf(c.uB), RSeq(iv.B))
       [] o = "Q" -> Obj("Q", "f8", UnitOf(c.uQ), RSeq(iv.Q))
       [] o = "C" -> Obj("A", c.dtC, UnitOf("ta"), RSeq(iv.C))
       [] o = "R" -> Dead
       [] o = "U1" -> Obj("U", "", UnitOf("lb"), <<>>)
       [] o = "U2" -> Obj("U", "", U(DimL, <<1, 8>>, RZero, "la**2/lb"), <<>>)]

Configs == {[dtA |-> a, uA |-> ua, dtB |-> b, uB |-> ub, uQ |-> uq, dtC |-> dc, vals |-> v] :
              a \in DtAs, ua \in UAs, b \in DtBs, ub \in UBs, uq \in UQs, dc \in DtCs, v \in ValSet}

XS == ArrSlots
YS == ArrSlots \cup {"two"}
Outs == {"C", "V", "R"}
\* (instances of the "wide" value class convert among the real scales of the default table as well)
ConvTargets == IF "wide" \in ValSet THEN {"K", "oc", "dC", "dF", "Rk", "km", "mi", "bad"} ELSE {"la", "lb", "ta", "K", "oc", "bad"}
EquivArgs == {<<"J", "thermal">>, <<"Hz", "spectral">>, <<"la", "nosuch">>, <<"J", "nosuch">>, <<"K", "spectral">>}
BinFs == {"add", "sub", "mul", "div", "pow", "lt", "eq"}
IopFs == {"add", "sub", "mul", "div", "pow"}
UnFs == {"negative", "square"}
USlots == {"U1", "U2"}
\* generic copying families: every binary ufunc family, in every form, both operand orders (x, y range over the same
\* objects; the configurations put la and lb on either side)
GX == {"A", "V", "B", "Q"}
GY == GX \cup {"two"}
GUfuncs == {"add", "subtract", "multiply", "true_divide", "floor_divide", "remainder", "fmod", "divmod", "power", "maximum",
            "minimum", "fmax", "fmin", "hypot", "arctan2", "copysign", "less", "less_equal", "greater", "greater_equal",
            "equal", "not_equal"}
GOperators == {"add", "subtract", "multiply", "true_divide", "floor_divide", "remainder", "divmod", "power", "less",
               "less_equal", "greater", "greater_equal", "equal", "not_equal"}
GUnary == {"negative", "absolute", "sqrt", "square", "reciprocal", "sign", "floor", "ceil", "rint", "exp", "sin", "isfinite", "cbrt", "positive"}
GArrFns == {"concatenate", "stack", "vstack", "hstack", "where", "clip", "isclose", "allclose", "array_equal", "array_equiv",
            "intersect1d", "union1d", "setdiff1d", "isin", "searchsorted", "append", "insert", "dot", "inner", "outer", "kron",
            "interp", "allclose_units", "linspace", "select", "copyto_new"}
\* generic in-place family: out= forms (binary / unary in the operands), forms whose target is x
GOut2 == {"dot", "outer", "concatenate", "stack", "choose", "clip", "einsum", "m_dot", "m_clip", "uf_add", "uf_mul", "uf_outer", "uf_hypot"}
GOrder == {"sort", "partition", "argpartition", "argsort", "m_argsort", "median", "nanmedian", "percentile", "quantile", "nanpercentile",
           "nanquantile", "unique", "nanmax", "nansum"}
GOut1 == {"uf_mul_reduce_k", "uf_div_reduce_k", "uf_add_reduce_k", "m_prod_k", "m_sum_k", "uf_mul_accumulate", "m_cumprod", "around", "take", "m_take", "cumsum", "m_cumsum", "m_round", "sum", "m_sum", "mean", "prod", "cumprod", "max", "uf_reduce", "uf_accumulate", "uf_negative", "uf_sqrt"}
GOutVariants2 == {<<"choose", "oob">>, <<"uf_add", "castno">>, <<"uf_add", "where">>, <<"uf_add", "tuple2">>, <<"uf_mul", "castno">>, <<"dot", "kw">>}
GOutVariants1 == {<<"take", "oob">>, <<"m_take", "oob">>, <<"uf_negative", "tuple2">>, <<"uf_reduce", "axis9">>, <<"cumsum", "axis9">>}
GInX == {"setitem_oob", "setitem_fancy_oob", "setitem_fancy", "setitem_mask_bad", "setitem_slice_shape", "put_oob", "m_put", "m_put_oob", "place", "place_badmask",
         "putmask_badmask", "put_along_axis", "put_along_axis_oob", "fill_diagonal_1d", "copyto_castno", "copyto_where", "copyto_where_bad",
         "m_fill", "uf_at", "uf_at_oob"}
GInX1 == {"m_sort", "m_sort_axis9", "convert_to_base", "convert_to_cgs"}
GOutTargets == {"C", "V", "A"}
GMethods == {"sum", "mean", "std", "var", "min", "max", "prod", "cumsum", "cumprod", "round", "argsort", "sort", "ptp", "diff",
             "median", "tolist", "astype", "flatten", "unit_array", "to_ndarray", "str"}

Catalogue ==
  {Call(op, "", x, "", "", u, "") : op \in {"in_units", "to", "to_value", "convert_to_units"}, x \in XS, u \in ConvTargets}
  \cup {Call(op, "", x, "", "", "", "") : op \in {"in_base", "in_cgs", "in_mks", "convert_to_base", "convert_to_cgs",
                                                 "convert_to_mks", "copy", "units_simplify"}, x \in XS}
  \cup {Call(op, "", x, "", "", ue[1], ue[2]) : op \in {"to_equivalent", "convert_to_equivalent"}, x \in XS, ue \in EquivArgs}
  \cup {Call("binop", f, x, y, "", "", "") : f \in IopFs, x \in XS, y \in YS}
  \cup {Call("ufunc", f, x, y, "", "", "") : f \in BinFs, x \in XS, y \in YS}
  \cup {Call("iop", f, x, y, "", "", "") : f \in IopFs, x \in XS, y \in YS}
  \cup {Call("ufunc_out", f, x, y, o, "", "") : f \in BinFs, x \in XS, y \in YS, o \in Outs}
  \cup {Call("unary", f, x, "", "", "", "") : f \in UnFs, x \in XS}
  \cup {Call("unary_out", f, x, "", o, "", "") : f \in UnFs, x \in XS, o \in Outs}
  \cup {Call(op, "", x, y, "", "", "") : op \in {"setitem0", "setitemall", "put", "putmask", "fill_diagonal", "clip"}, x \in XS, y \in YS}
  \cup {Call(op, "", x, y, "", "", "") : op \in {"copyto", "concatenate", "dot"}, x \in XS, y \in ArrSlots}
  \cup {Call(op, "", x, y, "", "", "") : op \in {"umul", "udiv"}, x \in USlots, y \in USlots}
  \cup {Call("aunit", f, x, y, "", "", "") : f \in {"mul", "rmul", "div", "rdiv"}, x \in XS, y \in USlots}
  \cup {Call("upow", "", x, y, "", "", "") : x \in USlots, y \in {"two", "Q"}}
  \cup {Call(op, "", x, "", "", "", "") : op \in {"ubase", "ucoeff", "ucopy", "usimplify"}, x \in USlots}
  \cup {Call("gufunc", f, x, y, "", "", e) : f \in GUfuncs, x \in GX, y \in GY, e \in {"call", "outer"}}
  \cup {Call("gufunc", f, x, y, "", "", "op") : f \in GOperators, x \in GX, y \in GY}
  \cup {Call("gufunc", f, x, "", "", "", e) : f \in GUfuncs, x \in GX, e \in {"reduce", "accumulate"}}
  \cup {Call("gunary", f, x, "", "", "", "") : f \in GUnary, x \in GX}
  \cup {Call("garrfn", f, x, y, "", "", "") : f \in GArrFns, x \in GX, y \in GY}
  \cup {Call("gmethod", f, x, "", "", "", "") : f \in GMethods, x \in GX}
  \cup {Call("gorder", f, x, "", "", "", "") : f \in GOrder, x \in GX}
  \cup {Call("gin", f, x, y, o, "", e) : f \in GOut2, x \in GX, y \in GX, o \in GOutTargets, e \in {"ok", "ro"}}
  \cup {Call("gin", fe[1], x, y, o, "", fe[2]) : fe \in GOutVariants2, x \in GX, y \in GX, o \in GOutTargets}
  \cup {Call("gin", f, x, "", o, "", e) : f \in GOut1, x \in GX, o \in GOutTargets, e \in {"ok", "ro"}}
  \cup {Call("gin", fe[1], x, "", o, "", fe[2]) : fe \in GOutVariants1, x \in GX, o \in GOutTargets}
  \cup {Call("gin", f, x, y, "", "", e) : f \in GInX, x \in GX \ {"Q"}, y \in GY, e \in {"ok", "ro"}}
  \cup {Call("gin", f, x, "", "", "", e) : f \in GInX1, x \in GX \ {"Q"}, e \in {"ok", "ro"}}

\* OpSet restricts the first call, OpSet2 the later ones ({} = no restriction); FocusR: later calls are in-place
\* calls whose target is R, the result of the previous copying call (does a "new object" share memory with an input?)
Offered1 == IF OpSet = {} THEN Catalogue ELSE {c \in Catalogue : c.op \in OpSet}
Offered2 == {c \in (IF OpSet2 = {} THEN Catalogue ELSE {d \in Catalogue : d.op \in OpSet2}) : FocusR => (IsInplace(c) /\ Target(c) = "R")}
Offered == IF hist = <<>> THEN Offered1 ELSE Offered2

\* the result of a copying call becomes the new R when it is an array or a quantity
After(S, r) == IF r.res.k \in {"A", "Q"} THEN [r.S EXCEPT !["R"] = r.res] ELSE r.S

Step(c) ==
  /\ LET r == Apply(st, c) IN
       /\ st' = After(st, r)
       /\ mv' = FailedClauses(st, r.S, c, r.ex, IF IsInplace(c) /\ ~r.ex THEN ModelTwin(st, c) ELSE [ex |-> FALSE, n |-> <<>>, npw |-> FALSE])
  /\ hist' = Append(hist, c)
  /\ cfg' = cfg

Init == /\ cfg \in Configs /\ st = InitState(cfg) /\ hist = <<>> /\ mv = {} /\ hh = 0
Next == Len(hist) < MaxLen /\ hh' = 0 /\ \E c \in Offered : Enabled(st, c) /\ Step(c)
\* deterministic pseudo-random thinning for deep histories over the full alphabet: the offered calls are put in TLC's
\* (deterministic) set order; call number i is offered in a state iff a hash of (i, history hash, configuration, Seed)
\* hits 0 modulo Kmod - about Fan calls per state.  Seed comes from VERIF_SEED.
OffSeq1 == SetToSeq(Offered1)
OffSeq2 == SetToSeq(Offered2)
OffSeq == IF hist = <<>> THEN OffSeq1 ELSE OffSeq2
Kmod == IF Len(OffSeq) \div Fan < 1 THEN 1 ELSE Len(OffSeq) \div Fan
CfgHash == Len(cfg.dtA) + (IF cfg.dtA = "f8" THEN 3 ELSE IF cfg.dtA = "i8" THEN 5 ELSE 7) + (IF cfg.uA = "la" THEN 11 ELSE IF cfg.uA = "oc" THEN 13 ELSE 17)
           + (IF cfg.uB = "lb" THEN 19 ELSE IF cfg.uB = "K" THEN 23 ELSE 29) + (IF cfg.dtB = "f8" THEN 31 ELSE 37)
Pick(i) == ((i * 7919 + hh * 131 + CfgHash * 1009 + (Seed % 1000) * 17) % Kmod) = 0
NextRnd == /\ Len(hist) < MaxLen
           /\ \E i \in 1..Len(OffSeq) :
                /\ Pick(i)
                /\ Enabled(st, OffSeq[i])
                /\ Step(OffSeq[i])
                /\ hh' = (hh * 31 + i) % 1000003
Spec == Init /\ [][Next]_vars

Export == Len(hist) = ExportLen => PrintT(ToJson([tag |-> "HIST", cfg |-> cfg, iv |-> InitNums(cfg), h |-> hist, mv |-> mv]))
=============================================================================
