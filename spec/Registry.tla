----------------------------- MODULE Registry -----------------------------
(* One unit registry as unyt keeps it: the symbol table (`lut`), the          *)
(* per-registry string -> Unit memo (`ucache`) and the reference view `user`  *)
(* (what the caller put in).  Transitions are transcribed from                *)
(* unyt/unit_registry.py (add / modify / remove / __contains__ /              *)
(* _lookup_unit_symbol), unyt/unit_object.py (Unit.__new__ with the string    *)
(* memo, define_unit) - same branch order, same memo writes.  The C12         *)
(* predicates at the bottom only say what the property says.                  *)
(*                                                                            *)
(* Alphabet: user symbols foo, qux; every string that can become a key of     *)
(* the table (the symbols and their kilo-prefixed forms); seven probe strings *)
(* (atomic, prefixed, power, product, quotient).  The registry also holds     *)
(* unyt's default symbols (needed by define_unit); they are not modelled -    *)
(* none of them collides with the alphabet.                                   *)
EXTENDS Rational, Sequences, FiniteSets, TLC, Json

\* Two alphabets, selected by the constant Alias (set in the cfg):
\*   FALSE  two user symbols foo, qux (absent at first)
\*   TRUE   user symbol foo and the library's own symbol "s" (present from the start in a registry built with
\*          the defaults: scale 1, prefixable, time); its probes are written with the ALIAS spellings the tokenizer
\*          maps to table symbols ("second" -> s, "kilosecond" -> ks), so the memo key does not mention the symbol
CONSTANT Alias
Sym2 == IF Alias THEN "s" ELSE "qux"
K2 == IF Alias THEN "ks" ELSE "kqux"
Syms == {"foo", Sym2}
Keys == {"foo", Sym2, "kfoo", K2}
KeySeq == <<"foo", Sym2, "kfoo", K2>>
Base(k) == IF k = "kfoo" THEN "foo" ELSE IF k = K2 THEN Sym2 ELSE k
IsPrefixed(k) == k \in {"kfoo", K2}
Scales == {2, 4}
Dims == {"L", "T"}
DimVec(d) == IF d = "L" THEN <<1, 0>> ELSE <<0, 1>>
DAdd(a, b) == <<a[1] + b[1], a[2] + b[2]>>
DSub(a, b) == <<a[1] - b[1], a[2] - b[2]>>
ProbeSeq == IF Alias THEN <<"foo", "second", "kfoo", "kilosecond", "s", "foo*second", "kfoo/second">>
            ELSE <<"foo", "qux", "kfoo", "kqux", "foo**2", "foo*qux", "kfoo/qux">>
Probes == {ProbeSeq[i] : i \in DOMAIN ProbeSeq}
\* shape of a probe string: how the table symbols it mentions (after alias mapping) combine
ProbeOp(p) == CASE p = "foo**2" -> "sq"
                [] p \in {"foo*qux", "foo*second"} -> "mul"
                [] p \in {"kfoo/qux", "kfoo/second"} -> "div"
                [] OTHER -> "id"
Atoms(p) == CASE p = "foo**2" -> <<"foo">>
              [] p = "foo*qux" -> <<"foo", "qux">>
              [] p = "kfoo/qux" -> <<"kfoo", "qux">>
              [] p = "second" -> <<"s">>
              [] p = "kilosecond" -> <<"ks">>
              [] p = "foo*second" -> <<"foo", "s">>
              [] p = "kfoo/second" -> <<"kfoo", "s">>
              [] OTHER -> <<p>>
ProbeKind(p) == IF ProbeOp(p) # "id" THEN "compound" ELSE IF IsPrefixed(Atoms(p)[1]) THEN "prefixed" ELSE "atomic"
\* does the memo key mention the table symbol literally? (alias spellings do not)
Spelling(p) == IF p \in {"second", "kilosecond", "foo*second", "kfoo/second"} THEN "alias" ELSE "symbol"
Absent == [scale |-> 0, pfx |-> FALSE, dim |-> "L"]
None == [k |-> "none"]

VARIABLES user,    \* reference view: symbol -> entry | Absent (what the caller put in)
          lut,     \* the dict as the code keeps it, incl. derived prefixed rows
          ucache,  \* probe string -> resolved unit | None   (registry._unit_object_cache)
          edit,    \* observation only: symbol -> kind of the last edit that touched it
          hist,    \* observation only: the calls made so far
          last     \* result of the last call
vars == <<user, lut, ucache, edit, hist, last>>

(* ---- reference resolution: what a fresh registry holding `t` resolves ---- *)
RefAtom(t, a) ==
  IF t[a].scale # 0 THEN [ok |-> TRUE, s |-> R(t[a].scale), d |-> DimVec(t[a].dim)]
  ELSE IF IsPrefixed(a) /\ t[Base(a)].scale # 0 /\ t[Base(a)].pfx
       THEN [ok |-> TRUE, s |-> R(1000 * t[Base(a)].scale), d |-> DimVec(t[Base(a)].dim)]
       ELSE [ok |-> FALSE, s |-> RZero, d |-> <<0, 0>>]
CombineS(p, v) == CASE ProbeOp(p) = "sq" -> RMul(v[1], v[1])
                    [] ProbeOp(p) = "mul" -> RMul(v[1], v[2])
                    [] ProbeOp(p) = "div" -> RDiv(v[1], v[2])
                    [] OTHER -> v[1]
CombineD(p, v) == CASE ProbeOp(p) = "sq" -> DAdd(v[1], v[1])
                    [] ProbeOp(p) = "mul" -> DAdd(v[1], v[2])
                    [] ProbeOp(p) = "div" -> DSub(v[1], v[2])
                    [] OTHER -> v[1]
RefResolve(t, p) ==
  LET as == Atoms(p)
      rs == [i \in DOMAIN as |-> RefAtom(t, as[i])] IN
  IF \A i \in DOMAIN rs : rs[i].ok
  THEN [k |-> "unit", s |-> CombineS(p, [i \in DOMAIN rs |-> rs[i].s]), d |-> CombineD(p, [i \in DOMAIN rs |-> rs[i].d])]
  ELSE [k |-> "raise"]

(* ---- implementation-shaped look-up with write-back (_lookup_unit_symbol) ---- *)
ImplAtomOk(l, a) == l[a].scale # 0 \/ (IsPrefixed(a) /\ l[Base(a)].scale # 0 /\ l[Base(a)].pfx)
ImplRow(l, a) == IF l[a].scale # 0 THEN l[a]
                 ELSE [scale |-> 1000 * l[Base(a)].scale, pfx |-> FALSE, dim |-> l[Base(a)].dim]
\* atoms are visited left to right, derived rows are written back as they are met; stop at the first failure
RECURSIVE Eval(_, _, _, _, _)
Eval(l, as, i, accS, accD) ==
  IF i > Len(as) THEN [ok |-> TRUE, l |-> l, s |-> accS, d |-> accD]
  ELSE IF ~ImplAtomOk(l, as[i]) THEN [ok |-> FALSE, l |-> l, s |-> accS, d |-> accD]
  ELSE LET row == ImplRow(l, as[i])
           l2 == IF l[as[i]].scale = 0 THEN [l EXCEPT ![as[i]] = row] ELSE l
       IN Eval(l2, as, i + 1, Append(accS, R(row.scale)), Append(accD, DimVec(row.dim)))

\* a registry built with the library's defaults already holds "s" (alphabet Alias)
Default(k) == IF Alias /\ k = "s" THEN [scale |-> 1, pfx |-> TRUE, dim |-> "T"] ELSE Absent
InitTable == [k \in Keys |-> Default(k)]
Init == /\ user = InitTable
        /\ lut = InitTable
        /\ ucache = [p \in Probes |-> None]
        /\ edit = [s \in Keys |-> "none"]
        /\ hist = <<>>
        /\ last = None
Log(e) == hist' = Append(hist, e)
Ok == [k |-> "ok"]
Raise == [k |-> "raise"]

(* UnitRegistry.add : writes the row, resets the unit-system id and (since the *)
(* fix: commit recorded in known_findings.jsonl) drops the whole string memo   *)
NoCache == [p \in Probes |-> None]
DoAdd(s, sc, px, d) ==
  /\ user' = [user EXCEPT ![s] = [scale |-> sc, pfx |-> px, dim |-> d]]
  /\ lut' = [lut EXCEPT ![s] = [scale |-> sc, pfx |-> px, dim |-> d]]
  /\ edit' = [edit EXCEPT ![s] = IF user[s].scale # 0 \/ edit[s] # "none" THEN "readd" ELSE "add"]
  /\ ucache' = NoCache
Add(s, sc, px, d) ==
  /\ Log([op |-> "add", sym |-> s, scale |-> sc, pfx |-> px, dim |-> d])
  /\ DoAdd(s, sc, px, d) /\ last' = Ok

(* UnitRegistry.modify(symbol, float) / modify(symbol, quantity) *)
ModifyCore(s, sc, d) ==
  IF lut[s].scale = 0 THEN /\ last' = Raise /\ UNCHANGED <<user, lut, ucache, edit>>
  ELSE /\ lut' = [lut EXCEPT ![s].scale = sc, ![s].dim = d]
       /\ user' = IF user[s].scale # 0 THEN [user EXCEPT ![s].scale = sc, ![s].dim = d]
                  ELSE [user EXCEPT ![s] = [scale |-> sc, pfx |-> FALSE, dim |-> d]]
                  \* modifying a derived prefixed row makes it a row of its own from the caller's view
       /\ ucache' = NoCache
       /\ edit' = [edit EXCEPT ![s] = "modify"]
       /\ last' = Ok
Modify(s, sc) ==
  /\ Log([op |-> "modify", sym |-> s, scale |-> sc])
  /\ ModifyCore(s, sc, lut[s].dim)
ModifyQ(s, sc, d) ==
  /\ Log([op |-> "modifyq", sym |-> s, scale |-> sc, dim |-> d])
  /\ ModifyCore(s, sc, d)

(* UnitRegistry.remove *)
Remove(s) ==
  /\ Log([op |-> "remove", sym |-> s])
  /\ IF lut[s].scale = 0 THEN /\ last' = Raise /\ UNCHANGED <<user, lut, ucache, edit>>
     ELSE /\ lut' = [lut EXCEPT ![s] = Absent]
          /\ user' = [user EXCEPT ![s] = Absent]
          /\ ucache' = NoCache
          /\ edit' = [edit EXCEPT ![s] = "remove"]
          /\ last' = Ok

(* symbol in registry : table hit, else prefixed look-up WITH write-back *)
ContainsVal(l, k) == l[k].scale # 0 \/ ImplAtomOk(l, k)
ContainsLut(l, k) == IF l[k].scale = 0 /\ ImplAtomOk(l, k) THEN [l EXCEPT ![k] = ImplRow(l, k)] ELSE l
Contains(k) ==
  /\ Log([op |-> "contains", sym |-> k])
  /\ last' = [k |-> "bool", b |-> ContainsVal(lut, k)]
  /\ lut' = ContainsLut(lut, k)
  /\ UNCHANGED <<user, ucache, edit>>

(* define_unit(symbol, (value, "m"|"s"), prefixable=, registry=r) *)
DefineUnit(s, sc, px, d) ==
  /\ Log([op |-> "define", sym |-> s, scale |-> sc, pfx |-> px, dim |-> d])
  /\ IF ContainsVal(lut, s)
     THEN /\ last' = Raise /\ lut' = ContainsLut(lut, s) /\ UNCHANGED <<user, ucache, edit>>
     ELSE /\ DoAdd(s, sc, px, d) /\ last' = Ok

(* Unit(str, registry=r) : memo hit first, else evaluate atoms with write-back, then memoise *)
\* (ConstructAs: the same resolution reached through another public call - unyt_quantity(v, str, registry=r),
\*  x.to(str), x.convert_to_units(str) - logged under that call's own event; used by Session.tla)
ConstructAs(ev, p) ==
  /\ Log(ev)
  /\ UNCHANGED <<user, edit>>
  /\ IF ucache[p] # None THEN /\ last' = ucache[p] /\ UNCHANGED <<lut, ucache>>
     ELSE LET e == Eval(lut, Atoms(p), 1, <<>>, <<>>) IN
          /\ lut' = e.l
          /\ IF e.ok
             THEN LET u == [k |-> "unit", s |-> CombineS(p, e.s), d |-> CombineD(p, e.d)] IN
                  /\ ucache' = [ucache EXCEPT ![p] = u] /\ last' = u
             ELSE /\ last' = Raise /\ UNCHANGED ucache
Construct(p) == ConstructAs([op |-> "unit", str |-> p], p)

(* Calls that the property says cannot matter for later resolutions: printing, hashing or copying a Unit object that *)
(* already exists (str, repr, hash, copy(), copy(deep=True), pickle round trip of the unit).  In the specification    *)
(* they are stuttering steps - every behaviour with such steps inserted anywhere is again a behaviour - so the replay  *)
(* harness inserts all of them after every step of every history on every Unit created so far (impl_c12._stutter).     *)
Stutter == UNCHANGED vars

(* ---- C12 on the abstract state ---- *)
\* what Unit(p, registry=r) would return right now (no state change)
Peek(p) == IF ucache[p] # None THEN ucache[p]
           ELSE LET e == Eval(lut, Atoms(p), 1, <<>>, <<>>) IN
                IF e.ok THEN [k |-> "unit", s |-> CombineS(p, e.s), d |-> CombineD(p, e.d)] ELSE Raise
\* C12_Fresh: every string resolves as a fresh registry with the current contents would
FreshOk(p, observed) == observed = RefResolve(user, p)
C12_Fresh == \A p \in Probes : FreshOk(p, Peek(p))
\* classification of a stale probe: which memo layer answers, what edit made it stale
Layer(p) == IF ucache[p] # None THEN "ucache" ELSE "lutrow"
LastEdit(p) == LET as == Atoms(p)
                   es == {edit[Base(as[i])] : i \in DOMAIN as} \cup {edit[as[i]] : i \in DOMAIN as} IN
               IF "remove" \in es THEN "remove" ELSE IF "modify" \in es THEN "modify"
               ELSE IF "readd" \in es THEN "readd" ELSE IF "add" \in es THEN "add" ELSE "none"
=============================================================================
