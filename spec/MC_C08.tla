------------------------------- MODULE MC_C08 -------------------------------
(* Bounded single-step instance of Temperature for C08: TLC enumerates every  *)
(* case of the four families over the configured prefix sets, computes the    *)
(* implementation-shaped outcome, the property verdict on that outcome (the   *)
(* model-level counterexamples) and the candidate values, and exports them.   *)
(*   conv : ordered unit pair x entry point x shape x reading set             *)
(*   bin  : ordered unit pair x {add, subtract, max/min, comparisons} x form  *)
(*   red  : unit x {diff, ediff1d, ptp, gradient}                             *)
(*   ref  : unit x multiplicative/power operation x partner x form            *)
(*   chain: source unit x 2-3 conversion routes / arithmetic on the SAME      *)
(*          source object x shape x dtype                                     *)
EXTENDS Temperature
CONSTANTS ArithP,     \* prefixes of the arithmetic families (decimal exponents within 6 of each other)
          ConvSrcP,   \* prefixes of conversion sources
          ConvDstP,   \* prefixes of conversion targets
          ReadSets,   \* subset of {1, 2}
          Shapes,     \* subset of {"arr", "sc"}
          BinForms,   \* subset of {"operator", "ufunc", "inplace", "out"}
          BinOpSet,   \* subset of BinOps
          ConvVias,   \* subset of {"in_units", "to", "convert_to_units", "to_value", "in_base"}
          ChainP,     \* prefixes of chain sources (|decimal exponent| <= 3)
          ChainTgt,   \* names of explicit chain targets: subset of UnitsOver({"", "m", "k"})
          ChainDT,    \* subset of {"f8", "f4"}
          ChainLen3   \* BOOLEAN: also chains with a third step
VARIABLE c
Blank == U("", "")
Mk(fam, op, form, u0, u1, rs, shape, part) ==
  LET c0 == [fam |-> fam, op |-> op, form |-> form, u0 |-> u0, u1 |-> u1, rs |-> rs, shape |-> shape, part |-> part, chain |-> <<>>, dt |-> "f8"]
      t == Outcome(c0) IN
  [fam |-> fam, op |-> op, form |-> form, u0 |-> u0, u1 |-> u1, rs |-> rs, shape |-> shape, part |-> part, chain |-> <<>>, dt |-> "f8",
   x0 |-> X(c0, 0), x1 |-> X(c0, 1), t |-> t, cands |-> Cands(c0), mp |-> P(c0, t)]

\* conversions: a source with a different zero point needs its own decimal exponent explicitly, keep it within +-3
ConvOk(u, v) == AffSameZero(u, v) \/ TAbs(E10(u)) <= 3
ConvCase == \E u \in UnitsOver(ConvSrcP), v \in UnitsOver(ConvDstP), via \in ConvVias, rs \in ReadSets, sh \in Shapes :
              /\ ConvOk(u, v)
              /\ (via = "in_base" => v = U("K", ""))
              /\ c' = Mk("conv", "convert", via, u, v, rs, sh, "")
ArithOk(u, v, rs) == TAbs(E10(u) - E10(v)) <= ExpLim(rs)
BinCase == \E u \in UnitsOver(ArithP), v \in UnitsOver(ArithP), op \in BinOpSet, f \in BinForms, rs \in ReadSets, sh \in Shapes :
              /\ ArithOk(u, v, rs)
              /\ (f \in {"inplace", "out"} => sh = "arr" /\ op \in {"add", "subtract", "maximum", "minimum"})
              /\ c' = Mk("bin", op, f, u, v, rs, sh, "")
RedCase == \E u \in UnitsOver(ArithP), op \in RedOps, rs \in ReadSets :
              /\ TAbs(E10(u)) <= ExpLim(rs)
              /\ c' = Mk("red", op, "function", u, u, rs, "arr", "")
RefParts(op) == IF op \in {"dot", "matmul"} THEN {"self", "K"} ELSE {"self", "K", "m", "nd", "two"}
RefForms(op) == IF op \in {"multiply", "divide", "floor_divide"} THEN {"operator", "roperator", "ufunc", "rufunc", "inplace", "out"}
                ELSE IF op \in {"divmod", "dot", "matmul"} THEN {"function", "rfunction"}
                ELSE IF op \in {"pow2", "pow3", "powhalf", "powm1"} THEN {"operator", "inplace"}
                ELSE IF op \in {"prod_reduce", "prod", "prodmethod"} THEN {"function"}
                ELSE {"ufunc", "out"}
RefCase == \E u \in UnitsOver(ArithP), op \in RefBin \cup RefUn, sh \in Shapes :
             \E f \in RefForms(op), part \in (IF op \in RefBin THEN RefParts(op) ELSE {""}) :
              /\ (f \in {"inplace", "out"} \/ op \in {"dot", "matmul", "prod_reduce", "prod", "prodmethod"} => sh = "arr")
              /\ c' = Mk("ref", op, f, u, u, 1, sh, part)
\* chains: every conversion route first, then any route (or an in-place edit of the first result), optionally a third
MkChain(u, ch, rs, shape, dt) ==
  LET c0 == [fam |-> "chain", op |-> "chain", form |-> "method", u0 |-> u, u1 |-> Blank, rs |-> rs, shape |-> shape, part |-> "", chain |-> ch, dt |-> dt]
      t == Outcome(c0) IN
  [fam |-> "chain", op |-> "chain", form |-> "method", u0 |-> u, u1 |-> Blank, rs |-> rs, shape |-> shape, part |-> "", chain |-> ch, dt |-> dt,
   x0 |-> X(c0, 0), x1 |-> X(c0, 1), t |-> t, cands |-> Cands(c0), mp |-> P(c0, [steps |-> [i \in DOMAIN ch |-> t.steps[i] @@ [srcunit |-> u, srcv |-> X(c0, 0)]]])]
ChainTargets == {u \in UnitsOver({"", "m", "k"}) : UName(u) \in ChainTgt}
ConvSteps == {[r |-> r, v |-> v] : r \in ConvRoutesV, v \in ChainTargets} \cup {[r |-> r, v |-> Blank] : r \in ConvRoutesK \cup ConvRoutesR}
AddSteps == {[r |-> "add_diff", v |-> U("delta_degC", "")], [r |-> "add_diff", v |-> U("delta_degF", "")]}
PrevSteps == {[r |-> "prev_iadd", v |-> Blank]}
ThirdSteps == {[r |-> "to", v |-> U("degF", "")], [r |-> "in_mks", v |-> Blank], [r |-> "add_diff", v |-> U("delta_degF", "")]}
ChainCase == \E u \in UnitsOver(ChainP), s1 \in ConvSteps, s2 \in ConvSteps \cup AddSteps \cup PrevSteps, sh \in Shapes, dt \in ChainDT, rs \in ReadSets :
               /\ (dt = "f4" => sh = "arr")
               /\ \/ c' = MkChain(u, <<s1, s2>>, rs, sh, dt)
                  \/ (ChainLen3 /\ s1.v = Blank /\ \E s3 \in ThirdSteps : c' = MkChain(u, <<s1, s2, s3>>, rs, sh, dt))   \* third step after a base-unit route first
Init == c = <<>>
Next == c = <<>> /\ (ConvCase \/ BinCase \/ RedCase \/ RefCase \/ ChainCase)
Export == c # <<>> => PrintT(ToJson([tag |-> "CASE", c |-> c]))
=============================================================================
