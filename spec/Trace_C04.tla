----------------------------- MODULE Trace_C04 -----------------------------
(* Trace validation for C04.  Every event is ONE step observed in the real   *)
(* library (harness/impl_c04.py): the operation, the operand registers as    *)
(* they were observed right before the call (numbers as exact rationals,     *)
(* unit as exponent vector) and the observed result.  Events carry their     *)
(* arguments, so every step is judged from the real pre-state (a wrong step  *)
(* does not poison the judgement of later steps).  TLC evaluates             *)
(*   P  (Arith!PVerdict) : the C04 predicates on the observation             *)
(*   T  (Arith!TVerdict) : agreement with the transcription of               *)
(*                         __array_ufunc__                                   *)
(* and, for "reex" events, the product-machine clause: the same register of  *)
(* the two runs of a program (leaves re-expressed) is the same quantity.     *)
(*                                                                           *)
(* A number the harness could not encode (not within tolerance of any number *)
(* the specification expected, and not a 32-bit rational) arrives as <<0,0>>:*)
(* as a result it differs from every expected number; as an operand it makes *)
(* the step undecided.                                                       *)
(* Events are independent: the state space is a two-level tree (blocks of    *)
(* events) so that TLC workers judge events in parallel.                     *)
EXTENDS Arith, IOUtils
Events == JsonDeserialize(IOEnv.EVENTS)
BS == 100
N == Len(Events)
NB == (N + BS - 1) \div BS
VARIABLES lvl, i
tvars == <<lvl, i>>
TraceInit == lvl = 0 /\ i = 0
TraceNext == \/ lvl = 0 /\ \E b \in 1..NB : lvl' = 1 /\ i' = b
             \/ lvl = 1 /\ \E j \in ((i - 1) * BS + 1)..(IF i * BS < N THEN i * BS ELSE N) : lvl' = 2 /\ i' = j

Rep(X) == \A k \in DOMAIN X.v : X.v[k][2] # 0
Small(X) == \A k \in DOMAIN X.v : IAbs(X.v[k][1]) <= 100000000 /\ X.v[k][2] <= 100000000
Unary(e) == e.B.k = "x"
StepVerdicts(e) ==
  IF ~(Rep(e.A) /\ Rep(e.B) /\ Small(e.A) /\ Small(e.B)) THEN [p |-> "undecided", t |-> "undecided", why |-> "operand"]
  ELSE IF ~InClaim(e.op, e.meth, e.A, e.B) THEN [p |-> "outside", t |-> "outside", why |-> "claim"]
  \* integer operands whose raw ufunc result leaves the range of their type: NumPy's wrap-around, not the units bookkeeping
  ELSE IF ~IntFits(e.op, e.meth, e.A, e.B, e.p) THEN [p |-> "outside", t |-> "outside", why |-> "intrange"]
  ELSE IF e.op \in Discontinuous /\ ~((e.A.ex /\ e.B.ex) \/ Robust(e.op, e.meth, e.A, e.B))
       THEN [p |-> "undecided", t |-> "undecided", why |-> "jump"]
  ELSE IF RadianRaw(e.op, e.A, e.B) THEN [p |-> "undecided", t |-> "undecided", why |-> "radian"]
  ELSE IF ~SignedZeroFree(e.op, e.A, e.B) THEN [p |-> "undecided", t |-> "undecided", why |-> "signedzero"]
  ELSE IF ~e.ucons THEN [p |-> "unitscale", t |-> "undecided", why |-> ""]
  ELSE [p |-> PVerdict(e.op, e.meth, e.A, e.B, e.p, e.R), t |-> TVerdict(e.op, e.meth, e.A, e.B, e.p, e.R), why |-> ""]

\* a power with a general exponent, judged in exponent space (Arith "powerx"); R = [bare, ue, dq, sv, lv, si]
RepQ(t) == \A k \in DOMAIN t : t[k][2] # 0
StepXVerdicts(e) ==
  IF ~(Rep(e.A) /\ Small(e.A)) THEN [p |-> "undecided", t |-> "undecided", why |-> "operand"]
  ELSE IF ~InClaimX(e.A, e.p) THEN [p |-> "outside", t |-> "outside", why |-> "claim"]
  ELSE IF ~DecidableX(e.A, e.p) THEN [p |-> "undecided", t |-> "undecided", why |-> "exponentspace"]
  ELSE IF ~e.ucons THEN [p |-> "unitscale", t |-> "undecided", why |-> ""]
  ELSE [p |-> PVerdictX(e.A, e.p, e.R), t |-> TVerdictX(e.A, e.p, e.R), why |-> ""]
\* product machine in exponent space: the same SI magnitudes and the same dimension in both runs
ReexXVerdict(e) ==
  IF e.A.dq # e.B.dq THEN "dim"
  ELSE IF Len(e.A.si) # Len(e.B.si) THEN "value"
  ELSE IF ~(\A k \in DOMAIN e.A.si : RepQ(e.A.si[k]) /\ RepQ(e.B.si[k])) THEN "undecided"
  ELSE IF e.A.si = e.B.si THEN "ok" ELSE "value"

\* product machine: register of run A and of run B are the same quantity
ReexVerdict(e) ==
  IF e.A.k # e.B.k THEN "kind"
  ELSE IF ~(Rep(e.A) /\ Rep(e.B) /\ Small(e.A) /\ Small(e.B)) THEN "undecided"
  ELSE IF DV(e.A.u) # DV(e.B.u) THEN "dim"
  ELSE LET c == PVRat(VSub(e.B.sv, e.A.sv))
           w == Map1(LAMBDA x : CMul(G(x), c), e.B.v) IN
       IF Len(e.A.v) # Len(e.B.v) THEN "value"
       ELSE IF ~AllOk(w) THEN "undecided"
       ELSE IF \A k \in DOMAIN w : w[k].v = e.A.v[k] THEN "ok" ELSE "value"

Judge ==
  lvl = 2 =>
    LET e == Events[i] IN
    IF e.kind = "step" THEN
      LET sv == StepVerdicts(e) IN
      IF sv.p = "ok" /\ sv.t = "ok" THEN TRUE
      ELSE PrintT(ToJson([tag |-> "V", idx |-> i, p |-> sv.p, t |-> sv.t, why |-> sv.why]))
    ELSE IF e.kind = "stepx" THEN
      LET sv == StepXVerdicts(e) IN
      IF sv.p = "ok" /\ sv.t = "ok" THEN TRUE
      ELSE PrintT(ToJson([tag |-> "V", idx |-> i, p |-> sv.p, t |-> sv.t, why |-> sv.why]))
    ELSE LET rv == IF e.kind = "reexx" THEN ReexXVerdict(e) ELSE ReexVerdict(e) IN
         IF rv = "ok" THEN TRUE ELSE PrintT(ToJson([tag |-> "X", idx |-> i, r |-> rv]))
=============================================================================
