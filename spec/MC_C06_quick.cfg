CONSTANTS
  Seeds = {1, 2}
  DTs = {"f", "i"}
  Fixes = {}
  Fams = {"compare", "join", "select", "arith", "order", "shape", "inplace"}
INIT Init
NEXT Next
INVARIANT Export
INVARIANT Defined
INVARIANT HandlerRefines
CHECK_DEADLOCK FALSE
