---------------------------- MODULE MC_C15_sys ----------------------------
(* Unit-system generator for C15: TLC enumerates user-defined unit systems   *)
(* over an alphabet of base units per base dimension (data/C15_reference:    *)
(* plain scale units, prefixed units, offset temperature units, quantities   *)
(* used as base units, angle units, "no current unit"); entry 1 of every     *)
(* alphabet is the SI default.                                               *)
(*   Single : exactly one base dimension carries a non-default base unit     *)
(*            (every alternative of every dimension)                         *)
(*   Combo  : the j-th alternative of every dimension at once (the last one  *)
(*            where a dimension has fewer), j = 2 .. longest alphabet        *)
(*   Pairs  : (Full = TRUE, thorough tier) two base dimensions carry a       *)
(*            non-default base unit, every combination                       *)
(* One SYS record per system: the index chosen for each dimension.           *)
EXTENDS Integers, Sequences, FiniteSets, TLC, Json, IOUtils
A == JsonDeserialize(IOEnv.SYS_DATA)     \* [n |-> <<number of alternatives per dimension, in the order length, mass, time, temperature, angle, current>>]
CONSTANT Full
VARIABLE c
Dims == DOMAIN A.n
Min(a, b) == IF a < b THEN a ELSE b
Longest == CHOOSE m \in {A.n[d] : d \in Dims} : \A d \in Dims : A.n[d] <= m
Single == {[d \in Dims |-> IF d = e THEN j ELSE 1] : e \in Dims, j \in 2..Longest}
Pairs == {[d \in Dims |-> IF d = e1 THEN j1 ELSE IF d = e2 THEN j2 ELSE 1] : e1 \in Dims, e2 \in Dims, j1 \in 2..Longest, j2 \in 2..Longest}
Combo == {[d \in Dims |-> Min(j, A.n[d])] : j \in 2..Longest}
Valid(f) == \A d \in Dims : f[d] <= A.n[d]
Space == {f \in Single \cup Combo \cup (IF Full THEN Pairs ELSE {}) : Valid(f)}
NoSys == [d \in Dims |-> 0]
Init == c = NoSys
Next == c = NoSys /\ \E f \in Space : c' = f
Export == c # NoSys => PrintT(ToJson([tag |-> "SYS", pick |-> c]))
=============================================================================
