------------------------------ MODULE Trace_C08 ------------------------------
(* Trace validation for C08: every record is one case of MC_C08 together with *)
(* what the real library did (result kind, exception class, label of the      *)
(* result, values as exact rationals at the case's decimal exponent).  For    *)
(* each record TLC evaluates the property predicate P on the observation and  *)
(* compares the observation with the implementation-shaped outcome (T).       *)
EXTENDS Temperature, IOUtils
Obs == JsonDeserialize(IOEnv.OBS)
VARIABLE i
TraceInit == i = 1
CaseOf(r) == [fam |-> r.c.fam, op |-> r.c.op, form |-> r.c.form, u0 |-> U(r.c.u0.base, r.c.u0.pfx), u1 |-> U(r.c.u1.base, r.c.u1.pfx),
              rs |-> r.c.rs, shape |-> r.c.shape, part |-> r.c.part, dt |-> r.c.dt,
              chain |-> [j \in DOMAIN r.c.chain |-> [r |-> r.c.chain[j].r, v |-> U(r.c.chain[j].v.base, r.c.chain[j].v.pfx)]]]
StepObs(o) == [k |-> o.k, exc |-> o.exc, unit |-> U(o.unit.base, o.unit.pfx), v |-> o.v, srcunit |-> U(o.srcunit.base, o.srcunit.pfx), srcv |-> o.srcv]
ObsOf(r) == IF r.c.fam = "chain" THEN [steps |-> [j \in DOMAIN r.obs.steps |-> StepObs(r.obs.steps[j])]]
            ELSE [k |-> r.obs.k, exc |-> r.obs.exc, unit |-> U(r.obs.unit.base, r.obs.unit.pfx), v |-> r.obs.v]
\* chains: the failing step (0 = none), its route and the routes before it
BadStep(cc, o) == IF cc.fam = "chain" THEN FirstBad(cc, o) ELSE 0
RouteName(s) == IF s.v.base = "" THEN s.r ELSE s.r \o ":" \o UName(s.v)
Describe(cc, o, clause) ==
  [i |-> i, clause |-> clause, fam |-> cc.fam, op |-> cc.op, form |-> cc.form, shape |-> cc.shape, part |-> cc.part,
   left |-> UName(cc.u0), right |-> UName(cc.u1), left_base |-> cc.u0.base, right_base |-> cc.u1.base,
   left_kind |-> Kind(cc.u0), right_kind |-> Kind(cc.u1), same_scale |-> SameScale(cc.u0, cc.u1),
   left_kelvin_sized |-> KelvinSized(cc.u0), observed |-> o, model |-> Outcome(cc), dt |-> cc.dt,
   step |-> BadStep(cc, o),
   route |-> IF BadStep(cc, o) = 0 THEN "" ELSE cc.chain[BadStep(cc, o)].r,
   routes |-> [j \in DOMAIN cc.chain |-> RouteName(cc.chain[j])]]
Step(r) ==
  LET cc == CaseOf(r)
      o == ObsOf(r)
      p == P(cc, o) IN
  /\ (p \notin {"", "undecided-label"} => PrintT(ToJson([tag |-> "P-FAIL"] @@ Describe(cc, o, p))))
  /\ (p = "undecided-label" => PrintT(ToJson([tag |-> "UNDECIDED"] @@ Describe(cc, o, p))))
  /\ (p = "" /\ ~TOk(cc, o) => PrintT(ToJson([tag |-> "T-FAIL"] @@ Describe(cc, o, p))))
TraceNext == i <= Len(Obs) /\ Step(Obs[i]) /\ i' = i + 1
=============================================================================
