------------------------------ MODULE MC_C14 ------------------------------
(* Bounded instance of Names for C14: a single-step case table.  TLC         *)
(* enumerates every case (prefix part x base string) of the selected domain, *)
(* evaluates the transition (Resolve) and the property predicates on the     *)
(* transition's own outcome (transitions => properties, "fails"), checks the *)
(* table-level clause C14_Unique and the SI prefix table, and exports one    *)
(* CASE record per case for replay in the real library.                      *)
(*   Domain = "names" : every base string, no prefix part (documented names, *)
(*                      attributes, symbols, listed alternatives)            *)
(*   Domain = "core"  : + prefix symbol / word / Title-case word  x  table   *)
(*                      symbols and listed alternatives (+ Title variants)   *)
(*   Domain = "wide"  : + prefix symbol / word  x  every generated name      *)
(*                      (prefix on top of an already prefixed name)          *)
EXTENDS Names
CONSTANT Domain
VARIABLE c

NoCase == [pk |-> "init", pi |-> 0, b |-> 0]
\* word / Title forms: one row per distinct word
WordRows == {j \in PrefIdx : \A k \in PrefIdx : PrefSeq[k].w = PrefSeq[j].w => k >= j}
CoreB == {b \in NameIdx : NameSeq[b].core}
GenB == {b \in NameIdx : NameSeq[b].gen}
\* the domain is cut into slices so that independent TLC runs can enumerate it concurrently:
\*   "names"                 : every base string, no prefix part
\*   "sym" / "word" / "title": prefix symbol / word / Title word  x  core spellings          ("core" = names + these three)
\*   "wsym" / "wword"        : prefix symbol / word  x  the other generated names             ("wide" = core + these two)
Slice(d) ==
  CASE d = "names" -> {[pk |-> "none", pi |-> 0, b |-> b] : b \in NameIdx}
    [] d = "sym"   -> {[pk |-> "sym", pi |-> j, b |-> b] : j \in PrefIdx, b \in CoreB}
    [] d = "word"  -> {[pk |-> "word", pi |-> j, b |-> b] : j \in WordRows, b \in CoreB}
    [] d = "title" -> {[pk |-> "title", pi |-> j, b |-> b] : j \in WordRows, b \in CoreB}
    [] d = "wsym"  -> {[pk |-> "sym", pi |-> j, b |-> b] : j \in PrefIdx, b \in GenB \ CoreB}
    [] d = "wword" -> {[pk |-> "word", pi |-> j, b |-> b] : j \in WordRows, b \in GenB \ CoreB}
Cases ==
  CASE Domain = "core" -> Slice("names") \cup Slice("sym") \cup Slice("word") \cup Slice("title")
    [] Domain = "wide" -> Slice("names") \cup Slice("sym") \cup Slice("word") \cup Slice("title") \cup Slice("wsym") \cup Slice("wword")
    [] OTHER -> Slice(Domain)

Init == c = NoCase
Next == c = NoCase /\ \E k \in Cases : c' = k
Spec == Init /\ [][Next]_c

Export ==
  c # NoCase =>
    LET n == CaseStr(c) IN
    /\ PrintT(ToJson([tag |-> "CASE", pk |-> c.pk, pi |-> c.pi, b |-> c.b, m |-> Resolve(n), doc |-> Documented(c),
                      fails |-> ModelFails(c), nr |-> Cardinality(Readings(n)), ns |-> Cardinality(AllSplits(n))]))
    /\ (~C14_Unique(c) => PrintT(ToJson([tag |-> "TABLE-FAIL", clause |-> "Unique", pk |-> c.pk, pi |-> c.pi, b |-> c.b, w |-> Witness(c),
                                         dens |-> DenOfReadings(n)])))
PrefixTable ==
  c = NoCase => \A j \in PrefIdx : PrefixRowKnown(j) \/ PrintT(ToJson([tag |-> "TABLE-FAIL", clause |-> "PrefixTable", pk |-> "sym", pi |-> j, b |-> 0,
                                                                      w |-> [pform |-> "symbol", pj |-> j, si |-> 0, rb |-> 0], dens |-> {}]))
=============================================================================
