"""C03 - unit conversion obeys identity, inverse and composition laws on every route.

Spec: spec/Convert.tla (+ MC_C03, Trace_C03).
  1. the unit table of the working tree is projected to exact rationals (c03_data.py) and handed to TLC;
  2. TLC (MC_C03) enumerates the cases - ordered triples (A, B, C) of commensurable units (same dimension vector,
     or a supported CGS<->SI electromagnetic pair) x (dtype, shape, values), and unit x unit-system base cases -
     computes the numbers the transcription of _get_conversion_factor / the EM route predicts, checks the C03 laws
     on them (model level) and exports the cases;
  3. every case is replayed in real unyt on every route (impl_c03.py); floats are matched to the specification's
     exact numbers within rounding;
  4. TLC (Trace_C03) evaluates the C03 predicates on the observations (P) and compares them with the
     transcription (T).
Two instances: `exact` (an alphabet covering every branch of the affine rule, all numbers predicted) and `table`
(every symbol of the tree's table + generated compounds; predicates only)."""

import json
import os

import concurrent.futures as cf

import c03_data
from common import NCPU, MachineryFailure

CHUNK = 4000


def _cfg(ck, name, stride, phase, allcombos, withbase, cfgall, cross=False):
    txt = (
        "CONSTANTS\n"
        f"  Stride = {stride}\n  Phase = {phase}\n  AllCombos = {'TRUE' if allcombos else 'FALSE'}\n  WithBase = {'TRUE' if withbase else 'FALSE'}\n  CfgAll = {'TRUE' if cfgall else 'FALSE'}\n  Cross = {'TRUE' if cross else 'FALSE'}\n"
        "INIT Init\nNEXT Next\nINVARIANT ExportCase\nCHECK_DEADLOCK FALSE\n"
    )
    open(f"{ck.spec}/{name}.cfg", "w").write(txt)


def _short(o):
    return f"{o['kind']} A={o['names']['A']} B={o['names']['B']} C={o['names']['C']} sys={o['sys']} cfg={o['cfg']} {o['dt']} {o['sh']}" + (f" bind={o['bind']} warm={'>'.join(o['warm']) or '-'}" if o.get("bind") else "")


def _validate(ck, obs, datapath, label):
    """TLC evaluates P and T on the observations; returns the verdict actions in a deterministic order (they are
    applied by the caller after all concurrent work has finished)."""
    keep = ("kind", "a", "b", "c", "k", "dt", "sh", "xs", "exact", "sys", "sysi", "cfgi", "ustr")
    chunks = [(off, obs[off : off + CHUNK]) for off in range(0, len(obs), CHUNK)]

    def one(arg):
        off, part = arg
        slim = []
        for o in part:
            s = {k: o[k] for k in keep}
            s["res"] = [{k: r[k] for k in ("fam", "rt", "g", "k", "exc", "u", "dt", "v")} for r in o["res"]]
            slim.append(s)
        path = ck.write_json(f"obs_{label}_{off}.json", slim)
        res = ck.tlc("Trace_C03", env={"C03_DATA": datapath, "C03_OBS": path}, workers=1, coverage=False, label=f"trace validation {label}", timeout=3000)
        if res.distinct != len(part) + 1:
            raise MachineryFailure(f"trace validation consumed {res.distinct} states, expected {len(part) + 1}")
        acts = [("validated", len(part))]
        for r in sorted(res.by_tag("T-FAIL"), key=lambda r: (r["i"], r["what"], r["fam"], r["rt"])):
            o = part[r["i"] - 1]
            acts.append(("drift", f"{r['what']}:{r['fam']}.{r['rt']}", {"case": _short(o), "res": [x for x in o["res"] if x["fam"] == r["fam"] and x["rt"] == r["rt"]][:1]}))
        for r in sorted(res.by_tag("P-FAIL"), key=lambda r: (r["i"], r["j"], r["clause"])):
            o = part[r["i"] - 1]
            x = o["res"][r["j"] - 1]
            key = {"clause": r["clause"], "fam": r["fam"], "rt": r["rt"], "dt": o["dt"], "sh": o["sh"], "cls": r["cls"], "exc": r["exc"], "registry": label.split("-")[0] if label.split("-")[0] in ("user", "cross") else "default", "sys": o["sys"], "cfg": o["cfg"], "bind": o.get("bind", "")}
            fam = [y for y in o["res"] if y["fam"] in (r["fam"], {"abc": "ac", "aba": "id", "bback": "id", "src": "id"}.get(r["fam"], r["fam"]))]
            detail = {"case": _short(o), "xs": o["xs"], "observed": {f"{y['fam']}.{y['rt']}": [y["k"], y["exc"], y["u"], y["show"]] for y in fam}, "failing": f"{x['fam']}.{x['rt']}"}
            case = {k: o[k] for k in ("kind", "a", "b", "c", "k", "dt", "sh", "xs", "exact", "sys", "sysi", "cfg", "cfgi")}
            case.update({k: o["_case"][k] for k in ("dfam", "dbfam", "dg", "warm", "bind")})
            case.update(mode=label.split("-")[0], A=o["_case"]["A"], B=o["_case"]["B"], C=o["_case"]["C"], gen=o["_case"]["gen"], cand=o["_case"]["cand"])
            acts.append(("violation", key, detail, case))
        return acts

    with cf.ThreadPoolExecutor(max_workers=max(1, NCPU // 2)) as ex:
        parts = list(ex.map(one, chunks))
    return [a for p in parts for a in p]


def _apply(ck, acts):
    for a in acts:
        if a[0] == "validated":
            ck.validated(a[1])
        elif a[0] == "drift":
            ck.drift_step(a[1], a[2])
        else:
            ck.violation(a[1], a[2], case=a[3])


def _instance(ck, extract, mode, stride, phase, allcombos, withbase):
    data, info = c03_data.build(extract, mode)
    datapath = ck.write_json(f"c03_data_{mode}.json", data)
    _cfg(ck, f"MC_C03_{mode}", stride, phase, allcombos, withbase, ck.q(False, True), cross=(mode == "cross"))
    res = ck.tlc("MC_C03", f"MC_C03_{mode}", env={"C03_DATA": datapath}, workers=1, coverage=False, label=f"case table {mode} stride={stride} allcombos={allcombos}", timeout=3000)
    cases = res.by_tag("CASE")
    if len(cases) < 50 or (mode == "cross" and not all(any(c["bind"] == b and len(c["warm"]) == n for c in cases) for b in ("twin", "stale") for n in (0, 1, 2))):
        raise MachineryFailure(f"too few cases exported ({len(cases)}) for {mode}")
    if res.distinct != len(cases) + 1:
        raise MachineryFailure("case export incomplete")
    return data, info, datapath, cases


def _replay(ck, mode, datapath, info, cases, label):
    obs = ck.pmap("impl_c03", "observe", cases, common=info, chunk_timeout=3000)
    bad = [o for o in obs if "_error" in o]
    if bad:
        raise MachineryFailure("replay error: " + str(bad[0]))
    for o, c in zip(obs, cases):
        o["_case"] = c
    return _validate(ck, obs, datapath, label)


def run(ck):
    ck.level = "model_checking"
    ck.assumptions += [
        "scales are s*G^tag with s an exact 32-bit-safe rational and G = pi (angles) or c (EM pairs); table values that do not rationalise get no predicted numbers (predicates are still evaluated)",
        "observed floats are matched to the specification's exact numbers (or to each other) within 512 eps (float64) / 32 eps (float32) of the largest magnitude met in the chain, offsets included",
        "dtype alphabet float64, float32, complex128, int64, int32 (1- and 2-byte integers belong to C17/C18); shapes scalar and 1-d",
        "the by-hand route (get_conversion_factor) is not demanded across dimensions (no EM route: explicit refusal)",
        "unit systems mks, cgs, imperial (+ galactic, solar in the table and user instances); which unit a system picks is C10's",
        "cross instance: unit objects B/C bound to a second table (a second registry, or the quantity's own registry before it was re-calibrated) with the same spellings at other values; EM counterparts carry the same calibration in both tables; histories of at most two earlier requests on registries made afresh per case",
        "user instance: one caller-made registry (4 added code_* symbols, 8 re-calibrated symbols incl. base units of imperial/galactic/solar); a resulting unit bound to another registry than the quantity's counts as a different unit",
    ]
    if ck.replay:
        blob = json.load(open(ck.replay))
        case = blob["case"]
        mode = case.get("mode", "exact")
        data, info = c03_data.build(ck.extract(), mode)
        datapath = ck.write_json(f"c03_data_{mode}.json", data)
        _apply(ck, _replay(ck, mode, datapath, info, [case], f"{mode}-replay"))
        return

    seed = ck.seed
    extract = ck.extract()
    plan = (
        ("exact", ck.q(8, 1), False, True),
        ("user", ck.q(8, 1), False, True),
        ("table", ck.q(31, 1), False, True),
        ("cross", ck.q(9, 1), False, False),
    )

    only = os.environ.get("VERIF_C03_ONLY")  # development aid: run one instance (e.g. cross) alone
    if only:
        plan = tuple(p for p in plan if p[0] in only.split(","))

    def job(p):
        mode, stride, allc, withbase = p
        data, info, datapath, cases = _instance(ck, extract, mode, stride, seed % stride, allc, withbase)
        acts = _replay(ck, mode, datapath, info, cases, f"{mode}-cover")
        return data, cases, acts

    # the instances are independent: TLC case tables, replays and trace validation run concurrently; verdicts are
    # applied afterwards in the fixed order of `plan`
    with cf.ThreadPoolExecutor(max_workers=len(plan)) as ex:
        done = list(ex.map(job, plan))
    model_fail = 0
    n_exact = n_cases = 0
    nontrivial = 0
    for (mode, stride, allc, withbase), (data, cases, acts) in zip(plan, done):
        for c in cases:
            m = c["model"]
            if not (m["id"] and m["inv"] and m["comp"] and m["routes"]):
                model_fail += 1
                ck.note({"MODEL-FAIL": {k: c[k] for k in ("A", "B", "C", "dt", "sh", "model")}})
        n_cases += len(cases)
        n_exact += sum(1 for c in cases if c["exact"])
        nontrivial += sum(1 for c in cases if c["kind"] == "base" or not (c["a"] == c["b"] == c["c"]))
        ck.sample({k: cases[len(cases) // 3][k] for k in ("kind", "A", "B", "C", "dt", "sh", "xs", "sys", "exact")})
        ck.cov[f"cases_{mode}"] = len(cases)
        ck.cov[f"pool_{mode}"] = len(data["pool"])
        ck.cov[f"units_exact_{mode}"] = sum(1 for r in data["lut"] if r["ex"])
        ck.cov[f"units_total_{mode}"] = len(data["lut"])
        _apply(ck, acts)
    if model_fail:
        # the transcription itself breaks a law on the grid: a claim about the design, replayed above like any case
        ck.drift_step("model-level law failure", {"count": model_fail})
    ck.cov["exhaustive"] = False  # triples of the exact pool are exhaustive in the thorough tier; combos rotate, the table pool is strided
    ck.cov["evaluations"] = n_cases
    ck.cov["cases_with_predicted_numbers"] = n_exact
    ck.cov["distinct_nontrivial"] = nontrivial
    ck.cov["rule"] = "conversion cases whose three units are not all the same unit, plus all unit-system base cases"
    ck.cov["model_level_law_failures"] = model_fail
