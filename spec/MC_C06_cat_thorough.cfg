CONSTANTS
  Seeds = {0, 1, 2, 3, 4}
  DTs = {"f", "i", "c"}
  ShAll = {"s", "3", "2x3", "3x3", "0"}
INIT Init
NEXT Next
INVARIANT Export
CHECK_DEADLOCK FALSE
