CONSTANTS
  Slice = 0
  NSlices = 1
  Ext = {0, 1, 2, 3}
  Ext3 = {0, 1, 2}
  MaxRank = 3
  RootSet = "all"
  Layouts = {"C", "F", "col", "rev"}
  LayCtors = {"ctor_a", "mul_unit"}
  MixQuick = FALSE
  MixRich = FALSE
  IntSet <- IntsB
  SliceSet = {"from1", "step2", "rev"}
  FancySet = {"f00", "fe"}
  MaskSet = {"malt"}
  IdxForms = {"plain", "elllast", "ellfirst", "newfirst", "full"}
  MaxNonAll = 2
  MaxNonAll3 = 1
  TargetRank = 2
  LiteOthers = TRUE
  RedSet = {"sum", "max", "mean", "np_median"}
  Lite = FALSE
  Depth = 2
  Ctors = {"ctor_a", "ctor_am", "ctor_q", "mul_unit", "mixlist"}
  RichCtors = {"ctor_a"}
INIT Init
NEXT Next
INVARIANT Export
CHECK_DEADLOCK FALSE
