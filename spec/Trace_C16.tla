----------------------------- MODULE Trace_C16 -----------------------------
(* Trace validation for C16: histories replayed on real unyt objects         *)
(* (harness/impl_c16.py) are stepped through Shape.  For every call           *)
(*   T  the observation is compared with the implementation-shaped transition *)
(*      Res (class, shape, unit, name, values, the whole shares_memory row),  *)
(*      evaluated on the OBSERVED source object (re-synchronised each step);  *)
(*   P  the property predicates are evaluated on the observation: C16_Class,  *)
(*      C16_Index, view set shares memory with the parent, copy set shares    *)
(*      with nothing, C16_Mixed.                                              *)
(* Then the write phase: every object in turn is overwritten in place; what   *)
(* every other object holds afterwards is predicted twice from the buffer /   *)
(* family / offset bookkeeping - with the implementation's view/copy table    *)
(* (T) and with the property's view set / copy set / silent table (P).        *)
EXTENDS Shape, IOUtils
Traces == JsonDeserialize(IOEnv.TRACES)

VARIABLES tid, l, tm, pm, nb, cur
tvars == <<tid, l, tm, pm, nb, cur>>

RootMem(t) == Mem(1, 1, LayOffs(t.root, t.lay))   \* the source ndarray in its memory layout
\* one initial state per trace: the chains are independent (no hand-over from one trace to the next)
TraceInit == /\ tid \in 1..Len(Traces) /\ l = 1
             /\ tm = <<RootMem(Traces[tid])>>
             /\ pm = <<RootMem(Traces[tid])>>
             /\ nb = 2 /\ cur = <<>>

T == Traces[tid]
OObj(ob) == Obj(ob.k, ob.sh, ob.u, ob.nm)
NoMem == Mem(0, 0, <<>>)
\* values that are exact small integers (non-integral floats travel as opaque ids >= 10^9)
SmallVals(v) == \A j \in DOMAIN v : v[j] < 1000000 /\ v[j] > 0 - 1000000
Overlap(m1, m2) == m1.buf = m2.buf /\ m1.buf # 0 /\ Range(m1.offs) \cap Range(m2.offs) # {}
IdxForm(items) == IF \E j \in DOMAIN items : items[j].t = "fancy" THEN "fancy"
                  ELSE IF \E j \in DOMAIN items : items[j].t \in {"mask1", "maskfull"} THEN "mask"
                  ELSE IF \E j \in DOMAIN items : items[j].t = "bool" THEN "bool"
                  ELSE IF \E j \in DOMAIN items : items[j].t = "new" THEN "newaxis"
                  ELSE IF \E j \in DOMAIN items : items[j].t = "ell" THEN "ellipsis"
                  ELSE IF \E j \in DOMAIN items : items[j].t = "int" THEN "int" ELSE "slice"
OpForm(op) == IF op.op = "idx" THEN IdxForm(op.items) ELSE IF op.op = "bin" THEN op.t[1] ELSE IF op.op = "mixlist" THEN op.s ELSE ""
ShapeClass(sh) == IF sh = <<>> THEN "()" ELSE IF Size(sh) = 1 THEN "size1" ELSE IF Size(sh) = 0 THEN "empty" ELSE "multi"

Fail(tag, clause, op, so, ro, extra) ==
  PrintT(ToJson([tag |-> tag, tid |-> tid, l |-> l, clause |-> clause, op |-> op.op, s |-> op.s, form |-> OpForm(op),
                 srck |-> so.k, srcsh |-> so.sh, k |-> ro.k, sh |-> ro.sh, rclass |-> ShapeClass(ro.sh), u |-> ro.u, nm |-> ro.nm, lay |-> T.lay, extra |-> extra]))

OpStep ==
  LET op == T.h[l]
      i == op.src
      so == T.obs[i]
      ro == T.obs[l + 1]
      src == OObj(so)
      res == OObj(ro)
      n == Size(ro.sh)
      \* ---- T ----
      en == Enabled(src, tm[i], op)
      r == IF en THEN Res(src, tm[i], op) ELSE RExc
      tnew == IF r.exc THEN NoMem ELSE NewMem(tm[i], r.cls, r.lpos, n, nb)
      TObj == r.o = res
      TVals == (r.scale # 0 /\ Len(r.lpos) = Len(ro.vals) /\ SmallVals(so.vals)) => ro.vals = [j \in DOMAIN ro.vals |-> so.vals[r.lpos[j] + 1] * r.scale]
      TSm == \A j \in 1..l : ro.sm[j] = (IsArr(res) /\ IsArr(OObj(T.obs[j])) /\ Overlap(tnew, tm[j]))
      \* the bookkeeping takes fresh copies for C-contiguous; the result of advanced indexing on a later axis is not
      \* (NumPy builds it transposed): whether ravel/reshape of such an object is a view is not predicted
      TSmSkip == op.op \in ReshapeOps \cup {"ravel"} /\ Consecutive(tm[i].offs) /\ ~so.cc
      TOk == en /\ TObj /\ (r.exc \/ (TVals /\ (TSmSkip \/ TSm)))
      resync == IF ro.k = "exc" THEN NoMem
                ELSE NewMem(tm[i], IF ro.sm[i] THEN "view" ELSE IF \E j \in 1..l : ro.sm[j] THEN "silent" ELSE "copy", IF en THEN r.lpos ELSE <<>>, n, nb)
      \* ---- P ----
      rsh == IF op.op = "idx" /\ IdxValid(src.sh, op.items) THEN IdxShape(src.sh, op.items) ELSE res.sh
      pcls == PMem(src, so.cc, op, rsh)
      pl == IF pcls = "view" /\ (op.op # "idx" \/ IdxValid(src.sh, op.items)) /\ (op.op \notin TransOps \/ op.op # "swapaxes" \/ op.b <= Len(src.sh)) THEN PLPos(src, op) ELSE <<>>
      pnew == IF ro.k = "exc" THEN NoMem ELSE NewMem(pm[i], pcls, pl, n, nb)
      PClass == C16_Class(src, op, res)
      PIndex == C16_Index(src, op, res)
      PView == (pcls = "view" /\ ro.k # "exc" /\ n > 0) => ro.sm[i]
      PCopy == (pcls = "copy" /\ IsArr(res)) => \A j \in 1..l : ~ro.sm[j]
      PMixed == (op.op = "mixlist" /\ ro.k # "exc") => C16_Mixed(src, so.vals, op, res, ro.rv)
  IN
  /\ (~TOk) => Fail("T-FAIL", "transition", op, so, ro,
                     [model |-> r.o, cls |-> r.cls, en |-> en, tobj |-> TObj, tvals |-> (r.exc \/ TVals), tsm |-> (r.exc \/ TSm), sm |-> ro.sm])
  /\ (~PClass) => Fail("P-FAIL", "class", op, so, ro, <<>>)
  /\ (~PIndex) => Fail("P-FAIL", "index_units_name", op, so, ro, [srcu |-> so.u, srcnm |-> so.nm])
  /\ (~PView) => Fail("P-FAIL", "view_shares", op, so, ro, [sm |-> ro.sm])
  /\ (~PCopy) => Fail("P-FAIL", "copy_independent", op, so, ro, [sm |-> ro.sm])
  /\ (~PMixed) => Fail("P-FAIL", "mixed_list", op, so, ro, [rv |-> ro.rv, src |-> so.vals])
  /\ tm' = Append(tm, IF TOk /\ ~TSmSkip THEN tnew ELSE resync)
  /\ pm' = Append(pm, pnew)
  /\ nb' = nb + 1
  /\ cur' = IF l = Len(T.h) THEN T.pre ELSE cur
  /\ l' = l + 1 /\ tid' = tid

\* the object whose creation links o and w (for the key of a write-phase failure): the later of the two
WriteStep ==
  LET w == l - Len(T.h)
      wr == T.writes[w]
      c == IF Len(T.h) = 0 THEN T.pre ELSE cur
      Ob(o) == T.obs[o]
      CreatedBy(o) == IF o = 1 THEN Op0("root") ELSE T.h[o - 1]
      Later(o) == IF o > w THEN o ELSE w
      SrcOf(o) == IF Later(o) = 1 THEN Ob(1) ELSE Ob((CreatedBy(Later(o))).src)
      TBad == {o \in DOMAIN wr.fin : WriteKnown(tm[o], tm[w]) /\ wr.fin[o] # AfterWrite(tm[o], tm[w], w, c[o])}
      PBad == {o \in DOMAIN wr.fin : WriteKnown(pm[o], pm[w]) /\ wr.fin[o] # AfterWrite(pm[o], pm[w], w, c[o])}
  IN
  /\ (~wr.skip) =>
       /\ \A o \in PBad : Fail("P-FAIL", IF pm[o].buf = pm[w].buf THEN "write_attached" ELSE "write_independent",
                               CreatedBy(Later(o)), SrcOf(o), Ob(Later(o)),
                               [o |-> o, w |-> w, got |-> wr.fin[o], before |-> c[o]])
       /\ \A o \in TBad \ PBad : Fail("T-FAIL", "write", CreatedBy(Later(o)), SrcOf(o), Ob(Later(o)),
                                      [o |-> o, w |-> w, got |-> wr.fin[o], before |-> c[o]])
  /\ cur' = wr.fin
  /\ UNCHANGED <<tm, pm, nb>>
  /\ l' = l + 1 /\ tid' = tid

TraceNext ==
  \/ /\ tid <= Len(Traces) /\ l <= Len(T.h) /\ OpStep
  \/ /\ tid <= Len(Traces) /\ l > Len(T.h) /\ l <= Len(T.h) + Len(T.obs) /\ WriteStep
=============================================================================
