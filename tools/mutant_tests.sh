#!/bin/bash
# usage: tools/mutant_tests.sh <dir containing a copy of unyt/>   (e.g. /tmp/mut_C01)
# Runs the repository's test-suite against the copy and compares with the baseline:
# prints "SUITE-GREEN" when exactly the baseline set of tests fails (28) and 652 pass, else lists the new failures.
D="$1"
HERE="$(cd "$(dirname "$0")" && pwd)"
[ -f "$D/pyproject.toml" ] || cp /repo/pyproject.toml "$D/"
cd "$D" || exit 2
/venv/bin/python -m pytest -q -p no:cacheprovider --timeout=900 unyt -rf 2>&1 | sed 's/\x1b\[[0-9;]*m//g' > "$D/.suite.log"
grep '^FAILED' "$D/.suite.log" | sed 's/ - .*//' | sort > "$D/.suite.failed"
tail -1 "$D/.suite.log"
NEW=$(comm -23 "$D/.suite.failed" "$HERE/baseline_failed.txt")
if [ -z "$NEW" ] && grep -q ' 652 passed' "$D/.suite.log"; then echo SUITE-GREEN; else echo "SUITE-RED: new failures:"; echo "$NEW"; fi
