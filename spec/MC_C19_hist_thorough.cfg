CONSTANTS
  Tier = "thorough"
  HistLen = 3
INIT Init
NEXT Next
INVARIANT Export
CHECK_DEADLOCK FALSE
