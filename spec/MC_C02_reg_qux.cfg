CONSTANTS
  MaxLen = 3
  SysCodes = {21, 32, 43, 14}
  FooTmpls = {1, 2}
  QuxTmpls = {6, 7}
  C1 = {1}
  C2 = {2}
  CMod = {1, 2}
  Forms1 = {"tuple", "qreg"}
  Forms2 = {}
  AddRegs = {1}
  ModForms = {"number"}
  Pfx1 = {TRUE}
  Pfx2 = {FALSE}
INIT Init
NEXT Next
VIEW View
INVARIANT RunAgrees
INVARIANT Sane
INVARIANT Export
CHECK_DEADLOCK FALSE
