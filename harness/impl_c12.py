"""Replay of Registry.tla histories on real unyt registries (C12).

observe(case) -> trace record for Trace_C12.tla:
  ev[i]  = the call + obs (result) + rows (observed table rows of the 4 keys)
           + cache (is each probe string in the per-registry memo)
  final  = resolution of each probe string in the final state (each probed from
           the same state: dictionaries are snapshotted and restored), whether
           Unit objects created earlier kept their value, and the same
           resolutions reached through conversion / arithmetic."""

from fractions import Fraction

# two alphabets (Registry.tla, constant Alias): user symbols foo/qux, or foo + the library's own "s" probed through alias spellings
ALPHA = {
    False: (["foo", "qux", "kfoo", "kqux"], ["foo", "qux", "kfoo", "kqux", "foo**2", "foo*qux", "kfoo/qux"]),
    True: (["foo", "s", "kfoo", "ks"], ["foo", "second", "kfoo", "kilosecond", "s", "foo*second", "kfoo/second"]),
}
KEYS, PROBES = ALPHA[False]


def _set_alphabet(alias):
    global KEYS, PROBES
    KEYS, PROBES = ALPHA[bool(alias)]


# source quantities for observing what a string resolves to through the conversion entry points: one per dimension a
# probe can have, written in units the histories never edit (m, hr)
_SOURCES = ["m", "hr", "m**2", "hr**2", "m*hr", "m/hr", "hr/m", "dimensionless"]


def _via_convert(reg, p):
    """What `p` resolves to through x.to(str) and x.convert_to_units(str): the unit the result is labelled with."""
    U = _U
    out = []
    for via in ("to(str)", "convert_to_units(str)"):
        obs = {"k": "raise"}
        for src in _SOURCES:
            try:
                x = U["unyt"].unyt_array([3.0, 6.0], src, registry=reg)
                if via == "to(str)":
                    y = x.to(p)
                else:
                    x.convert_to_units(p)
                    y = x
                obs = _unit_obs(y.units)
                break
            except Exception:  # noqa: BLE001
                continue
        out.append({"via": via, "obs": obs})
    return out

_U = {}


def setup(common=None):
    import unyt
    from unyt import dimensions
    from unyt.unit_object import Unit, define_unit
    from unyt.unit_registry import UnitRegistry

    _U.update(unyt=unyt, dims=dimensions, Unit=Unit, define_unit=define_unit, UnitRegistry=UnitRegistry, uq=unyt.unyt_quantity)


def _rat(x):
    f = Fraction(float(x))
    if abs(f.numerator) >= 2**31 or f.denominator >= 2**31:
        f = f.limit_denominator(10**6)
    return [f.numerator, f.denominator]


def _dimvec(dim):
    import sympy

    d = _U["dims"]
    pd = sympy.sympify(dim).as_powers_dict() if dim != 1 else {}
    out = [0, 0]
    for b, e in pd.items():
        if b == d.length:
            out[0] = int(e) if sympy.Rational(e).q == 1 else 99
        elif b == d.time:
            out[1] = int(e) if sympy.Rational(e).q == 1 else 99
        elif not getattr(b, "is_Number", False):
            return [98, 98]
    return out


def _dimname(dim):
    v = _dimvec(dim)
    return "L" if v == [1, 0] else "T" if v == [0, 1] else "?" + str(dim)


def _unit_obs(u):
    return {"k": "unit", "s": _rat(u.base_value), "d": _dimvec(u.dimensions)}


def _rows(reg):
    out = []
    for k in KEYS:
        if k in reg.lut:
            r = reg.lut[k]
            sc = float(r[0])
            out.append([int(sc) if sc == int(sc) and abs(sc) < 2**31 else -1, bool(r[4]), _dimname(r[1])])
        else:
            out.append([0, False, "L"])
    return out


def _cache(reg):
    return [p in reg._unit_object_cache for p in PROBES]


def _snapshot(reg):
    return dict(reg.lut), dict(reg._unit_object_cache), reg._unit_system_id


def _restore(reg, snap):
    reg.lut.clear()
    reg.lut.update(snap[0])
    reg._unit_object_cache.clear()
    reg._unit_object_cache.update(snap[1])
    reg._unit_system_id = snap[2]


def _stutter(objs):
    """Registry.tla Stutter: print / hash / copy every Unit created so far.  By the property none of this may matter."""
    import copy as _copy
    import pickle as _pickle

    for u, _bv, _dm, _ex in objs:
        for f in (str, repr, hash, lambda x: x.copy(), lambda x: x.copy(deep=True), lambda x: _copy.copy(x), lambda x: x.latex_repr, lambda x: _pickle.loads(_pickle.dumps(x)), lambda x: (2.0 * x), lambda x: str(2.0 * x)):
            try:
                f(u)
            except Exception:  # noqa: BLE001 - a probe that refuses is still a no-op
                pass


def step(reg, e, objs):
    U = _U
    dim = {"L": U["dims"].length, "T": U["dims"].time}
    op = e["op"]
    exc = None
    via = op == "unit"
    try:
        if op == "add":
            reg.add(e["sym"], float(e["scale"]), dim[e["dim"]], prefixable=bool(e["pfx"]))
            obs = {"k": "ok"}
        elif op == "modify":
            reg.modify(e["sym"], float(e["scale"]))
            obs = {"k": "ok"}
        elif op == "modifyq":
            reg.modify(e["sym"], U["uq"](float(e["scale"]), "m" if e["dim"] == "L" else "s"))
            obs = {"k": "ok"}
        elif op == "remove":
            reg.remove(e["sym"])
            obs = {"k": "ok"}
        elif op == "contains":
            obs = {"k": "bool", "b": bool(e["sym"] in reg)}
        elif op == "define":
            val = (float(e["scale"]), "m" if e["dim"] == "L" else "s")
            if "s" in KEYS:
                # alphabet Alias: "s" itself may have been edited in `reg`, so the value is given as a quantity of the default registry
                val = U["uq"](*val)
            U["define_unit"](e["sym"], val, prefixable=bool(e["pfx"]), registry=reg)
            obs = {"k": "ok"}
        elif op == "unit":
            u = U["Unit"](e["str"], registry=reg)
            obs = _unit_obs(u)
            objs.append((u, u.base_value, u.dimensions, str(u.expr)))
            via = True
        else:
            raise ValueError("unknown op " + op)
    except Exception as ex:  # noqa: BLE001
        obs = {"k": "raise"}
        exc = type(ex).__name__
    _stutter(objs)
    out = dict(e)
    out["obs"] = obs
    out["exc"] = exc or ""
    out["rows"] = _rows(reg)
    out["cache"] = _cache(reg)
    out["via"] = []
    if via:
        # the same string through the conversion entry points, from the same registry state (dicts restored afterwards;
        # process-wide memos are deliberately not)
        reg.unit_system_id  # memoise the registry id (hashing a Unit recomputes it otherwise: ~1 ms per call)
        snap = _snapshot(reg)
        out["via"] = _via_convert(reg, e["str"])
        _restore(reg, snap)
    return out


def final_obs(reg, objs):
    U = _U
    reg.unit_system_id  # memoise the registry id once (hashing a Unit recomputes it otherwise: 4 ms per call)
    snap = _snapshot(reg)
    probes = []
    arith = []
    for p in PROBES:
        try:
            u = U["Unit"](p, registry=reg)
            probes.append(_unit_obs(u))
        except Exception:  # noqa: BLE001
            probes.append({"k": "raise"})
        _restore(reg, snap)
        # the same resolution reached through array creation + conversion, and through arithmetic
        # (with the alphabet Alias the base unit "s" of the mks system is itself edited, so reduction to mks base units
        # is not a fair probe there; the conversion entry points are probed at every construction step instead)
        for via in ("mul", "deepcopy") if "s" in KEYS else ("in_base", "mul", "to_mks", "deepcopy"):
            try:
                if via == "deepcopy":
                    # a deep copy of the registry (what copy.deepcopy of any unit / quantity / container carries along)
                    # holds the current contents: it resolves the string as the registry itself must
                    import copy as _copy

                    u = U["Unit"](p, registry=_copy.deepcopy(reg))
                    obs = _unit_obs(u)
                elif via == "in_base":
                    q = U["uq"](3.0, p, registry=reg)
                    b = q.in_base("mks")
                    obs = {"k": "unit", "s": _rat(float(b.d) * b.units.base_value / 3.0), "d": _dimvec(b.units.dimensions)}
                elif via == "mul":
                    q = U["uq"](3.0, p, registry=reg)
                    one = U["uq"](2.0, "m", registry=reg)
                    r = q * one / one
                    obs = {"k": "unit", "s": _rat(float(r.d) * r.units.base_value / 3.0), "d": _dimvec(r.units.dimensions)}
                else:
                    a = U["unyt"].unyt_array([3.0, 6.0], p, registry=reg)
                    a.convert_to_base("mks")
                    obs = {"k": "unit", "s": _rat(float(a.d[1]) * a.units.base_value / 6.0), "d": _dimvec(a.units.dimensions)}
            except Exception:  # noqa: BLE001
                obs = {"k": "raise"}
            _restore(reg, snap)
            arith.append({"p": p, "via": via, "obs": obs})
    kept = True
    detail = ""
    for u, bv, dm, ex in objs:
        if u.base_value != bv or u.dimensions != dm or str(u.expr) != ex:
            kept = False
            detail = f"{ex}: {bv}->{u.base_value}"
            continue
        # ... and keeps it when it is USED: data labelled with the old Unit object (with and without registry=), products
        # and conversions through it, carry the value the object had, not what its spelling means now
        for how in ("quantity(registry=)", "array(registry=)", "quantity", "number*unit", "to(unit object)"):
            try:
                if how == "quantity(registry=)":
                    got = U["uq"](3.0, u, registry=reg).units
                elif how == "array(registry=)":
                    got = U["unyt"].unyt_array([3.0, 6.0], u, registry=reg).units
                elif how == "quantity":
                    got = U["uq"](3.0, u).units
                elif how == "number*unit":
                    got = (3.0 * u).units
                else:
                    got = U["uq"](3.0, u).to(u).units
                if got.base_value != bv or got.dimensions != dm:
                    kept = False
                    detail = f"{how} with the earlier unit {ex}: {bv}->{got.base_value}"
            except Exception as e:  # noqa: BLE001
                kept = False
                detail = f"{how} with the earlier unit {ex} raised {type(e).__name__}"
        _restore(reg, snap)
    return {"probes": probes, "rows": _rows(reg), "cache": [p in snap[1] for p in PROBES], "kept": kept, "keptdetail": detail, "arith": arith}


def observe(case):
    _set_alphabet(case.get("alias", False))
    reg = _U["UnitRegistry"]()
    for k in KEYS:
        # derived prefixed rows the defaults may already carry (written back by earlier look-ups in this process)
        if k in ("ks",) and k in reg.lut:
            del reg.lut[k]
    objs = []
    ev = [step(reg, e, objs) for e in case["h"]]
    return {"ev": ev, "final": final_obs(reg, objs)}
