CONSTANTS
  TableUnits <- MCTable
  Strides = {1, 7}
  AllPairs = FALSE
  Units = {}
  ConvUnits = {}
  UKinds0 = {}
  UKinds1 = {}
  Forms = {}
  Fams = {}
  ArrFns = {"concatenate","where","clip","copyto_where"}
  UfOps = {"add","subtract","less","equal","maximum","hypot","divmod"}
  SpUnits = {}
  Hists = {}
  HUnits = {}
INIT Init
NEXT TNext
INVARIANT Export
CHECK_DEADLOCK FALSE
