--------------------------- MODULE UnitSystemHist ---------------------------
(* One user-defined UnitSystem over time (unyt/unit_systems.py): creation    *)
(* with validation, declarations (__setitem__), reads (__getitem__ with      *)
(* synthesis + memoisation into units_map) and base conversions, which also  *)
(* go through the process-wide lru_cache of _check_em_conversion (keyed by   *)
(* the keyword order of the call site, so in_base and get_base_equivalent    *)
(* own separate entries).  Transitions are transcribed from the code; the    *)
(* alphabet (D.hist) is chosen by the harness from the table of the tree.    *)
EXTENDS UnitSystem
H == D.hist
HBases == ToSet(H.bases)
HDecls == ToSet(H.decls)
HDims == ToSet(H.dims)
HUnits == {ToSet(H.units[i]) : i \in DOMAIN H.units}
UnitIdx(x) == CHOOSE i \in DOMAIN H.units : ToSet(H.units[i]) = x

VARIABLES sys,     \* the system as declared: [base, decl, ...]; base = <<>> before creation
          made,    \* has the system been created (and registered)
          memo,    \* dimensions synthesised and memoised into units_map by __getitem__
          emc,     \* entries of the lru_cache of _check_em_conversion that concern this system
          hist, last
vars == <<sys, made, memo, emc, hist, last>>
NoSys == [base |-> <<>>, decl |-> <<>>, reg |-> 0, coef |-> FALSE, short |-> ""]
Ok == [k |-> "ok", x |-> {}]
Raise == [k |-> "raise", x |-> {}]

BaseDims(S) == {DBase(i) : i \in {j \in 1..NDim : S.base[j] # NoUnit}}
UMDims(S, m) == BaseDims(S) \cup DeclDims(S) \cup m
UMVal(S, d) == IF d \in DeclDims(S) THEN DeclOf(S, d) ELSE Factor(S, d)
GetItemF(S, m, d) ==
  IF d \in UMDims(S, m) THEN [k |-> "unit", x |-> UMVal(S, d), m |-> m]
  ELSE IF d[CUR] # 0 /\ ~HasCur(S) THEN [k |-> "nocur", x |-> {}, m |-> m]
  ELSE [k |-> "unit", x |-> Factor(S, d), m |-> m \cup {d}]

NoneVal == [k |-> "none", x |-> {}]
CheckEmF(S, m, c, site, x) ==
  LET hit == {e \in c : e.site = site /\ e.x = x} IN
  IF hit # {} THEN [val |-> (CHOOSE e \in hit : TRUE).val, m |-> m, c |-> c, raise |-> FALSE]
  ELSE LET d == XDim(x) IN
    IF d \notin EMDims THEN [val |-> NoneVal, m |-> m, c |-> c \cup {[site |-> site, x |-> x, val |-> NoneVal]}, raise |-> FALSE]
    ELSE IF IsAtomicX(x) /\ EMEntries(x) # {}
      THEN IF d[CUR] # 0 /\ HasCur(S)
           THEN LET g == GetItemF(S, m, d) v == [k |-> "same", x |-> g.x] IN
                [val |-> v, m |-> g.m, c |-> c \cup {[site |-> site, x |-> x, val |-> v]}, raise |-> FALSE]
           ELSE LET v == [k |-> "counter", x |-> EMCounter(x)] IN
                [val |-> v, m |-> m, c |-> c \cup {[site |-> site, x |-> x, val |-> v]}, raise |-> FALSE]
      ELSE LET ad == {Atoms[t[2]].dim : t \in x} IN
           IF \E a \in ad : GetItemF(S, m, a).k = "nocur" THEN [val |-> NoneVal, m |-> m, c |-> c, raise |-> TRUE]
           ELSE [val |-> NoneVal, m |-> m \cup {a \in ad : a \notin UMDims(S, m)}, c |-> c \cup {[site |-> site, x |-> x, val |-> NoneVal]}, raise |-> FALSE]

GbeF(S, m, c, x) ==
  LET e == CheckEmF(S, m, c, "gbe", x)
      d == XDim(x) IN
  IF e.raise THEN [res |-> Raise, m |-> e.m, c |-> e.c]
  ELSE IF d \in UMDims(S, e.m) /\ UMVal(S, d) = x THEN [res |-> [k |-> "ok", x |-> x], m |-> e.m, c |-> e.c]
  ELSE IF e.val.k # "none" THEN [res |-> [k |-> "ok", x |-> e.val.x], m |-> e.m, c |-> e.c]
  ELSE LET g == GetItemF(S, e.m, d) IN
       IF g.k = "nocur" THEN [res |-> Raise, m |-> g.m, c |-> e.c] ELSE [res |-> [k |-> "ok", x |-> g.x], m |-> g.m, c |-> e.c]
InBaseF(S, m, c, x) ==
  LET e == CheckEmF(S, m, c, "inb", x)
      d == XDim(x) IN
  IF e.raise THEN [res |-> Raise, m |-> e.m, c |-> e.c]
  ELSE IF e.val.k # "none"
       THEN (IF d \in UMDims(S, e.m) /\ UMVal(S, d) = x THEN [res |-> [k |-> "ok", x |-> x], m |-> e.m, c |-> e.c]
             ELSE [res |-> [k |-> "ok", x |-> e.val.x], m |-> e.m, c |-> e.c])
  ELSE GbeF(S, e.m, e.c, x)

Init == sys = NoSys /\ made = FALSE /\ memo = {} /\ emc = {} /\ hist = <<>> /\ last = Ok
Log(e) == hist' = Append(hist, e)

New(b) == /\ ~made
          /\ Log([op |-> "new", base |-> b])
          /\ IF Consistent(b) THEN sys' = [NoSys EXCEPT !.base = b] /\ made' = TRUE /\ last' = Ok
                              ELSE last' = Raise /\ UNCHANGED <<sys, made>>
          /\ UNCHANGED <<memo, emc>>
Declare(dd) == /\ made
               /\ Log([op |-> "declare", dim |-> dd.dim, x |-> dd.x])
               /\ IF dd.dim[CUR] # 0 /\ ~HasCur(sys) THEN last' = Raise /\ UNCHANGED <<sys, memo>>
                  ELSE sys' = [sys EXCEPT !.decl = Append(sys.decl, dd)] /\ memo' = memo \ {dd.dim} /\ last' = Ok
               /\ UNCHANGED <<made, emc>>
Get(d) == /\ made
          /\ Log([op |-> "get", dim |-> d])
          /\ LET g == GetItemF(sys, memo, d) IN
             /\ memo' = g.m
             /\ last' = IF g.k = "nocur" THEN Raise ELSE [k |-> "ok", x |-> g.x]
          /\ UNCHANGED <<sys, made, emc>>
Conv(v, x) == /\ made
              /\ Log([op |-> v, x |-> x])
              /\ LET r == IF v = "in_base" THEN InBaseF(sys, memo, emc, x) ELSE GbeF(sys, memo, emc, x) IN
                 memo' = r.m /\ emc' = r.c /\ last' = r.res
              /\ UNCHANGED <<sys, made>>
\* which memo layer would make a final probe of unit x depend on the history
StaleLru(x) == \E e \in emc : e.x = x /\ e.val.k = "same" /\ e.val.x # GetItemF(sys, memo, XDim(x)).x
=============================================================================
