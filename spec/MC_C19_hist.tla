------------------------------ MODULE MC_C19_hist ------------------------------
(* Bounded instance of HelpersHist for C19: TLC picks a pair of operand       *)
(* objects from a catalogue (float64/float32 arrays, quantities, bare         *)
(* ndarrays, views of larger arrays; same quantity in different units, a      *)
(* slightly different quantity, an incommensurable one, scaled dimensionless) *)
(* and enumerates ALL histories of HistLen calls: the first call ranges over  *)
(* the full call alphabet of the pair (7 helpers x both argument orders x the *)
(* same object twice x tolerance x an operand re-expressed by .to() at call   *)
(* time), later calls over a probing alphabet.  Exported with the denoted     *)
(* case, the implementation-shaped outcome and the model-level verdict of     *)
(* every step.                                                                *)
EXTENDS HelpersHist
CONSTANTS Tier, HistLen
VARIABLES pool, steps
Thorough == Tier = "thorough"

Tol(k, u, v) == [k |-> k, u |-> u, v |-> v]
Zero == Tol("bare", "", RZero)
Sixteenth == Tol("bare", "", <<1, 16>>)
Half == Tol("bare", "", <<1, 2>>)

\* every object denotes (2048, 4096) base units of its dimension unless said otherwise
Catalogue == [
  Ala  |-> Obj("arr", "float64", <<R(2048), R(4096)>>, "la", FALSE),
  Alb  |-> Obj("arr", "float64", <<R(2), R(4)>>, "lb", FALSE),
  Ald  |-> Obj("arr", "float64", <<R(2), R(4)>>, "ld", FALSE),
  Alc4 |-> Obj("arr", "float32", <<R(16384), R(32768)>>, "lc", FALSE),
  Ala4 |-> Obj("arr", "float32", <<R(2048), R(4096)>>, "la", FALSE),
  Vlb  |-> Obj("arr", "float64", <<R(2), R(4)>>, "lb", TRUE),
  Vlc4 |-> Obj("arr", "float32", <<R(16384), R(32768)>>, "lc", TRUE),
  Qlb  |-> Obj("q", "float64", <<R(2)>>, "lb", FALSE),
  Qla  |-> Obj("q", "float64", <<R(2048)>>, "la", FALSE),
  Qoff |-> Obj("q", "float64", <<R(2096)>>, "la", FALSE),          \* 48 more than the others
  Aoff |-> Obj("arr", "float64", <<R(16768), R(32768)>>, "lc", FALSE), \* first element 48 more
  Ala2 |-> Obj("arr", "float64", <<R(512), R(1024)>>, "la2", FALSE),     \* the symbol la of a second registry, worth 4
  Apost |-> Obj("arr", "float32", <<R(512), R(1024)>>, "lapost", FALSE), \* the symbol la of a registry after modify("la", 4)
  Ata  |-> Obj("arr", "float64", <<R(2048), R(4096)>>, "ta", FALSE),
  Atb  |-> Obj("arr", "float64", <<R(128), R(256)>>, "tb", FALSE),
  Ana  |-> Obj("arr", "float64", <<R(2048), R(4096)>>, "na", FALSE),
  Anq  |-> Obj("arr", "float64", <<R(8192), R(16384)>>, "nq", FALSE),
  Anq4 |-> Obj("arr", "float32", <<R(8192), R(16384)>>, "nq", FALSE),
  Bare |-> Obj("ba", "float64", <<R(2048), R(4096)>>, "bare", FALSE),
  Bar4 |-> Obj("ba", "float32", <<R(2048), R(4096)>>, "bare", FALSE),
  BarV |-> Obj("ba", "float64", <<R(2048), R(4096)>>, "bare", TRUE)]
Pairs == {<<"Ala", "Alb">>, <<"Alb", "Alc4">>, <<"Ala", "Vlb">>, <<"Vlc4", "Ala">>, <<"Qla", "Qlb">>, <<"Ala", "Qlb">>, <<"Qoff", "Qlb">>, <<"Alb", "Aoff">>,
          <<"Alb", "Ald">>, <<"Ata", "Atb">>, <<"Ala", "Atb">>, <<"Ana", "Anq">>, <<"Anq4", "Bare">>, <<"BarV", "Anq">>, <<"Bar4", "Anq4">>, <<"Ala4", "Alc4">>, <<"Ala", "Ala2">>, <<"Apost", "Alb">>}
         \cup (IF Thorough THEN {<<"Ala", "Alc4">>, <<"Vlb", "Vlc4">>, <<"Qoff", "Aoff">>, <<"Ana", "Bare">>, <<"Ala", "Bare">>, <<"Ala", "Ala4">>, <<"Qla", "Aoff">>, <<"Anq", "Anq4">>} ELSE {})
PoolOf(p) == <<Catalogue[p[1]], Catalogue[p[2]]>>

\* another unit of the same dimension, for re-expression by .to()
Alt(u) == CASE u = "la" -> "lb" [] u = "lb" -> "lc" [] u = "lc" -> "la" [] u = "ld" -> "la" [] u = "ta" -> "tb" [] u = "tb" -> "ta" [] u = "na" -> "nq" [] u = "nq" -> "na" [] u = "la2" -> "lb2" [] u = "lapost" -> "lapre" [] OTHER -> ""
St(h, a, d, rea, red, rt, at) == [helper |-> h, a |-> a, d |-> d, rea |-> rea, red |-> red, rt |-> rt, at |-> at]
\* numpy's own code decides when neither operand is a unyt object
Dispatches(pl, st) == st.helper \in UnytHelpers \/ st.helper = "assert_array_equal_units" \/ pl[st.a].k # "ba" \/ pl[st.d].k # "ba"
FullAlphabet(pl) ==
  {st \in
     {St(h, ad[1], ad[2], "", "", tc[1], tc[2]) : h \in CloseHelpers \cup EqualHelpers, ad \in {<<1, 2>>, <<2, 1>>, <<1, 1>>, <<2, 2>>},
                                                   tc \in {<<Zero, Zero>>, <<Sixteenth, Zero>>, <<Zero, Half>>}}
     \cup {St(h, ad[1], ad[2], Alt(pl[ad[1]].u), "", Zero, Zero) : h \in CloseHelpers \cup EqualHelpers, ad \in {<<1, 2>>, <<2, 1>>}}
     \cup {St(h, ad[1], ad[2], "", Alt(pl[ad[2]].u), Zero, Zero) : h \in CloseHelpers \cup EqualHelpers, ad \in {<<1, 2>>, <<2, 1>>}} :
   /\ Dispatches(pl, st)
   /\ (st.helper \in EqualHelpers => st.rt = Zero /\ st.at = Zero)
   /\ (st.a = st.d => st.rt = Zero /\ st.at = Zero)
   /\ (st.a = st.d => st.rea = "" /\ st.red = "")}
Reexpressible(pl, st) == (st.rea = "" \/ pl[st.a].u # "bare") /\ (st.red = "" \/ pl[st.d].u # "bare")
Full(pl) == {st \in FullAlphabet(pl) : Reexpressible(pl, st)}
Probe(pl) ==
  {st \in {St("allclose_units", 1, 2, "", "", Zero, Zero), St("allclose_units", 2, 1, "", "", Zero, Zero),
           St("assert_allclose_units", 2, 1, "", "", Sixteenth, Zero), St("np.allclose", 1, 2, "", "", Zero, Zero),
           St("np.isclose", 2, 1, "", "", Zero, Zero), St("np.array_equal", 2, 2, "", "", Zero, Zero),
           St("assert_array_equal_units", 1, 1, "", "", Zero, Zero), St("allclose_units", 1, 2, "", Alt(pl[2].u), Zero, Zero),
           St("allclose_units", 2, 1, "", Alt(pl[1].u), Zero, Zero)} : Dispatches(pl, st) /\ Reexpressible(pl, st)}
\* third and later calls: three of the probes
Probe3(pl) == {st \in Probe(pl) : \/ st = St("allclose_units", 1, 2, "", "", Zero, Zero)
                                  \/ st = St("np.isclose", 2, 1, "", "", Zero, Zero)
                                  \/ st = St("allclose_units", 2, 1, "", Alt(pl[1].u), Zero, Zero)}
\* an empty unit name in a re-expression slot that was meant to be filled (bare operand) collapses onto the plain call: harmless duplicate

Init == pool = <<>> /\ steps = <<>>
Next == \/ pool = <<>> /\ \E p \in Pairs : \E st \in Full(PoolOf(p)) : pool' = PoolOf(p) /\ steps' = <<st>>
        \/ pool # <<>> /\ Len(steps) < HistLen /\ \E st \in (IF Len(steps) = 1 THEN Probe(pool) ELSE Probe3(pool)) : steps' = Append(steps, st) /\ pool' = pool
Export == (pool # <<>> /\ Len(steps) = HistLen) =>
  PrintT(ToJson([tag |-> "CASE", pool |-> pool, steps |-> steps,
                 c |-> [j \in DOMAIN steps |-> StepCase(pool, steps[j])],
                 t |-> [j \in DOMAIN steps |-> T(StepCase(pool, steps[j]))],
                 mp |-> [j \in DOMAIN steps |-> P(StepCase(pool, steps[j]), T(StepCase(pool, steps[j])))]]))
=============================================================================
