CONSTANTS
  MaxChain = 1
  PathSet <- PrePaths
  Combos <- PreCombos
  ClsSet <- Classes
  OrderSet <- BothOrders
  PreSet <- OtherPre
INIT Init
NEXT Next
INVARIANT Export
CHECK_DEADLOCK FALSE
