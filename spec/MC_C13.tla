------------------------------ MODULE MC_C13 ------------------------------
(* Bounded instances of MultiReg for C13: the default registry + up to       *)
(* MaxRegs custom registries created by every route, all interleavings of    *)
(* calls up to MaxLen.  The history is hidden by VIEW; one witness history    *)
(* per distinct state (cover) or per explored transition (trans) is exported. *)
(* The model-level verdicts C13_NoSharing and C13_Frame are exported too.     *)
EXTENDS MultiReg
CONSTANTS MaxLen, ExportLen,
          Mixed,      \* BOOLEAN: binary operations / rebinding between registries enabled
          Namespaces, \* BOOLEAN: unit systems / namespaces enabled
          Editing,    \* BOOLEAN: add / modify / remove / define / in / Unit(str) enabled
          WarmSet,    \* subset of BOOLEAN: lru state of binary operations
          DScales,    \* scales used by add/define on the default registry (subset of Scales)
          DPfx,       \* prefixable flags used by add/define on the default registry (subset of BOOLEAN)
          AddScales, ModScales,   \* scales used by add / modify on custom registries (subsets of Scales)
          ReadKeys, ReadProbes,   \* arguments of `in` / Unit(str)
          BinP, BinF,             \* unit strings / operators of binary operations (subsets of BinProbes / BinOps)
          CopyP, PickleP,         \* unit strings of copied units / of pickled quantities
          ConvHows,               \* conversion methods (subset of Hows)
          HandleH,                \* ways of obtaining a second registry object on the same table (subset of HandleHows)
          PickleH,                \* what is pickled to restore a registry object: subset of {"registry", "unit"}
          ModVias, DefVias,       \* value classes of the argument of modify / define_unit (subsets of Vias / {"num", "ns"})
          InBaseQ, InBaseS        \* data units of in_base (subset of Keys) / "none" | "slim" | "full": see InBaseForms

\* a re-binding with bypass_validation=True is only generated as the LAST call of a history: on today's code it
\* re-binds the caller's Unit object (known finding), after which every later call is a consequence of that
NoBypassYet == \A i \in DOMAIN hist : ~(hist[i].op = "rebind" /\ hist[i].bypass)
\* <<data unit, built-in system, unit string of a following .to() or "">> (cfg files cannot hold tuples: selected by name)
InBaseForms == CASE InBaseS = "none" -> {}
                 [] InBaseS = "slim" -> {<<"km", "cgs", "">>, <<"m", "mks", "km">>}
                 [] OTHER -> {<<q, "cgs", "">> : q \in InBaseQ} \cup {<<q, "mks", "">> : q \in InBaseQ}
                             \cup {<<"m", "mks", "km">>, <<"km", "cgs", "kfoo">>, <<"foo", "mks", "km">>}
Edits(r) ==
  \/ \E s \in Syms, sc \in (IF regs[r].d = 0 THEN DScales ELSE AddScales), px \in (IF regs[r].d = 0 THEN DPfx ELSE BOOLEAN) : Add(r, s, sc, px)
  \/ \E k \in Keys, via \in ModVias : \E sc \in (IF via = "ns" THEN {NsScale} ELSE ModScales) : Modify(r, k, sc, via)
  \/ \E k \in Keys : Remove(r, k)
Reads(r) ==
  \/ \E k \in ReadKeys : Contains(r, k)
  \/ \E p \in ReadProbes : Construct(r, p)
  \/ \E st \in InBaseForms : InBase(r, st[1], st[2], st[3])
Creations ==
  \/ \E defs \in BOOLEAN : NewPlain(defs, "mks")
  \/ NewPlain(TRUE, "cgs")
  \/ \E src \in RegIds, defs \in BOOLEAN : NewLutAlias(src, defs)
  \/ \E src \in RegIds : NewLutCopy(src) \/ FromJson(src) \/ DeepCopyReg(src)
  \/ \E src \in RegIds, how \in HandleH : ShallowHandle(src, how)
  \/ \E src \in RegIds, how \in PickleH : PickleReg(src, how, "km")
  \/ \E src \in RegIds, p \in PickleP : Unpickle(src, p)
  \/ \E src \in RegIds, p \in CopyP, deep \in BOOLEAN : UnitCopy(src, p, deep)
NsOps(r) == MkUnitSystem(r, "kfoo", FALSE) \/ MkUnitSystem(r, "km", FALSE) \/ MkUnitSystem(r, "km", TRUE) \/ MkUnitSystem(r, "foo", FALSE)
            \/ AddSymbols(r) \/ AddConstants(r)
MixedOps ==
  \/ \E op \in BinF, r1, r2 \in RegIds, p1, p2 \in BinP, w \in WarmSet : BinOp(op, r1, p1, r2, p2, w)
  \/ \E r, src \in RegIds, p \in BinP \cup {"km"}, bv \in BOOLEAN : Rebind(r, src, p, bv)
  \/ \E r, src \in RegIds, q \in BinP, p \in BinP \cup {"km"}, how \in ConvHows : Convert(r, q, src, p, how)

Next == /\ Len(hist) < MaxLen /\ NoBypassYet
        /\ \/ (Editing /\ \E r \in RegIds : Edits(r) \/ Reads(r))
           \/ (Editing /\ \E r \in RegIds, via \in DefVias, px \in DPfx : \E sc \in (IF via = "ns" THEN {NsScale} ELSE DScales) : DefineUnit(r, sc, px, via))
           \/ Creations
           \/ (Namespaces /\ \E r \in RegIds : NsOps(r))
           \/ (Mixed /\ MixedOps)
Spec == Init /\ [][Next]_vars

\* the kind of the last call stays visible (which call, through which registries): two calls that end in the same
\* dictionaries are still two different things for C13 (e.g. a product whose result carries the right registry)
LastKind == IF hist = <<>> THEN <<>> ELSE LET e == hist[Len(hist)] IN
            IF e.op \in {"binop", "rebind", "convert"}
            THEN <<e.op, e.r = 0, e.r2 = 0, e.r = e.r2, IF e.op = "binop" THEN e.fn ELSE IF e.op = "convert" THEN e.how ELSE "",
                   IF e.op = "binop" THEN e.warm ELSE FALSE>>
            ELSE IF regs[e.r].d = 0 /\ e.op \in {"modify", "remove"} THEN <<e.op, e.r, e.sym, IF e.op = "modify" THEN e.via ELSE "">>   \* every refusal of the default table
            ELSE IF e.op \in {"modify", "define"} THEN <<e.op, e.r, e.via>>     \* every value class of the argument
            ELSE IF e.op = "usys" THEN <<e.op, e.r, e.obj>>
            ELSE IF e.op = "inbase" THEN <<e.op, e.r, e.sys, e.str2>>
            ELSE <<e.op, e.r>>
\* NoBypassYet is a guard on the hidden history, so it must be visible too (otherwise a dead-end representative
\* could shadow a live state with the same dictionaries)
View == <<regs, tabs, tflag, memo, last, LastKind, NoBypassYet>>

\* the same without the creation route (used by the instances that explore mixed operations, where the route of a
\* registry does not matter; the route-visible instance covers routes x edits)
View2 == <<[r \in RegIds |-> [live |-> regs[r].live, d |-> regs[r].d, c |-> regs[r].c, kind |-> regs[r].kind, grp |-> regs[r].grp]],
           tabs, tflag, memo, last, LastKind, NoBypassYet>>
LastIsMixed == hist # <<>> /\ hist[Len(hist)].op \in {"binop", "rebind", "convert"}

\* model-level verdicts
ModelSharing == C13_NoSharing \/ PrintT(ToJson([tag |-> "MODEL-SHARING", h |-> hist]))
ModelFrame == LET e == hist'[Len(hist')]
                  b == FrameBroken(e) IN
              b = {} \/ PrintT(ToJson([tag |-> "MODEL-FRAME", h |-> hist', regs |-> b]))
\* state cover: one (shortest) witness history per distinct state
ExportState == PrintT(ToJson([tag |-> "HIST", h |-> hist]))
\* state cover restricted to histories that end in a mixed operation
ExportMixedState == LastIsMixed => PrintT(ToJson([tag |-> "HIST", h |-> hist]))
\* state cover restricted to histories in which an argument was an OBJECT somebody else holds (value classes other than
\* "num" of modify / define_unit, the exported Unit object as base unit of a unit system)
HasObjArg == \E i \in DOMAIN hist : \/ (hist[i].op \in {"modify", "define"} /\ hist[i].via # "num")
                                     \/ (hist[i].op = "usys" /\ hist[i].obj)
ExportArgState == HasObjArg => PrintT(ToJson([tag |-> "HIST", h |-> hist]))
\* transition cover: one witness history per explored transition
ExportTrans == PrintT(ToJson([tag |-> "HIST", h |-> hist']))
\* all histories of terminal length (used with -simulate)
ExportHist == Len(hist) = ExportLen => PrintT(ToJson([tag |-> "HIST", h |-> hist]))
=============================================================================
