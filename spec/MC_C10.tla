------------------------------- MODULE MC_C10 -------------------------------
(* Bounded single-step instance of UnitSystem for C10: the case table        *)
(*   system  x  unit  x  entry point                                         *)
(* over the data of the tree under test.  TLC enumerates the cases, computes *)
(* for each the route and the outcome of the transcription, checks the C10   *)
(* clauses on that outcome (model level: which classes of cases break C10 in *)
(* the design as transcribed) and exports every case for replay.             *)
(*                                                                           *)
(* Families (selected by the constant Family so that each export is one TLC  *)
(* run with its own counters):                                               *)
(*   "atoms"    every table system x every atom of the table x every variant *)
(*   "prefixed" every table system x prefix in PrefixSet x prefixable atom   *)
(*   "compound" every table system x a^e1 * b^e2 over CompAtoms              *)
(*   "user"     generated user-defined systems (base units from the first    *)
(*              NCand consistent atoms of each slot + one prefixed form,     *)
(*              with / without an MKS current, optional declarations)        *)
(*              x probe units; the value class of the base-unit arguments    *)
(*              (string, Unit object, quantity, alias word) and the call     *)
(*              form (keyword / positional) rotate over the cases            *)
(*   "scaled"   user-defined systems whose length / mass / time base units   *)
(*              carry numeric coefficients (CoefTuples), x atoms and powers  *)
(*              and products of the base dimensions                          *)
(*   "validate" creation only: a consistent base tuple (default registry /   *)
(*              code-unit registry) with ONE slot replaced by every          *)
(*              candidate unit of every slot, the defaults, their prefixed   *)
(*              forms and derived-dimension atoms, x coefficient x value     *)
(*              class x call form: consistent tuples must be accepted and    *)
(*              usable, inconsistent ones rejected                           *)
(*   "values"   every table system x atoms (compound alphabet, every atom of  *)
(*              an electromagnetic dimension, prefixed EM atoms, atoms with  *)
(*              a zero point) x value-level entry point x VALUE CLASS of the *)
(*              data (narrow float, integer, complex, narrow complex)        *)
(*   "offset"   user-defined systems whose temperature base unit has a zero  *)
(*              point (degC, degF, optionally prefixed) x every atom of      *)
(*              temperature dimension (+ prefixed, powers, compounds) and    *)
(*              the user probes x entry point; value class rotates           *)
(* Entry points "in_base_mod", "convert_mod", "gbe_mod": the quantity lives  *)
(* in a registry of its own in which the mass / length / time / temperature  *)
(* symbols were redefined (modify); the system does not.                     *)
EXTENDS UnitSystem
CONSTANTS Family, PrefixSet, Variants, CompStride, NCand, KiloPrefix, DeclStride, VCSet
\* value classes of a base-unit argument, call forms, (mass, length, time) coefficient tuples of the scaled family
Styles == <<"str", "unitobj", "quantity", "alias">>
Forms == <<"kw", "pos">>
CoefTuples == {<< <<3, 1>>, <<2, 1>>, <<1, 1>> >>, << <<1, 1>>, <<2, 1>>, <<2, 1>> >>, << <<1, 2>>, <<1, 1>>, <<3, 1>> >>}

VARIABLE c
Init == c = <<>>

IsSys(i) == i \in DOMAIN Systems
RegOk(S, x) == \A t \in x : Atoms[t[2]].reg = 0 \/ S.reg = 1
VarOk(S, v) == /\ (v \in {"in_sys", "convert_sys", "gbe_sys"} => S.short # "")
               /\ (v \in {"default", "default_conv", "in_base_mod", "convert_mod", "gbe_mod"} => S.reg = 0)
UnitLevel == {"gbe", "gbe_sys", "gbe_mod"}

AtomUnits == {{<<0, a, 12>>} : a \in 1..NAtoms}
PrefUnits == {{<<p, a, 12>>} : p \in PrefixSet, a \in {b \in 1..NAtoms : Atoms[b].pfx}}
\* compound alphabet: the first atom of every dimension in table order (every CompStride-th of them), plus the EM atoms
FirstOfDim == {a \in 1..NAtoms : Atoms[a].reg = 0 /\ ~Atoms[a].off /\ \A b \in 1..(a - 1) : Atoms[b].dim # Atoms[a].dim}
Rank(a) == Cardinality({b \in FirstOfDim : b < a})
CompAtoms == {a \in FirstOfDim : Rank(a) % CompStride = 0} \cup {EMTab[i].from : i \in DOMAIN EMTab}
Exps == {12, -12, 24, 6}
CompUnits == {{<<0, a, e1>>, <<0, b, e2>>} : a \in CompAtoms, b \in CompAtoms, e1 \in Exps, e2 \in {12, -12}} \ {{}}
CompOk(x) == Cardinality(x) = 2 /\ Cardinality(XAtoms(x)) = 2

\* ---- generated user-defined systems ----
SlotAtoms(i) == {a \in 1..NAtoms : Atoms[a].reg = 0 /\ ~Atoms[a].off /\ Atoms[a].dim = DBase(i)}
FirstN(S, n) == {a \in S : Cardinality({b \in S : b < a}) < n}
SlotCands(i) == {<<0, a>> : a \in FirstN(SlotAtoms(i), NCand)}
                \cup {<<KiloPrefix, a>> : a \in FirstN({b \in SlotAtoms(i) : Atoms[b].pfx}, 1)}
\* the last atoms of the table of that dimension too (the planck / geometrized end of the table)
LastN(S, n) == {a \in S : Cardinality({b \in S : b > a}) < n}
SlotCands2(i) == SlotCands(i) \cup {<<0, a>> : a \in LastN(SlotAtoms(i), 1)}
\* declarations: one atom of a derived dimension per declaration; dimension = the atom's
DeclAtomsAll == {a \in FirstOfDim \cup {EMTab[i].from : i \in DOMAIN EMTab} : Atoms[a].dim \notin {DBase(i) : i \in 1..NDim} /\ ~DIsZero(Atoms[a].dim)}
DeclAtomsAlpha == {a \in DeclAtomsAll : Cardinality({b \in DeclAtomsAll : b < a}) % DeclStride = 0}
DeclSeqs(cur) == {<<>>} \cup {<<[dim |-> Atoms[a].dim, x |-> <<<<0, a, 12>>>>]>> : a \in {b \in DeclAtomsAlpha : cur \/ Atoms[b].dim[CUR] = 0}}
UserBases == {<<m, l, t, th, Defaults[5], cu, NoUnit, Defaults[8], Defaults[9]>> :
                m \in SlotCands2(1), l \in SlotCands2(2), t \in SlotCands(3), th \in {<<0, a>> : a \in FirstN(SlotAtoms(4), 2)}, cu \in {Defaults[6], NoUnit}}
UserProbes == {{<<0, a, 12>>} : a \in CompAtoms} \cup {{<<KiloPrefix, a, 12>>} : a \in {EMTab[i].from : i \in DOMAIN EMTab}}

CaseV(i, spec, x, v, vc) == [sys |-> i, spec |-> spec, x |-> x, var |-> v, vc |-> vc,
                             route |-> Route(spec, x), exp |-> Target(spec, x)]
Case(i, spec, x, v) == CaseV(i, spec, x, v, "f64")
Ones == [i \in 1..NDim |-> ROne]
MkSpec(b, bc, ds, st, fm, rg) == [base |-> b, bcoef |-> bc, decl |-> ds, reg |-> rg, coef |-> FALSE, short |-> "", style |-> st, form |-> fm]
Pick(seq, n) == seq[(n % Len(seq)) + 1]
SumBase(b) == b[1][2] + b[2][2] + b[3][2] + b[4][2]
ProbeNo(x) == (CHOOSE t \in x : TRUE)[2]

RealSlots == (1..NDim) \ {7}
\* ---- base units with numeric coefficients ----
BaseFirst == {a \in FirstOfDim : Atoms[a].dim \in {DBase(1), DBase(2), DBase(3)}}
BaseFirstAll == {a \in FirstOfDim : \E i \in RealSlots : Atoms[a].dim = DBase(i)}
ScaledProbes == UserProbes
                \cup {{<<0, a, e>>} : a \in BaseFirstAll, e \in {24, -12, -24, 36, 6}}
                \cup {x \in {{<<0, a, e1>>, <<0, b, e2>>} : a \in BaseFirst, b \in BaseFirst, e1 \in {12, -12, 24, -36}, e2 \in {12, -12, -24}} : CompOk(x)}
ScaledBases == {b \in UserBases : b[4] = Defaults[4]}
ScaledDecls(cur) == {ds \in DeclSeqs(cur) : ds = <<>> \/ \A ds2 \in DeclSeqs(cur) : ds2 = <<>> \/ ds2[1].x[1][2] >= ds[1].x[1][2]}
ScaledStyles == <<"quantity", "str", "unitobj">>
ScaledVars == <<"in_base", "convert_to_base", "gbe", "to_gbe", "sysobj">>

\* ---- validation of base units ----
CodeSys == CHOOSE i \in DOMAIN Systems : Systems[i].reg = 1
GoodBaseDefault == <<CHOOSE pa \in SlotCands(1) : pa[1] = 0, CHOOSE pa \in SlotCands(2) : pa[1] = 0, CHOOSE pa \in SlotCands(3) : pa[1] = 0,
                      Defaults[4], Defaults[5], Defaults[6], NoUnit, Defaults[8], Defaults[9]>>
GoodBaseCode == Systems[CodeSys].base
GoodBase(rg) == IF rg = 1 THEN GoodBaseCode ELSE GoodBaseDefault
DefaultUnits == {Defaults[j] : j \in RealSlots} \ {NoUnit}
WrongCands == UNION {SlotCands(j) : j \in RealSlots} \cup DefaultUnits
              \cup {<<KiloPrefix, pa[2]>> : pa \in {q \in DefaultUnits : Atoms[q[2]].pfx}}
              \cup {<<0, a>> : a \in FirstN(DeclAtomsAll, 3)}
              \cup {<<0, a>> : a \in {b \in 1..NAtoms : Atoms[b].reg = 1}}
ValStyleOk(st, cf, rg, pa) == /\ (cf # ROne => st \in {"quantity", "str"})
                              /\ (st = "alias" => rg = 0)
                              /\ (Atoms[pa[2]].reg = 1 => rg = 1)

\* ---- value classes of the data ----
EMFrom == {EMTab[i].from : i \in DOMAIN EMTab}
EMDimAtoms == {a \in 1..NAtoms : Atoms[a].reg = 0 /\ Atoms[a].dim \in EMDims}
OffAtoms == {a \in 1..NAtoms : Atoms[a].reg = 0 /\ Atoms[a].off}
ValueUnits == {{<<0, a, 12>>} : a \in CompAtoms \cup EMDimAtoms \cup OffAtoms}
              \cup {{<<p, a, 12>>} : p \in PrefixSet, a \in {b \in EMFrom : Atoms[b].pfx}}

\* ---- temperature base units with a zero point ----
TempAtoms == {a \in 1..NAtoms : Atoms[a].reg = 0 /\ Atoms[a].dim = DBase(4)}
OffTemps == {a \in TempAtoms : Atoms[a].off}
First(i) == CHOOSE pa \in SlotCands(i) : pa[1] = 0
OffsetBases == {<<First(1), l, First(3), th, Defaults[5], cu, NoUnit, Defaults[8], Defaults[9]>> :
                  l \in SlotCands(2), th \in {<<0, a>> : a \in OffTemps} \cup {<<KiloPrefix, a>> : a \in {b \in OffTemps : Atoms[b].pfx}},
                  cu \in {Defaults[6], NoUnit}}
OffsetProbes == {{<<0, a, 12>>} : a \in TempAtoms}
                \cup {{<<p, a, 12>>} : p \in PrefixSet, a \in {b \in TempAtoms : Atoms[b].pfx}}
                \cup {{<<0, a, e>>} : a \in TempAtoms, e \in {24, -12, 6}}
                \cup {x \in {{<<0, a, e1>>, <<0, b, e2>>} : a \in TempAtoms, b \in BaseFirst, e1 \in {12, -12}, e2 \in {12, -12}} : CompOk(x)}
                \cup UserProbes
OffsetVars == {"in_base", "in_base_arr", "convert_to_base", "gbe", "to_gbe", "sysobj"}
OffsetVCs == <<"f64", "c128", "f64", "f32", "i64", "f64", "c64">>

NoSpec == [base |-> <<>>, decl |-> <<>>, reg |-> 0, coef |-> FALSE]

Next ==
  /\ c = <<>>
  /\ \/ /\ Family = "atoms"
        /\ \E i \in DOMAIN Systems, x \in AtomUnits, v \in Variants :
             RegOk(Systems[i], x) /\ VarOk(Systems[i], v) /\ c' = Case(i, Systems[i], x, v)
     \/ /\ Family = "prefixed"
        /\ \E i \in DOMAIN Systems, x \in PrefUnits, v \in Variants :
             RegOk(Systems[i], x) /\ VarOk(Systems[i], v) /\ c' = Case(i, Systems[i], x, v)
     \/ /\ Family = "compound"
        /\ \E i \in DOMAIN Systems, x \in CompUnits, v \in Variants :
             CompOk(x) /\ RegOk(Systems[i], x) /\ VarOk(Systems[i], v) /\ c' = Case(i, Systems[i], x, v)
     \/ /\ Family = "user"
        /\ \E b \in UserBases : \E ds \in DeclSeqs(b[CUR] # NoUnit) : \E x \in UserProbes, v \in Variants :
             LET n == SumBase(b) + ProbeNo(x)
                 spec == MkSpec(b, Ones, ds, Pick(Styles, n), Pick(Forms, n \div Len(Styles)), 0) IN
             RegOk(spec, x) /\ VarOk(spec, v) /\ c' = Case(0, spec, x, v)
     \/ /\ Family = "scaled"
        /\ \E b \in ScaledBases, ct \in CoefTuples : \E ds \in ScaledDecls(b[CUR] # NoUnit) : \E x \in ScaledProbes :
             LET n == SumBase(b) + ProbeNo(x) + ct[2][1]
                 v == Pick(ScaledVars, n \div 2)
                 \* temperature and current base units carry a coefficient too (reusing the mass / time ones)
                 bc == [Ones EXCEPT ![1] = ct[1], ![2] = ct[2], ![3] = ct[3], ![4] = ct[1], ![6] = IF b[CUR] # NoUnit THEN ct[3] ELSE ROne]
                 spec == MkSpec(b, bc, ds, Pick(ScaledStyles, n), Pick(Forms, n \div 3), 0) IN
             RegOk(spec, x) /\ VarOk(spec, v) /\ c' = Case(0, spec, x, v)
     \/ /\ Family = "values"
        /\ \E i \in DOMAIN Systems, x \in ValueUnits, v \in Variants \ UnitLevel, vc \in VCSet :
             RegOk(Systems[i], x) /\ VarOk(Systems[i], v) /\ c' = CaseV(i, Systems[i], x, v, vc)
     \/ /\ Family = "offset"
        /\ \E b \in OffsetBases, x \in OffsetProbes, v \in OffsetVars :
             LET n == SumBase(b) + ProbeNo(x) + Cardinality(x)
                 spec == MkSpec(b, Ones, <<>>, Pick(Styles, n), Pick(Forms, n \div Len(Styles)), 0)
                 vc == IF v \in UnitLevel THEN "f64" ELSE Pick(OffsetVCs, n + Len(v)) IN
             RegOk(spec, x) /\ c' = CaseV(0, spec, x, v, vc)
     \/ /\ Family = "validate"
        /\ \E rg \in {0, 1}, i \in RealSlots, w \in WrongCands, cf \in {ROne, <<2, 1>>}, st \in {Styles[j] : j \in DOMAIN Styles}, fm \in {Forms[j] : j \in DOMAIN Forms} :
             LET b == [GoodBase(rg) EXCEPT ![i] = w]
                 spec == MkSpec(b, [Ones EXCEPT ![i] = cf], <<>>, st, fm, rg)
                 x == {<<GoodBase(rg)[2][1], GoodBase(rg)[2][2], 12>>} IN
             ValStyleOk(st, cf, rg, w) /\ c' = Case(0, spec, x, "in_base")
        \* two slots exchanged: every unit is one the system uses, only in the wrong place
     \/ /\ Family = "validate"
        /\ \E rg \in {0, 1}, i \in RealSlots, j \in RealSlots, st \in {Styles[k] : k \in DOMAIN Styles}, fm \in {Forms[k] : k \in DOMAIN Forms} :
             LET g == GoodBase(rg)
                 b == [g EXCEPT ![i] = g[j], ![j] = g[i]]
                 spec == MkSpec(b, Ones, <<>>, st, fm, rg)
                 x == {<<g[2][1], g[2][2], 12>>} IN
             i < j /\ g[i] # NoUnit /\ g[j] # NoUnit /\ (st = "alias" => rg = 0) /\ c' = Case(0, spec, x, "in_base")

\* ---- model level: the clauses the transcription itself breaks (reported per route, never a verdict) ----
ModelClauses(S, x) ==
  LET t == Target(S, x) IN
  IF t.k = "raise" THEN {}
  ELSE LET t2 == Target(S, t.x) d == XDim(t.x) IN
       (IF Inside(S, t.x, d) THEN {} ELSE {"Inside"})
       \cup (IF DimOk(XDim(x), d) THEN {} ELSE {"Dimension"})
       \cup (IF t2.k = "ok" /\ t2.x = t.x THEN {} ELSE {"Idempotent"})

Export == c # <<>> =>
  PrintT(ToJson([tag |-> "CASE", sys |-> c.sys,
                 base |-> IF c.sys = 0 THEN c.spec.base ELSE <<>>,
                 decl |-> IF c.sys = 0 THEN c.spec.decl ELSE <<>>,
                 bcoef |-> IF c.sys = 0 THEN c.spec.bcoef ELSE <<>>,
                 style |-> IF c.sys = 0 THEN c.spec.style ELSE "",
                 form |-> IF c.sys = 0 THEN c.spec.form ELSE "",
                 reg |-> c.spec.reg,
                 x |-> c.x, var |-> c.var, vc |-> c.vc, route |-> c.route,
                 model |-> ModelClauses(c.spec, c.x)]))
=============================================================================
