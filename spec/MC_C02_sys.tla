------------------------------ MODULE MC_C02_sys ------------------------------
(* Case table of DefsSys, one state per case: target unit system x source     *)
(* expression x edited table symbol x edit x (registry created with           *)
(* unit_system = the target or not; only for modify).  Mod/Sel select a       *)
(* residue class of the cases (1/0 = all).  TLC checks on every case that the *)
(* source is well-formed (every atom readable, the edited symbol editable).   *)
EXTENDS DefsSys
CONSTANTS Mod, Sel
VARIABLE c
Init == c = [k |-> "start"]
Pick(s, src, t, op, ctor) == (s * 5 + t + src[1][1] + 3 * Len(src) + op + (IF ctor THEN 1 ELSE 0) + Sel) % Mod = 0
Next == c.k = "start" /\ \E s \in DOMAIN Systems : \E src \in Sources(s) : \E t \in EditedRows(s, src), op \in DOMAIN SysOps, ctor \in BOOLEAN :
          /\ (ctor => SysOps[op] = "modify")
          /\ Pick(s, src, t, op, ctor)
          /\ c' = [k |-> "sys", s |-> s, src |-> src, t |-> t, op |-> SysOps[op], ctor |-> ctor]
WellFormed == c.k = "sys" => /\ \A j \in DOMAIN c.src : Readable(c.src[j][1])
                             /\ SysEditable(c.t)
                             /\ Len(FormsOf(c.s, c.ctor)) >= 5
Export ==
  CASE c.k = "start" -> PrintT(ToJson([tag |-> "SYSTEMS", n |-> Len(Systems), sources |-> [s \in DOMAIN Systems |-> Cardinality(Sources(s))]]))
    [] c.k = "sys" ->
        LET an == Anchors(c.s, c.src, c.t, c.op) IN
        PrintT(ToJson([tag |-> "SYS", s |-> c.s, src |-> c.src, t |-> c.t, op |-> c.op, ctor |-> c.ctor, gens |-> SysDef(c.t, c.op),
                       anch |-> {[n |-> n, g |-> an[n]] : n \in DOMAIN an}, pool |-> Pool(c.s, c.src), forms |-> FormsOf(c.s, c.ctor),
                       dim |-> SDim(c.src), pfx |-> Table[c.t].pfx]))
=============================================================================
