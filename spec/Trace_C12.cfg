CONSTANTS
  Alias = FALSE
INIT TraceInit
NEXT TraceNext
CHECK_DEADLOCK FALSE
