"""Code -> spec over the repository's own test-suite.

record(ck)            run /repo's tests under the external tracer (harness/unyt_verif_tracer.py,
                      guard UNYT_VERIF_TRACE) and return the normalised events
validate(ck, preds)   let TLC (spec/SuiteTrace.tla) evaluate the event-level property predicates
                      `preds` on every event; returns the list of P-FAIL records joined with their events

Python only projects and normalises (every field present, no None, no floats); verdicts are TLC's."""

import json
import os
import subprocess
import sys

from common import REPO, VERIF, MachineryFailure

ZERO8 = [0] * 8


def _op(pre, post, isout):
    pre = pre or {}
    post = post or {}
    k = pre.get("k", "other")
    dim = pre.get("dim")
    val = pre.get("val")
    return {
        "k": k,
        "u": str(pre.get("u", "")),
        "u2": str(post.get("u", "")),
        "dt": str(pre.get("dt", "")),
        "dt2": str(post.get("dt", "")),
        "sh": list(pre.get("sh", [])),
        "sh2": list(post.get("sh", [])),
        "sz": int(pre.get("sz", 0)),
        "dig": str(pre.get("dig") or ""),
        "dig2": str(post.get("dig") or ""),
        "dimok": isinstance(dim, list),
        "dim": dim if isinstance(dim, list) else ZERO8,
        "zero": bool(pre.get("zero", False)),
        "hasq": bool(pre.get("hasq", False)),
        "off": bool(pre.get("off", False)),
        "isout": bool(isout),
        "valok": isinstance(val, list),
        "val": val if isinstance(val, list) else [0, 1],
    }


def _res(r):
    dim = r.get("dim")
    return {
        "k": r.get("k", "other"),
        "sh": list(r.get("sh", [])),
        "sz": int(r.get("sz", 0)),
        "u": str(r.get("u", "")),
        "dimok": isinstance(dim, list),
        "dim": dim if isinstance(dim, list) else ZERO8,
    }


def normalise(e):
    pre = e.get("pre", [])
    post = e.get("post", [])
    nin = int(e.get("nin", len(pre)))
    nout = int(e.get("nout", 0))
    outpos = set(e.get("out_pos", []))
    ops = []
    for j, p in enumerate(pre):
        isout = (e["ev"] == "ufunc" and j >= nin) or (e["ev"] == "ufunc" and False) or (j in outpos)
        if e["ev"] == "ufunc" and j < nin and j in [x for x in e.get("out_is", []) if x >= 0]:
            isout = True
        ops.append(_op(p, post[j] if j < len(post) else {}, isout))
    return {
        "ev": e["ev"],
        "fn": str(e.get("fn", "")),
        "method": str(e.get("method", "")),
        "exc": str(e.get("exc", "")),
        "excwarn": str(e.get("exc", "")).endswith("Warning"),
        "nin": nin,
        "nout": nout,
        "has_out": bool(e.get("has_out", False)),
        "mutating": bool(e.get("mutating", False)),
        "regd": bool(e.get("regd", False)),
        "ops": ops,
        "res": [_res(r) for r in e.get("res", [])],
        "test": str(e.get("test", "")),
        "seq": int(e.get("seq", 0)),
    }


def record(ck, select=None):
    """Run the repository's test-suite under the tracer; return (normalised events, raw summary)."""
    out = ck.path("suite_trace.ndjson")
    if os.path.exists(out):
        os.unlink(out)
    env = ck.env({"UNYT_VERIF_TRACE": out})
    env["PYTHONPATH"] = REPO + os.pathsep + os.path.join(VERIF, "harness")
    cmd = [sys.executable, "-m", "pytest", "-q", "-p", "no:cacheprovider", "-p", "unyt_verif_tracer", "--timeout=900", "-x" if False else "-q", "unyt"]
    if select:
        cmd += ["-k", select]
    r = subprocess.run(cmd, cwd=REPO, env=env, capture_output=True, text=True, timeout=1200)
    tail = (r.stdout or "").strip().splitlines()[-1:] or [""]
    if not os.path.exists(out):
        raise MachineryFailure("suite trace not written: " + (r.stdout or "")[-800:] + (r.stderr or "")[-800:])
    events = []
    for line in open(out, encoding="ascii"):
        try:
            events.append(normalise(json.loads(line)))
        except Exception as e:  # noqa: BLE001
            raise MachineryFailure(f"bad trace line: {e}: {line[:200]}")
    os.unlink(out)
    return events, tail[0]


def validate(ck, preds, events=None, label="suite"):
    """TLC evaluates the predicates on every event.  Returns [(record, event)] for each P-FAIL."""
    if events is None:
        events, tail = record(ck)
        ck.cov.setdefault("suite", {})["pytest_tail"] = tail[-120:]
    if not events:
        raise MachineryFailure("no events recorded from the test-suite")
    fails = []
    applied = {}
    CH = 6000
    for off in range(0, len(events), CH):
        part = events[off : off + CH]
        pe = ck.write_json(f"suite_events_{label}_{off}.json", part)
        pp = ck.write_json(f"suite_preds_{label}.json", list(preds))
        res = ck.tlc("SuiteTrace", env={"EVENTS": pe, "PREDS": pp}, workers=1, coverage=False, label=f"suite trace validation {label} [{off}:{off + len(part)}] preds={','.join(preds)}", timeout=1200)
        if res.distinct != len(part) + 1:
            raise MachineryFailure(f"suite trace validation consumed {res.distinct - 1} of {len(part)} events")
        for r in res.by_tag("P-FAIL"):
            fails.append((r, part[r["idx"] - 1]))
        for r in res.by_tag("APPLIED"):
            applied[r["pred"]] = applied.get(r["pred"], 0) + 1
        os.unlink(pe)
    ck.validated(len(events))
    s = ck.cov.setdefault("suite", {})
    s["events"] = s.get("events", 0) + len(events)
    s["preds"] = sorted(set(s.get("preds", [])) | set(preds))
    s["applied"] = applied
    by = {}
    for e in events:
        by[e["ev"]] = by.get(e["ev"], 0) + 1
    s["by_kind"] = by
    return fails


def brief(e):
    """Short, stable description of an event for keys/details."""
    return {
        "ev": e["ev"],
        "fn": e["fn"],
        "method": e["method"],
        "exc": e["exc"],
        "ops": [{"k": o["k"], "u": o["u"], "u2": o["u2"], "dt": o["dt"], "dt2": o["dt2"], "sh": o["sh"], "changed": o["dig"] != o["dig2"]} for o in e["ops"][:4]],
        "res": [{"k": r["k"], "sh": r["sh"], "u": r["u"]} for r in e["res"][:3]],
        "test": e["test"],
    }


def check(ck, preds):
    """Record the repository's test-suite, let TLC evaluate `preds`, turn each P-FAIL into a verdict."""
    fails = validate(ck, preds)
    for r, e in fails:
        key = {"source": "suite", "pred": r["pred"], "fn": e["fn"], "method": e["method"], "exc": e["exc"]}
        ck.violation(key, brief(e), case={"suite_event": e})
    return len(fails)
