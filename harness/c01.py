"""C01 - incommensurable quantities are never silently combined.

Spec: spec/Ufunc.tla (+ MC_C01, MC_C01_table, Trace_C01).
  1. TLC enumerates the bounded matrix operation x call form x operand kinds x units (model alphabet: dyadic units
     in a custom registry + the real temperature/percent/angle/EM units), evaluates the transcription and the
     model-level verdict of the property, and exports every case.
  2. every case is replayed on the real library (harness/impl_c01.py): returned vs raised, exception class, result
     unit and numbers, numbers+unit of every operand before/after.
  3. TLC (Trace_C01) evaluates the property predicate P_C01 on the OBSERVATION (verdict) and compares the observation
     with the transcription (T_C01, drift).
  4. gamma sweep: TLC enumerates ordered pairs of real units of the tree's lookup table (one representative per
     dimension; thorough: every ordered pair of distinct dimensions) for each operation class; same replay/validation.
  5. code -> spec: the repository's own test-suite under the external tracer, predicate P01 (spec/SuiteTrace.tla).
Python only builds operands, projects results and snaps floats to small rationals (rel 1e-12)."""

import concurrent.futures as cf
import json
import math
import os
from fractions import Fraction

from common import INT_LIMIT, MachineryFailure

CASE_FIELDS = ("fam", "op", "form", "k0", "n0", "k1", "n1")
CHUNK = 25000


def _rat(s):
    try:
        x = float(s)
    except (TypeError, ValueError):
        return None
    if math.isnan(x) or math.isinf(x):
        return None
    f = Fraction(x)
    g = f.limit_denominator(1000000)  # 5 % in the ratio unit lb/la = 5/102400
    if abs(f - g) <= 1e-12 * max(1, abs(g)) and abs(g.numerator) <= INT_LIMIT:
        return [g.numerator, g.denominator]
    if abs(f.numerator) <= INT_LIMIT and f.denominator <= INT_LIMIT:
        return [f.numerator, f.denominator]
    return None


def _obs_record(case, o):
    vals = o.get("vals")
    v, vk = [], "opaque"
    if vals is not None:
        rs = [_rat(x) for x in vals]
        if all(r is not None for r in rs):
            v, vk = rs, "exact"
    rec = {k: case[k] for k in CASE_FIELDS}
    rec["h"] = case.get("h", "none")
    rec["obs"] = {"k": o["k"], "exc": o.get("exc", ""), "unit": o.get("unit", ""), "vk": vk, "v": v, "same": bool(o.get("same", False))}
    return rec


def _set(xs):
    return "{" + ", ".join(json.dumps(x) for x in sorted(xs)) + "}"


def _validate_chunk(ck, part, label, off, tpath):
    """One TLC trace-validation run (thread-safe: no verdict is recorded here)."""
    path = ck.write_json(f"obs_{label}_{off}.json", part)
    res = ck.tlc("Trace_C01", env={"OBS": path, "TABLE": tpath}, workers=1, coverage=False, label=f"trace validation {label} [{off}:{off + len(part)}]", timeout=1800)
    if res.distinct != len(part) + 1:
        raise MachineryFailure(f"trace validation {label} consumed {res.distinct - 1} of {len(part)} observations")
    os.unlink(path)
    return res


def _verdicts(ck, part, res, table):
    """Turn TLC's records into verdicts (main thread, deterministic order)."""
    ck.validated(len(part))
    for r in res.by_tag("T-FAIL"):
        rec = part[r["idx"] - 1]
        ck.drift_step(f"{rec['fam']}.{rec['op']}", {"case": {k: rec[k] for k in CASE_FIELDS + ("h",)}, "model": {k: r["model"][k] for k in ("k", "exc", "unit", "v")}, "observed": rec["obs"]})
    for r in res.by_tag("P-FAIL"):
        rec = part[r["idx"] - 1]
        case = {k: rec[k] for k in CASE_FIELDS}
        case["h"] = rec["h"]
        key = dict(case)
        key["cls"] = r["cls"]
        key["clause"] = r["clause"]
        if table:
            names = {t["name"]: t["sym"] for t in table}
            key["u0"] = names.get(case["n0"], case["n0"])
            key["u1"] = names.get(case["n1"], case["n1"])
            key.pop("n0"), key.pop("n1")
        ck.violation(key, {"observed": rec["obs"]}, case={"case": case, "table": list(table)})
    return len(res.by_tag("APPLIED"))


def _validate(ck, cases, obs, label, table=(), pool=None):
    """TLC evaluates P and T on the observations; chunks run concurrently, verdicts are applied in chunk order."""
    bad = [(c, o) for c, o in zip(cases, obs) if "_error" in o]
    if bad:
        raise MachineryFailure(f"replay error in {label}: {bad[0]}")
    recs = [_obs_record(c, o) for c, o in zip(cases, obs)]
    tpath = ck.write_json(f"table_{label}.json", list(table))
    parts = [(off, recs[off : off + CHUNK]) for off in range(0, len(recs), CHUNK)]
    if pool is None:
        results = [_validate_chunk(ck, part, label, off, tpath) for off, part in parts]
    else:
        futs = [pool.submit(_validate_chunk, ck, part, label, off, tpath) for off, part in parts]
        results = [f.result() for f in futs]
    return sum(_verdicts(ck, part, res, table) for (off, part), res in zip(parts, results))


def _table(ck, data):
    """One representative real unit per dimension of the tree's lookup table (lowest row index), as TLC input."""
    def dstr(v):
        return "1" if not any(v) else "v:" + ",".join(str(x) for x in v)

    em = {}
    for e in data["em_conversions"]:
        if e["from_dim"] is not None and e["to_dim"] is not None:
            em.setdefault(dstr(e["from_dim"]), set()).add(dstr(e["to_dim"]))
    seen = {}
    rows = []
    for i, row in enumerate(data["lut"]):
        if row["dim"] is None:
            continue
        d = dstr(row["dim"])
        if d in seen:
            continue
        # units with an offset have their own rules (C08)
        if row["offset"]["repr"] not in ("0.0", "0"):
            continue
        seen[d] = i
        rows.append({"name": f"#{i}", "sym": row["sym"], "dim": d, "emdims": sorted(em.get(d, ())), "extra": False, "one": _is_one(row)})
    # extra rows: every OTHER dimensionless unit of the table (percent, Zsun, counts, ...) - a dimensionless value is
    # treated specially by __setitem__ and friends, and "dimensionless" is not the same as "the null unit"
    for i, row in enumerate(data["lut"]):
        if row["dim"] is None or any(row["dim"]) or seen.get("1") == i or row["offset"]["repr"] not in ("0.0", "0"):
            continue
        rows.append({"name": f"#{i}", "sym": row["sym"], "dim": "1", "emdims": [], "extra": True, "one": _is_one(row)})
    return rows


def _is_one(row):
    try:
        return float(row["scale"]["repr"]) == 1.0
    except (KeyError, TypeError, ValueError):
        return False


def run(ck):
    ck.level = "model_checking"
    ck.assumptions += [
        "derived units: rational powers / quotients of la, lb, ta (exponents -1, -1/3, 1/5, 1/3, 1/2, 2/3, 4/3, 3/2, 2; L/T, T/L, L*T), built by unit algebra, parsed from their string, or left behind by np.cbrt / np.sqrt / ** / 1/x / x/y on quantities",
        "model alphabet: units la(1) lb(1024) ta ma nq(1/4) in a custom registry + real dimensionless/percent/radian/K/R/degC/degF/delta_degC/delta_degF/C/statC; operand values 3, [3, 5/2] (left) and 2, [2, 5] (right), zeros",
        "operand kinds: quantity, array, zero-filled unyt array, (2,1) column, bare number/ndarray/list, bare zero number/ndarray/list, list of quantities (one unit / two dimensions); value classes as class ids: tiny 1e-20, denormal 5e-324, -0.0 (zero), NaN, inf, tiny/mixed/float32/list/NaN-inf bare sequences, tiny unit-carrying quantity/array",
        "floats are snapped to rationals with denominator <= 1e5 when within rel 1e-12 (exact on dyadic units); opaque values (hypot, remainder, arctan2, products) are not compared",
        "P demands a refusal only where the statement does: see 'not demanded' in design_parts/C01.md",
        "known findings are matched on (family, operation / call form / failure class)",
    ]
    if ck.replay:
        blob = json.load(open(ck.replay))
        cc = blob["case"]
        if "suite_event" in cc:
            import suite

            fails = suite.validate(ck, ["P01"], events=[cc["suite_event"]], label="replay")
            for r, e in fails:
                ck.violation({"source": "suite", "pred": r["pred"], "fn": e["fn"], "method": e["method"], "exc": e["exc"]}, suite.brief(e), case=cc)
            return
        table = cc.get("table", [])
        obs = ck.pmap("impl_c01", "observe", [cc["case"]], nproc=1, common={"table": table})
        _validate(ck, [cc["case"]], obs, "replay", table)
        return

    data = ck.extract()
    tree_ops = sorted(n for n, r in data["ufunc_registry"].items() if r["nin"] == 2)

    units_q = ["la", "lb", "ta", "nd", "K", "degC"]
    units_t = ["la", "lb", "ta", "nd", "nq", "pc", "rad", "K", "R", "degC", "degF", "delta_degC", "delta_degF"]
    sp_q = ["ts", "ds", "nz", "ns", "tm", "t32", "tl", "tq", "tqa"]  # value classes (tiny, denormal, -0.0, NaN, mixed, float32, tiny quantities)
    sp_t = ["ts", "ds", "nz", "ns", "is", "ta", "tm", "t32", "tl", "nza", "na", "tq", "tqa"]
    seq_q = ["lzq", "lbq", "lqb", "tlqm", "lqm3"]  # sequences mixing bare numbers and quantities, tuples, 3-element mixed list
    seq_t = ["lzq", "lbq", "lqb", "tlq", "tlqm", "lqm3"]
    shp_q = ["e0", "e02", "a1", "q0a", "be"]  # size / shape classes: empty (0,), (0,2), size-1, 0-d array, bare empty
    shp_t = ["e0", "e02", "e20", "a1", "q0a", "be", "bel"]
    k0_q = ["q", "a", "az", "bs", "za", "lq"]
    k1_q = ["q", "a", "az", "bs", "ba", "z", "lq", "lqm"]
    kall = ["q", "a", "az", "c", "bs", "ba", "bl", "z", "za", "zl", "lq", "lqm"]
    arr_all = [
        "concatenate", "stack", "vstack", "hstack", "dstack", "column_stack", "block", "append", "where", "choose", "select",
        "intersect1d", "union1d", "setdiff1d", "setxor1d", "isin", "interp", "linspace", "geomspace", "insert",  # einsum is a product (repaired tree): not a C01 operation
        "searchsorted", "clip", "put", "place", "putmask", "put_along_axis", "fill_diagonal", "isclose", "allclose",
        "array_equal", "array_equiv", "copyto", "copyto_where", "pad", "histogram_range",
    ]  # fmt: skip
    handled = set(data["handled_functions"])
    arr_fns = [f for f in arr_all if ("np." + f.replace("_where", "").replace("histogram_range", "histogram")) in handled or f == "append"]
    missing = [f for f in arr_all if f not in arr_fns]
    units = ck.q(units_q, units_t)
    dl_units = ["pc", "nq", "lr"]  # scaled dimensionless units: percent, 1/4, the ratio lb/la (dimension 1, NOT the null unit)
    der_q = ["la^1/3", "la^33/100", "la^4/3", "la^2/3", "la^1/2", "la^2/1", "la^-1/1", "la^1/1.ta^-1/1", "la^-1/1.ta^1/1"]
    der_t = der_q + ["la^-1/3", "la^1/5", "la^3/2", "la^1/1.ta^1/1", "la^1/2.ta^-1/1", "la^1/3.ta^1/1", "la^0/1.ta^-1/1", "la^2/1.ta^-1/1", "lb^1/2", "lb^3/2", "lb^1/5", "lb^-1/1"]
    arr_forms = ["call", "kw", "kwall", "out", "kwout", "lo", "hi", "kwlo", "kwhi", "alias", "aliaslo", "aliashi", "aliasout", "method", "methodkw", "methodlo", "methodhi"]
    # which value slots have alias keyword names is a fact about the NumPy at hand (numpy >= 2.1: np.clip(min=, max=))
    alias = ck.pmap("impl_c01", "alias_ops", [{}], nproc=1)[0]
    if not isinstance(alias, list):
        raise MachineryFailure(f"alias_ops: {alias}")
    consts = {
        "Units": _set(units),
        "ConvUnits": _set(sorted(set(units + ["C", "statC"] + dl_units), key=(units + ["C", "statC"] + dl_units).index)),
        "DlUnits": _set(dl_units),
        "ArrForms": _set(arr_forms),
        "AliasOps": _set(alias),
        "UKinds0": _set(ck.q(k0_q + sp_q + seq_q + shp_q, kall + sp_t + seq_t + shp_t)),
        "UKinds1": _set(ck.q(k1_q + sp_q + seq_q + shp_q, kall + sp_t + seq_t + shp_t)),
        "SpUnits": _set(ck.q(["la", "K"], units_t)),
        "Hists": _set(["modify", "readd", "tworeg"]),
        "HUnits": _set(ck.q(["la", "lb", "ta"], ["la", "lb", "ta", "ma", "nq"])),
        "UfOps": _set(tree_ops),
        "Forms": _set(["call", "outer", "operator", "iop", "out", "at", "reduce_initial"]),
        "ArrFns": _set(arr_fns),
        # derived units (rational powers / quotients of la, lb, ta; Ufunc.tla DTable): dimensions that differ only in the
        # value of an exponent.  quick: thirds, a half, a square, an inverse, L/T and T/L; thorough: the whole grid
        "DerUnits": _set(ck.q(der_q, der_t)),
        "DHists": _set(ck.q(["computed"], ["none", "computed"])),
        "DArrFns": _set(ck.q(["concatenate", "where", "clip", "insert", "putmask", "isclose", "searchsorted", "array_equal", "linspace", "union1d"], arr_fns)),
        # outer / out= forms of ufuncs the property says nothing about (P vacuous, transcription only): thorough tier
        "DepthForms": _set(ck.q([], ["outer", "out"])),
    }
    table = _table(ck, data)
    tpath = ck.write_json("table_mc.json", table)

    def mc_matrix(fams):
        cfg = "CONSTANTS\n  TableUnits <- NoTable\n" + "".join(f"  {k} = {v}\n" for k, v in consts.items())
        cfg += f"  Fams = {_set(fams)}\nINIT Init\nNEXT NextAll\nINVARIANT Export\nINVARIANT Uncovered\nCHECK_DEADLOCK FALSE\n"
        name = "MC_C01_run_" + fams[0]
        open(ck.spec + f"/{name}.cfg", "w").write(cfg)
        res = ck.tlc("MC_C01", name, workers=1, label=f"case matrix {'+'.join(fams)} ({len(units)} units)", coverage=False, timeout=3000)
        got = res.by_tag("CASE")
        if res.distinct != len(got) + 1:
            raise MachineryFailure(f"exported {len(got)} cases but TLC found {res.distinct} states")
        return res, got

    def mc_table():
        # quick: each dimension against its cyclic successors at two strides; thorough: all ordered pairs
        cfg = "CONSTANTS\n  TableUnits <- MCTable\n" + f"  Strides = {ck.q('{1, 7}', '{}')}\n  AllPairs = {ck.q('FALSE', 'TRUE')}\n  XStride = 6\n"
        cfg += "".join(f"  {k} = {{}}\n" for k in ("Units", "ConvUnits", "UKinds0", "UKinds1", "Forms", "Fams", "SpUnits", "Hists", "HUnits", "DlUnits", "DerUnits", "DHists", "DArrFns", "DepthForms"))
        cfg += f"  ArrForms = {_set(arr_forms)}\n  AliasOps = {_set(alias)}\n"
        cfg += f"  ArrFns = {_set(arr_fns)}\n  UfOps = {_set(tree_ops)}\nINIT Init\nNEXT TNextAll\nINVARIANT Export\nCHECK_DEADLOCK FALSE\n"
        open(ck.spec + "/MC_C01_table_run.cfg", "w").write(cfg)
        res = ck.tlc("MC_C01_table", "MC_C01_table_run", env={"TABLE": tpath}, workers=1, label=f"gamma sweep over {len(table)} dimensions of the lookup table", coverage=False, timeout=3000)
        got = res.by_tag("CASE")
        if res.distinct != len(got) + 1:
            raise MachineryFailure(f"table sweep exported {len(got)} cases but TLC found {res.distinct} states")
        return res, got

    import suite
    from common import NCPU

    # independent stages run concurrently (TLC instances, replays, trace-validation chunks, the suite recording);
    # every verdict is recorded in the main thread in a fixed order, so the outcome does not depend on scheduling
    fam_groups = (["ufunc"], ["arrfn", "setitem", "conv", "unitop"], ["hist", "der"])
    with cf.ThreadPoolExecutor(max_workers=max(2, NCPU)) as pool:
        f_suite = pool.submit(suite.record, ck)
        f_mc = [pool.submit(mc_matrix, fams) for fams in fam_groups]
        f_tab = pool.submit(mc_table) if table else None
        cases = []
        model_bad = {}
        uncovered = set()
        for f in f_mc:
            res, got = f.result()
            for r in got:
                cases.append(r["c"])
                if not r["mok"]:
                    c = r["c"]
                    k = f"{c['fam']}.{c['op']}" + (".reduce_initial" if c["form"] == "reduce_initial" else "") + ("" if c.get("h", "none") == "none" else ".history")
                    model_bad[k] = model_bad.get(k, 0) + 1
            uncovered |= {r["op"] for r in res.by_tag("UNCOVERED")}
        if len(cases) < 1000:
            raise MachineryFailure("too few cases exported")
        if not any(c.get("h", "none") != "none" for c in cases):
            raise MachineryFailure("no registry-history case exported")
        # vacuity guards of the newer case dimensions: every call form and a scaled dimensionless value must be present
        got_forms = {c["form"] for c in cases if c["fam"] == "arrfn"}
        want_forms = {f for f in arr_forms if alias or not f.startswith("alias")}
        if "clip" in arr_fns and not want_forms <= got_forms:
            raise MachineryFailure(f"array-function call forms missing from the matrix: {sorted(want_forms - got_forms)}")
        for fam in ("setitem", "arrfn", "ufunc", "conv"):
            if not any(c["fam"] == fam and (c["n0"] in dl_units or c["n1"] in dl_units) for c in cases):
                raise MachineryFailure(f"no scaled-dimensionless case in family {fam}")
        der_set = set(ck.q(der_q, der_t))
        for fam in ("ufunc", "arrfn", "setitem", "conv", "unitop"):
            if not any(c["fam"] == fam and (c["n0"] in der_set or c["n1"] in der_set) for c in cases):
                raise MachineryFailure(f"no derived-unit case in family {fam}")
        tcases = [r["c"] for r in f_tab.result()[1]] if f_tab else []
        f_obs = pool.submit(ck.pmap, "impl_c01", "observe", cases, None, 900, {})
        f_tobs = pool.submit(ck.pmap, "impl_c01", "observe", tcases, max(1, NCPU // 2), 900, {"table": table}) if tcases else None
        applied = _validate(ck, cases, f_obs.result(), "matrix", pool=pool)
        if tcases:
            applied += _validate(ck, tcases, f_tobs.result(), "table", table, pool=pool)
        events, tail = f_suite.result()

    ck.cov["exhaustive"] = True
    ck.cov["bound"] = {k: v for k, v in consts.items()}
    ck.cov["model_level_violations_by_operation"] = model_bad
    ck.cov["uncovered"] = sorted(f"ufunc {o} (binary entry of the tree's table outside the commensurability matrix)" for o in uncovered) + [f"array function {f} not handled by this tree" for f in missing]
    ck.sample({"case": cases[len(cases) // 3]})
    ck.sample({"case": cases[(2 * len(cases)) // 3]})
    ck.sample({"history_case": next(c for c in cases if c.get("h", "none") != "none")})
    ck.sample({"derived_unit_case": next(c for c in cases if c["n0"] in der_set and c["n1"] in der_set and c["n0"] != c["n1"])})
    by_fam = {}
    for c in cases:
        k = ("derived:" if c["n0"] in der_set or c["n1"] in der_set else "") + (c["fam"] if c.get("h", "none") in ("none", "computed") else "history:" + c["fam"])
        by_fam[k] = by_fam.get(k, 0) + 1
    ck.cov["cases_by_family"] = by_fam
    if tcases:
        mid = tcases[len(tcases) // 2]
        ck.sample({"table_case": mid, "units": {t["name"]: t["sym"] for t in table if t["name"] in (mid["n0"], mid["n1"])}})
        ck.cov["gamma"] = {"dimensions": sum(1 for t in table if not t["extra"]), "extra_dimensionless_units": sum(1 for t in table if t["extra"]), "cases": len(tcases), "all_ordered_pairs": ck.tier == "thorough"}
    ck.cov["evaluations"] = len(cases) + len(tcases)
    ck.cov["distinct_nontrivial"] = applied
    ck.cov["rule"] = "cases on which P_C01 demands something (Demanded or EqDemanded true): operands of different dimension in a commensurability-requiring operation outside the documented exceptions"

    # code -> spec: the repository's test-suite (recorded above, concurrently), predicate P01 evaluated by TLC
    ck.cov.setdefault("suite", {})["pytest_tail"] = tail[-120:]
    for r, e in suite.validate(ck, ["P01"], events=events):
        ck.violation({"source": "suite", "pred": r["pred"], "fn": e["fn"], "method": e["method"], "exc": e["exc"]}, suite.brief(e), case={"suite_event": e})
    ck.cov["tlc_runs"].sort(key=lambda r: r["label"])  # concurrent runs finish in any order
