----------------------------- MODULE Trace_C05 -----------------------------
(* Trace validation for C05.  Each element of IOEnv.OBS is what the real      *)
(* library did on one case exported by MC_C05: the registers (leaves, the     *)
(* dimensionless unit, one result per instruction of UnitAlg!Prog(law,p,q)),  *)
(* the observed ==, hash and expression comparisons of UnitAlg!Pairs(law),    *)
(* and the relative scale deviations the harness measured (integers, unit     *)
(* 1e-16; floats never enter TLC).                                            *)
(*   P : UnitAlg!Fails(run) - the C05 predicates on the OBSERVED registers.   *)
(*   T : every instruction's observed result against the transcribed operator *)
(*       applied to the OBSERVED operands (re-synchronised at every step), and *)
(*       every observed ==/hash against UEq/UHashEq.                          *)
(* The program and the pair kinds are taken from the specification            *)
(* (Prog/Pairs), not from the observation.                                    *)
(* States: i runs over the observations in Stripes interleaved chains so that *)
(* TLC's workers validate in parallel; distinct states = Len(Obs) + Stripes.  *)
EXTENDS UnitAlgMR, IOUtils
CONSTANT Stripes
Obs == JsonDeserialize(IOEnv.OBS)
VARIABLE i

\* For a phase of a registry history (o.hist) the reference table is the one the HISTORY has reached (what the caller
\* put into the registry), not what the harness read back from the registry.
HistAlg(o) == LET T == TableAt(o.edits, o.ph) IN [x \in DOMAIN o.atoms |-> T[AIdx(o.atoms[x])].lg]
HistAdim(o) == LET T == TableAt(o.edits, o.ph) IN [x \in DOMAIN o.atoms |-> T[AIdx(o.atoms[x])].dim]
RunOf(o) ==
  LET prs == Pairs(o.law) IN
  [law |-> o.law, exact |-> o.exact, hist |-> o.hist,
   alg |-> IF o.hist THEN HistAlg(o) ELSE o.alg, adim |-> IF o.hist THEN HistAdim(o) ELSE o.adim,
   regs |-> o.regs, prog |-> Prog(o.law, o.p, o.q),
   pairs |-> [x \in DOMAIN prs |-> [i |-> prs[x].i, j |-> prs[x].j, kind |-> prs[x].kind, eq |-> o.pairs[x].eq, ne |-> o.pairs[x].ne, ner |-> o.pairs[x].ner,
                                      eqr |-> o.pairs[x].eqr, heq |-> o.pairs[x].heq, same |-> o.pairs[x].same,
                                      serr |-> o.pairs[x].serr]],
   herr |-> o.herr, hcond |-> o.hcond, ain |-> o.ain, aoff |-> o.aoff, xs |-> o.xs]
\* C05_State: the same expression built in the same registry state is the same unit and hashes equally - phase ph against
\* every earlier phase of the same history in the same registry state (UnitAlgMR!SameState: only read-only queries in
\* between, or edits that were undone).  hc = class of the hash value.  Register 26 is the OBJECT leaf 1 was in phase 0:
\* a unit that already exists (a dict key, say) is hashed again in every phase.
StateFails(idx, o) ==
  {[clause |-> "State", at |-> r] : r \in {x \in DOMAIN o.regs :
      \E d \in 1..o.ph :
        LET q == Obs[idx - d] a == q.regs[x] b == o.regs[x] IN
        /\ SameState(o.edits, o.ph, d)
        /\ IsUnit(a) /\ IsUnit(b)
        /\ a.reg = b.reg /\ a.reg = o.regs[1].reg   \* (units of the history's registry)
        /\ ~(/\ a.lg = b.lg /\ a.neg = b.neg /\ a.dim = b.dim /\ a.off = b.off
             /\ (SameExpr(a, b) => q.hc[x] = o.hc[x]))}}
ShapeOk(o) == Len(o.regs) = NLeaf + Len(Prog(o.law, o.p, o.q)) /\ Len(o.pairs) = Len(Pairs(o.law)) /\ Len(o.herr) = Len(Prog(o.law, o.p, o.q)) /\ Len(o.hcond) = Len(o.herr)

(* ---- T ---- *)
\* (table mode: whether a product of two coefficients is exactly 1 is not known to the model - "is the coefficient 1" is
\*  compared only when the model says so for all operands, i.e. m.c1)
Match(m, o, exact) ==
  IF ~IsUnit(m) THEN ~IsUnit(o)
  ELSE /\ IsUnit(o) /\ m.ex = o.ex /\ m.dim = o.dim /\ m.off = o.off /\ m.reg = o.reg /\ ((exact \/ m.c1) => m.c1 = o.c1)
       /\ m.neg = o.neg
       /\ exact => (m.clg = o.clg /\ m.lg = o.lg)
\* _multiply_units(u, v): (u*v).simplify() ; on SymbolNotFoundError (v*u).simplify() ; then as_coeff_unit
\* _divide_units(u, v):   (u/v).simplify() ; on SymbolNotFoundError 1/((v/u).simplify())  (not transcribed: T is silent there)
TRule(W, k) ==
  LET ins == W.prog[k] o == Res(W, k) a == W.regs[ins.a] b == W.regs[ins.b]
      m1 == IF ins.op = "mulrule" THEN UMul(a, b, W.exact) ELSE UDiv(a, b, W.exact)
      m == IF IsUnit(m1) /\ SimplifyRaises(m1, W.ain) /\ ins.op = "mulrule" THEN UMul(b, a, W.exact) ELSE m1 IN
  IF IsUnit(m1) /\ (SimplifyRaises(m1, W.ain) \/ m1.reg # W.regs[1].reg \/ ~Homog(W)) THEN TRUE   \* missing symbol: raise / fallback / plain result all possible
  ELSE IF ~IsUnit(m) \/ SimplifyRaises(m, W.ain) THEN ~IsUnit(o)
  ELSE IF (SimplifyMayRaise(m, W.adim) \/ SimplifyMayRaiseOff(m, W.aoff)) /\ ~IsUnit(o) THEN TRUE
  \* (the rules are memoised on Unit == and hash, which do not see WHICH registry object a unit belongs to: a hit may
  \*  return the unit computed for another registry in the same state - compared up to the state class)
  ELSE /\ IsUnit(o) /\ o.dim = m.dim /\ o.off = m.off /\ o.neg = m.neg /\ o.c1
       /\ \E r \in 1..NLeaf : IsUnit(W.regs[r]) /\ W.regs[r].reg = m.reg /\ W.regs[r].rs = o.rs
       /\ \E st \in SimplifySet([m EXCEPT !.clg = IF W.exact THEN m.clg ELSE RZero], W.alg, W.adim) :
            /\ st.ex = o.ex
            /\ W.exact => (o.cf = st.clg /\ o.lg = RSub(m.lg, st.clg) /\ o.clg = RZero)
TStep(W, k) ==
  LET ins == Sem(W.prog[k]) o == Res(W, k) a == W.regs[ins.a] IN
  CASE ins.op = "mul" -> Match(UMul(a, W.regs[ins.b], W.exact), o, W.exact)
    [] ins.op = "div" -> Match(UDiv(a, W.regs[ins.b], W.exact), o, W.exact)
    [] ins.op = "pow" -> Match(UPow(a, ins.e, W.exact), o, W.exact)
    [] ins.op = "simplify" ->
         IF ~IsUnit(a) THEN ~IsUnit(o)
         \* (W.alg is the table of the first leaf's registry: a unit of another registry is simplified with another table)
         ELSE IF a.reg # W.regs[1].reg THEN TRUE
         \* (a symbol missing from the registry raises only if its pair is reached before the others have cancelled
         \*  down to a single factor - sympy's factor order again: both outcomes are accepted)
         ELSE IF (SimplifyRaises(a, W.ain) \/ SimplifyMayRaise(a, W.adim) \/ SimplifyMayRaiseOff(a, W.aoff)) /\ ~IsUnit(o) THEN TRUE
         ELSE /\ IsUnit(o) /\ o.dim = a.dim /\ o.off = a.off /\ o.reg = a.reg /\ o.neg = a.neg /\ (W.exact => o.lg = a.lg)
              /\ [ex |-> o.ex, clg |-> IF W.exact THEN o.clg ELSE RZero]
                   \in SimplifySet([a EXCEPT !.clg = IF W.exact THEN a.clg ELSE RZero], W.alg, W.adim)
    [] ins.op \in {"mulrule", "divrule"} -> TRule(W, k)
    [] ins.op = "old" -> TRUE   \* (that an earlier object keeps its value is C12's statement)
    [] ins.op = "coeff" ->
         IF ~IsUnit(a) THEN ~IsUnit(o)
         ELSE LET m == AsCoeffUnit(a) IN
              /\ IsUnit(o) /\ m.ex = o.ex /\ m.dim = o.dim /\ m.off = o.off /\ m.reg = o.reg /\ o.c1
              /\ W.exact => (o.clg = RZero /\ m.lg = o.lg /\ m.cf = o.cf)
TPair(W, x) ==
  LET pr == W.pairs[x] a == W.regs[pr.i] b == W.regs[pr.j] IN
  (IsUnit(a) /\ IsUnit(b)) =>
    \* (Unit defines no __ne__: Python negates __eq__)
    /\ pr.ne = ~pr.eq /\ pr.ner = ~pr.eqr
    /\ W.exact => (pr.eq = UEq(a, b) /\ pr.eqr = UEq(b, a) /\ (pr.same => SameExpr(a, b)))   \* (1.0*x and x are different sympy expressions)
    \* (one direction only: different expressions may collide - hash(-1) = hash(-2) makes la**2/ta and la**2/ta**2 collide)
    /\ (a.rs = b.rs /\ pr.same) => pr.heq
\* leaves themselves are in sync with their registry (construction from a string: C02/C14 territory, so T only)
\* (leaves given with an explicit scale are not expected to be)
TLeaf(W, r) == (IsUnit(W.regs[r]) /\ ~W.xs[r] /\ Homog(W) /\ ~W.regs[r].alien /\ LeavesPositive(W)) => SyncEq(W, W.regs[r])

TFails(W) ==
  {[what |-> "step", at |-> k] : k \in {x \in DOMAIN W.prog : ~TStep(W, x)}}
  \cup {[what |-> "pair", at |-> k] : k \in {x \in DOMAIN W.pairs : ~TPair(W, x)}}
  \cup {[what |-> "leaf", at |-> k] : k \in {x \in 1..NLeaf : ~TLeaf(W, x)}}
\* the rows the harness read back from the edited registry are the rows of the history's table (the registry's own job: C12)
TTable(o) == o.hist => (o.alg = HistAlg(o) /\ o.adim = HistAdim(o))

\* (T) the table's dict gains a row exactly when a query resolves a prefixed name for the first time in the history
\* (_lookup_unit_symbol writes the derived row back); every other query, and every edit of an existing symbol, leaves
\* the number of rows alone.  Implementation detail: drift, never a verdict.
TLut(o) ==
  (o.hist /\ o.ph > 0) =>
    LET e == o.edits[o.ph] IN
    o.dlut = IF Resolves(e) /\ ~\E x \in 1..(o.ph - 1) : Resolves(o.edits[x]) /\ o.edits[x].sym = e.sym THEN 1 ELSE 0

Init == i \in 1..Stripes
Next ==
  /\ i <= Len(Obs)
  /\ LET o == Obs[i] IN
     IF ~ShapeOk(o) THEN PrintT(ToJson([tag |-> "SHAPE", idx |-> i]))
     \* a scale left the range of floats (overflow / underflow to zero): outside the property, nothing is evaluated
     ELSE IF ~o.inrange THEN PrintT(ToJson([tag |-> "RANGE", idx |-> i]))
     ELSE LET W == RunOf(o) IN
          /\ \A f \in Fails(W) : PrintT(ToJson([tag |-> "P-FAIL", idx |-> i, clause |-> f.clause, at |-> f.at]))
          /\ \A f \in TFails(W) : PrintT(ToJson([tag |-> "T-FAIL", idx |-> i, what |-> f.what, at |-> f.at]))
          /\ (o.hist => \A f \in StateFails(i, o) : PrintT(ToJson([tag |-> "P-FAIL", idx |-> i, clause |-> f.clause, at |-> f.at])))
          /\ (~TTable(o) => PrintT(ToJson([tag |-> "T-FAIL", idx |-> i, what |-> "table", at |-> 0])))
          /\ (~TLut(o) => PrintT(ToJson([tag |-> "T-FAIL", idx |-> i, what |-> "lut", at |-> 0])))
  /\ i' = i + Stripes
=============================================================================
