CONSTANTS
  Tier = "quick"
  Part = "misc"
INIT Init
NEXT Next
INVARIANT Export
CHECK_DEADLOCK FALSE
