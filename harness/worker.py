"""Replay worker: python worker.py <impl_module> <func> <in.json> <out.json>.

Imports unyt from PYTHONPATH (the working tree under test), runs func(case) for
each case in order and writes the list of observations.  Per-case exceptions
escaping `func` are recorded, not fatal."""

import importlib
import json
import sys
import traceback
import warnings


def main():
    modname, funcname, fin, fout = sys.argv[1:5]
    warnings.simplefilter("ignore")
    blob = json.load(open(fin))
    mod = importlib.import_module(modname)
    if hasattr(mod, "setup"):
        mod.setup(blob.get("common"))
    f = getattr(mod, funcname)
    out = []
    for case in blob["cases"]:
        try:
            out.append(f(case))
        except BaseException as e:  # noqa: BLE001 - the observation is the exception
            if isinstance(e, (KeyboardInterrupt, SystemExit)):
                raise
            out.append({"_error": type(e).__name__ + ": " + str(e)[:300], "_tb": traceback.format_exc()[-1500:]})
    with open(fout, "w") as g:
        json.dump(out, g, ensure_ascii=True, default=str)


if __name__ == "__main__":
    main()
