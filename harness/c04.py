"""C04 - arithmetic results do not depend on the units the operands are written in.

Spec: spec/Arith.tla (+ MC_C04, Trace_C04).
  1. TLC enumerates programs (steps over registers) x unit assignments x a
     re-expression of every leaf (run B), carrying the transcription of
     __array_ufunc__ and the reference semantics side by side; it exports every
     case with the numbers it expects and the model-level verdict of the C04
     predicates on the transcription itself.
  2. every case is executed in real unyt in every call form (operator, ufunc,
     in-place, out=, method ...), both runs; each executed step becomes an event
     (operands as observed before the call, observed result).
  3. TLC judges every distinct event: P (C04 predicates on the observation) and
     T (agreement with the transcription), and the product-machine clause
     (register of run A == register of run B as a quantity).
  4. beyond the bound: TLC -simulate programs, same replay + validation.
  5. the repository's own test-suite traces, predicate P04 (SuiteTrace.tla).
"""

import json
import random

from common import MachineryFailure

ALL_OPS = ["add", "subtract", "remainder", "fmod", "maximum", "minimum", "fmax", "fmin", "hypot", "copysign", "less", "less_equal", "greater", "greater_equal", "equal", "not_equal", "multiply", "divide", "floor_divide", "divmod_q", "divmod_r", "negative", "positive", "absolute", "fabs", "sqrt", "cbrt", "square", "reciprocal", "sin", "cos", "tan", "sign", "power", "dot"]


# TLC evaluates the recursive operators of Arith.tla on 28-atom unit vectors: give its worker threads a deeper stack
JVM = {"JAVA_TOOL_OPTIONS": "-Xss16m"}
REG_OPS = ["add", "subtract", "remainder", "fmod", "maximum", "minimum", "hypot", "less", "greater_equal", "equal", "not_equal", "multiply", "divide", "floor_divide", "divmod_r", "dot", "sqrt", "square"]
DT_OPS = ["add", "subtract", "remainder", "fmod", "maximum", "minimum", "copysign", "less", "greater_equal", "equal", "not_equal", "negative"]
DTS = ["f8", "c16", "c8", "f4", "i8", "i4"]
# operands of different shapes: every operation whose transcription converts one operand into the other's unit, plus the
# multiplicative ones (which operand is converted, and into which unit the result is labelled, must not depend on the shapes)
BCAST_OPS = ["add", "subtract", "remainder", "fmod", "maximum", "minimum", "fmax", "fmin", "hypot", "copysign", "less", "less_equal", "greater", "greater_equal", "equal", "not_equal", "floor_divide", "divmod_r", "multiply", "divide"]
INT_OPS = ["multiply", "dot"]
MAG_OPS = ["add", "subtract", "remainder", "fmod", "maximum", "minimum", "fmax", "fmin", "hypot", "copysign", "less", "less_equal", "greater", "greater_equal", "equal", "not_equal", "floor_divide", "divmod_r"]


def _cfg(ck, name, maxlen, exportlen, leaves, yshapes, valsets, reexall, ops=None, pairs=(), xshapes=("v",), classpairs=False, regpairs=(11,), reexreg=False, dtx=("f8",), dty=("f8",), mixed=False, resbound=8192):
    ops = ops or ALL_OPS
    txt = "CONSTANTS\n"
    txt += f"  MaxLen = {maxlen}\n  ExportLen = {exportlen}\n"
    txt += "  LeafSet = {" + ", ".join(str(i) for i in leaves) + "}\n"
    txt += "  XShapes = {" + ", ".join(f'"{s}"' for s in xshapes) + "}\n"
    txt += "  YShapes = {" + ", ".join(f'"{s}"' for s in yshapes) + "}\n"
    txt += "  ValSets = {" + ", ".join(str(i) for i in valsets) + "}\n"
    txt += f"  ReexAll = {'TRUE' if reexall else 'FALSE'}\n"
    txt += "  OpSet = {" + ", ".join(f'"{o}"' for o in ops) + "}\n"
    txt += "  InitPairs = {" + ", ".join(str(100 * a + b) for a, b in pairs) + "}\n"
    txt += f"  ClassPairs = {'TRUE' if classpairs else 'FALSE'}\n"
    txt += "  RegPairs = {" + ", ".join(str(r) for r in regpairs) + "}\n"
    txt += f"  ReexReg = {'TRUE' if reexreg else 'FALSE'}\n"
    txt += "  DTX = {" + ", ".join(f'"{d}"' for d in dtx) + "}\n"
    txt += "  DTY = {" + ", ".join(f'"{d}"' for d in dty) + "}\n"
    txt += f"  MixedShapes = {'TRUE' if mixed else 'FALSE'}\n  ResBound = {resbound}\n"
    txt += "INIT Init\nNEXT Next\nINVARIANT Export\nCHECK_DEADLOCK FALSE\n"
    open(ck.spec + f"/{name}.cfg", "w").write(txt)
    return name


def _cases(res):
    cases = [r for r in res.by_tag("CASE")]
    for c in cases:
        c.pop("tag", None)
    cases.sort(key=lambda c: json.dumps(c, sort_keys=True))  # several TLC workers: order made deterministic here
    return cases


def _rel(e):
    if e["B"]["k"] == "x":
        return "unary"
    if e["A"]["k"] == "n" or e["B"]["k"] == "n":
        return "bare_operand"
    if e["A"]["u"] == e["B"]["u"] and e["A"].get("sv") == e["B"].get("sv"):
        return "same_unit"  # (the same symbols bound to registries that size them differently are different units)
    return "different_unit"


def _ustr(names, u):
    parts = []
    for n, x in zip(names, u):
        if x:
            parts.append(n if x == 6 else f"{n}**{x // 6}" if x % 6 == 0 else f"{n}**({x}/6)")
    return "*".join(parts) or "1"


def _robs(names, R):
    """observed result for reports (ordinary register, or exponent space for powerx)"""
    if R.get("k") == "l":
        unit = "*".join(f"{n}**({e[0]}/{e[1]})" for n, e in zip(names, R["ue"]) if e[0] or not e[1]) or "1"
        return {"unit": unit, "bare": R["bare"], "dimensions_LTAE": R["dq"], "scale_exponents_2_3_5_127": R["sv"], "number_exponents": R["lv"], "si_exponents": R["si"], "k": "l"}
    return {"unit": _ustr(names, R["u"]), "v": R["v"], "k": R["k"]}


def _validate(ck, cases, obs, label, st):
    """cases[i] <-> obs[i]; send distinct events to TLC, turn records into verdicts"""
    names = st["table"]["names"]
    distinct = {}
    order = []
    for ci, o in enumerate(obs):
        if "_error" in o:
            raise MachineryFailure("replay error: " + str(o)[:600])
        for x in o["errors"]:
            st["raised"] += 1
            if x["exc"] == "RecursionError" and x["form"] in ("iop", "outself"):
                # in-place target whose unit expression still holds a cancellable pair (e.g. km/m): __array_ufunc__ re-enters
                # itself through multiply(out, mul, out=out) for ever.  No quantity is produced: outside the C04 predicates
                # (reported in design_parts/C04.md); counted, not drift.
                st["inplace_recursion"] = st.get("inplace_recursion", 0) + 1
                continue
            ck.drift_step(f"raise:{x['op']}.{x['meth']}", {"form": x["form"], "exc": x["exc"], "msg": x["msg"], "tb": x.get("tb"), "run": x["run"], "variant": x["variant"], "units": [_ustr(names, r["u"]) for r in cases[ci][x["run"]][:2]], "case": cases[ci]["steps"]})
        for e in o["events"]:
            if e["kind"] in ("step", "stepx"):
                core = {k: e[k] for k in ("kind", "op", "meth", "p", "A", "B", "R", "ucons")}
            else:
                core = {k: e[k] for k in ("kind", "A", "B")}
            key = json.dumps(core, sort_keys=True)
            if key not in distinct:
                distinct[key] = (core, [])
                order.append(key)
            distinct[key][1].append((ci, e))
            st["events"] += 1
    import concurrent.futures as cf

    from common import NCPU

    # events are independent: chunks are judged by concurrent TLC runs (results are consumed in chunk order)
    nchunk = max(1, min(4, NCPU // 2, (len(order) + 2999) // 3000)) if len(order) <= 120000 else (len(order) + 29999) // 30000
    size = (len(order) + nchunk - 1) // nchunk
    chunks = [order[off : off + size] for off in range(0, len(order), size)] if order else []

    def judge(arg):
        n, keys = arg
        part = [distinct[k][0] for k in keys]
        path = ck.write_json(f"events_{label}_{n}.json", part)
        res = ck.tlc("Trace_C04", env={"EVENTS": path, **JVM}, workers=max(1, NCPU // max(1, min(nchunk, 4))), coverage=False, label=f"trace validation {label} chunk {n} ({len(part)} events)", timeout=3000)
        nb = (len(part) + 99) // 100
        if res.distinct != 1 + nb + len(part):
            raise MachineryFailure(f"trace validation consumed {res.distinct} states, expected {1 + nb + len(part)}")
        return res

    with cf.ThreadPoolExecutor(max_workers=min(4, max(1, len(chunks)))) as ex:
        judged = list(ex.map(judge, enumerate(chunks)))
    fails = {}  # (ci, variant) -> list of failures
    for keys, res in zip(chunks, judged):
        st["distinct_events"] += len(keys)
        for r in sorted(res.by_tag("V"), key=lambda r: r["idx"]):
            core, origins = distinct[keys[r["idx"] - 1]]
            if r["p"] == "outside":
                st["outside"] += len(origins)
                continue
            if r["p"] == "undecided":
                st["undecided"][r["why"]] = st["undecided"].get(r["why"], 0) + len(origins)
                continue
            if r["p"] == "ok":
                if r["t"] != "undecided":
                    for ci, e in origins[:1]:
                        ck.drift_step(f"{core['op']}.{core['meth']}", {"t": r["t"], "form": e["form"], "A": _ustr(names, core["A"]["u"]), "B": _ustr(names, core["B"]["u"]), "R": _robs(names, core["R"]), "Av": core["A"]["v"], "Bv": core["B"]["v"], "p": core["p"]})
                    for _ in origins[1:]:
                        ck.drift_step(f"{core['op']}.{core['meth']}")
                continue
            for ci, e in origins:
                fails.setdefault((ci, e["run"], e["variant"]), []).append((e["step"], r, core, e))
        for r in sorted(res.by_tag("X"), key=lambda r: r["idx"]):
            core, origins = distinct[keys[r["idx"] - 1]]
            if r["r"] == "undecided":
                st["undecided"]["reex"] = st["undecided"].get("reex", 0) + len(origins)
                continue
            for ci, e in origins:
                fails.setdefault((ci, "X", e["variant"]), []).append((e["step"], r, core, e))
    ck.validated(len(cases))
    # attribution: in one run of one program only the first failing step is reported, plus later ones the
    # transcription reproduces (their operands are in sync with the specification's registers); a product-machine
    # mismatch is reported only when no step of that program failed (otherwise the step explains it)
    stepfailed = {(ci, v) for (ci, run, v) in fails if run != "X"}
    for (ci, run, v), lst in sorted(fails.items(), key=lambda kv: (kv[0][0], str(kv[0][1]), kv[0][2])):
        lst.sort(key=lambda x: x[0])
        if run == "X":
            if (ci, v) in stepfailed:
                continue
            step, r, core, e = lst[0]
            key = {"clause": "reexpress:" + r["r"], "op": e["op"], "rel": "runs", "t": "n/a"}
            if "u" in core["A"]:
                det = {"A": {"unit": _ustr(names, core["A"]["u"]), "v": core["A"]["v"]}, "B": {"unit": _ustr(names, core["B"]["u"]), "v": core["B"]["v"]}, "steps": cases[ci]["steps"]}
            else:
                det = {"A": core["A"], "B": core["B"], "steps": cases[ci]["steps"]}
            ck.violation(key, det, case=dict(cases[ci], only_variant=v))
            continue
        for n, (step, r, core, e) in enumerate(lst):
            if n > 0 and r["t"] != "ok":
                continue
            key = {"clause": r["p"], "op": core["op"], "meth": core["meth"], "rel": _rel(core), "t": r["t"]}
            if core["op"] == "powerx":
                # class of the exponent the case was generated with (projection of the case, not a verdict)
                key["exp"] = "denominator_le_1e6" if core["p"][1] <= 1000000 else "denominator_gt_1e6"
            detail = {"form": e["form"], "A": {"unit": _ustr(names, core["A"]["u"]), "v": core["A"]["v"]}, "B": {"unit": _ustr(names, core["B"]["u"]), "v": core["B"]["v"], "k": core["B"]["k"]}, "observed": _robs(names, core["R"]), "p": core["p"], "run": run, "step": step}
            ck.violation(key, detail, case=dict(cases[ci], only_variant=v))


def _replay_validate(ck, cases, label, st):
    if not cases:
        return
    obs = ck.pmap("impl_c04", "observe", cases, common={"table": st["table"]}, chunk_timeout=3000)
    _validate(ck, cases, obs, label, st)
    for c in cases:
        for f in c.get("mf", []):
            st["model_fail_classes"].add((f["op"], f["verdict"]))
        st["steps"] += len(c["steps"])
        for s in c["steps"]:
            st["by_op"][s["op"] + "." + s["meth"]] = st["by_op"].get(s["op"] + "." + s["meth"], 0) + 1


def run(ck):
    ck.level = "model_checking"
    ck.assumptions += [
        "alphabet: 31 atomic units (power-of-two units in a custom registry incl. 2^-60, 2^-55, 2^70, 2^75 and a compound velocity atom: exact float arithmetic; km cm ft min percent degree arcmin radian + a custom 15-degree unit; lat/lon with their zero points (trig only); magnitude classes fm pm fs ps Zm Ym and eV keV MeV carried relative to eV), 48 leaf units incl. compounds, half-integer powers and reciprocal lengths; two leaves, each a length-2 array, a 0-d quantity or a one-element 1-d array; values from 7 small sets",
        "TLC 32-bit integers: scales are exponent vectors over the primes 2,3,5,127; value arithmetic is checked, steps whose exact evaluation would leave the range are not generated (trace side: undecided, counted)",
        "floats are matched to the rationals the specification expects: exactly on power-of-two units, rtol 1e-12 (+1e-12 of the operand magnitude for sums, differences, dot, reductions, trig and the remainders - modulus-aware) otherwise; discontinuous operations (floor_divide, mod, fmod, divmod, comparisons, sign) are judged only on exact operands or away from the jump",
        "powers with general rational exponents (powerx) are judged in exponent space: base numbers that factor over 2,3,5,127, floats of the result (numbers, units.base_value, SI magnitudes) matched to the exponent vectors the specification expects within rtol 1e-12 (base_value 1e-11); exponents with denominators up to 10^7; the float handed to the library is n/d rounded to double",
        "integer data: a step whose RAW ufunc result leaves the range of the narrowest integer type involved is outside the claim (NumPy's wrap-around, Arith!IntFits); int32/int64 ranges are beyond the checked 32-bit arithmetic (the coefficient branch is exercised with int8/uint8/int16); in-place targets narrower than 4 bytes are run as the operator; numbers of a re-expressed leaf that do not fit the integer type are built as float64",
        "known findings are matched on (clause, operation, method, operand-unit relation, agreement with the transcription; for powerx also the class of the exponent: denominator <= 10^6 or beyond)",
    ]
    st = {"events": 0, "distinct_events": 0, "outside": 0, "undecided": {}, "raised": 0, "model_fail_classes": set(), "steps": 0, "by_op": {}, "table": None}

    if ck.replay:
        blob = json.load(open(ck.replay))
        case = blob["case"]
        if "suite_event" in case:
            import suite

            for r, e in suite.validate(ck, ["P04"], events=[case["suite_event"]], label="replay"):
                ck.violation({"source": "suite", "pred": r["pred"], "fn": e["fn"], "method": e["method"], "exc": e["exc"]}, suite.brief(e), case=case)
            return
        _cfg(ck, "MC_C04_tab", 0, 99, [1], ["v"], [1], False)
        res = ck.tlc("MC_C04", env=JVM, cfg="MC_C04_tab", workers=1, label="atom table", coverage=False, timeout=300)
        st["table"] = res.by_tag("TABLE")[0]
        _replay_validate(ck, [case], "replay", st)
        return

    import concurrent.futures as cf

    from common import NCPU

    PART_OPS = ["multiply", "divide", "floor_divide", "dot"]
    # powers with exponents that are not ratios of small integers, judged in exponent space: leaves over every scale class
    # (power-of-two, decimal, tiny, huge, dimensionless with a scale, compound), each with a commensurable partner for run B
    XPAIRS = [(2, 12), (3, 1), (12, 13), (14, 5), (15, 4), (16, 6), (9, 8), (17, 8), (11, 10), (25, 26), (28, 27), (30, 29), (33, 34), (36, 35), (1, 2), (13, 14)]
    XLEAVES = sorted({i for ab in XPAIRS for i in ab})
    leaves1 = ck.q([1, 2, 4, 6, 12, 18, 20], [1, 2, 3, 4, 5, 6, 7, 8, 12, 13, 14, 15, 16, 17, 18, 19, 20, 21])
    leaves2 = ck.q([1, 2], [1, 2, 6])
    ops2 = ck.q(["add", "multiply", "divide", "floor_divide", "remainder", "sqrt", "power", "dot"], ALL_OPS)
    mag = list(range(25, 38))
    n_sim = ck.q(8, 60)
    depth = ck.q(4, 6)
    # (key, label, cfg arguments, simulate?)  - independent TLC instances, run concurrently
    inst = [
        # length 1: every operation x form on every pair of leaf units
        ("len1", "programs of length 1 (exhaustive)", dict(maxlen=1, exportlen=1, leaves=leaves1, yshapes=ck.q(["v"], ["v", "s"]), valsets=ck.q([1], [2]), reexall=False), False),
        # length 1 on the exact units with the equality / exact-multiple / Pythagorean value sets
        ("len1e", "length 1, power-of-two units, equal / exact-multiple / Pythagorean values", dict(maxlen=1, exportlen=1, leaves=ck.q([1, 2], [1, 2, 3, 4, 6]), yshapes=["v"], valsets=[3, 4], reexall=ck.q(False, True)), False),
        # length 1, both leaves scalar quantities (0-d results)
        ("len1s", "length 1, scalar leaves", dict(maxlen=1, exportlen=1, leaves=ck.q([1, 2, 12], [1, 2, 4, 6, 8, 12, 13, 16, 18, 20]), yshapes=["s"], valsets=[1], reexall=False, xshapes=["s"]), False),
        # magnitude classes: leaves (and re-expressions) whose SI scales are both tiny or both huge; leaf pairs of one scale
        # class (MC_C04!Reex), thorough: plus pairs across classes for the multiplicative operations
        ("len1m", "length 1, magnitude classes (tiny / huge scales)", dict(maxlen=1, exportlen=1, leaves=mag, yshapes=["v"], valsets=ck.q([1, 4], [1, 2, 4]), reexall=ck.q(False, True), ops=MAG_OPS if ck.tier == "quick" else MAG_OPS + ["multiply", "divide", "sqrt", "square", "dot", "negative", "absolute"], pairs=ck.q([], [(25, 27), (27, 25), (29, 33), (33, 30), (35, 25), (31, 27), (26, 36), (28, 32)]), classpairs=True), False),
        # angle units with a zero point (lat, lon) against degree / radian / the 15-degree unit: trig of the same angle
        ("len1o", "length 1, angle units with a zero point (trig)", dict(maxlen=1, exportlen=1, leaves=[18, 19, 20, 38, 39], yshapes=["v"], valsets=[1, 2], reexall=ck.q(False, True), ops=["sin", "cos", "tan"]), False),
        # units whose quotient / product cancels only partly pair by pair (half-integer powers, a compound atom)
        ("len1p", "length 1, partly cancellable unit quotients", dict(maxlen=1, exportlen=1, leaves=[8, 40, 41, 42, 43, 44, 45, 46], yshapes=ck.q(["v"], ["v", "s"]), valsets=ck.q([1], [1, 2]), reexall=False, ops=PART_OPS, pairs=[(40, 41), (41, 40), (40, 42), (42, 40), (41, 42), (40, 40), (45, 46), (46, 45), (44, 8), (8, 44), (45, 8), (46, 44), (40, 43)]), False),
        # registry dimension: the two leaves are bound to different registries that give the same symbols different sizes
        # (and to unyt's default registry); run B writes each leaf in the other custom registry
        ("len1r", "length 1, leaves bound to different registries", dict(maxlen=1, exportlen=1, leaves=[1, 2, 4, 8, 12], yshapes=ck.q(["v"], ["v", "s"]), valsets=ck.q([1], [1, 4]), reexall=False, ops=REG_OPS, regpairs=ck.q([12, 21, 13, 31], [12, 21, 22, 13, 31, 23, 32]), reexreg=True, pairs=ck.q([(1, 1), (1, 2), (2, 1), (4, 1), (1, 4), (8, 4), (1, 8), (1, 12), (12, 1), (2, 12), (8, 8)], [])), False),
        # dtype dimension: complex (non-zero imaginary parts), float32 and integer leaves in either operand position, on
        # the power-of-two units (exact in every dtype)
        ("len1d", "length 1, leaf dtypes (complex, float32, integers)", dict(maxlen=1, exportlen=1, leaves=[1, 2, 4], yshapes=["v"], valsets=ck.q([4], [2, 4]), reexall=False, ops=DT_OPS, pairs=[(1, 2), (2, 1), (1, 1)], dtx=DTS, dty=DTS), False),
        # shape dimension: a 0-d quantity / a 1-d array holding one element / a 1-d array, in either operand position
        # (pairs of different shapes only: equal shapes are the instances above)
        ("len1b", "length 1, operands of different shapes (0-d, one-element 1-d, 1-d)", dict(maxlen=1, exportlen=1, leaves=ck.q([1, 2, 12, 13], [1, 2, 4, 12, 13, 16]), yshapes=["s", "o", "v"], xshapes=["s", "o", "v"], valsets=[1], reexall=False, ops=BCAST_OPS, pairs=ck.q([(1, 2), (2, 1), (12, 13)], [(1, 2), (2, 1), (12, 13), (13, 12), (2, 2), (4, 4), (16, 16)]), mixed=True), False),
        # integer dtypes (narrow and wide) where the units cancel into a whole-number coefficient: the raw product fits the
        # type, coefficient x product does not (value sets 6, 7); reciprocal-length leaves 47, 48
        ("len1i", "length 1, integer dtypes with a whole-number cancellation coefficient", dict(maxlen=1, exportlen=1, leaves=[1, 2, 47, 48], yshapes=["v"], xshapes=["v"], valsets=[6, 7], reexall=False, ops=INT_OPS, pairs=[(2, 47), (47, 2), (2, 48), (48, 2), (1, 47), (2, 1)], dtx=ck.q(["i1", "i2", "u1", "i8"], ["i1", "i2", "u1", "u2", "i4", "i8"]), dty=ck.q(["i1", "i2", "u1", "i8"], ["i1", "i2", "u1", "u2", "i4", "i8"]), resbound=1048576), False),
        ("len1x", "length 1, powers with general exponents (exponent space)", dict(maxlen=1, exportlen=1, leaves=XLEAVES, yshapes=ck.q(["v"], ["v", "s"]), valsets=[5], reexall=ck.q(False, True), ops=["powerx"], pairs=XPAIRS, xshapes=ck.q(["v"], ["v", "s"])), False),
        # the base of such a power is itself a product / quotient / root (cancelled and compound units)
        ("len2x", "length 2, general power of a product / quotient / root", dict(maxlen=2, exportlen=2, leaves=[1, 2, 3, 12, 13, 15], yshapes=["v"], valsets=[5], reexall=False, ops=["multiply", "divide", "sqrt", "square", "powerx"], pairs=ck.q([(2, 3), (12, 13)], [(2, 3), (3, 2), (12, 13), (13, 12), (12, 15), (2, 12), (1, 13)])), False),
        # length 2 (exhaustive chains) on a smaller alphabet: compound and cancelled units feed the second step
        ("len2", "programs of length 2 (exhaustive)", dict(maxlen=2, exportlen=2, leaves=leaves2, yshapes=["v"], valsets=[1], reexall=False, ops=ops2, pairs=ck.q([(1, 2)], [(1, 2), (2, 1), (2, 6), (1, 1)])), False),
        # beyond the bound: simulated longer programs
        ("sim", f"simulation, programs of length {depth}", dict(maxlen=depth, exportlen=depth, leaves=ck.q([1, 2, 3, 4, 5, 6, 8, 12], list(range(1, 25))), yshapes=["v", "s"], valsets=[1, 2, 3], reexall=False), True),
    ]
    per = max(1, (NCPU + 2) // 3)

    def gen(item):
        key, label, args, simulate = item
        a = dict(args)
        _cfg(ck, "MC_C04_" + key, a.pop("maxlen"), a.pop("exportlen"), a.pop("leaves"), a.pop("yshapes"), a.pop("valsets"), a.pop("reexall"), **a)
        if simulate:
            return ck.tlc("MC_C04", env=JVM, cfg="MC_C04_" + key, workers=1, simulate=n_sim, depth=depth + 1, label=label, timeout=3000)
        return ck.tlc("MC_C04", env=JVM, cfg="MC_C04_" + key, workers=per, label=label, coverage=False, timeout=6000)

    # (at most max(4, NCPU) JVMs at a time: every instance is its own TLC process with its own heap)
    with cf.ThreadPoolExecutor(max_workers=min(len(inst), max(4, NCPU))) as ex:
        results = list(ex.map(gen, inst))
    st["table"] = results[0].by_tag("TABLE")[0]
    batches = []
    for (key, label, args, simulate), res in zip(inst, results):
        cases = _cases(res)
        if simulate:
            # the simulator evaluates the exporting invariant on every successor of the states it visits: programs come
            # in families sharing all but the last step; keep a seeded sample of each family
            rnd = random.Random(ck.seed)
            fam = {}
            for c in cases:
                fam.setdefault(json.dumps([c["cfg"], c["steps"][:-1]], sort_keys=True), []).append(c)
            cases = [c for k in sorted(fam) for c in rnd.sample(fam[k], min(40, len(fam[k])))]
        minimum = {"len1": 500, "len1m": 200, "len1o": 20, "len1p": 50, "len1r": 100, "len1d": 100, "len1x": 100, "len2x": 20, "len1b": 100, "len1i": 50}.get(key, 0)
        if len(cases) < minimum:
            raise MachineryFailure(f"too few cases exported by instance {key}: {len(cases)}")
        batches.append((key, cases))
    bykey = dict(batches)
    mid = bykey["len1"][len(bykey["len1"]) // 2]
    ck.sample({"program": mid["steps"], "leaf_units_A": [_ustr(st["table"]["names"], r["u"]) for r in mid["A"][:2]], "leaf_units_B": [_ustr(st["table"]["names"], r["u"]) for r in mid["B"][:2]]})
    sims = bykey["sim"]
    if sims:
        ck.sample({"simulated_program": sims[0]["steps"]})
    ck.cov["exhaustive"] = True
    ck.cov["bound"] = {"len1_leaf_units": len(leaves1), "len2_leaf_units": len(leaves2), "len2_ops": len(ops2)}
    ck.cov["cases_by_instance"] = {k: len(v) for k, v in batches}
    allcases = [c for _, cs in batches for c in cs]
    _replay_validate(ck, allcases, "all", st)
    n2 = len(bykey["len2"])
    n1 = len(allcases) - n2 - len(sims)

    ck.cov["evaluations"] = st["events"]
    ck.cov["distinct_nontrivial"] = st["distinct_events"]
    ck.cov["rule"] = "evaluations = steps executed in real unyt (each TLC program x both runs x every call form); distinct_nontrivial = distinct (operation, observed operands, observed result) events judged by TLC"
    ck.cov["programs"] = n1 + n2 + len(sims)
    ck.cov["programs_by_kind"] = {"len1": n1, "len2": n2, "simulated": len(sims), "steps": st["steps"]}
    ck.cov["steps_by_operation"] = dict(sorted(st["by_op"].items()))
    ck.cov["outside_claim"] = st["outside"]
    ck.cov["undecided"] = st["undecided"]
    ck.cov["raised_in_replay"] = st["raised"]
    ck.cov["inplace_recursion_errors"] = st.get("inplace_recursion", 0)
    ck.cov["model_level_fail_classes"] = sorted(list(x) for x in st["model_fail_classes"])

    # code -> spec: the repository's own tests, dimension clause per call
    if ck.tier == "thorough":
        import suite

        suite.check(ck, ["P04"])
