------------------------------ MODULE MC_C01 ------------------------------
(* Bounded single-step instance for C01: TLC enumerates the operation x call *)
(* form x operand-kind x unit matrix (legal combinations only), evaluates    *)
(* the transcription (T) and the property on the model (ModelOk) and exports *)
(* every case.  One case = one distinct state.                               *)
EXTENDS Ufunc, Json
CONSTANTS Units, ConvUnits, UKinds0, UKinds1, UfOps, Forms, ArrFns, Fams, SpUnits, Hists, HUnits, ArrForms, AliasOps, DlUnits,
          DerUnits, DHists, DArrFns, DepthForms
NoTable == [x \in {} |-> 0]

VARIABLE c
Init == c = <<>>
\* h: registry history between the construction of the two operands ("none": both units come from one registry state)
CaseH(fam, op, form, k0, n0, k1, n1, h) == [fam |-> fam, op |-> op, form |-> form, k0 |-> k0, n0 |-> n0, k1 |-> k1, n1 |-> n1, h |-> h]
Case(fam, op, form, k0, n0, k1, n1) == CaseH(fam, op, form, k0, n0, k1, n1, "none")
HasUnit(k) == k \in UnytKinds \cup ListQ \cup HetList
UnitOk(k, n) == IF HasUnit(k) THEN n \in Units ELSE n = "nd"

OperatorOps == {"add","subtract","remainder","divmod","multiply","divide","floor_divide","less","less_equal","greater","greater_equal","equal","not_equal"}
InPlaceOps == {"add","subtract","remainder","multiply","divide","floor_divide"}
ReduceOps == {"add","maximum","minimum","fmax","fmin"}
\* special value classes are paired with plain partners only (a tiny bare operand with a quantity/array, a tiny
\* quantity with a bare number/array or a quantity), on the units SpUnits, in the forms that reach the zero scan
\* the same economy for heterogeneous sequences, tuples and the three-element mixed list (scalar partner: its shape is (3,))
Restricted == SpecialKinds \cup HetList \cup {"tlq","tlqm","lqm3"} \cup ShapeKinds
Partner(k, other) == IF k \in ShapeKinds THEN other \in {"q","a","c","bs"} /\ Compat(Shape(k), Shape(other)) ELSE IF k \in {"tq","tqa"} THEN other \in {"bs","ba","q"} ELSE IF k = "lqm3" THEN other = "q" ELSE other \in {"q","a"}
SpecialOk(form, k0, n0, k1, n1) ==
  /\ (k0 \in Restricted => Partner(k0, k1))
  /\ (k1 \in Restricted => Partner(k1, k0))
  /\ ((k0 \in Restricted \/ k1 \in Restricted) =>
        n0 \in SpUnits \cup {"nd"} /\ n1 \in SpUnits \cup {"nd"} /\ form \in {"call","operator","iop"})
\* special classes offered to array functions / __setitem__ (second operand only)
ArrSpecial == {"ts","nz","ns","ta","tm","lzq","lbq","lqb","tlqm"}
UfLegal(op, form, k0, k1) ==
  /\ (k0 \in UnytKinds \/ k1 \in UnytKinds)
  /\ CASE form = "call" -> TRUE
       [] form = "outer" -> op # "divmod"
       [] form = "operator" -> op \in OperatorOps /\ (k0 \in UnytKinds \/ (k0 \in BareNumber /\ op \notin BoolOps))
       [] form = "iop" -> op \in InPlaceOps /\ k0 \in UnytKinds /\ Bc(Shape(k0), Shape(k1)) = Shape(k0)
       [] form = "out" -> op \notin BoolOps /\ op # "divmod"
       [] form = "at" -> op \in {"add","maximum"} /\ k0 \in {"a","az"} /\ Shape(k1) = "s"
       [] form = "reduce_initial" -> op \in ReduceOps /\ k0 = "a" /\ k1 \in {"q","bs","z"}
       [] OTHER -> FALSE

V1 == {"a","az","ba","bl","za","zl","lq","lqm","ta","tm","lzq","lbq","lqb","tlqm"}
NoCol == AllKinds \ {"c"}
Plain == AllKinds \ ({"c"} \cup ListQ \cup HetList)
ArrLegal(op, k0, k1) ==
  CASE op = "block" -> k0 \in {"a","az","ba","za"} /\ k1 \in {"a","az","ba","za"} /\ ({k0,k1} \cap {"a","az"} # {})
    [] op = "append" -> k0 \in V1 \ (ListQ \cup HetList) /\ k1 \in V1 \ (ListQ \cup HetList) /\ ({k0,k1} \cap {"a","az"} # {})
    [] op \in ListMerge \cup {"choose"} -> k0 \in V1 /\ k1 \in V1 /\ ({k0,k1} \cap {"a","az"} # {})
    [] op = "where" -> k0 \in NoCol /\ k1 \in NoCol /\ ({k0,k1} \cap UnytKinds # {})
    [] op = "select" -> k0 \in {"a","az"} /\ k1 \in V1 \cup {"q","bs","z"}
    [] op \in {"intersect1d","union1d","setdiff1d","setxor1d","isin"} -> k0 \in {"a","az"} /\ k1 \in V1
    [] op = "interp" -> k0 \in {"a","az","q"} /\ k1 \in V1
    [] op = "linspace" -> k0 = "q" /\ k1 \in {"q","bs","z"}
    [] op = "geomspace" -> k0 = "q" /\ k1 \in {"q","bs"}
    [] op = "einsum" -> k0 \in {"a","az","ba","za"} /\ k1 \in {"a","az","ba","za"} /\ ({k0,k1} \cap {"a","az"} # {})
    [] op = "put_along_axis" -> k0 \in {"a","az"} /\ k1 \in {"q","bs","z"}
    [] op \in {"insert","searchsorted","clip"} \cup V2InPlace -> k0 \in {"a","az"} /\ k1 \in NoCol
    [] op \in CompFns \cup EqFns -> k0 \in Plain /\ k1 \in Plain /\ ({k0,k1} \cap UnytKinds # {})
    [] op \in {"copyto","copyto_where"} -> k0 = "a" /\ k1 \in {"q","a","az","bs","ba","z","za"}
    [] op = "pad" -> k0 = "a" /\ k1 \in {"q","bs","z"}
    [] op = "histogram_range" -> k0 = "a" /\ k1 \in {"q","bs"}
    [] OTHER -> FALSE

\* size / shape classes in the array functions: every operand position, shape-legal combinations only (so that a
\* refusal can only come from the units, never from NumPy's own shape rules)
OneD == {"a","az","e0","a1","ba","be"}
ArrShapeLegal(op, k0, k1) ==
  /\ ({k0,k1} \cap ShapeKinds # {}) /\ ({k0,k1} \cap UnytKinds # {})
  /\ {k0,k1} \subseteq ShapeKinds \cup {"q","a","az","ba"}
  /\ CASE op \in {"concatenate","hstack","append"} -> k0 \in OneD /\ k1 \in OneD
       [] op \in {"union1d","intersect1d","setdiff1d","setxor1d","isin","searchsorted","insert"} -> k0 \in OneD \cap UnytKinds /\ k1 \in OneD
       [] op = "vstack" -> (k0 \in {"e02","a","az"} /\ k1 \in {"e02","a","az"}) \/ (Shape(k0) = Shape(k1) /\ Shape(k0) # "s")
       [] op \in {"stack","dstack","column_stack"} -> Shape(k0) = Shape(k1) /\ Shape(k0) # "s"
       [] op \in {"where","clip","isclose","allclose","array_equiv","array_equal"} -> Compat(Shape(k0), Shape(k1)) /\ (op = "clip" => k0 \in UnytKinds)
       [] op \in {"choose","select"} -> Compat(Shape(k0), Shape(k1)) /\ Shape(k0) # "s" /\ Shape(k1) # "s" /\ (op = "select" => k0 \in UnytKinds)
       [] op \in {"linspace","geomspace"} -> {k0,k1} \subseteq {"q","q0a"}
       [] op = "interp" -> k0 \in {"e0","a1","q0a"} /\ k1 \in {"a","az"}
       [] op \in V2InPlace \cup {"copyto_where"} -> k0 = "a" /\ k1 \in {"a1","q0a"}
       [] OTHER -> FALSE

\* call forms of the array functions (Ufunc.tla: ArrFormsAll).  Which spellings exist is a fact about NumPy's
\* signatures (positional-only parameters, out=, the alias names of this NumPy: AliasOps), not about unyt.
NoKw == {"concatenate","where","pad","histogram_range","einsum"}          \* positional-only / the value slot is a keyword already
KwAllOps == {"append","choose","select","intersect1d","union1d","setdiff1d","setxor1d","isin","interp","linspace","geomspace","insert",
             "searchsorted","clip","put","place","put_along_axis","fill_diagonal","isclose","allclose","array_equal","array_equiv"}
OutOps == {"clip","concatenate","stack","choose"}
ArrFormLegal(op, form) ==
  CASE form = "call" -> TRUE
    [] form = "kw" -> op \notin NoKw
    [] form = "kwall" -> op \in KwAllOps
    [] form = "out" -> op \in OutOps
    [] form = "kwout" -> op \in OutOps \ NoKw
    [] form \in {"lo","hi","kwlo","kwhi","method","methodkw","methodlo","methodhi"} -> op \in TwoBound
    [] form \in {"alias","aliaslo","aliashi","aliasout"} -> op \in TwoBound \cap AliasOps
    [] OTHER -> FALSE
\* the forms are offered to plain operand kinds (every value class / sequence / shape class keeps the positional form)
FormUnits == (HUnits \cup {"nd","K"}) \cap Units
FormK0 == {"a","q"}
FormK1 == {"q","a","bs","ba","lq","lqm"}
\* scaled dimensionless units (percent, the ratio lb/la, nq): dimension 1 but NOT the null unit.  They meet the units
\* SpUnits / nd / each other in every family, on plain operand kinds
DlPair(n0, n1) == (n0 \in DlUnits /\ n1 \in SpUnits) \/ (n1 \in DlUnits /\ n0 \in SpUnits)
DlKinds == {"q","a","lq"}
DlUnitOk(k, n) == IF HasUnit(k) THEN TRUE ELSE n = "nd"

Next ==
  /\ c = <<>>
  /\ \/ /\ "ufunc" \in Fams
        /\ \E op \in UfOps \cap KnownOps, form \in Forms, k0 \in UKinds0, k1 \in UKinds1, n0 \in Units \cup {"nd"}, n1 \in Units \cup {"nd"} :
             /\ UfLegal(op, form, k0, k1) /\ UnitOk(k0, n0) /\ UnitOk(k1, n1) /\ SpecialOk(form, k0, n0, k1, n1)
             \* ufuncs the property says nothing about (products, logical operations, ...: P is vacuous, only the
             \* transcription is compared) take the forms DepthForms in the thorough tier only
             /\ (form \in {"outer","out"} /\ op \notin NeedsComm \cup EqNe => form \in DepthForms)
             /\ c' = Case("ufunc", op, form, k0, n0, k1, n1)
     \/ /\ "arrfn" \in Fams
        /\ \E op \in ArrFns \cap ArrOps, k0 \in UKinds0, k1 \in UKinds1, n0 \in Units \cup {"nd"}, n1 \in Units \cup {"nd"} :
             /\ ArrLegal(op, k0, k1) /\ UnitOk(k0, n0) /\ UnitOk(k1, n1)
             /\ k0 \notin Restricted /\ (k1 \in Restricted => k1 \in ArrSpecial /\ n0 \in SpUnits \cup {"nd"} /\ n1 \in SpUnits \cup {"nd"})
             /\ c' = Case("arrfn", op, "call", k0, n0, k1, n1)
     \/ /\ "arrfn" \in Fams
        /\ \E op \in ArrFns \cap ArrOps, k0 \in UKinds0, k1 \in UKinds1, n0 \in SpUnits \cup {"nd"}, n1 \in SpUnits \cup {"nd"} :
             /\ ArrShapeLegal(op, k0, k1) /\ UnitOk(k0, n0) /\ UnitOk(k1, n1)
             /\ c' = Case("arrfn", op, "call", k0, n0, k1, n1)
     \/ /\ "arrfn" \in Fams
        /\ \E op \in ArrFns \cap ArrOps, form \in ArrForms \ {"call"}, k0 \in UKinds0 \cap FormK0, k1 \in UKinds1 \cap FormK1,
              n0 \in FormUnits, n1 \in FormUnits :
             /\ ArrLegal(op, k0, k1) /\ ArrFormLegal(op, form) /\ DlUnitOk(k0, n0) /\ DlUnitOk(k1, n1)
             /\ c' = Case("arrfn", op, form, k0, n0, k1, n1)
     \/ /\ "arrfn" \in Fams
        /\ \E op \in ArrFns \cap ArrOps, k0 \in UKinds0 \cap DlKinds, k1 \in UKinds1 \cap DlKinds, n0 \in Units \cup DlUnits, n1 \in Units \cup DlUnits :
             /\ ArrLegal(op, k0, k1) /\ DlUnitOk(k0, n0) /\ DlUnitOk(k1, n1) /\ DlPair(n0, n1)
             /\ c' = Case("arrfn", op, "call", k0, n0, k1, n1)
     \/ /\ "ufunc" \in Fams
        /\ \E op \in UfOps \cap KnownOps, form \in Forms \cap {"call","operator","iop"}, k0 \in UKinds0 \cap {"q","a"}, k1 \in UKinds1 \cap {"q","a"},
              n0 \in Units \cup DlUnits, n1 \in Units \cup DlUnits :
             /\ UfLegal(op, form, k0, k1) /\ DlUnitOk(k0, n0) /\ DlUnitOk(k1, n1) /\ DlPair(n0, n1)
             /\ c' = Case("ufunc", op, form, k0, n0, k1, n1)
     \/ /\ "setitem" \in Fams
        /\ \E k1 \in UKinds1 \cap {"q","a","lq","tlq","lbq","a1"}, n0 \in Units \cup DlUnits, n1 \in Units \cup DlUnits :
             /\ DlPair(n0, n1) \/ (n0 \in {"nd"} \cup DlUnits /\ n1 \in Units)
             /\ c' = Case("setitem", "setitem", IF Shape(k1) = "s" THEN "index" ELSE "slice", "a", n0, k1, n1)
     \/ /\ "setitem" \in Fams
        /\ \E k1 \in UKinds1 \ {"c"}, n0 \in Units, n1 \in Units \cup {"nd"} :
             /\ UnitOk(k1, n1) /\ (k1 \in Restricted => k1 \in ArrSpecial \cup {"tq","tqa","tlq","a1","q0a"} /\ n0 \in SpUnits /\ n1 \in SpUnits \cup {"nd"})
             /\ c' = Case("setitem", "setitem", IF Shape(k1) = "s" THEN "index" ELSE "slice", "a", n0, k1, n1)
     \/ /\ "conv" \in Fams
        /\ \E e \in {"to","in_units","to_value","convert_to_units"}, f \in {"obj","str"}, k0 \in {"q","a"}, n0 \in ConvUnits, n1 \in ConvUnits :
             c' = Case("conv", e, f, k0, n0, "u", n1)
     \/ /\ "unitop" \in Fams
        /\ \E e \in {"add","subtract"}, n0 \in ConvUnits, n1 \in ConvUnits :
             c' = Case("unitop", e, "operator", "u", n0, "u", n1)
\* registry histories: the first operand keeps the Unit object it was built with, then the SAME symbol is re-defined
\* (modify by a quantity / remove + add / a second registry) with the definition of n1, and the second operand is built
\* from the symbol afterwards.  Transcription and property see two units n0, n1 - the history must not matter.
HKinds == {<<"q","q">>, <<"a","a">>, <<"a","q">>}
HNext ==
  /\ c = <<>> /\ "hist" \in Fams
  /\ \E h \in Hists, n0 \in HUnits, n1 \in HUnits, kk \in HKinds :
       \/ \E op \in UfOps \cap KnownOps, form \in {"call","operator","iop","outer"} :
            /\ UfLegal(op, form, kk[1], kk[2]) /\ c' = CaseH("ufunc", op, form, kk[1], n0, kk[2], n1, h)
       \/ \E op \in (ArrFns \cap ArrOps) \ {"einsum"} :
            /\ ArrLegal(op, kk[1], kk[2]) /\ c' = CaseH("arrfn", op, "call", kk[1], n0, kk[2], n1, h)
       \/ /\ kk[1] = "a" /\ c' = CaseH("setitem", "setitem", IF kk[2] = "q" THEN "index" ELSE "slice", "a", n0, kk[2], n1, h)
       \/ \E e \in {"to","in_units","to_value","convert_to_units"} : c' = CaseH("conv", e, "obj", kk[1], n0, "u", n1, h)
\* derived units (Ufunc.tla: DTable): dimensions that differ only in the VALUE of a rational exponent (thirds, halves,
\* fifths, signs) or in how the same base symbols are combined (L/T, T/L, L*T).  Each derived unit meets every other one
\* and the base units la / ta / nd - and a bare non-zero number / array - in every family.  h = "computed": the unit
\* objects are the ones a computation on quantities of the base units leaves behind (np.cbrt, np.sqrt, **, 1/x, x/y, x*y);
\* h = "none": they are built by unit algebra / parsed from their string.  Neither T nor P sees h.
DBase == {"la","ta","nd"}
DPair(n0, n1) == (n0 \in DerUnits /\ n1 \in DerUnits \cup DBase) \/ (n1 \in DerUnits /\ n0 \in DBase)
DUfOps == (NeedsComm \cup EqNe) \cap UfOps \cap KnownOps
DUfKinds(form) == IF form = "call" THEN {<<"q","q">>, <<"a","a">>} ELSE IF form = "operator" THEN {<<"a","a">>, <<"q","a">>} ELSE {<<"a","a">>}
DBareKinds(form) == IF form = "iop" THEN {<<"a","ba">>} ELSE {<<"q","bs">>, <<"a","ba">>, <<"bs","a">>, <<"ba","q">>}
DArrKinds(op) == IF op \in {"linspace","geomspace"} THEN <<"q","q">>
                 ELSE IF op \in {"pad","histogram_range","select","put_along_axis"} THEN <<"a","q">> ELSE <<"a","a">>
DNext ==
  /\ c = <<>> /\ "der" \in Fams
  /\ \/ \E n0 \in DerUnits \cup DBase, n1 \in DerUnits \cup DBase :
          /\ DPair(n0, n1)
          /\ \/ \E h \in DHists, op \in DUfOps, form \in {"call","operator","iop"} : \E kk \in DUfKinds(form) :
                  /\ UfLegal(op, form, kk[1], kk[2]) /\ c' = CaseH("ufunc", op, form, kk[1], n0, kk[2], n1, h)
             \/ \E h \in DHists, op \in (DArrFns \cap ArrFns \cap ArrOps) \ {"copyto","einsum"} :
                  /\ ArrLegal(op, DArrKinds(op)[1], DArrKinds(op)[2])
                  /\ c' = CaseH("arrfn", op, "call", DArrKinds(op)[1], n0, DArrKinds(op)[2], n1, h)
             \/ \E h \in DHists, k1 \in {"q","a","lq"} :
                  c' = CaseH("setitem", "setitem", IF k1 = "q" THEN "index" ELSE "slice", "a", n0, k1, n1, h)
             \/ \E e \in {"to","in_units","to_value","convert_to_units"}, f \in {"obj","str"} :
                  c' = Case("conv", e, f, IF f = "obj" THEN "q" ELSE "a", n0, "u", n1)
             \/ \E e \in {"add","subtract"} : c' = Case("unitop", e, "operator", "u", n0, "u", n1)
     \* np.cbrt(8 la) + 1.0: a derived unit against a bare non-zero number / array (bare data is dimensionless)
     \/ \E n \in DerUnits, h \in DHists, op \in DUfOps, form \in {"call","operator","iop"} : \E kk \in DBareKinds(form) :
          /\ UfLegal(op, form, kk[1], kk[2])
          /\ c' = CaseH("ufunc", op, form, kk[1], IF HasUnit(kk[1]) THEN n ELSE "nd", kk[2], IF HasUnit(kk[2]) THEN n ELSE "nd", h)
NextAll == Next \/ HNext \/ DNext
Spec == Init /\ [][NextAll]_c

\* every case is exported with the model-level verdict; ufuncs of the tree the specification has no rule for are reported
Export == c # <<>> => PrintT(ToJson([tag |-> "CASE", c |-> c, dem |-> Demanded(c) \/ EqDemanded(c), mok |-> ModelOk(c), mk |-> Outcome(c).k]))
Uncovered == c = <<>> => \A op \in UfOps \ KnownOps : PrintT(ToJson([tag |-> "UNCOVERED", op |-> op]))
=============================================================================
