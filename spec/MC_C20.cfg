CONSTANTS
  Mode = "valid"
  Depth = 1
  NGenNames = 3
  NGenCoefs = 1
  NGenExps = 3
  MaxD = 3
  MaxTok = 2
  TokPick = {1, 5, 7}
  NJoin = 2
  Thin = 1
  MaxTr = 1
  MaxTrW = 0
  ExpPick = {11}
INIT Init
NEXT Next
INVARIANT Export
CHECK_DEADLOCK FALSE
