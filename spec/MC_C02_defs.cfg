CONSTANTS
  Stride = 1
  Phase = 0
INIT Init
NEXT NextDefs
INVARIANT Export
CHECK_DEADLOCK FALSE
