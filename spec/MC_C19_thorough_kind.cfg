CONSTANTS
  Tier = "thorough"
  Part = "kind"
INIT Init
NEXT Next
INVARIANT Export
CHECK_DEADLOCK FALSE
