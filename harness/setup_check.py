"""./check --setup : toolchain sanity + SANY parse of every module (builds nothing persistent)."""
import glob
import os
import shutil
import subprocess
import sys
import tempfile

from common import REPO, SPEC_DIR, TLC_JAR_CP, VERIF


def setup():
    ok = True
    r = subprocess.run(["java", "-version"], capture_output=True, text=True)
    print("java:", (r.stderr or r.stdout).splitlines()[0] if r.returncode == 0 else "MISSING")
    ok &= r.returncode == 0
    env = dict(os.environ, PYTHONPATH=REPO)
    r = subprocess.run([sys.executable, "-c", "import numpy, sympy, unyt; print('unyt from', unyt.__file__, 'numpy', numpy.__version__, 'sympy', sympy.__version__)"], env=env, capture_output=True, text=True)
    print(r.stdout.strip() or r.stderr.strip()[-400:])
    ok &= r.returncode == 0
    tmp = tempfile.mkdtemp(prefix="unytverif_setup_")
    try:
        d = os.path.join(tmp, "spec")
        shutil.copytree(SPEC_DIR, d)
        mods = sorted(glob.glob(os.path.join(d, "*.tla")))
        bad = []
        for m in mods:
            r = subprocess.run(["java", "-cp", TLC_JAR_CP, "tla2sany.SANY", os.path.basename(m)], cwd=d, capture_output=True, text=True)
            if r.returncode != 0 or "Semantic errors" in r.stdout or "*** Errors" in r.stdout or "Parse Error" in r.stdout or "Fatal errors" in r.stdout:
                bad.append((os.path.basename(m), r.stdout[-600:]))
        print(f"SANY: {len(mods) - len(bad)}/{len(mods)} modules parse")
        for b in bad:
            print("  FAIL", b[0], b[1])
        ok &= not bad
    finally:
        shutil.rmtree(tmp, ignore_errors=True)
    os.makedirs(os.path.join(VERIF, "evidence"), exist_ok=True)
    return 0 if ok else 2
