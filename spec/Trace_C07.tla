------------------------------ MODULE Trace_C07 ------------------------------
(* Trace validation for C07.  Input (IOEnv.OBS): a JSON array of              *)
(*   [c |-> case exported by MC_C07, o |-> what the real library did on it]   *)
(* o = [b |-> base run, v |-> run on the re-expressed operands, cmp |-> per   *)
(* output <<exact, within tolerance, same shape>> of the physical numbers].   *)
(* For every entry TLC evaluates the C07 predicates of ArrayFnUnit on the     *)
(* observation (P: clauses cov, sig, keep) and compares both runs with the    *)
(* outcome the transcribed unit formula predicts (T).                         *)
EXTENDS ArrayFnUnit, IOUtils
Obs == JsonDeserialize(IOEnv.OBS)
VARIABLE i
Init == i = 1

OutInfo(run, j) == IF run.k = "ok" /\ j \in DOMAIN run.outs
                   THEN [kind |-> run.outs[j].kind, cls |-> run.outs[j].cls, dims |-> run.outs[j].dims, lg |-> run.outs[j].lg, dk |-> run.outs[j].dk]
                   ELSE [kind |-> run.k, cls |-> run.exc, dims |-> <<0, 0>>, lg |-> 0, dk |-> ""]
PFail(n, c, o, cl, j) ==
  PrintT(ToJson([tag |-> "P-FAIL", i |-> n, f |-> c.f, t |-> c.t, sh |-> c.sh, clause |-> cl, out |-> j, pat |-> c.pat, ok |-> c.ok, bm |-> c.bm, bk |-> c.bk,
                 mixed |-> (c.pat # "all"), da |-> c.da, dt |-> c.dt, real |-> c.real, ds |-> c.ds, r |-> c.r, hcls |-> c.hcls, cls |-> c.cls,
                 base |-> OutInfo(o.b, j), var |-> OutInfo(o.v, j),
                 cmp |-> IF j \in DOMAIN o.cmp THEN o.cmp[j] ELSE [ex |-> FALSE, tol |-> FALSE, shp |-> FALSE],
                 expect |-> IF c.sig.k = "unknown" \/ j = 0 THEN <<>> ELSE
                            LET s == SigAt(c, j, Len(o.b.outs)) IN IF s.bare THEN <<"bare">> ELSE ExpDims(s.deg, c.u)]))
TFail(n, c, which, m, run) ==
  PrintT(ToJson([tag |-> "T-FAIL", i |-> n, f |-> c.f, t |-> c.t, sh |-> c.sh, pat |-> c.pat, run |-> which, model |-> m,
                 observed |-> [k |-> run.k, exc |-> run.exc, outs |-> [j \in DOMAIN run.outs |-> OutInfo(run, j)]]]))
Report(n, c, o) ==
  /\ \A j \in CovFails(c, o) : PFail(n, c, o, "cov", j)
  /\ \A j \in SigFails(c, o) : IF c.cls = "same" /\ j \in KeepFails(c, o) THEN TRUE ELSE PFail(n, c, o, "sig", j)
  /\ \A j \in KeepFails(c, o) : PFail(n, c, o, "keep", j)
  /\ \A j \in OutFails(c, o) : PFail(n, c, o, "outbuf", Len(IF j = 1 THEN o.b.outs ELSE o.v.outs))
  /\ (~TRunOK(c, c.tb, o.b) => TFail(n, c, "base", c.tb, o.b))
  /\ (~TRunOK(c, c.tv, o.v) => TFail(n, c, "variant", c.tv, o.v))

Next == /\ i <= Len(Obs)
        /\ Report(i, Obs[i].c, Obs[i].o)
        /\ i' = i + 1
=============================================================================
