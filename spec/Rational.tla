---------------------------- MODULE Rational ----------------------------
(* Exact rationals as normalised pairs <<n, d>> with d > 0.  TLC integers are  *)
(* 32 bit: every instance keeps its value grid small enough (checked by the    *)
(* harness when it encodes observations).  Floats never enter TLC.             *)
EXTENDS Integers
RECURSIVE GCD(_,_)
GCD(a,b) == IF b = 0 THEN (IF a < 0 THEN -a ELSE a) ELSE GCD(b, a % b)
\* (TLC's % needs a positive modulus: the sign of the denominator is moved to the numerator before GCD is taken)
Norm(n,d) == LET nn == IF d < 0 THEN -n ELSE n
                 dd == IF d < 0 THEN -d ELSE d
                 g == GCD(IF nn < 0 THEN -nn ELSE nn, dd) IN
             IF n = 0 THEN <<0,1>> ELSE <<nn \div g, dd \div g>>
R(n) == <<n,1>>
RZero == <<0,1>>
ROne == <<1,1>>
RAdd(a,b) == Norm(a[1]*b[2]+b[1]*a[2], a[2]*b[2])
RNeg(a) == <<-a[1], a[2]>>
RSub(a,b) == RAdd(a, RNeg(b))
RMul(a,b) == Norm(a[1]*b[1], a[2]*b[2])
RDiv(a,b) == Norm(a[1]*b[2], a[2]*b[1])
RInv(a) == Norm(a[2], a[1])
RLt(a,b) == a[1]*b[2] < b[1]*a[2]
RLe(a,b) == a[1]*b[2] <= b[1]*a[2]
REq(a,b) == a[1]*b[2] = b[1]*a[2]
RMax(a,b) == IF RLt(a,b) THEN b ELSE a
RMin(a,b) == IF RLt(b,a) THEN b ELSE a
RAbs(a) == IF a[1] < 0 THEN RNeg(a) ELSE a
RIsZero(a) == a[1] = 0
RSign(a) == IF a[1] > 0 THEN 1 ELSE IF a[1] < 0 THEN -1 ELSE 0
RIsInt(a) == a[2] = 1
\* floor division on integers that rounds toward minus infinity (TLC's \div does for positive divisors)
RFloor(a) == a[1] \div a[2]
RFloorR(a) == R(RFloor(a))
\* python-style modulus: result has the sign of the divisor
RMod(a,b) == RSub(a, RMul(b, RFloorR(RDiv(a,b))))
RECURSIVE RPowNat(_,_)
RPowNat(a,n) == IF n = 0 THEN ROne ELSE RMul(a, RPowNat(a, n-1))
RPow(a,n) == IF n >= 0 THEN RPowNat(a,n) ELSE RInv(RPowNat(a,-n))
\* integer square root when it exists (small numbers only)
RECURSIVE ISqrtFrom(_,_)
ISqrtFrom(n,k) == IF k*k >= n THEN k ELSE ISqrtFrom(n,k+1)
IsSquare(n) == n >= 0 /\ ISqrtFrom(n,0)*ISqrtFrom(n,0) = n
RIsSquare(a) == IsSquare(a[1]) /\ IsSquare(a[2])
RSqrt(a) == <<ISqrtFrom(a[1],0), ISqrtFrom(a[2],0)>>
RECURSIVE ICbrtFrom(_,_)
ICbrtFrom(n,k) == IF k*k*k >= n THEN k ELSE ICbrtFrom(n,k+1)
IsCube(n) == n >= 0 /\ ICbrtFrom(n,0)*ICbrtFrom(n,0)*ICbrtFrom(n,0) = n
=============================================================================
