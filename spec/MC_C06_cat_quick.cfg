CONSTANTS
  Seeds = {0}
  DTs = {"f", "i"}
  ShAll = {"s", "3", "2x3", "0"}
INIT Init
NEXT Next
INVARIANT Export
CHECK_DEADLOCK FALSE
