CONSTANTS
  Mode = "TAB"
  Seed = 0
  PairN = 20
  TripleN = 8
  PowN = 6
  PowMulN = 8
  SimpN = 6
  RuleN = 10
  HistN = 0
  CoefN = 4
  QHistN = 0
  EqN = 4
INIT Init
NEXT Next
INVARIANT Export
CHECK_DEADLOCK FALSE
