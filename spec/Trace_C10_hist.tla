--------------------------- MODULE Trace_C10_hist ---------------------------
(* Trace validation of replayed histories on a user-defined system (C10).    *)
(* T: every step's result and the observed set of memoised dimensions equal  *)
(* the transition's.  P (on the observations only; the declared view `rdecl` *)
(* is driven by the observed outcome of each declaration):                   *)
(*   RejectsInconsistent / UsableImmediately   on creation                   *)
(*   RaisesOnlyUnitsNotReducible, Inside, Dimension   on every conversion/read*)
(*   HistoryFree: at the end every probe converts exactly as on a fresh      *)
(*     system holding the same declarations (no reads before)                *)
(*   AgreesWithBaseEquivalent, Idempotent on the final probes                *)
EXTENDS UnitSystemHist
Traces == JsonDeserialize(IOEnv.C10TRACES)
VARIABLES tid, l, rdecl, rbase, sync
tvars == <<vars, tid, l, rdecl, rbase, sync>>
TraceInit == Init /\ tid = 1 /\ l = 1 /\ rdecl = <<>> /\ rbase = <<>> /\ sync = TRUE
Ev == Traces[tid].ev[l]
StepAction(e) ==
  CASE e.op = "new" -> New(e.base)
    [] e.op = "declare" -> Declare([dim |-> e.dim, x |-> e.x])
    [] e.op = "get" -> Get(e.dim)
    [] OTHER -> Conv(e.op, ToSet(e.x))
ObsRes(e) == [k |-> IF e.obs.k = "ok" THEN "ok" ELSE "raise", x |-> IF e.obs.k = "ok" /\ e.op \notin {"new", "declare"} THEN ToSet(e.obs.x) ELSE {}]
\* the same step when _check_em_conversion is not cached (fixes/C10-em-check-not-cached.patch): accepted as well
NoCacheRes(e) == IF e.op = "in_base" THEN InBaseF(sys, memo, {}, ToSet(e.x)).res ELSE GbeF(sys, memo, {}, ToSet(e.x)).res
TOk(e) == /\ \/ last' = ObsRes(e)
             \/ e.op \in {"in_base", "gbe", "convert_to_base"} /\ made /\ NoCacheRes(e) = ObsRes(e)
          /\ (made' => memo' = ToSet(e.memo))
\* observed view of the system for P
RSys(b) == [base |-> b, decl |-> rdecl, reg |-> 0, coef |-> FALSE, short |-> ""]
TheBase == rbase
StepClauses(e) ==
  CASE e.op = "new" -> IF Consistent(e.base) THEN (IF e.obs.k = "ok" /\ e.obs.registered THEN {} ELSE {"UsableImmediately"})
                       ELSE (IF e.obs.k = "raise" /\ ~e.obs.registered THEN {} ELSE {"RejectsInconsistent"})
    [] e.op = "declare" -> {}
    [] e.op = "get" -> IF e.obs.k # "ok" THEN {}
                       ELSE (IF Inside(RSys(TheBase), ToSet(e.obs.x), e.dim) THEN {} ELSE {"Inside"})
                            \cup (IF e.obs.dim = e.dim THEN {} ELSE {"Dimension"})
    [] OTHER -> IF e.obs.k = "raise" THEN (IF e.obs.exc = "UnitsNotReducible" THEN {} ELSE {"RaisesOnlyUnitsNotReducible"})
                ELSE (IF Inside(RSys(TheBase), ToSet(e.obs.x), e.obs.dim) THEN {} ELSE {"Inside"})
                     \cup (IF DimOk(XDim(ToSet(e.x)), e.obs.dim) THEN {} ELSE {"Dimension"})
Final == Traces[tid].final
ProbeClauses(p) ==
  LET f == Final[p] IN
  (IF f.laden.inb = f.fresh.inb /\ f.laden.gbe = f.fresh.gbe THEN {} ELSE {"HistoryFree"})
  \cup (IF f.laden.inb.k = f.laden.gbe.k /\ f.laden.inb.x = f.laden.gbe.x THEN {} ELSE {"AgreesWithBaseEquivalent"})
  \cup (IF f.laden.inb.k # "ok" \/ (f.laden.twice.k = "ok" /\ f.laden.twice.x = f.laden.inb.x) THEN {} ELSE {"Idempotent"})
PReport ==
  \A p \in DOMAIN Final : \A cl \in ProbeClauses(p) :
     PrintT(ToJson([tag |-> "P-FAIL", tid |-> tid, l |-> 0, clause |-> cl, probe |-> p,
                    route |-> IF made THEN Route(sys, ToSet(H.units[p])) ELSE "nosystem",
                    layer |-> IF made /\ StaleLru(ToSet(H.units[p])) THEN "em_lru" ELSE "other", astranscribed |-> sync]))
TraceNext ==
  \/ /\ tid <= Len(Traces) /\ l <= Len(Traces[tid].ev)
     /\ StepAction(Ev)
     /\ rdecl' = IF Ev.op = "declare" /\ Ev.obs.k = "ok" THEN Append(rdecl, [dim |-> Ev.dim, x |-> Ev.x]) ELSE rdecl
     /\ rbase' = IF Ev.op = "new" /\ Ev.obs.k = "ok" THEN Ev.base ELSE rbase
     /\ sync' = (sync /\ TOk(Ev))
     /\ (sync /\ ~TOk(Ev)) => PrintT(ToJson([tag |-> "T-FAIL", tid |-> tid, l |-> l, op |-> Ev.op, model |-> last', memo |-> memo']))
     /\ \A cl \in StepClauses(Ev) :
          PrintT(ToJson([tag |-> "P-FAIL", tid |-> tid, l |-> l, clause |-> cl, probe |-> 0,
                         route |-> IF Ev.op \in {"in_base", "gbe", "convert_to_base"} /\ made THEN Route(sys, ToSet(Ev.x)) ELSE Ev.op,
                         layer |-> "step", astranscribed |-> sync /\ TOk(Ev)]))
     /\ l' = l + 1 /\ tid' = tid
  \/ /\ tid <= Len(Traces) /\ l > Len(Traces[tid].ev)
     /\ PReport
     /\ tid' = tid + 1 /\ l' = 1
     /\ sys' = NoSys /\ made' = FALSE /\ memo' = {} /\ emc' = {} /\ hist' = <<>> /\ last' = Ok
     /\ rdecl' = <<>> /\ rbase' = <<>> /\ sync' = TRUE
=============================================================================
