CONSTANTS
  Stride = 1
  Phase = 0
  AllCombos = FALSE
  WithBase = TRUE
  CfgAll = TRUE
  Cross = FALSE
INIT Init
NEXT Next
INVARIANT ExportCase
CHECK_DEADLOCK FALSE
