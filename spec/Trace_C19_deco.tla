---------------------------- MODULE Trace_C19_deco ----------------------------
(* Trace validation for C19, decorators: every record is one template (a      *)
(* function decorated once) with a history of calls and what the real library *)
(* did on each call (returned/raised, exception class, whether the body ran,  *)
(* whether the very object the body returned came back).  TLC evaluates the   *)
(* property predicate on every observed step - the same predicate whatever    *)
(* came before, which is the "each call decided independently" clause - and   *)
(* compares the step with the implementation-shaped transition (T).           *)
EXTENDS HelpersDeco, IOUtils
Obs == JsonDeserialize(IOEnv.OBS)
VARIABLE i
TraceInit == i = 1
HowGiven(t, call, n) == IF n \in PosAssigned(t, call) THEN "positional" ELSE IF n \in KwNames(call) THEN "keyword" ELSE "default"
\* which checked argument decides the step (first wrong one, else first supplied one) and how it was passed
Culprit(t, call) ==
  IF ~t.hasAcc \/ ~BindOk(t, call) THEN ""
  ELSE LET bad == {j \in DOMAIN t.acc : Supplied(t, call, t.acc[j].n) /\ ~Fits(BoundVal(t, call, t.acc[j].n), t.acc[j].dim)} IN
       IF bad = {} THEN "" ELSE HowGiven(t, call, t.acc[CHOOSE j \in bad : \A k \in bad : j <= k].n)
Describe(r, j, o, clause) ==
  [i |-> i, step |-> j, clause |-> clause, template |-> r.tpl.id, order |-> r.tpl.order, stacked |-> r.tpl.hasAcc /\ r.tpl.hasRet,
   npos |-> Len(r.calls[j].pos), extra_positional |-> Len(r.calls[j].pos) > Len(PosParams(r.tpl)),
   wrong_argument_given |-> Culprit(r.tpl, r.calls[j]), well_formed |-> BindOk(r.tpl, r.calls[j]),
   observed |-> o, model |-> TStep(r.tpl, r.calls[j])]
Step(r) ==
  /\ Len(r.obs) = Len(r.calls)
  /\ \A j \in DOMAIN r.calls :
       LET o == r.obs[j]
           p == PStep(r.tpl, r.calls[j], o) IN
       /\ (p # "" => PrintT(ToJson([tag |-> "P-FAIL"] @@ Describe(r, j, o, p))))
       /\ (p = "" /\ ~TOkStep(r.tpl, r.calls[j], o) => PrintT(ToJson([tag |-> "T-FAIL"] @@ Describe(r, j, o, ""))))
TraceNext == i <= Len(Obs) /\ Step(Obs[i]) /\ i' = i + 1
=============================================================================
