------------------------------- MODULE MC_C05 -------------------------------
(* Bounded instances of UnitAlg for C05.  One TLC state = one case =          *)
(* (law, leaves, exponents); the program of the law comes from UnitAlg!Prog.   *)
(*                                                                            *)
(* Mode "MR":  leaves range over the dyadic model registry below (atoms,      *)
(*   compound strings, a second registry).  TLC runs the transcribed          *)
(*   operators on every case and evaluates the C05 predicates on the model    *)
(*   run (ModelFails must be empty: transitions => properties on the bounded  *)
(*   instance); every case is exported for replay in the real library.        *)
(* Mode "TAB": leaves range over the rows of the real unit table (IOEnv.TAB,  *)
(*   regenerated from the tree: atoms, prefixed, compound, custom registry);  *)
(*   TLC enumerates the tuples (all pairs for commutativity / identity /      *)
(*   inverse / equality, a seeded sample of the triples and exponent tuples   *)
(*   for the other laws) and exports them; the laws are evaluated by          *)
(*   Trace_C05 on the observations.                                           *)
EXTENDS UnitAlg, IOUtils
CONSTANTS Mode,        \* "MR" | "TAB"
          Seed,        \* salt of the seeded sampling
          PairN,       \* comm: partners per first leaf         (0 = all)
          TripleN,     \* assoc: (v, w) samples per first leaf   (0 = all pairs)
          PowN,        \* powpow, powadd: (p, q) samples per leaf (0 = all)
          PowMulN,     \* powmul: (v, p) samples per first leaf  (0 = all)
          SimpN,       \* simp: (v, w, p) samples per first leaf (0 = all)
          RuleN        \* rules: partners per first leaf        (0 = all)

(* ------------------------- the model registry ---------------------------- *)
DV(m, l, t, th, an, lo) == <<R(m), R(l), R(t), R(th), R(an), RZero, RZero, R(lo)>>
At(n, lg, dim, off) == [n |-> n, lg |-> R(lg), dim |-> dim, off |-> R(off), neg |-> n = "an"]
\* scales are 2**lg ; registries 1 and 3 hold all but xb (two objects in the same state), registry 2 holds all
RS(reg) == IF reg = 3 THEN 1 ELSE reg
MRAtoms == <<
  At("la", 0, DV(0,1,0,0,0,0), 0),   At("lb", 10, DV(0,1,0,0,0,0), 0),  At("lc", -3, DV(0,1,0,0,0,0), 0),
  At("ta", 0, DV(0,0,1,0,0,0), 0),   At("tb", 6, DV(0,0,1,0,0,0), 0),
  At("ma", 0, DV(1,0,0,0,0,0), 0),   At("mb", -5, DV(1,0,0,0,0,0), 0),
  At("na", 0, DV(0,0,0,0,0,0), 0),   At("nq", -2, DV(0,0,0,0,0,0), 0),
  At("fo", 3, DV(1,1,-2,0,0,0), 0),  At("en", 3, DV(1,2,-2,0,0,0), 0),
  At("ka", 0, DV(0,0,0,1,0,0), 0),   At("oc", 0, DV(0,0,0,1,0,0), -256), At("od", -1, DV(0,0,0,1,0,0), -32),
  At("ag", 0, DV(0,0,0,0,1,0), 0),   At("ao", -6, DV(0,0,0,0,1,0), 90),
  At("an", -6, DV(0,0,0,0,1,0), 90), At("np", 0, DV(0,0,0,0,0,1), 0),
  At("xb", 2, DV(0,1,0,0,0,0), 0) >>
NA == Len(MRAtoms)
ALG == [i \in 1..NA |-> MRAtoms[i].lg]
ADIM == [i \in 1..NA |-> MRAtoms[i].dim]
AIdx(n) == CHOOSE i \in 1..NA : MRAtoms[i].n = n
\* exponent vector from a set of <<atom, n, d>>
EV(S) == [i \in 1..NA |-> IF \E t \in S : t[1] = MRAtoms[i].n THEN (LET tt == CHOOSE t2 \in S : t2[1] = MRAtoms[i].n IN Norm(tt[2], tt[3])) ELSE RZero]
Lf(s, reg, S) == [s |-> s, reg |-> reg, ex |-> EV(S)]
Atom(n) == Lf(n, 1, {<<n, 1, 1>>})
MRLeaves == <<
  Atom("la"), Atom("lb"), Atom("lc"), Atom("ta"), Atom("tb"), Atom("ma"), Atom("mb"), Atom("na"), Atom("nq"),
  Atom("fo"), Atom("en"), Atom("ka"), Atom("oc"), Atom("od"), Atom("ag"), Atom("ao"), Atom("an"), Atom("np"),
  Lf("la/ta", 1, {<<"la", 1, 1>>, <<"ta", -1, 1>>}),
  Lf("fo*la", 1, {<<"fo", 1, 1>>, <<"la", 1, 1>>}),
  Lf("ma*la**2/ta**2", 1, {<<"ma", 1, 1>>, <<"la", 2, 1>>, <<"ta", -2, 1>>}),
  Lf("lb**2/lc", 1, {<<"lb", 2, 1>>, <<"lc", -1, 1>>}),
  Lf("nq*ma", 1, {<<"nq", 1, 1>>, <<"ma", 1, 1>>}),
  Lf("lb", 2, {<<"lb", 1, 1>>}),
  Lf("xb", 2, {<<"xb", 1, 1>>}),
  Lf("la", 3, {<<"la", 1, 1>>}),
  Lf("fo*la", 3, {<<"fo", 1, 1>>, <<"la", 1, 1>>}) >>
NMR == Len(MRLeaves)

Obsify(u) == IF IsUnit(u) THEN [k |-> "unit", ex |-> u.ex, clg |-> u.clg, c1 |-> u.c1, lg |-> u.lg, neg |-> u.neg, dim |-> u.dim,
                                  off |-> u.off, reg |-> u.reg, rs |-> RS(u.reg), alien |-> FALSE, syncerr |-> 0, lgok |-> TRUE]
             ELSE u
SingleAtom(ex) == Cardinality({i \in 1..NA : ~RIsZero(ex[i])}) = 1 /\ \E i \in 1..NA : ex[i] = ROne
LeafRec(l) ==
  LET off == IF SingleAtom(l.ex) THEN MRAtoms[CHOOSE i \in 1..NA : l.ex[i] = ROne].off ELSE RZero IN
  Obsify(MkUnit(l.ex, RZero, Dot(l.ex, ALG), SingleAtom(l.ex) /\ MRAtoms[CHOOSE i \in 1..NA : l.ex[i] = ROne].neg, DotV(l.ex, ADIM), off, l.reg, TRUE, TRUE))
OneRec(reg) == Obsify(MkUnit([i \in 1..NA |-> RZero], RZero, RZero, FALSE, VZero(ND), RZero, reg, TRUE, TRUE))

\* one step of the model run
ModelSimplify(u, alg, adim, ain) ==
  IF ~IsUnit(u) \/ SimplifyRaises(u, ain) \/ SimplifyMayRaise(u, adim) THEN Raise
  ELSE LET st == CHOOSE s \in SimplifySet(u, alg, adim) : TRUE IN
       [u EXCEPT !.ex = st.ex, !.clg = st.clg, !.c1 = RIsZero(st.clg)]
ModelCoeff(u) ==
  IF ~IsUnit(u) THEN Raise
  ELSE LET r == AsCoeffUnit(u) IN
       [k |-> "unit", ex |-> r.ex, clg |-> r.clg, c1 |-> r.c1, lg |-> r.lg, neg |-> r.neg, dim |-> r.dim, off |-> r.off,
        reg |-> r.reg, rs |-> RS(r.reg), alien |-> FALSE, syncerr |-> 0, lgok |-> TRUE, cf |-> r.cf]
ModelExec(ins, regs, alg, adim, ain) ==
  CASE ins.op = "mulrule" ->
         LET m1 == Obsify(UMul(regs[ins.a], regs[ins.b], TRUE))
             m == IF IsUnit(m1) /\ SimplifyRaises(m1, ain) THEN Obsify(UMul(regs[ins.b], regs[ins.a], TRUE)) ELSE m1 IN
         ModelCoeff(ModelSimplify(m, alg, adim, ain))
    [] ins.op = "divrule" -> ModelCoeff(ModelSimplify(Obsify(UDiv(regs[ins.a], regs[ins.b], TRUE)), alg, adim, ain))
    [] ins.op = "mul" -> Obsify(UMul(regs[ins.a], regs[ins.b], TRUE))
    [] ins.op = "div" -> Obsify(UDiv(regs[ins.a], regs[ins.b], TRUE))
    [] ins.op = "pow" -> Obsify(UPow(regs[ins.a], ins.e, TRUE))
    [] ins.op = "simplify" -> ModelSimplify(regs[ins.a], alg, adim, ain)
    [] ins.op = "coeff" -> ModelCoeff(regs[ins.a])
RECURSIVE RunFrom(_, _, _, _, _, _)
RunFrom(prog, regs, alg, adim, ain, k) ==
  IF k > Len(prog) THEN regs ELSE RunFrom(prog, Append(regs, ModelExec(prog[k], regs, alg, adim, ain)), alg, adim, ain, k + 1)
ModelPair(regs, pr) ==
  LET a == regs[pr.i] b == regs[pr.j] both == IsUnit(a) /\ IsUnit(b) IN
  [i |-> pr.i, j |-> pr.j, kind |-> pr.kind, eq |-> UEq(a, b), eqr |-> UEq(b, a),
   heq |-> both /\ UHashEq(a, b), same |-> both /\ SameExpr(a, b),
   serr |-> IF both /\ a.lg = b.lg /\ a.neg = b.neg THEN 0 ELSE FarTol]
\* the atom universe of a case = the atoms of its leaves (keeps the vectors short)
ModelRun(c) ==
  LET prog == Prog(c.law, c.p, c.q)
      lf == [r \in 1..3 |-> MRLeaves[c.lv[r]]]
      used == {a \in 1..NA : \E r \in 1..3 : ~RIsZero(lf[r].ex[a])}
      au == SelectSeq([a \in 1..NA |-> a], LAMBDA a : a \in used)
      cut(u) == [u EXCEPT !.ex = [x \in 1..Len(au) |-> u.ex[au[x]]]]
      alg == [x \in 1..Len(au) |-> ALG[au[x]]]
      adim == [x \in 1..Len(au) |-> ADIM[au[x]]]
      regs0 == <<cut(LeafRec(lf[1])), cut(LeafRec(lf[2])), cut(LeafRec(lf[3])), cut(OneRec(lf[1].reg))>>
      ain == [x \in 1..Len(au) |-> IF MRAtoms[au[x]].n = "xb" THEN <<2>> ELSE <<1, 2, 3>>]
      regs == RunFrom(prog, regs0, alg, adim, ain, 1)
      prs == Pairs(c.law) IN
  [law |-> c.law, exact |-> TRUE, alg |-> alg, adim |-> adim, regs |-> regs, prog |-> prog,
   pairs |-> [x \in DOMAIN prs |-> ModelPair(regs, prs[x])], herr |-> [x \in DOMAIN prog |-> 0], hcond |-> [x \in DOMAIN prog |-> 0], ain |-> ain]
ModelFails(c) == Fails(ModelRun(c))

(* ------------------------------ exponents -------------------------------- *)
PSeq == <<Ex(2, 1, "int"), Ex(3, 1, "int"), Ex(-1, 1, "int"), Ex(-2, 1, "int"), Ex(-3, 1, "int"),
          Ex(1, 2, "frac"), Ex(1, 3, "frac"), Ex(-1, 2, "frac"), Ex(3, 2, "sym"), Ex(-2, 3, "sym"),
          Ex(1, 2, "float"), Ex(1, 3, "float"), Ex(2, 3, "float"), Ex(1, 4, "float"), Ex(2, 1, "float"),
          Ex(1, 3, "dec2"), Ex(2, 3, "dec2"), Ex(0, 1, "int"), Ex(1, 1, "int"), Ex(1, 6, "float"), Ex(-1, 2, "float"), Ex(-3, 2, "dec2")>>
QSeq == <<Ex(2, 1, "int"), Ex(3, 1, "int"), Ex(-1, 1, "int"), Ex(1, 2, "frac"), Ex(1, 3, "float"), Ex(3, 2, "float"),
          Ex(-2, 3, "sym"), Ex(6, 1, "int")>>
SimpPSeq == <<Ex(1, 1, "int"), Ex(2, 1, "int"), Ex(-1, 1, "int"), Ex(1, 2, "frac"), Ex(3, 2, "float"), Ex(-2, 1, "int")>>

(* ------------------------------ the cases -------------------------------- *)
Tab == IF Mode = "TAB" THEN JsonDeserialize(IOEnv.TAB) ELSE <<>>
NLeaves == IF Mode = "TAB" THEN Len(Tab) ELSE NMR
Leaf == 1..NLeaves
\* seeded pseudo-random pick in 1..n for sample number t of first leaf i (all products stay below 2^31)
\* (the multiplier of t and a quadratic term depend on the salt, so the components of one sample are not correlated)
Sample(i, t, salt, n) == ((i * 7919 + t * (1009 + 37 * salt) + (t * t) * salt + salt * 611953 + (Seed % 1000) * 15485) % n) + 1
\* in TAB mode equality probes are interesting between rows of the same dimension class
SameClass(i, j) == IF Mode = "TAB" THEN Tab[i].dc = Tab[j].dc ELSE TRUE

VARIABLE c
Case(law, i, j, k, p, q) == [seed |-> FALSE, law |-> law, lv |-> <<i, j, k>>, p |-> p, q |-> q]
\* initial states are seeds (law, first leaf): TLC's workers expand different seeds in parallel
Init == c \in {[seed |-> TRUE, law |-> l, i |-> i] : l \in Laws, i \in Leaf}
Next ==
  /\ c.seed
  /\ LET i == c.i IN
     CASE c.law = "comm" ->
            IF PairN = 0 THEN \E j \in Leaf : c' = Case("comm", i, j, i, E1, E1)
            ELSE \E t \in 1..PairN : c' = Case("comm", i, Sample(i, t, 11, NLeaves), i, E1, E1)
       [] c.law = "ident" -> c' = Case("ident", i, i, i, E1, E1)
       [] c.law = "eqsem" -> \E j \in Leaf : SameClass(i, j) /\ c' = Case("eqsem", i, j, i, E1, E1)
       [] c.law = "rules" ->
            IF RuleN = 0 THEN \E j \in Leaf : c' = Case("rules", i, j, i, E1, E1)
            ELSE \E t \in 1..RuleN : c' = Case("rules", i, Sample(i, t, 81, NLeaves), i, E1, E1)
       [] c.law = "assoc" ->
            IF TripleN = 0 THEN \E j, k \in Leaf : c' = Case("assoc", i, j, k, E1, E1)
            ELSE \E t \in 1..TripleN : c' = Case("assoc", i, Sample(i, t, 31, NLeaves), Sample(i, t, 32, NLeaves), E1, E1)
       [] c.law \in {"powpow", "powadd"} ->
            \E x \in DOMAIN PSeq, y \in DOMAIN QSeq :
              /\ PowN = 0 \/ \E t \in 1..PowN : x = Sample(i, t, 41, Len(PSeq)) /\ y = Sample(i, t, 42, Len(QSeq))
              /\ PSeq[x].kind = "dec2" => QSeq[y].kind # "dec2"
              /\ c' = Case(c.law, i, i, i, PSeq[x], QSeq[y])
       [] c.law = "powmul" ->
            IF PowMulN = 0 THEN \E j \in Leaf, x \in DOMAIN PSeq : c' = Case("powmul", i, j, i, PSeq[x], E1)
            ELSE \E t \in 1..PowMulN : c' = Case("powmul", i, Sample(i, t, 61, NLeaves), i, PSeq[Sample(i, t, 62, Len(PSeq))], E1)
       [] c.law = "simp" ->
            IF SimpN = 0 THEN \E j, k \in Leaf, x \in DOMAIN SimpPSeq : c' = Case("simp", i, j, k, SimpPSeq[x], E1)
            ELSE \E t \in 1..SimpN : c' = Case("simp", i, Sample(i, t, 71, NLeaves), Sample(i, t, 72, NLeaves), SimpPSeq[Sample(i, t, 73, Len(SimpPSeq))], E1)

\* the effective exponent of every instruction travels with the case (the harness needs its value to measure deviations)
ExportProg(prog) == [x \in DOMAIN prog |-> [op |-> prog[x].op, a |-> prog[x].a, b |-> prog[x].b, e |-> prog[x].e, eff |-> Eff(prog[x].e)]]
\* the model registry itself is exported once: the harness builds the real registries from it
ASSUME Mode = "MR" => PrintT(ToJson([tag |-> "MR", atoms |-> MRAtoms, leaves |-> [x \in DOMAIN MRLeaves |-> [s |-> MRLeaves[x].s, reg |-> MRLeaves[x].reg]]]))
\* export (one line per case); in MR mode with the model-level verdict
Export ==
  ~c.seed =>
    PrintT(ToJson([tag |-> "CASE", law |-> c.law, lv |-> c.lv, p |-> c.p, q |-> c.q,
                   prog |-> ExportProg(Prog(c.law, c.p, c.q)), pairs |-> Pairs(c.law),
                   modelfails |-> IF Mode = "MR" THEN ModelFails(c) ELSE {}]))
\* model checking proper: the transcribed operators satisfy the C05 predicates on every case of the instance
ModelHolds == (Mode = "MR" /\ ~c.seed) => ModelFails(c) = {}
=============================================================================
