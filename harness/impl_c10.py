"""Replay of UnitSystem.tla cases / histories on real unyt (C10).

tables(_)      -> model data regenerated from the tree under test (atoms of the
                  lookup table with dimension vectors, prefixes, em_conversions,
                  built-in unit systems with base + declared units, defaults of
                  UnitSystem.__init__, the code-unit registry used by the cases)
observe(case)  -> observation of one single-step case  {sys|spec, x, var}
observe_hist(case) -> observation of one history on a user-defined system

Python only turns cases into calls and projects results: a unit expression
becomes a sorted list of [prefix index, atom index, 12*exponent]; float
comparisons (round trip, SI magnitude, second application) are reduced to
booleans under RTOL.  Every verdict is TLC's (spec/Trace_C10*.tla).

User-defined systems are created under process-unique names and removed from
unyt.unit_systems.unit_system_registry afterwards, so cases cannot leak into
each other (workers are reused for many cases)."""

import inspect
import os
from fractions import Fraction

RTOL = 1e-11
_U = {}
_A = {}  # tables
_N = [0]

CODE_ATOMS = [("code_length", 2.0, "length"), ("code_mass", 4.0, "mass"), ("code_time", 8.0, "time"), ("code_temperature", 16.0, "temperature")]
SLOTS = ["mass", "length", "time", "temperature", "angle", "current_mks", None, "luminous_intensity", "logarithmic"]
KW = {"mass": "mass_unit", "length": "length_unit", "time": "time_unit", "temperature": "temperature_unit", "angle": "angle_unit", "current_mks": "current_mks_unit", "luminous_intensity": "luminous_intensity_unit", "logarithmic": "logarithmic_unit"}


def _asc(s):
    return s.encode("ascii", "backslashreplace").decode("ascii")


def _dimvec(dim):
    import sympy

    base = _U["base"]
    vec = [0] * len(base)
    if dim == 1 or dim is sympy.S.One:
        return vec
    pd = sympy.sympify(dim).as_powers_dict()
    for b, e in pd.items():
        if getattr(b, "is_Number", False):
            continue
        hit = False
        for i, bd in enumerate(base):
            if b == bd:
                e12 = Fraction(str(sympy.Rational(e))) * 12
                if e12.denominator != 1:
                    return None
                vec[i] += int(e12)
                hit = True
        if not hit:
            return None
    return vec


def _dimobj(vec):
    import sympy

    out = sympy.S.One
    for i, e in enumerate(vec):
        if e:
            out = out * _U["base"][i] ** sympy.Rational(e, 12)
    return out


def _build_tables():
    U = _U
    lut = U["lut"]
    atoms = []
    idx = {}
    for sym, row in lut.items():
        idx[sym] = len(atoms) + 1
        atoms.append({"sym": _asc(sym), "dim": _dimvec(row[1]), "pfx": bool(row[4]), "off": bool(float(row[2]) != 0.0), "reg": 0})
    for sym, sc, dn in CODE_ATOMS:
        idx[sym] = len(atoms) + 1
        atoms.append({"sym": sym, "dim": _dimvec(getattr(U["dims"], dn)), "pfx": False, "off": False, "reg": 1})
    prefixes = list(U["prefixes"].keys())
    _A.update(idx=idx, atoms=atoms, prefixes=prefixes, pidx={p: i + 1 for i, p in enumerate(prefixes)})
    _A["names"] = {v: k for k, v in idx.items()}
    # spellings of the same prefix (u, micro sign, Greek mu): unyt rewrites them to one spelling when it parses a name;
    # every projection uses the index of that spelling
    canon = {}
    for p in prefixes:
        try:
            out = str(U["Unit"](p + "m").expr)
            q = out[: len(out) - 1]
            canon[_A["pidx"][p]] = _A["pidx"].get(q, _A["pidx"][p])
        except Exception:  # noqa: BLE001
            canon[_A["pidx"][p]] = _A["pidx"][p]
    _A["pcanon"] = canon


def setup(common=None):
    import numpy as np
    import unyt
    from unyt import dimensions
    from unyt._unit_lookup_table import default_unit_symbol_lut, unit_prefixes
    from unyt.unit_object import Unit, em_conversions
    from unyt.unit_registry import UnitRegistry
    from unyt.unit_systems import UnitSystem, unit_system_registry

    _U.update(np=np, unyt=unyt, dims=dimensions, lut=dict(default_unit_symbol_lut), prefixes=unit_prefixes, Unit=Unit, em=em_conversions,
              UnitRegistry=UnitRegistry, UnitSystem=UnitSystem, usr=unit_system_registry, uq=unyt.unyt_quantity, ua=unyt.unyt_array,
              base=list(dimensions.base_dimensions))
    _build_tables()
    _U["builtin"] = list(unit_system_registry.keys())
    _U["regs"] = {}
    _U["code"] = None
    _U["tab"] = common
    order = [k for k in inspect.signature(UnitSystem.__init__).parameters if k in KW.values()]
    _U["posorder"] = order
    from unyt._unit_lookup_table import default_unit_name_alternatives

    _A["alias"] = {}
    for sym, alts in default_unit_name_alternatives.items():
        if sym in _A["idx"] and alts:
            _A["alias"][_A["idx"][sym]] = alts[0]


# ------------------------------------------------------------------ projection


def _split(name):
    """symbol name -> (prefix index, atom index); (0, 0) when unknown."""
    idx = _A["idx"]
    if name in idx:
        return 0, idx[name]
    for p in sorted(_A["pidx"], key=len, reverse=True):
        if name.startswith(p) and name[len(p):] in idx and _A["atoms"][idx[name[len(p):]] - 1]["pfx"]:
            return _A["pcanon"][_A["pidx"][p]], idx[name[len(p):]]
    return 0, 0


def _xproj(expr):
    """sympy unit expression -> {"x": sorted [[p, a, e12]], "coef": bool, "unk": [names]}"""
    import sympy

    out, unk, coef = [], [], False
    coefv = 1.0
    pd = sympy.sympify(expr).as_powers_dict()
    for b, e in pd.items():
        if getattr(b, "is_Number", False):
            if b != 1:
                coef = True
                try:
                    coefv *= float(b) ** float(e)
                except Exception:  # noqa: BLE001
                    coefv = float("nan")
            continue
        e12 = Fraction(str(sympy.Rational(e))) * 12 if getattr(e, "is_Rational", False) or isinstance(e, int) else None
        p, a = _split(str(b))
        if a == 0 or e12 is None or e12.denominator != 1:
            unk.append(_asc(str(b) + "**" + str(e)))
            out.append([0, 0, 0])
            continue
        out.append([p, a, int(e12)])
    out.sort(key=lambda t: (t[1], t[0], t[2]))
    return {"x": out, "coef": coef, "unk": unk, "coefv": coefv}


def _cpow(x):
    """smallest power that makes the coefficient of a unit with these exponents rational (rule shared with UnitSystem.tla: CPow)"""
    if all(t[2] % 12 == 0 for t in x):
        return 1
    if all(t[2] % 6 == 0 for t in x):
        return 2
    return 12


def _coefr(pr):
    """numeric coefficient of a projected unit, raised to _cpow, snapped to the nearest small rational (rel 1e-9);
    [0, 1] when it is not one (TLC then compares it with the rational the base units imply)"""
    import math

    k = _cpow(pr["x"])
    try:
        v = float(pr["coefv"]) ** k
    except OverflowError:
        return [0, 1], k
    if not math.isfinite(v) or v <= 0:
        return [0, 1], k
    f = Fraction(v).limit_denominator(10**6)
    if f.numerator == 0 or f.numerator >= 2**31 or abs(float(f) - v) > 1e-9 * abs(v):
        return [0, 1], k
    return [f.numerator, f.denominator], k


def _ustr(x):
    """[[p, a, e12]] -> unit string understood by unyt"""
    parts = []
    for p, a, e in x:
        name = (_A["prefixes"][p - 1] if p else "") + _A["names"][a]
        fr = Fraction(e, 12)
        parts.append(name if fr == 1 else f"{name}**({fr.numerator}/{fr.denominator})" if fr.denominator != 1 else f"{name}**({fr.numerator})")
    return "*".join(parts) if parts else "dimensionless"


def _one(pa):
    return (_A["prefixes"][pa[0] - 1] if pa[0] else "") + _A["names"][pa[1]]


# ------------------------------------------------------------------ tables


def tables(case=None):
    U = _U
    import sympy

    em = []
    for (frm, fdim), (tdim, to, fac) in U["em"].items():
        em.append({"from": _A["idx"].get(frm, 0), "to": _A["idx"].get(to, 0), "fdim": _dimvec(fdim), "tdim": _dimvec(tdim)})
    systems = []
    for name in U["builtin"]:
        S = U["usr"][name]
        base = [[0, 0]] * 9
        coef = False
        okay = True
        for d, v in S.base_units.items():
            vec = _dimvec(d)
            pos = [i for i, e in enumerate(vec) if e][0]
            if v is None:
                continue
            pr = _xproj(v)
            coef = coef or pr["coef"]
            if len(pr["x"]) != 1 or pr["x"][0][2] != 12 or pr["unk"]:
                okay = False
                continue
            base[pos] = pr["x"][0][:2]
        decl = []
        for d, v in S.units_map.items():
            if d in S.base_units or v is None:
                continue
            pr = _xproj(v)
            vec = _dimvec(d)
            if vec is None or pr["unk"]:
                okay = False
                continue
            decl.append({"dim": vec, "x": pr["x"]})
        short = name if name in ("cgs", "mks") else ""
        systems.append({"name": name, "base": base, "bcoef": [[1, 1]] * 9, "decl": decl, "reg": 0, "coef": coef, "short": short, "ok": okay and not coef})
    # the code-unit system (created lazily in every worker under the registry's id)
    cb = [[0, 0]] * 9
    for sym, sc, dn in CODE_ATOMS:
        cb[SLOTS.index(dn)] = [0, _A["idx"][sym]]
    sig = inspect.signature(U["UnitSystem"].__init__).parameters
    defaults = [[0, 0]] * 9
    for i, s in enumerate(SLOTS):
        if s is None:
            continue
        dv = sig[KW[s]].default
        if isinstance(dv, str):
            p, a = _split(dv)
            defaults[i] = [p, a]
    for i in (4, 5, 7, 8):
        cb[i] = defaults[i]
    systems.append({"name": "code", "base": cb, "bcoef": [[1, 1]] * 9, "decl": [], "reg": 1, "coef": False, "short": "", "ok": True})
    return {
        "atoms": _A["atoms"],
        "nprefix": len(_A["prefixes"]),
        "prefixes": [_asc(p) for p in _A["prefixes"]],
        "pcanon": [_A["pcanon"][i + 1] for i in range(len(_A["prefixes"]))],
        "em": em,
        "systems": systems,
        "defaults": defaults,
    }


# ------------------------------------------------------------------ systems


def _code_registry():
    U = _U
    if U["code"] is None:
        reg = U["UnitRegistry"]()
        for sym, sc, dn in CODE_ATOMS:
            reg.add(sym, sc, getattr(U["dims"], dn))
        S = U["UnitSystem"](reg.unit_system_id, "code_length", "code_mass", "code_time", "code_temperature", registry=reg)
        U["code"] = (reg, S)
    return U["code"]


def _base_value(pa, coef, style, registry=None):
    """one base-unit argument of UnitSystem(...) in the requested value class"""
    U = _U
    if pa[1] == 0:
        return None
    name = _one(pa)
    c = Fraction(int(coef[0]), int(coef[1]))
    cf = float(c)
    if style == "alias" and pa[0] == 0 and c == 1:
        return _A["alias"].get(pa[1], name)
    if style == "quantity":
        return U["uq"](cf, name, registry=registry)
    if style == "unitobj":
        return U["Unit"](name if c == 1 else f"{cf!r}*{name}", registry=registry)
    return name if c == 1 else f"{cf!r}*{name}"


def _new_user_system(spec, registry=None):
    """create a UnitSystem from a generated spec {base, [bcoef], [style], [form], [reg]}; returns (name, system or None, outcome)"""
    U = _U
    _N[0] += 1
    name = f"c10u_{os.getpid()}_{_N[0]}"
    style = spec.get("style", "str")
    bcoef = spec.get("bcoef") or [[1, 1]] * 9
    if spec.get("reg", 0) == 1 and registry is None:
        registry = _code_registry()[0]
    kw = {}
    for i, s in enumerate(SLOTS):
        if s is None:
            continue
        kw[KW[s]] = _base_value(spec["base"][i], bcoef[i], style, registry)
    try:
        if spec.get("form") == "pos":
            S = U["UnitSystem"](name, *[kw[k] for k in _U["posorder"]], registry=registry)
        else:
            S = U["UnitSystem"](name, registry=registry, **kw)
    except Exception as ex:  # noqa: BLE001
        return name, None, {"k": "raise", "exc": type(ex).__name__, "registered": name in U["usr"]}
    return name, S, {"k": "ok", "exc": "", "registered": name in U["usr"]}


def _declare(S, d):
    try:
        key = _dimobj(d["dim"])
        S[key] = _ustr(d["x"])
        return {"k": "ok", "exc": ""}
    except Exception as ex:  # noqa: BLE001
        return {"k": "raise", "exc": type(ex).__name__}


def _drop(name):
    _U["usr"].pop(name, None)


# ------------------------------------------------------------------ single operation


def _res(r, is_unit):
    units = r if is_unit else r.units
    pr = _xproj(units.expr)
    cr, k = _coefr(pr)
    return {"k": "ok", "exc": "", "x": pr["x"], "coef": pr["coef"], "coefr": cr, "cpow": k, "unk": pr["unk"], "dim": _dimvec(units.dimensions) or [99] * 9}


def _ux(expr):
    """unit of a twin / second application: triples + coefficient"""
    pr = _xproj(expr)
    cr, k = _coefr(pr)
    return {"x": pr["x"], "coefr": cr}


def _raise(ex):
    return {"k": "raise", "exc": type(ex).__name__, "x": [], "coef": False, "coefr": [1, 1], "cpow": 1, "unk": [], "dim": [0] * 9}



# value classes of the data being converted (case field "vc"): dtype, the two numbers, tolerance of the float comparisons
VCS = {
    "f64": ("f8", [3.0, 0.25], RTOL),
    "f32": ("f4", [3.0, 0.25], 5e-6),
    "i64": ("i8", [3, 7], RTOL),
    "i32": ("i4", [3, 7], 5e-6),
    "c128": ("c16", [3.0 + 2.0j, 0.25 - 1.0j], RTOL),
    "c64": ("c8", [3.0 + 2.0j, 0.25 - 1.0j], 5e-6),
}
MOD_VARIANTS = {"in_base_mod": "in_base", "convert_mod": "convert_to_base", "gbe_mod": "gbe"}


def _mod_registry():
    """a registry of the caller's own in which every mass / length / time / temperature symbol without a zero point has
    been redefined (modify) by a power of two: the quantity being converted lives there, the unit system does not"""
    U = _U
    if U.get("modreg") is None:
        reg = U["UnitRegistry"]()
        base4 = [_dimvec(getattr(U["dims"], n)) for n in ("mass", "length", "time", "temperature")]
        for i, a in enumerate(_A["atoms"]):
            if a["reg"] == 0 and not a["off"] and a["dim"] in base4:
                sym = _A["names"][i + 1]
                reg.modify(sym, float(reg.lut[sym][0]) * 2.0 ** (1 + i % 3))
        U["modreg"] = reg
    return U["modreg"]


def _label(ru, registry, r, u0, orig, tol):
    """does the returned unit object mean what its spelling means in the registry of the quantity that was converted?
    scale = base_value / base_value of the freshly resolved spelling (snapped to a rational), off / dim = same zero point /
    dimensions, back = the returned numbers read under the freshly resolved spelling convert back to the original"""
    U = _U
    out = {"scale": [1, 1], "off": True, "dim": True, "back": True}
    try:
        fresh = U["Unit"](ru.expr, registry=registry if registry is not None else u0.registry)
    except Exception:  # noqa: BLE001 - the spelling does not resolve (reported through Known / unk)
        return out
    fb, rb = float(fresh.base_value), float(ru.base_value)
    ratio = rb / fb if fb else 0.0
    f = Fraction(ratio).limit_denominator(10**6)
    out["scale"] = [f.numerator, f.denominator] if f.numerator and abs(float(f) - ratio) <= 1e-9 * abs(ratio) and f.numerator < 2**31 else [0, 1]
    fo, ro = float(fresh.base_offset), float(ru.base_offset)
    out["off"] = bool(abs(fo - ro) <= 1e-9 * max(abs(fo), abs(ro)))
    out["dim"] = bool(fresh.dimensions == ru.dimensions)
    if r is not None and out["dim"]:
        try:
            back = type(r)(r.d, fresh).in_units(u0)
            out["back"] = _close(back.d, orig, _floor2(u0, fresh), tol)
        except Exception:  # noqa: BLE001
            out["back"] = False
    return out


def _apply(var, q, arr, sysarg, short):
    """run one entry point; returns (result object, is_unit)"""
    if var in ("in_base", "sysobj"):
        return q.in_base(sysarg), False
    if var == "in_base_arr":
        return arr.in_base(sysarg), False
    if var == "convert_to_base":
        a = arr.copy()
        a.convert_to_base(sysarg)
        return a, False
    if var == "gbe":
        return q.units.get_base_equivalent(sysarg), True
    if var == "to_gbe":
        return q.in_units(q.units.get_base_equivalent(sysarg)), False
    if var == "in_sys":
        return (q.in_cgs() if short == "cgs" else q.in_mks()), False
    if var == "convert_sys":
        a = arr.copy()
        (a.convert_to_cgs if short == "cgs" else a.convert_to_mks)()
        return a, False
    if var == "gbe_sys":
        return (q.units.get_cgs_equivalent() if short == "cgs" else q.units.get_mks_equivalent()), True
    if var == "default":
        return q.in_base(), False
    if var == "default_conv":
        a = arr.copy()
        a.convert_to_base()
        return a, False
    raise ValueError("unknown variant " + var)


def _close(a, b, floor=0.0, tol=RTOL):
    """number-vs-number agreement under a relative tolerance (complex numbers compared as such); `floor` = magnitude below
    which differences are rounding of an offset"""
    np = _U["np"]
    a = np.asarray(a, dtype=complex)
    b = np.asarray(b, dtype=complex)
    if a.shape != b.shape:
        return False
    return bool(np.all(np.abs(a - b) <= tol * np.maximum(np.maximum(np.abs(a), np.abs(b)), floor)))


def _floor(u):
    """absolute magnitude of the zero point of an offset unit, in that unit (rounding of x - offset is relative to it)"""
    off = abs(float(u.base_offset))
    if off == 0.0:
        return 0.0
    return max(off, off / float(u.base_value))


def _in_range(*units):
    import math

    for u in units:
        bv = float(u.base_value)
        if not math.isfinite(bv) or bv == 0.0:
            return False
    return True


NOLAB = {"scale": [1, 1], "off": True, "dim": True, "back": True}
NOINPUT = {"k": "noinput", "exc": "", "x": [], "coef": False, "coefr": [1, 1], "cpow": 1, "unk": [], "dim": [0] * 9, "back": True, "si": True,
           "uoff": False, "lab": dict(NOLAB),
           "gbe": {"k": "noinput", "x": [], "coefr": [1, 1]}, "twice": {"k": "noinput", "x": [], "coefr": [1, 1], "same": True}}


def _vals_in_range(d):
    """the numbers fit the data type with full precision (narrow floats: extreme unit scales end in sub-normals / inf)"""
    np = _U["np"]
    d = np.asarray(d)
    if d.dtype.kind not in "fc":
        return True
    m = np.abs(d)
    fi = np.finfo(d.dtype)
    return bool(np.all(np.isfinite(m)) and np.all((m == 0) | ((m >= float(fi.tiny) * 1e4) & (m <= float(fi.max) * 1e-4))))


def _fits(vals, u0, ru, tol):
    """narrow value classes: the converted numbers (computed in double precision from the two scales) stay far inside the
    range of a 32-bit float; otherwise the case is about the data type's range, not about C10"""
    if tol == RTOL:
        return True
    f = float(u0.base_value) / float(ru.base_value)
    return all(v == 0 or 1e-30 <= abs(v) * f <= 1e30 for v in vals) and 1e-30 <= f <= 1e30


def _floor2(u0, ru):
    """magnitude (in u0's unit) below which differences are rounding against the zero point of either unit"""
    z = abs(float(ru.base_offset)) * abs(float(ru.base_value)) / abs(float(u0.base_value))
    return max(_floor(u0), z)


def _operate(var, x, sysname, sysobj, short, registry, vc="f64"):
    """the observation of one conversion (+ round trip, Unit-level twin, second application)"""
    U = _U
    np = U["np"]
    ustr = _ustr(x)
    dt, vals, tol = VCS[vc]
    if var in MOD_VARIANTS:
        var = MOD_VARIANTS[var]
        registry = _mod_registry()
    try:
        if var in ("default", "default_conv"):
            if registry is None:
                if sysname not in U["regs"]:
                    U["regs"][sysname] = U["UnitRegistry"](unit_system=sysname)
                registry = U["regs"][sysname]
        data = np.array(vals, dtype=dt)
        q = U["uq"](data[0], ustr, registry=registry, dtype=dt)
        arr = U["ua"](data.copy(), ustr, registry=registry, dtype=dt)
        u0 = q.units
        if q.dtype != np.dtype(dt) or arr.dtype != np.dtype(dt):
            raise TypeError("value class not constructible")
    except Exception as ex:  # noqa: BLE001 - the unit cannot be built (e.g. product of offset units): no case
        o = dict(NOINPUT)
        o["exc"] = type(ex).__name__
        return o
    sysarg = sysobj if var == "sysobj" else sysname
    if registry is not None and var not in ("default", "default_conv") and sysname == "code":
        sysarg = "code"
    is_arr = var in ("in_base_arr", "convert_to_base", "convert_sys", "default_conv")
    orig = list(vals) if is_arr else vals[0]
    try:
        r, is_unit = _apply(var, q, arr, sysarg, short)
        o = _res(r, is_unit)
        if not _in_range(u0, r if is_unit else r.units) or (not is_unit and not (_vals_in_range(r.d) and _fits(vals, u0, r.units, tol))):
            # the scale of the unit over/underflows a double (e.g. dyn*W**2 in planck units): outside what C10 speaks about
            o = dict(NOINPUT)
            o["exc"] = "FloatRange"
            return o
    except Exception as ex:  # noqa: BLE001
        o = _raise(ex)
        r, is_unit = None, False
        if isinstance(ex, (ZeroDivisionError, OverflowError, FloatingPointError)):
            o = dict(NOINPUT)  # the scale under/overflowed inside the conversion factor
            o["exc"] = "FloatRange"
            return o
    o["back"] = True
    o["si"] = True
    o["uoff"] = False
    o["lab"] = dict(NOLAB)
    o["twice"] = {"k": "none", "x": [], "coefr": [1, 1], "same": True}
    # Unit-level twin (on a fresh Unit object so the value-level call cannot have changed it)
    try:
        g = U["Unit"](ustr, registry=registry).get_base_equivalent(None if var in ("default", "default_conv") else sysarg)
        o["gbe"] = dict(_ux(g.expr), k="ok")
    except Exception as ex:  # noqa: BLE001
        o["gbe"] = {"k": "raise", "x": [], "coefr": [1, 1], "exc": type(ex).__name__}
    if o["k"] != "ok":
        return o
    ru = r if is_unit else r.units
    o["uoff"] = bool(float(ru.base_offset) != 0.0)
    o["lab"] = _label(ru, registry, None if is_unit else r, u0, orig, tol)
    if not is_unit:
        try:
            back = r.in_units(u0)
            o["back"] = _close(back.d, orig, _floor2(u0, ru), tol)
        except Exception as ex:  # noqa: BLE001
            o["back"] = False
            o["backexc"] = type(ex).__name__
        if ru.dimensions == u0.dimensions and ru.base_offset == 0 and u0.base_offset == 0:
            o["si"] = _close(np.asarray(r.d) * float(ru.base_value), np.asarray(orig) * float(u0.base_value), 0.0, tol)
    # second application through the same entry point
    try:
        if is_unit:
            q2 = U["uq"](1.0, r)
            r2, _ = _apply(var, q2, None, sysarg, short)
            o["twice"] = dict(_ux(r2.expr), k="ok", same=True)
        else:
            q2 = r
            r2, _ = _apply(var, q2, q2, sysarg, short)
            o["twice"] = dict(_ux(r2.units.expr), k="ok", same=_close(r2.d, r.d, _floor(r.units), tol))
    except Exception as ex:  # noqa: BLE001
        o["twice"] = {"k": "raise", "x": [], "coefr": [1, 1], "same": False, "exc": type(ex).__name__}
    return o


def observe(case):
    """single-step case: {"sys": index of a table system (>=1) or 0, "spec": user spec, "x": [[p,a,e]], "var": variant}"""
    U = _U
    x = sorted(case["x"], key=lambda t: (t[1], t[0], t[2]))
    var = case["var"]
    vc = case.get("vc") or "f64"
    if case["sys"] >= 1:
        sd = _U["tab"]["systems"][case["sys"] - 1]
        if sd["reg"] == 1:
            reg, S = _code_registry()
            return _operate(var, x, "code" if var not in ("sysobj",) else reg.unit_system_id, S, "", reg, vc)
        return _operate(var, x, sd["name"], U["usr"][sd["name"]], sd["short"], None, vc)
    spec = case["spec"]
    name, S, made = _new_user_system(spec)
    try:
        if S is None:
            o = dict(NOINPUT)
            o.update(k="nosystem", exc=made["exc"], made=made)
            return o
        for d in spec["decl"]:
            _declare(S, d)
        o = _operate(var, x, name, S, "", _code_registry()[0] if spec.get("reg", 0) == 1 else None, vc)
        o["made"] = made
        return o
    finally:
        _drop(name)
        U["regs"].pop(name, None)


# ------------------------------------------------------------------ histories


def _memo(S, declared):
    out = []
    for k, v in S.units_map.items():
        if k in S.base_units or v is None:
            continue
        vec = _dimvec(k)
        if vec is None:
            vec = [99] * 9
        if vec in declared:
            continue
        out.append(vec)
    return sorted(out)


def _conv(op, x, name):
    U = _U
    ustr = _ustr(sorted(x, key=lambda t: (t[1], t[0], t[2])))
    try:
        if op == "in_base":
            r = U["uq"](3.0, ustr).in_base(name).units
        elif op == "convert_to_base":
            a = U["ua"]([3.0, 0.25], ustr)
            a.convert_to_base(name)
            r = a.units
        elif op == "twice":
            r = U["uq"](3.0, ustr).in_base(name).in_base(name).units
        else:
            r = U["Unit"](ustr).get_base_equivalent(name)
        pr = _xproj(r.expr)
        return {"k": "ok", "exc": "", "x": pr["x"], "dim": _dimvec(r.dimensions) or [99] * 9}
    except Exception as ex:  # noqa: BLE001
        return {"k": "raise", "exc": type(ex).__name__, "x": [], "dim": [0] * 9}


def _probe_all(name):
    out = []
    for x in _U["tab"]["hist"]["units"]:
        inb = _conv("in_base", x, name)
        gbe = _conv("gbe", x, name)
        tw = _conv("twice", x, name)
        out.append({"inb": {"k": inb["k"], "x": inb["x"]}, "gbe": {"k": gbe["k"], "x": gbe["x"]}, "twice": {"k": tw["k"], "x": tw["x"]}})
    return out


def observe_hist(case):
    """history on one user-defined system: {"h": [events]} -> {"ev": [...], "final": [...]}"""
    U = _U
    S = None
    name = None
    names = []
    base = None
    declared = []
    decl_events = []
    ev = []
    try:
        for e in case["h"]:
            out = dict(e)
            op = e["op"]
            if op == "new":
                name, S2, made = _new_user_system({"base": e["base"]})
                names.append(name)
                if S2 is not None:
                    S = S2
                    base = e["base"]
                out["obs"] = {"k": made["k"], "exc": made["exc"], "registered": made["registered"]}
            elif op == "declare":
                r = _declare(S, e)
                if r["k"] == "ok":
                    declared.append(list(e["dim"]))
                    decl_events.append(e)
                out["obs"] = r
            elif op == "get":
                try:
                    u = S[_dimobj(e["dim"])]
                    pr = _xproj(u.expr)
                    out["obs"] = {"k": "ok", "exc": "", "x": pr["x"], "dim": _dimvec(u.dimensions) or [99] * 9}
                except Exception as ex:  # noqa: BLE001
                    out["obs"] = {"k": "raise", "exc": type(ex).__name__, "x": [], "dim": [0] * 9}
            else:
                out["obs"] = _conv(op, e["x"], S.name)
            out["memo"] = _memo(S, declared) if S is not None else []
            ev.append(out)
        final = []
        if S is not None:
            laden = _probe_all(S.name)
            fname, F, made = _new_user_system({"base": base})
            names.append(fname)
            for d in decl_events:
                _declare(F, d)
            fresh = _probe_all(fname)
            final = [{"laden": a, "fresh": b} for a, b in zip(laden, fresh)]
        return {"ev": ev, "final": final}
    finally:
        for n in names:
            _drop(n)
