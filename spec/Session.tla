------------------------------ MODULE Session ------------------------------
(* Composition: one unit registry (Registry.tla: table, derived-row write-    *)
(* back, string memo) TOGETHER WITH the quantities that were labelled from it *)
(* and the calls that read or re-read unit strings while quantities are in    *)
(* use: unyt_quantity(v, str, registry=r), x.to(str), x.convert_to_units(str),*)
(* x + y, x * y, x == y, x < y, pickle / copy / deepcopy round trips and      *)
(* x.in_base("mks").  A Unit object holds the scale its string meant WHEN IT  *)
(* WAS BUILT (unit_object.py: base_value is computed once in Unit.__new__);   *)
(* a registry edit changes what strings mean afterwards and nothing else.     *)
(* Registry calls can go through either of two handles on the same table:     *)
(* the registry object itself (h = 0) or the shallow copy that Unit.copy()    *)
(* makes (copy.copy(registry): a second UnitRegistry object sharing `lut` and *)
(* the string memo; in_base / in_mks / in_cgs hand such copies out).          *)
(*                                                                            *)
(* Transitions (T) are transcribed from array.py (in_units, convert_to_units, *)
(* __array_ufunc__ add / multiply / equal / less, __reduce__/__setstate__),   *)
(* unit_object.py (Unit.__new__, copy, __deepcopy__) and unit_registry.py.    *)
(* The property side (Ref.. operators) is the mathematics on what each object denotes *)
(* (value x scale) and on the caller's view of the registry (`user`).         *)
EXTENDS Registry
VARIABLES objs,   \* the quantities alive: sequence of [v, s, d, ex, h, val]
          aux,    \* one record per entry of hist: which handle the call went through
          sres    \* result of the last call as the caller sees it
svars == <<vars, objs, aux, sres>>
CONSTANT MaxObj

Handles == {0, 1}
\* exponent of every table key in a probe string
ExpOf(p) == [k \in Keys |->
  CASE p = "foo**2" -> IF k = "foo" THEN 2 ELSE 0
    [] p = "foo*qux" -> IF k \in {"foo", "qux"} THEN 1 ELSE 0
    [] p = "kfoo/qux" -> IF k = "kfoo" THEN 1 ELSE IF k = "qux" THEN -1 ELSE 0
    [] OTHER -> IF k = p THEN 1 ELSE 0]
ExAdd(a, b) == [k \in Keys |-> a[k] + b[k]]
\* the number a new quantity is given: 3, 5, 7 (distinct, so that sums and comparisons tell operands apart)
NewVal == R(2 * Len(objs) + 3)

\* the caller's view of an object: numbers, scale of its unit, dimension
Proj(o) == [v |-> o.v, s |-> o.s, d |-> o.d]
ObjRes(o) == [k |-> "obj", o |-> Proj(o)]
SI(o) == RMul(o.v, o.s)

(* ---- what str(units) of an object resolves to in a table (pickle: __setstate__ rebuilds the registry from the  *)
(*      pickled table and re-reads the unit string in it) ----                                                    *)
RECURSIVE ResolveEx(_, _, _, _, _)
ResolveEx(l, ex, i, accS, accD) ==
  IF i > Len(KeySeq) THEN [ok |-> TRUE, s |-> accS, d |-> accD]
  ELSE LET k == KeySeq[i] IN
       IF ex[k] = 0 THEN ResolveEx(l, ex, i + 1, accS, accD)
       ELSE IF ~ImplAtomOk(l, k) THEN [ok |-> FALSE, s |-> accS, d |-> accD]
       ELSE LET row == ImplRow(l, k)
                dv == DimVec(row.dim) IN
            ResolveEx(l, ex, i + 1, RMul(accS, RPow(R(row.scale), ex[k])), <<accD[1] + ex[k] * dv[1], accD[2] + ex[k] * dv[2]>>)
\* the same on the caller's view (reference): what the spelling means NOW in a fresh registry with the current contents
RECURSIVE RefEx(_, _, _, _, _)
RefEx(t, ex, i, accS, accD) ==
  IF i > Len(KeySeq) THEN [ok |-> TRUE, s |-> accS, d |-> accD]
  ELSE LET k == KeySeq[i] IN
       IF ex[k] = 0 THEN RefEx(t, ex, i + 1, accS, accD)
       ELSE LET a == RefAtom(t, k) IN
            IF ~a.ok THEN [ok |-> FALSE, s |-> accS, d |-> accD]
            ELSE RefEx(t, ex, i + 1, RMul(accS, RPow(a.s, ex[k])), <<accD[1] + ex[k] * a.d[1], accD[2] + ex[k] * a.d[2]>>)
\* an object is STALE when its spelling no longer means what the object holds (it was labelled before an edit)
\* (a quantity written in a library unit the histories never edit - plain = FALSE - is never stale)
Stale(t, o) == o.plain /\ LET r == RefEx(t, o.ex, 1, ROne, <<0, 0>>) IN ~r.ok \/ r.s # o.s \/ r.d # o.d

SInit == /\ Init /\ objs = <<>> /\ aux = <<>> /\ sres = None

(* ---- registry calls through a handle: the two handles share table and memo, so the transition is Registry's ---- *)
RegCall(h, A) == /\ A /\ aux' = Append(aux, [h |-> h]) /\ sres' = last' /\ UNCHANGED objs

(* ---- unyt_quantity(v, str, registry=handle) ---- *)
Make(h, p) ==
  /\ Len(objs) < MaxObj
  /\ ConstructAs([op |-> "make", str |-> p], p)
  /\ aux' = Append(aux, [h |-> h])
  /\ IF last'.k = "unit"
     THEN LET o == [v |-> NewVal, s |-> last'.s, d |-> last'.d, ex |-> ExpOf(p), h |-> h, plain |-> TRUE] IN
          /\ objs' = Append(objs, o) /\ sres' = ObjRes(o)
     ELSE /\ UNCHANGED objs /\ sres' = Raise

(* ---- x.to(str) / x.in_units(str): the target string is read in x's own registry (handle) NOW; the factor is ---- *)
(* ---- taken from the two Unit objects' own scales (unit_object._get_conversion_factor)                       ---- *)
Converted(o, u, p) == [v |-> RDiv(SI(o), u.s), s |-> u.s, d |-> u.d, ex |-> ExpOf(p), h |-> o.h, plain |-> TRUE]
To(i, p) ==
  /\ i \in DOMAIN objs /\ Len(objs) < MaxObj
  /\ ConstructAs([op |-> "to", i |-> i, str |-> p], p)
  /\ aux' = Append(aux, [h |-> objs[i].h])
  /\ IF last'.k = "unit" /\ last'.d = objs[i].d
     THEN LET o == Converted(objs[i], last', p) IN /\ objs' = Append(objs, o) /\ sres' = ObjRes(o)
     ELSE /\ UNCHANGED objs /\ sres' = Raise
(* ---- x.convert_to_units(str): the same numbers, in place ---- *)
ConvIn(i, p) ==
  /\ i \in DOMAIN objs
  /\ ConstructAs([op |-> "convin", i |-> i, str |-> p], p)
  /\ aux' = Append(aux, [h |-> objs[i].h])
  /\ IF last'.k = "unit" /\ last'.d = objs[i].d
     THEN LET o == Converted(objs[i], last', p) IN /\ objs' = [objs EXCEPT ![i] = o] /\ sres' = ObjRes(o)
     ELSE /\ UNCHANGED objs /\ sres' = Raise

(* ---- calls that never read a string: the registry is not touched ---- *)
NoReg(e) == /\ Log(e) /\ aux' = Append(aux, [h |-> 0]) /\ UNCHANGED <<user, lut, ucache, edit, last>>
\* x + y : refused across dimensions; otherwise y is brought to x's unit with the two objects' own scales
Plus(i, j) ==
  /\ i \in DOMAIN objs /\ j \in DOMAIN objs /\ Len(objs) < MaxObj
  /\ NoReg([op |-> "plus", i |-> i, j |-> j])
  /\ IF objs[i].d = objs[j].d
     THEN LET o == [objs[i] EXCEPT !.v = RAdd(objs[i].v, RDiv(SI(objs[j]), objs[i].s))] IN
          /\ objs' = Append(objs, o) /\ sres' = ObjRes(o)
     ELSE /\ UNCHANGED objs /\ sres' = Raise
\* x * y : product of numbers, product of scales (array._multiply_units); the result is reported, not kept.
\* _multiply_units simplifies the product: Unit.simplify -> _cancel_mul looks every symbol of a product of two or more
\* factors up in the registry AS IT IS NOW (derived rows are written back; a symbol the table no longer resolves makes
\* the call refuse) - and memoises per pair of Unit objects process-wide, so a repeated call may skip the look-ups.  The
\* instance only makes this call where neither can matter: every symbol of the product is a row of the table.
AbsSum(ex) == LET a(k) == IF ex[k] < 0 THEN -ex[k] ELSE ex[k] IN a("foo") + a(Sym2) + a("kfoo") + a(K2)
TimesLooks(i, j) == LET ex == ExAdd(objs[i].ex, objs[j].ex) IN IF AbsSum(ex) >= 2 THEN {k \in Keys : ex[k] # 0} ELSE {}
TimesPlain(i, j) == \A k \in TimesLooks(i, j) : lut[k].scale # 0
\* How the product's number and unit are split is the simplifier's business (kqux * kfoo/qux comes back as 1000 kfoo):
\* the result is reported by what it denotes - number x scale, with scale 1 - and its dimension.
Small(o) == SI(o)[1] <= 40000 /\ SI(o)[1] >= -40000
Times(i, j) ==
  /\ i \in DOMAIN objs /\ j \in DOMAIN objs /\ TimesPlain(i, j) /\ Small(objs[i]) /\ Small(objs[j])
  /\ NoReg([op |-> "times", i |-> i, j |-> j])
  /\ UNCHANGED objs
  /\ sres' = [k |-> "obj", o |-> [v |-> RMul(SI(objs[i]), SI(objs[j])), s |-> ROne, d |-> DAdd(objs[i].d, objs[j].d)]]
\* x / y : the same machinery (array._divide_units); reported by what it denotes
ExNeg(a) == [k \in Keys |-> -a[k]]
OverLooks(i, j) == LET ex == ExAdd(objs[i].ex, ExNeg(objs[j].ex)) IN IF AbsSum(ex) >= 2 THEN {k \in Keys : ex[k] # 0} ELSE {}
OverPlain(i, j) == \A k \in OverLooks(i, j) : lut[k].scale # 0
Over(i, j) ==
  /\ i \in DOMAIN objs /\ j \in DOMAIN objs /\ OverPlain(i, j) /\ Small(objs[i]) /\ Small(objs[j])
  /\ NoReg([op |-> "over", i |-> i, j |-> j])
  /\ UNCHANGED objs
  /\ sres' = [k |-> "obj", o |-> [v |-> RDiv(SI(objs[i]), SI(objs[j])), s |-> ROne, d |-> DSub(objs[i].d, objs[j].d)]]
\* x.to(y.units) / x.convert_to_units(y.units): the target is a Unit OBJECT (another quantity's label, whatever its
\* spelling means now); no string is read, the factor is taken from the two objects' own scales
ConvertedU(o, t) == [v |-> RDiv(SI(o), t.s), s |-> t.s, d |-> t.d, ex |-> t.ex, h |-> o.h, plain |-> t.plain]
ToU(i, j) ==
  /\ i \in DOMAIN objs /\ j \in DOMAIN objs /\ Len(objs) < MaxObj
  /\ NoReg([op |-> "tou", i |-> i, j |-> j])
  /\ IF objs[i].d = objs[j].d
     THEN LET o == ConvertedU(objs[i], objs[j]) IN /\ objs' = Append(objs, o) /\ sres' = ObjRes(o)
     ELSE /\ UNCHANGED objs /\ sres' = Raise
ConvInU(i, j) ==
  /\ i \in DOMAIN objs /\ j \in DOMAIN objs
  /\ NoReg([op |-> "convinu", i |-> i, j |-> j])
  /\ IF objs[i].d = objs[j].d
     THEN LET o == ConvertedU(objs[i], objs[j]) IN /\ objs' = [objs EXCEPT ![i] = o] /\ sres' = ObjRes(o)
     ELSE /\ UNCHANGED objs /\ sres' = Raise
\* x == y (False across dimensions) and x < y (refused across dimensions)
Cmp(c, i, j) ==
  /\ i \in DOMAIN objs /\ j \in DOMAIN objs
  /\ NoReg([op |-> c, i |-> i, j |-> j])
  /\ UNCHANGED objs
  /\ sres' = IF objs[i].d # objs[j].d THEN (IF c = "eq" THEN [k |-> "bool", b |-> FALSE] ELSE Raise)
             ELSE [k |-> "bool", b |-> IF c = "eq" THEN SI(objs[i]) = SI(objs[j]) ELSE RLt(SI(objs[i]), SI(objs[j]))]
\* copy.copy(x) / x.copy() and copy.deepcopy(x): the Unit object is copied with its scale
Dup(c, i) ==
  /\ i \in DOMAIN objs
  /\ NoReg([op |-> c, i |-> i])
  /\ UNCHANGED objs
  /\ sres' = ObjRes(objs[i])
\* pickle.loads(pickle.dumps(x)): __reduce__ stores str(units) and the table; __setstate__ builds a NEW registry from
\* the table and reads the string in it - the result carries what the spelling means in the table NOW
Pickle(i) ==
  /\ i \in DOMAIN objs
  /\ NoReg([op |-> "pickle", i |-> i])
  /\ UNCHANGED objs
  /\ LET r == ResolveEx(lut, objs[i].ex, 1, ROne, <<0, 0>>) IN
     sres' = IF ~objs[i].plain THEN ObjRes(objs[i])   \* written in a library unit the histories never edit
             ELSE IF r.ok THEN [k |-> "obj", o |-> [v |-> objs[i].v, s |-> r.s, d |-> r.d]] ELSE Raise
\* x.in_base("mks"): metres and seconds (not in the edited alphabet)
InBase(i) ==
  /\ i \in DOMAIN objs
  /\ NoReg([op |-> "inbase", i |-> i])
  /\ UNCHANGED objs
  /\ sres' = [k |-> "obj", o |-> [v |-> SI(objs[i]), s |-> ROne, d |-> objs[i].d]]


(* ---- a unit system of the registry's own symbols: UnitSystem(name, "foo", "kg", "qux", registry=r) ---- *)
\* creating it reads the three rows (UnitSystem.__init__: registry[str(unit)]), nothing is written or memoised
NewSys == /\ Log([op |-> "newsys"]) /\ aux' = Append(aux, [h |-> 0]) /\ UNCHANGED <<user, lut, ucache, edit, last, objs>> /\ sres' = Ok
\* unyt_quantity(v, "m", registry=handle): written in a library unit that the histories never edit
ZeroEx == [k \in Keys |-> 0]
MakeM(h) ==
  /\ Len(objs) < MaxObj
  /\ Log([op |-> "makem"]) /\ aux' = Append(aux, [h |-> h]) /\ UNCHANGED <<user, lut, ucache, edit, last>>
  /\ LET o == [v |-> NewVal, s |-> ROne, d |-> <<1, 0>>, ex |-> ZeroEx, h |-> h, plain |-> FALSE] IN
     objs' = Append(objs, o) /\ sres' = ObjRes(o)
\* x.in_base(name) / x.convert_to_base(name): Unit.get_base_equivalent builds the system's unit for x's dimension from the
\* system's expressions (foo**a * qux**b) and reads it in the registry AS IT IS NOW (Unit(new_units, registry=...)); the
\* factor comes from x's own scale.  (When x already is written that way the same object-level copy comes back; for a
\* quantity whose spelling still means what it holds - the only ones the instance reduces - that is the same answer.)
SysOk(t) == t["foo"].scale # 0 /\ t["foo"].dim = "L" /\ t[Sym2].scale # 0 /\ t[Sym2].dim = "T"
SysScale(t, d) == RMul(RPow(R(t["foo"].scale), d[1]), RPow(R(t[Sym2].scale), d[2]))
SysEx(d) == [k \in Keys |-> IF k = "foo" THEN d[1] ELSE IF k = Sym2 THEN d[2] ELSE 0]
Reduced(t, o) == [v |-> RDiv(SI(o), SysScale(t, o.d)), s |-> SysScale(t, o.d), d |-> o.d, ex |-> SysEx(o.d), h |-> o.h, plain |-> TRUE]
InSys(i) ==
  /\ i \in DOMAIN objs /\ SysOk(user) /\ ~Stale(user, objs[i])
  /\ NoReg([op |-> "insys", i |-> i])
  /\ UNCHANGED objs
  /\ sres' = ObjRes(Reduced(lut, objs[i]))
ConvInSys(i) ==
  /\ i \in DOMAIN objs /\ SysOk(user) /\ ~Stale(user, objs[i])
  /\ NoReg([op |-> "convinsys", i |-> i])
  /\ objs' = [objs EXCEPT ![i] = Reduced(lut, objs[i])]
  /\ sres' = ObjRes(Reduced(lut, objs[i]))

(* ==== property side (C12) on the abstract state ==== *)
\* C12_Keep: registry calls and constructions leave every existing object as it was (frame), and a call on objects
\* computes with what the objects hold.  Reference outcomes, from the operands' own (v, s, d) and the caller's view:
RefConv(t, o, p) == LET w == RefResolve(t, p) IN
                    IF w.k = "unit" /\ w.d = o.d THEN [k |-> "obj", o |-> [v |-> RDiv(RMul(o.v, o.s), w.s), s |-> w.s, d |-> w.d]] ELSE Raise
RefPlus(a, b) == IF a.d = b.d THEN [k |-> "obj", o |-> [v |-> RAdd(a.v, RDiv(RMul(b.v, b.s), a.s)), s |-> a.s, d |-> a.d]] ELSE Raise
RefTimes(a, b) == [k |-> "obj", o |-> [v |-> RMul(RMul(a.v, a.s), RMul(b.v, b.s)), s |-> ROne, d |-> DAdd(a.d, b.d)]]
RefOver(a, b) == [k |-> "obj", o |-> [v |-> RDiv(RMul(a.v, a.s), RMul(b.v, b.s)), s |-> ROne, d |-> DSub(a.d, b.d)]]
RefConvU(a, b) == IF a.d = b.d THEN [k |-> "obj", o |-> [v |-> RDiv(RMul(a.v, a.s), b.s), s |-> b.s, d |-> b.d]] ELSE Raise
RefCmp(c, a, b) == IF a.d # b.d THEN (IF c = "eq" THEN [k |-> "bool", b |-> FALSE] ELSE Raise)
                   ELSE [k |-> "bool", b |-> IF c = "eq" THEN RMul(a.v, a.s) = RMul(b.v, b.s) ELSE RLt(RMul(a.v, a.s), RMul(b.v, b.s))]
RefSame(a) == [k |-> "obj", o |-> a]
RefSys(t, a) == [k |-> "obj", o |-> [v |-> RDiv(RMul(a.v, a.s), SysScale(t, a.d)), s |-> SysScale(t, a.d), d |-> a.d]]
RefBase(a) == [k |-> "obj", o |-> [v |-> RMul(a.v, a.s), s |-> ROne, d |-> a.d]]
\* model-level verdict: pickling is the one transition of the transcription that does not keep what the object denotes
PickleKeeps(i) == ~objs[i].plain \/ LET r == ResolveEx(lut, objs[i].ex, 1, ROne, <<0, 0>>) IN r.ok /\ r.s = objs[i].s /\ r.d = objs[i].d
=============================================================================
