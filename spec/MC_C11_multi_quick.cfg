CONSTANTS
  MaxSteps = 3
  Pairs <- QuickPairs
  ClsSet <- ArrayUnit
  HowSet <- QuickHow
INIT MInit
NEXT MNext
INVARIANT ExportM
CHECK_DEADLOCK FALSE
