"""Replay of Session.tla histories (registry + the quantities labelled from it) on real unyt objects (C12).

observe(case) -> trace record for Trace_C12_session.tla:
  ev[n] = the call (op, args, handle) + res (what the caller got) + obs (what the registry call returned, Registry.tla's
          `last`) + rows / cache (observed table rows and memo keys, as in impl_c12) + objs (numbers, unit scale and
          dimension of EVERY quantity alive after the call, so that the frame clause can be judged on observations)

Floats are encoded as exact rationals (see _enc).

Handle 1 is the registry object that unyt itself hands out: x.in_base('mks') of a quantity already in base units
goes through Unit.copy() -> copy.copy(registry), a second UnitRegistry sharing the table and the string memo."""

import copy as _copy
import pickle as _pickle
from fractions import Fraction

import impl_c12 as base

_U = base._U
KEYS = ["foo", "qux", "kfoo", "kqux"]
PROBES = ["foo", "qux", "kfoo", "kqux", "foo**2", "foo*qux", "kfoo/qux"]


_LRUS = []


def setup(common=None):
    base.setup(common)
    base._set_alphabet(False)
    import unyt.array as ua
    import unyt.unit_object as uo
    import unyt.unit_registry as ur
    import unyt.unit_systems as us

    for mod in (ua, uo, ur, us):
        for v in vars(mod).values():
            if hasattr(v, "cache_clear") and v not in _LRUS and getattr(v, "__name__", "") != "cached_sympify":
                _LRUS.append(v)


def _exs(q):
    """exponent of each table key in the spelling of the object's unit (KEYS order)"""
    out = [0, 0, 0, 0, 0]  # the fifth entry: 1 when the unit is written with any symbol outside the edited alphabet
    try:
        for b, e in q.units.expr.as_powers_dict().items():
            if str(b) in KEYS:
                out[KEYS.index(str(b))] = int(e)
            elif not getattr(b, "is_Number", False):
                out[4] = 1
    except Exception:  # noqa: BLE001
        pass
    return out


def _enc(x):
    """float -> [n, d].  Exact when the float is a 32-bit safe rational; a float within 1e-12 (relative) of a rational
    with denominator <= 10**6 is that rational (the alphabet's kilo prefix is not a power of two: every number the
    specification can expect here is such a rational); anything else is a sentinel that equals nothing."""
    x = float(x)
    if x != x or x in (float("inf"), float("-inf")):
        return [-999999, 7]
    f = Fraction(x)
    if abs(f.numerator) < 2**31 and f.denominator < 2**31:
        return [f.numerator, f.denominator]
    g = f.limit_denominator(10**6)
    if abs(g.numerator) < 2**31 and abs(f - g) <= Fraction(1, 10**12) * abs(g):
        return [g.numerator, g.denominator]
    return [-999998, 7]


def _proj(q):
    return {"v": _enc(q.d), "s": _enc(q.units.base_value), "d": base._dimvec(q.units.dimensions)}


def _handle(state, h):
    reg = state["reg"]
    if h == 0:
        return reg
    if state.get("h1") is None:
        # the route by which unyt hands out a second handle: Unit.copy() of a unit whose string is not memoised
        b = state["q0"].in_base("mks")
        h1 = b.units.registry
        if h1 is reg or h1.lut is not reg.lut:
            h1 = _copy.copy(reg)
            state["h1_route"] = "copy.copy(registry)"
        else:
            state["h1_route"] = "in_base -> Unit.copy()"
        state["h1"] = h1
    return state["h1"]


def _step(state, e, h):
    U = _U
    reg = state["reg"]
    objs = state["objs"]
    op = e["op"]
    out = {"op": op, "h": h}
    for k in ("sym", "scale", "pfx", "dim", "str", "i", "j"):
        if k in e:
            out[k] = e[k]
    res = {"k": "raise"}
    obs = {"k": "none"}
    exc = ""
    try:
        if op in ("add", "modify", "remove", "contains", "unit"):
            r = _handle(state, h)
            dim = {"L": U["dims"].length, "T": U["dims"].time}
            if op == "add":
                r.add(e["sym"], float(e["scale"]), dim[e["dim"]], prefixable=bool(e["pfx"]))
                obs = {"k": "ok"}
            elif op == "modify":
                r.modify(e["sym"], float(e["scale"]))
                obs = {"k": "ok"}
            elif op == "remove":
                r.remove(e["sym"])
                obs = {"k": "ok"}
            elif op == "contains":
                obs = {"k": "bool", "b": bool(e["sym"] in r)}
            else:
                u = U["Unit"](e["str"], registry=r)
                obs = {"k": "unit", "s": _enc(u.base_value), "d": base._dimvec(u.dimensions)}
            res = obs
        elif op == "newsys":
            U["unyt"].UnitSystem("c12sess", "foo", "kg", "qux", registry=reg)
            res = {"k": "ok"}
        elif op == "makem":
            r = _handle(state, h)
            q = U["uq"](float(2 * len(objs) + 3), "m", registry=r)
            objs.append(q)
            state["hs"].append(h)
            res = {"k": "obj", "o": _proj(q)}
        elif op == "insys":
            q = objs[e["i"] - 1].in_base("c12sess")
            res = {"k": "obj", "o": _proj(q)}
        elif op == "convinsys":
            q = objs[e["i"] - 1]
            q.convert_to_base("c12sess")
            res = {"k": "obj", "o": _proj(q)}
        elif op == "make":
            r = _handle(state, h)
            q = U["uq"](float(2 * len(objs) + 3), e["str"], registry=r)
            objs.append(q)
            state["hs"].append(h)
            res = {"k": "obj", "o": _proj(q)}
        elif op == "to":
            q = objs[e["i"] - 1].to(e["str"])
            objs.append(q)
            state["hs"].append(state["hs"][e["i"] - 1])
            res = {"k": "obj", "o": _proj(q)}
        elif op == "convin":
            q = objs[e["i"] - 1]
            q.convert_to_units(e["str"])
            res = {"k": "obj", "o": _proj(q)}
        elif op == "plus":
            q = objs[e["i"] - 1] + objs[e["j"] - 1]
            objs.append(q)
            state["hs"].append(state["hs"][e["i"] - 1])
            res = {"k": "obj", "o": _proj(q)}
        elif op == "times":
            q = objs[e["i"] - 1] * objs[e["j"] - 1]
            # how number and unit of a product are split is the simplifier's business: report what it denotes
            res = {"k": "obj", "o": {"v": _enc(float(q.d) * float(q.units.base_value)), "s": [1, 1], "d": base._dimvec(q.units.dimensions)}}
        elif op == "over":
            a, b = objs[e["i"] - 1], objs[e["j"] - 1]
            if float(b.d) == 0.0:
                raise ZeroDivisionError
            q = a / b
            res = {"k": "obj", "o": {"v": _enc(float(q.d) * float(q.units.base_value)), "s": [1, 1], "d": base._dimvec(q.units.dimensions)}}
        elif op == "tou":
            q = objs[e["i"] - 1].to(objs[e["j"] - 1].units)
            objs.append(q)
            state["hs"].append(state["hs"][e["i"] - 1])
            res = {"k": "obj", "o": _proj(q)}
        elif op == "convinu":
            q = objs[e["i"] - 1]
            q.convert_to_units(objs[e["j"] - 1].units)
            res = {"k": "obj", "o": _proj(q)}
        elif op in ("eq", "lt"):
            a, b = objs[e["i"] - 1], objs[e["j"] - 1]
            r = (a == b) if op == "eq" else (a < b)
            res = {"k": "bool", "b": bool(r)}
        elif op == "copy":
            q = _copy.copy(objs[e["i"] - 1])
            q2 = objs[e["i"] - 1].copy()
            res = {"k": "obj", "o": _proj(q)}
            if _proj(q2) != res["o"]:
                res = {"k": "obj", "o": _proj(q2)}
        elif op == "deepcopy":
            q = _copy.deepcopy(objs[e["i"] - 1])
            res = {"k": "obj", "o": _proj(q)}
        elif op == "pickle":
            q = _pickle.loads(_pickle.dumps(objs[e["i"] - 1]))
            res = {"k": "obj", "o": _proj(q)}
        elif op == "inbase":
            q = objs[e["i"] - 1].in_base("mks")
            res = {"k": "obj", "o": _proj(q)}
        else:
            raise ValueError("unknown op " + op)
    except Exception as ex:  # noqa: BLE001
        res = {"k": "raise"}
        if op in ("add", "modify", "remove", "contains", "unit"):
            obs = {"k": "raise"}
        exc = type(ex).__name__
    if op in ("make", "to", "convin"):
        # what the registry-level resolution of the string returned is not visible to the caller of these calls
        obs = {"k": "hidden"}
    out["res"] = res
    out["obs"] = obs
    out["exc"] = exc
    out["rows"] = base._rows(reg)
    out["cache"] = base._cache(reg)
    out["objs"] = [_proj(q) for q in objs]
    out["exs"] = [_exs(q) for q in objs]
    return out


def observe(case):
    base._set_alphabet(False)
    # the process-wide memos of array.py are keyed by unit hash/equality, not registry identity (recorded under C13): a
    # case must not see the registries of the cases replayed before it in this worker process
    for f in _LRUS:
        f.cache_clear()
    reg = _U["UnitRegistry"]()
    state = {"reg": reg, "objs": [], "hs": [], "h1": None}
    # a quantity in base units, made before anything else: the source of handle 1 (see _handle)
    state["q0"] = _U["uq"](1.0, "m", registry=reg)
    ev = [_step(state, item["e"], item["h"]) for item in case["ev"]]
    return {"ev": ev, "h1_route": state.get("h1_route", "")}
