#!/usr/bin/env python3
"""Regenerate /verif/MANIFEST.json from the table below (keeps it schema-valid)."""
import json
import os

HERE = os.path.dirname(os.path.dirname(os.path.abspath(__file__)))

CHECKS = {
    # id: (category, text, level_note, technique, design_ref)
    "C12": (
        "model_checking",
        "Registry.tla transcribes add/modify/remove/__contains__/define_unit/Unit(str) with the table, the derived-row write-back and the per-registry string memo. TLC enumerates the bounded state space exhaustively (VIEW hides history), exports a witness history per state (quick) or per transition (thorough); each is replayed on a real UnitRegistry and the recorded trace is validated by TLC against the actions (T) and the C12 predicates (fresh-registry resolution of 7 probe strings directly, via conversion and via arithmetic; earlier Unit objects keep their value). Simulation extends beyond the bound.",
        "Small alphabet (2 symbols, kilo prefix, 2 scales, 2 dimensions, 7 probe strings), histories <= 4 exhaustively and <= 14 by simulation; the reference view is driven by observed call outcomes; known findings matched on the memo layer that explains the stale answer.",
        "TLA+ state machine of the registry memo layers; TLC state/transition cover replayed into the library; TLC trace validation of the recorded executions",
        "7 (C12), Appendix D",
    ),
}

PENDING = {
}

ALL = [f"C{i:02d}" for i in range(1, 21)]


def main():
    import glob

    import subprocess

    tracked = set(subprocess.run(["git", "-C", HERE, "ls-files", "harness"], capture_output=True, text=True).stdout.split())
    for f in sorted(glob.glob(os.path.join(HERE, "manifest_parts", "C*.json"))):
        pid = os.path.basename(f)[:-5]
        if f"harness/{pid.lower()}.py" not in tracked:
            continue  # a builder's work in progress: not integrated (committed) yet
        d = json.load(open(f))
        CHECKS[pid] = (d["category"], d["text"], d["level_note"], d["technique"], d.get("design_ref", "7 (%s)" % pid))
    checks = []
    for pid in ALL:
        if pid not in CHECKS:
            continue
        cat, text, note, tech, ref = CHECKS[pid]
        checks.append(
            {
                "property_id": pid,
                "quick_cmd": f"./check {pid} --tier quick",
                "thorough_cmd": f"./check {pid} --tier thorough",
                "evidence_file": f"evidence/{pid}.json",
                "replay_cmd_template": f"./check {pid} --replay {{path}}",
                "engine": "tlc-conformance",
                "level_claimed": {"category": cat, "text": text, "design_ref": "DESIGN.md section " + ref},
                "level_note": note,
                "technique": tech,
            }
        )
    na = []
    for pid in ALL:
        if pid not in CHECKS:
            na.append({"property_id": pid, "reason": PENDING.get(pid, "check not built yet in this round; the design (DESIGN.md section 7) applies the same TLA+ pipeline to it")})
    m = {
        "version": 1,
        "setup_cmd": "./check --setup",
        "hooks": {
            "guard": "UNYT_VERIF_TRACE",
            "enable": "no source hooks: the library is pure Python and is imported from /repo's working tree (PYTHONPATH=/repo, or UNYT_VERIF_REPO=<dir> for scratch copies); abstract state is observed through public attributes",
            "baseline_off_cmd": "cd /repo && /venv/bin/python -m pytest -ra -q -p no:cacheprovider --timeout=900 --continue-on-collection-errors",
            "source_commits": [],
            "add_only": True,
        },
        "engines": [
            {
                "name": "tlc-conformance",
                "path": "check",
                "serves_properties": [c["property_id"] for c in checks],
                "kind_free_text": "TLA+ specification (spec/*.tla) model-checked with TLC; TLC-generated behaviours replayed into unyt (harness/impl_*.py) and recorded executions validated by TLC against the specification (spec/Trace_*.tla)",
            }
        ],
        "checks": checks,
        "not_applicable": na,
        "notes": "Exit codes: 0 held (KNOWN-FINDING / DRIFT lines are informational), 1 violation (VIOLATION property=<id> replay=<path>), 2 machinery failure. Known findings: known_findings.jsonl. UNYT_VERIF_REPO=<dir> points the checks at a scratch copy of the repository (used by the seeded-change experiments).",
    }
    with open(os.path.join(HERE, "MANIFEST.json"), "w") as f:
        json.dump(m, f, indent=1)
    print("MANIFEST.json:", len(checks), "checks,", len(na), "not_applicable")


if __name__ == "__main__":
    main()
