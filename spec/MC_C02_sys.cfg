CONSTANTS
  Mod = 1
  Sel = 0
INIT Init
NEXT Next
INVARIANT WellFormed
INVARIANT Export
CHECK_DEADLOCK FALSE
