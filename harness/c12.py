"""C12 - registry edits take effect everywhere, immediately, regardless of history.

Spec: spec/Registry.tla (+ MC_C12, Trace_C12).
  1. TLC explores the bounded registry state space exhaustively (history hidden
     by VIEW) and exports one witness history per explored transition, plus the
     model-level staleness classes (the transcription reproduces today's memo
     layers, so the model itself says which classes of histories break C12).
  2. every witness history is replayed on a real UnitRegistry; each step's
     result, table rows and memo keys are recorded, and at the end every probe
     string is resolved (directly, via conversion, via arithmetic).
  3. TLC validates the recorded traces against the Registry actions (T) and
     evaluates the C12 predicates on the observations (P).
  4. beyond the bound: TLC -simulate histories, same replay + validation.
"""

import random

_ALIASES = {"second": "s", "kilosecond": "ks"}


def _mentions(e):
    """base symbols a resolving call (unit / contains) mentions"""
    import re

    txt = e.get("str") or e.get("sym") or ""
    out = set()
    for tok in re.findall(r"[A-Za-z]+", txt):
        tok = _ALIASES.get(tok, tok)
        out.add(tok[1:] if tok in ("kfoo", "kqux", "ks") else tok)
    return out


def _is_nontrivial(h):
    """an edit of a symbol after some string mentioning it was resolved"""
    seen = set()
    for e in h:
        if e["op"] in ("unit", "contains"):
            seen |= _mentions(e)
        elif e["op"] in ("add", "modify", "modifyq", "remove", "define"):
            sym = e["sym"]
            base = sym[1:] if sym in ("kfoo", "kqux", "ks") else sym
            if base in seen:
                return True
    return False

from common import MachineryFailure


def _validate_collect(ck, traces, label, alias=False):
    """Run TLC trace validation; return the verdict records (thread-safe: no shared state is touched besides ck.tlc)."""
    out = []
    if not traces:
        return out
    tcfg = "Trace_C12_alias" if alias else "Trace_C12"
    if alias:
        open(ck.spec + "/Trace_C12_alias.cfg", "w").write(open(ck.spec + "/Trace_C12.cfg").read().replace("Alias = FALSE", "Alias = TRUE"))
    # TLC reads the traces as one JSON array; chunk to keep the JVM heap modest
    CH = 40000
    for off in range(0, len(traces), CH):
        part = traces[off : off + CH]
        path = ck.write_json(f"traces_{label}_{off}.json", part)
        res = ck.tlc("Trace_C12", tcfg, env={"TRACES": path}, workers=1, coverage=False, label=f"trace-validation {label}", timeout=1800)
        expect = 1 + sum(len(t["ev"]) + 1 for t in part)
        if res.distinct != expect:
            raise MachineryFailure(f"trace validation consumed {res.distinct} states, expected {expect}")
        out.append((part, res.by_tag("T-FAIL"), res.by_tag("P-FAIL"), alias))
    return out


def _apply_verdicts(ck, collected):
    for part, tfails, pfails, alias in collected:
        ck.validated(len(part))
        for r in tfails:
            t = part[r["tid"] - 1]
            ck.drift_step(r["op"], {"history": [_short(e) for e in t["ev"][: r["l"]]], "model": r["model"], "observed": r["observed"]})
        for r in pfails:
            t = part[r["tid"] - 1]
            key = {"clause": r["clause"], "edit": r["edit"], "kind": r["kind"], "layer": r["layer"], "spelling": r.get("spelling", ""), "route": r.get("via", "")}
            ck.violation(key, {"probe": r["probe"], "observed": r["observed"], "expected": r["expected"], "via": r.get("via", "Unit()"), "history": [_short(e) for e in t["ev"]]}, case={"h": [_strip(e) for e in t["ev"]], "alias": alias})


def _validate(ck, traces, label, alias=False):
    _apply_verdicts(ck, _validate_collect(ck, traces, label, alias))


def _strip(e):
    return {k: v for k, v in e.items() if k in ("op", "sym", "scale", "pfx", "dim", "str")}


def _short(e):
    s = _strip(e)
    return " ".join(str(s[k]) for k in ("op", "sym", "str", "scale", "pfx", "dim") if k in s) + " -> " + str(e.get("obs", {}).get("k", ""))


def run(ck):
    ck.level = "model_checking"
    ck.assumptions += [
        "two alphabets: {foo, qux} user symbols, and {foo, s} with the library's own symbol s probed through alias spellings (second, kilosecond); kilo prefix, scales {2,4}, dimensions {length,time}, 7 probe strings each; real registries hold unyt's default symbols as well",
        "TLC 32-bit integers: scales are small integers; floats never enter TLC",
        "known findings are matched on (clause, memo layer, last edit kind, probe kind)",
    ]
    if ck.replay:
        import json

        blob = json.load(open(ck.replay))
        if blob["case"].get("session"):
            cases = [{"ev": blob["case"]["ev"]}]
            traces = ck.pmap("impl_c12s", "observe", cases, nproc=1)
            ck.cov["bound"] = {}
            _session_apply(ck, _session_validate_collect(ck, cases, traces, "replay"))
            return
        cases = [blob["case"]]
        traces = ck.pmap("impl_c12", "observe", cases, nproc=1)
        _validate(ck, traces, "replay", alias=bool(blob["case"].get("alias", False)))
        return

    import concurrent.futures as cf

    model_classes = set()
    nontrivial = set()
    ck.cov["simulated_histories"] = 0
    ck.cov["bound"] = {}
    maxlen = 4
    n_sim = ck.q(150, 4000)
    depth = ck.q(10, 14)

    # ---- phase 1: the four generating TLC runs (cover + simulation, both alphabets) run concurrently ----
    def gen(kind, alias):
        tag = "alias" if alias else "user"
        A = "Alias = TRUE" if alias else "Alias = FALSE"
        if kind == "coverx":
            # user symbols spelled like prefix + symbol (kfoo defined in its own right): state cover to length 3 (quick) / 4 (thorough)
            ml = ck.q(3, 4)
            cfg = open(ck.spec + "/MC_C12_cover.cfg").read().replace("MaxLen = 5", f"MaxLen = {ml}").replace("Alias = FALSE", A).replace("ExplicitPrefixed = FALSE", "ExplicitPrefixed = TRUE")
            open(ck.spec + f"/MC_C12_runx_{tag}.cfg", "w").write(cfg)
            return ck.tlc("MC_C12", f"MC_C12_runx_{tag}", workers=1, label=f"[{tag}] state space MaxLen={ml} with explicit prefix-spelled user symbols, state cover export", required_actions=["Next"], timeout=3000)
        if kind == "cover":
            # quick: one witness history per distinct state (state cover); thorough: one per explored transition
            src = ck.q("MC_C12_cover", "MC_C12_states")
            cfg = open(ck.spec + f"/{src}.cfg").read().replace("MaxLen = 5", f"MaxLen = {maxlen}").replace("Alias = FALSE", A)
            open(ck.spec + f"/MC_C12_run_{tag}.cfg", "w").write(cfg)
            return ck.tlc("MC_C12", f"MC_C12_run_{tag}", workers=1, label=f"[{tag}] state space MaxLen={maxlen} (VIEW hides history), {ck.q('state','transition')} cover export", required_actions=["Next"], timeout=3000)
        cfg = open(ck.spec + "/MC_C12_hist.cfg").read().replace("MaxLen = 3", f"MaxLen = {depth + 5}").replace("ExportLen = 3", f"ExportLen = {depth}").replace("Alias = FALSE", A).replace("ExplicitPrefixed = FALSE", "ExplicitPrefixed = TRUE")
        open(ck.spec + f"/MC_C12_sim_{tag}.cfg", "w").write(cfg)
        return ck.tlc("MC_C12", f"MC_C12_sim_{tag}", workers=1, simulate=n_sim, depth=depth + 1, label=f"[{tag}] simulation depth={depth}", timeout=1800)

    jobs = [(k, a) for a in (False, True) for k in ("cover", "sim")] + [("coverx", False)]
    # the Session composition (registry + quantities labelled from it) runs alongside, verdicts are applied at the end
    sess_pool = cf.ThreadPoolExecutor(1)
    sess_future = sess_pool.submit(_session_collect, ck)
    with cf.ThreadPoolExecutor(5) as ex:
        results = dict(zip(jobs, ex.map(lambda j: gen(*j), jobs)))

    # ---- phase 2: one replay batch for all histories ----
    batches = []  # (label, alias, cases)
    for alias in (False, True):
        tag = "alias" if alias else "user"
        hists = [r for r in results[("cover", alias)].by_tag("HIST")]
        if len(hists) < 100:
            raise MachineryFailure("too few histories exported")
        for r in hists:
            for c in r["stale"]:
                model_classes.add((c["layer"], c["probe"]))
        ck.cov["bound"][tag] = {"MaxLen": maxlen, "histories": len(hists)}
        cases = [{"h": r["h"], "alias": alias} for r in hists]
        ck.sample({"alphabet": tag, "history": cases[len(cases) // 2]["h"]})
        batches.append((f"cover-{tag}", alias, cases))
        if ("coverx", alias) in results:
            hx = [r for r in results[("coverx", alias)].by_tag("HIST")]
            seen = {str(c["h"]) for c in cases}
            # keep the witnesses that actually define a prefix-spelled symbol in its own right (the others are in the main cover)
            casesx = [{"h": r["h"], "alias": alias} for r in hx if str(r["h"]) not in seen and any(e["op"] == "add" and e["sym"] in ("kfoo", "kqux", "ks") for e in r["h"])]
            ck.cov["bound"][tag + "+explicit-prefixed"] = {"MaxLen": ck.q(3, 4), "histories": len(casesx)}
            batches.append((f"coverx-{tag}", alias, casesx))
        # beyond the bound: TLC's simulator evaluates the exporting invariant on every successor of the last state
        # it visits, so behaviours come in families sharing a prefix: keep a seeded sample of each
        sims = [{"h": r["h"], "alias": alias} for r in results[("sim", alias)].by_tag("HIST")]
        rnd = random.Random(ck.seed)
        fam = {}
        for c in sims:
            fam.setdefault(str(c["h"][:-1]), []).append(c)
        sims = [c for k in sorted(fam) for c in rnd.sample(fam[k], min(3, len(fam[k])))]
        if sims:
            ck.sample({"alphabet": tag, "simulated_history": sims[0]["h"]})
            batches.append((f"sim-{tag}", alias, sims))
        ck.cov["simulated_histories"] += len(sims)
    allcases = [c for _, _, cs in batches for c in cs]
    nontrivial |= {(c["alias"], str(c["h"])) for c in allcases if _is_nontrivial(c["h"])}
    alltraces = ck.pmap("impl_c12", "observe", allcases)
    bad = [t for t in alltraces if "_error" in t]
    if bad:
        raise MachineryFailure("replay error: " + str(bad[0]))

    # ---- phase 3: trace validation of the batches, concurrently; verdicts are processed in batch order ----
    off = 0
    work = []
    for label, alias, cs in batches:
        work.append((label, alias, alltraces[off : off + len(cs)]))
        off += len(cs)
    with cf.ThreadPoolExecutor(4) as ex:
        outs = list(ex.map(lambda w: _validate_collect(ck, w[2], w[0], w[1]), work))
    for o in outs:
        _apply_verdicts(ck, o)
    n_session, sess_cases, sess_outs = sess_future.result()
    sess_pool.shutdown()
    for o in sess_outs:
        _session_apply(ck, o)
    nontrivial |= {("session", str(c["ev"])) for c in sess_cases if _session_nontrivial(c)}
    ck.cov["model_level_stale_classes"] = sorted(list(x) for x in model_classes)
    ck.cov["exhaustive"] = True
    ck.cov["evaluations"] = ck.cov["traces_validated_against_impl"]
    ck.cov["rule"] = "histories of registry calls exported by TLC (one per distinct state / transition of the bounded instance, plus simulated ones) replayed on a real registry; non-trivial = the history contains an edit (add/modify/remove/define) of a symbol after some string mentioning it was resolved"
    ck.cov["distinct_nontrivial"] = len(nontrivial)


# --------------------------------------------------------------------------
# Session composition: the registry together with the quantities labelled from it (spec/Session.tla)
# --------------------------------------------------------------------------


def _session_generate(ck):
    """TLC: transition cover of the bounded Session instance + simulated behaviours beyond the bound."""
    import concurrent.futures as cf

    maxlen = ck.q(5, 6)
    n_sim = ck.q(100, 3000)
    depth = ck.q(9, 12)

    def gen(kind):
        if kind in ("trans", "trans2", "trans3"):
            # PreKind 1: add foo, add qux, the unit system, make 3 foo (4 fixed calls), then every call free
            # PreKind 2: ... modify foo through the other handle, make 5 foo (6 fixed): an old and a new quantity under one
            #            spelling; then calls on quantities and string reads only
            # PreKind 3: add, add, the unit system, make 3 m, reduce it to the system once (5 fixed); then edits (modify /
            #            remove / contains) and calls on quantities: the same object reduced again after an edit
            k = {"trans": 1, "trans2": 2, "trans3": 3}[kind]
            fixed = {1: 4, 2: 6, 3: 5}[k]
            free = maxlen - 3
            cfg = open(ck.spec + "/MC_C12_session_trans.cfg").read().replace("MaxLen = 5", f"MaxLen = {fixed + free}").replace("PreKind = 1", f"PreKind = {k}")
            open(ck.spec + f"/MC_C12_session_run{k}.cfg", "w").write(cfg)
            return ck.tlc("MC_C12_session", f"MC_C12_session_run{k}", workers=1, label=f"[session] preamble {k}: exhaustive to {fixed} fixed + {free} free calls, VIEW hides history, transition cover export; action property ModelProps", required_actions=["SNext"], timeout=3000)
        cfg = open(ck.spec + "/MC_C12_session_sim.cfg").read().replace("MaxLen = 12", f"MaxLen = {depth + 4}").replace("ExportLen = 9", f"ExportLen = {depth}")
        open(ck.spec + "/MC_C12_session_simrun.cfg", "w").write(cfg)
        return ck.tlc("MC_C12_session", "MC_C12_session_simrun", workers=1, simulate=n_sim, depth=depth + 1, label=f"[session] simulation depth={depth}", timeout=1800)

    with cf.ThreadPoolExecutor(4) as ex:
        rt, rt2, rt3, rs = ex.map(gen, ["trans", "trans2", "trans3", "sim"])
    hists = rt.by_tag("HIST") + rt2.by_tag("HIST") + rt3.by_tag("HIST")
    if len(rt.by_tag("HIST")) < 1000 or len(rt2.by_tag("HIST")) < 500 or len(rt3.by_tag("HIST")) < 500:
        raise MachineryFailure("session: too few histories exported")
    sims = rs.by_tag("HIST")
    rnd = random.Random(ck.seed)
    fam = {}
    for c in sims:
        fam.setdefault(str(c["ev"][:-1]), []).append(c)
    sims = [c for k in sorted(fam) for c in rnd.sample(fam[k], min(3, len(fam[k])))]
    # model-level verdict of the transcription (TLC also checks the action property ModelProps: frame, denotation, freshness)
    ck.cov["session_model_states_where_pickle_changes_a_quantity"] = len(rt.by_tag("MODEL-PICKLE")) + len(rt2.by_tag("MODEL-PICKLE")) + len(rt3.by_tag("MODEL-PICKLE"))
    ck.cov["bound"]["session"] = {"MaxLen": maxlen, "transitions_exported": len(hists), "simulated": len(sims), "sim_depth": depth}
    return [{"ev": r["ev"]} for r in hists], [{"ev": r["ev"]} for r in sims]


_SESSION_EDITS = ("add", "modify", "remove")


def _session_nontrivial(c):
    """an object or a memoised string exists before an edit of a symbol it mentions, and something is asked afterwards"""
    seen = False
    edited = False
    for it in c["ev"][2:]:
        op = it["e"]["op"]
        if op in _SESSION_EDITS:
            edited = True
        elif edited:
            return True
    return False


def _session_validate_collect(ck, cases, traces, label):
    out = []
    CH = 20000
    for off in range(0, len(traces), CH):
        part = traces[off : off + CH]
        path = ck.write_json(f"straces_{label}_{off}.json", part)
        res = ck.tlc("Trace_C12_session", "Trace_C12_session", env={"TRACES": path}, workers=1, coverage=False, label=f"trace-validation session {label}", timeout=1800)
        expect = 1 + sum(len(t["ev"]) + 1 for t in part)
        if res.distinct != expect:
            raise MachineryFailure(f"session trace validation consumed {res.distinct} states, expected {expect}")
        out.append((cases[off : off + CH], part, res.by_tag("T-FAIL"), res.by_tag("P-FAIL")))
    return out


def _sshort(e):
    return " ".join(f"{k}={e[k]}" for k in ("op", "h", "sym", "scale", "pfx", "dim", "str", "i", "j") if k in e) + " -> " + str(e.get("res", {}).get("k", ""))


def _session_apply(ck, collected):
    for cases, part, tfails, pfails in collected:
        ck.validated(len(part))
        for r in tfails:
            t = part[r["tid"] - 1]
            ck.drift_step("session." + r["op"], {"history": [_sshort(e) for e in t["ev"][: r["l"]]], "model": r["model"], "observed": r["observed"], "model_objs": r.get("mobjs"), "observed_objs": r.get("oobjs")})
        for r in pfails:
            t = part[r["tid"] - 1]
            e = t["ev"][r["l"] - 1]
            hs = sorted({x["h"] for x in t["ev"][: r["l"]]})
            key = {"clause": r["clause"], "layer": "session", "op": r["op"], "what": r["what"], "stale_operand": bool(r["stale"]), "edit": r["edit"], "handles": "two" if len(hs) > 1 else "one"}
            if r["op"] in ("make", "unit", "to", "convin"):
                # the memo layer of the recorded finding `layer: lutrow` (derived prefixed rows survive edits of their base symbol)
                if _derived_row_involved(t["ev"][: r["l"]], e.get("str", "")):
                    key["layer"] = "lutrow"
            ck.violation(key, {"observed": r["observed"], "expected": r["expected"], "history": [_sshort(x) for x in t["ev"][: r["l"]]], "h1_route": t.get("h1_route", "")}, case={"session": True, "ev": cases[r["tid"] - 1]["ev"][: r["l"]]})


def _derived_row_involved(evs, s):
    """classification only: the string mentions a kilo-prefixed key that the table holds as a DERIVED row (written back by
    a look-up, never added by the caller) - the memo layer of the recorded finding `layer: lutrow`"""
    own = set()
    for e in evs:
        if e["op"] == "add" and e.get("res", {}).get("k") == "ok":
            own.add(e["sym"])
        if e["op"] == "remove" and e.get("res", {}).get("k") == "ok":
            own.discard(e["sym"])
    rows = evs[-2]["rows"] if len(evs) >= 2 else []
    keys = ["foo", "qux", "kfoo", "kqux"]
    for k in ("kfoo", "kqux"):
        if k in s and k not in own and rows and rows[keys.index(k)][0] != 0:
            return True
    return False


def _session_collect(ck):
    """generate -> replay -> validate; returns (n cases, cases, collected verdict records) - verdicts are applied by the caller"""
    import concurrent.futures as cf

    cover, sims = _session_generate(ck)
    cases = cover + sims
    traces = ck.pmap("impl_c12s", "observe", cases)
    bad = [t for t in traces if "_error" in t]
    if bad:
        raise MachineryFailure("session replay error: " + str(bad[0]))
    ck.sample({"session_history": [dict(it["e"], h=it["h"]) for it in cases[len(cover) // 2]["ev"]]})
    CH = 12000
    work = [(f"{off}", cases[off : off + CH], traces[off : off + CH]) for off in range(0, len(cases), CH)]
    with cf.ThreadPoolExecutor(6) as ex:
        outs = list(ex.map(lambda w: _session_validate_collect(ck, w[1], w[2], w[0]), work))
    ck.cov["session_nontrivial"] = sum(1 for c in cases if _session_nontrivial(c))
    ck.cov["session_handle1_routes"] = sorted({t.get("h1_route", "") for t in traces if t.get("h1_route")})
    return len(cases), cases, outs


def run_session(ck):
    n, cases, outs = _session_collect(ck)
    for o in outs:
        _session_apply(ck, o)
    return n
