CONSTANTS
  MaxLen = 1
  ExportLen = 1
  NUin = 3
  NUout = 3
  Diag = 3
  Part = 0
  Profile = "single"
INIT Init
NEXT Next
INVARIANT ModelFormula
INVARIANT ExportHist
CHECK_DEADLOCK FALSE
