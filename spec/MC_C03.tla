------------------------------ MODULE MC_C03 ------------------------------
(* Bounded instance of Convert for C03: a single-step case table.           *)
(*   conv cases : ordered triples (A, B, C) of the pool with every leg      *)
(*                supported (same dimension vector, or a supported CGS<->SI *)
(*                electromagnetic pair) x (dtype, shape, values) combos     *)
(*   base cases : unit A x unit system x combos                             *)
(* For every case TLC computes the numbers the transcription predicts (the  *)
(* candidate vectors), checks the C03 laws on them (model-level verdict,    *)
(* exported as MODEL-FAIL) and exports the case for replay.                 *)
(* Every case also names the unit system the quantity's registry is        *)
(* configured with (cfg: 0 = none, else an index of Systems): base cases    *)
(* enumerate it (requested system x configured system), conv cases rotate   *)
(* through it.  For a base case TLC also decides which request the          *)
(* default-argument forms (in_base(), convert_to_base(), ...) express:      *)
(* the named one (dfam = "base") when the default resolves to the requested *)
(* system, else one of their own (dfam = "based").                          *)
(* Stride/Phase thin the triples deterministically (quick tier);            *)
(* AllCombos = FALSE rotates one combo per triple instead of all.           *)
EXTENDS Convert
CONSTANTS Stride, Phase, AllCombos, WithBase, CfgAll, Cross
VARIABLE c

(* Cross = TRUE (instance `cross`): the unit objects of a case need not be bound to the quantity's table.  A (the   *)
(* unit of the data) is; B and C may be twin units (Pool[i].reg = 2: same spelling, read in a second table where it  *)
(* may carry another value), at least one of them is.  Two more case dimensions, both generated here:               *)
(*   bind  how the replay comes by such a unit object: "twin" - bound to a second registry; "stale" - bound to the  *)
(*         quantity's own registry but made before that registry was re-calibrated to its present values (not for   *)
(*         prefixed spellings: what a prefixed spelling means after an edit of its symbol is C12's subject)          *)
(*   warm  a history: conversion requests (legs x -> y over {a, b, c}) made in the same registries BEFORE the       *)
(*         observed routes.  The registries of such a case are made afresh for the case, so `warm` (and the order   *)
(*         of the routes after it) is the whole history.  The laws do not mention history: P is unchanged, every    *)
(*         observed route is judged as in any other case.                                                            *)
Legs == <<"aa", "ab", "ac", "ba", "bb", "bc", "ca", "cb", "cc">>
Hists == <<<<>>>> \o [h \in 1..Len(Legs) |-> <<Legs[h]>>]
         \o <<<<"ab", "ba">>, <<"ba", "ab">>, <<"ac", "ab">>, <<"bc", "ac">>, <<"bb", "aa">>, <<"cc", "ab">>>>
NHist == Len(Hists)
Binds == <<"twin", "stale">>
Foreign(i) == Pool[i].reg = 2
\* "stale" unit objects are made before the registry is edited: not for prefixed spellings
BindOk(b, cc, bd) == bd = "twin" \/ (~(Foreign(b) /\ Prefixed(PoolU[b])) /\ ~(Foreign(cc) /\ Prefixed(PoolU[cc])))

FloatGrid == <<<<-2, 1>>, <<1, 2>>, <<7, 1>>>>
IntGrid == <<<<-2, 1>>, <<3, 1>>, <<7, 1>>>>
Combos == IF ExactMode
          THEN << [dt |-> "f8", sh |-> "array", xs |-> FloatGrid],
                  [dt |-> "f8", sh |-> "scalar", xs |-> <<FloatGrid[2]>>],
                  [dt |-> "f8", sh |-> "scalar", xs |-> <<FloatGrid[3]>>],
                  [dt |-> "f8", sh |-> "scalar", xs |-> <<RZero>>],
                  [dt |-> "f4", sh |-> "array", xs |-> FloatGrid],
                  [dt |-> "f4", sh |-> "scalar", xs |-> <<FloatGrid[1]>>],
                  [dt |-> "c16", sh |-> "array", xs |-> FloatGrid],
                  [dt |-> "c16", sh |-> "scalar", xs |-> <<FloatGrid[2]>>],
                  [dt |-> "i8", sh |-> "array", xs |-> IntGrid],
                  [dt |-> "i8", sh |-> "scalar", xs |-> <<IntGrid[2]>>],
                  [dt |-> "i4", sh |-> "array", xs |-> IntGrid] >>
          ELSE << [dt |-> "f8", sh |-> "array", xs |-> FloatGrid],
                  [dt |-> "f8", sh |-> "scalar", xs |-> <<FloatGrid[3]>>],
                  [dt |-> "i8", sh |-> "array", xs |-> IntGrid] >>
NCombos == Len(Combos)

CompatOf == [i \in 1..NPool |-> {j \in 1..NPool : Supported(PoolU[i], PoolU[j])}]
Gen(A) == IF A.dim = AngleDim THEN "pi" ELSE IF A.tag # 0 \/ A.dim \in EmDims THEN "c" ELSE ""

Terms(p) == SelectSeq(<< <<-2, p[1][1], p[1][2]>>, <<-1, p[2][1], p[2][2]>>, <<0, p[3][1], p[3][2]>>,
                         <<1, p[4][1], p[4][2]>>, <<2, p[5][1], p[5][2]>> >>, LAMBDA t : t[2] # 0)
NumJ(z) == [r |-> Terms(z.re), i |-> Terms(z.im)]
VecJ(v) == [e \in DOMAIN v |-> NumJ(v[e])]
VecsJ(vs) == [j \in DOMAIN vs |-> VecJ(vs[j])]

NSys == Len(Systems)
CfgName(r) == IF r = 0 THEN "" ELSE Systems[r].name

ConvCaseH(a, b, cc, k, warm, bind) ==
  LET A == PoolU[a] B == PoolU[b] C == PoolU[cc] cb == Combos[k]
      ev == CaseEval("conv", A, B, C, 1, 0, cb.dt, cb.xs)
      r == (a + 2 * b + cc) % (NSys + 1)
      ex == ev.exact cd == ev.cd x == InVec(cb.dt, cb.xs) IN
  [kind |-> "conv", a |-> a, b |-> b, c |-> cc, k |-> k, A |-> Pool[a], B |-> Pool[b], C |-> Pool[cc],
   dt |-> cb.dt, sh |-> cb.sh, xs |-> cb.xs, exact |-> ex, gen |-> Gen(A), sys |-> "", sysi |-> 1,
   cfgi |-> r, cfg |-> CfgName(r), dfam |-> "", dbfam |-> "", dg |-> "", warm |-> warm, bind |-> bind,
   cand |-> [A |-> VecsJ(cd.A), B |-> VecsJ(cd.B), C |-> VecsJ(cd.C)],
   model |-> IF ex THEN [id |-> M_Id(ev, x), inv |-> M_Inv(ev, x), comp |-> M_Comp(ev), routes |-> M_Routes(A, B)]
             ELSE [id |-> TRUE, inv |-> TRUE, comp |-> TRUE, routes |-> TRUE]]

ConvCase(a, b, cc, k) == ConvCaseH(a, b, cc, k, <<>>, "")

BaseCase(a, s, r, k) ==
  LET A == PoolU[a] cb == Combos[k]
      ev == CaseEval("base", A, A, A, s, r, cb.dt, cb.xs)
      same == DefaultIsNamed(s, r)
      ex == ev.exact cd == ev.cd IN
  [kind |-> "base", a |-> a, b |-> a, c |-> a, k |-> k, A |-> Pool[a], B |-> Pool[a], C |-> Pool[a],
   dt |-> cb.dt, sh |-> cb.sh, xs |-> cb.xs, exact |-> ex, gen |-> Gen(A), sys |-> Systems[s].name, sysi |-> s,
   cfgi |-> r, cfg |-> CfgName(r), dfam |-> IF same THEN "base" ELSE "based", dbfam |-> IF same THEN "bback" ELSE "dback",
   dg |-> IF same THEN "B" ELSE "C", warm |-> <<>>, bind |-> "",
   cand |-> [A |-> VecsJ(cd.A), B |-> VecsJ(cd.B), C |-> VecsJ(cd.C)],
   model |-> [id |-> TRUE, inv |-> IF ex THEN cd.A[2] = cd.A[1] ELSE TRUE, comp |-> TRUE, routes |-> TRUE]]

\* quick: the configured system that makes the default argument mean the requested system, and one other (rotating,
\* 0 = a registry made without a unit system included); thorough: every configured system
KeepCfg(a, s, r) == CfgAll \/ r = s \/ r = ((a + s) % (NSys + 1))
KeepTriple(a, b, cc) == ((a * 7 + b * 3 + cc) % Stride) = Phase
KeepCombo(a, b, cc, k) == AllCombos \/ k = ((a + b + cc) % NCombos) + 1
\* one history and one binding form per triple, both rotating (every history meets every class of triple)
KeepHist(a, b, cc, h) == h = ((a + 3 * b + 5 * cc) % NHist) + 1
KeepBind(a, b, cc, h, n) == n = ((a + b + cc + h) % 2) + 1 \/ ~BindOk(b, cc, Binds[((a + b + cc + h) % 2) + 1])

Init == c = <<>>
Next == /\ c = <<>>
        /\ \/ /\ ~Cross
              /\ \E a \in 1..NPool : \E b \in CompatOf[a] : \E cc \in (CompatOf[a] \cap CompatOf[b]) : \E k \in 1..NCombos :
                /\ a \in CompatOf[b] /\ KeepTriple(a, b, cc) /\ KeepCombo(a, b, cc, k)
                /\ c' = ConvCase(a, b, cc, k)
           \/ /\ Cross
              /\ \E a \in 1..NPool : \E b \in CompatOf[a] : \E cc \in (CompatOf[a] \cap CompatOf[b]) : \E k \in 1..NCombos :
                 \E h \in 1..NHist : \E n \in 1..2 :
                /\ a \in CompatOf[b] /\ ~Foreign(a) /\ (Foreign(b) \/ Foreign(cc))
                /\ KeepTriple(a, b, cc) /\ KeepCombo(a, b, cc + h, k) /\ KeepHist(a, b, cc, h)
                /\ BindOk(b, cc, Binds[n]) /\ KeepBind(a, b, cc, h, n)
                /\ c' = ConvCaseH(a, b, cc, k, Hists[h], Binds[n])
           \/ /\ WithBase
              /\ \E a \in 1..NPool : \E s \in DOMAIN Systems : \E r \in 0..NSys : \E k \in 1..NCombos :
                /\ PoolU[a].ok /\ KeepCfg(a, s, r) /\ KeepCombo(a, s, r, k)
                /\ c' = BaseCase(a, s, r, k)

ExportCase == (c # <<>>) => PrintT(ToJson([tag |-> "CASE"] @@ c))
=============================================================================
