--------------------------- MODULE Trace_C15_use ---------------------------
(* Trace validation of the use histories: per replayed history TLC evaluates *)
(* C15_UseKeeps on the observation (P) and compares every step with the      *)
(* documented heap discipline (T: no result shares memory with the constant, *)
(* no call hands back the constant itself).                                  *)
EXTENDS ConstantsUse
Obs == JsonDeserialize(IOEnv.OBS)
VARIABLE c
PFail(k, clause) == PrintT(ToJson([tag |-> "P-FAIL", k |-> k, clause |-> clause]))
TFail(k, what, i) == PrintT(ToJson([tag |-> "T-FAIL", k |-> k, what |-> what, model |-> [step |-> i, shares |-> FALSE]]))
Note(k, what) == PrintT(ToJson([tag |-> "NOTE", k |-> k, what |-> what]))
CheckUse(k) ==
  LET o == Obs[k] IN
  /\ (~C15_UseKeeps(o) => PFail(k, "UseKeeps"))
  /\ o.present =>
       /\ \A i \in DOMAIN o.steps : (o.steps[i].ok /\ (o.steps[i].shares # ExpShares(o.case.ops, i) \/ o.steps[i].same)) => TFail(k, "call-returns-a-view-of-the-constant", i)
       /\ (~o.ip.applied => Note(k, "no-call-succeeded"))
       /\ ((o.ip.applied /\ ~o.ip.ok) => Note(k, "in-place-call-refused"))
  /\ (~o.present => Note(k, "guise-absent"))
TraceInit == c = 0
TraceNext == c = 0 /\ \E k \in 1..Len(Obs) : c' = k
Check == c # 0 => CheckUse(c)
=============================================================================
