CONSTANTS
  Seeds = {1, 2, 3, 4, 5, 6, 7, 8, 9, 10, 11, 12}
  DTs = {"f", "i"}
  Fixes = {}
  Fams = {"compare", "join", "select", "arith", "order", "shape", "inplace"}
INIT Init
NEXT Next
INVARIANT Export
INVARIANT Defined
INVARIANT HandlerRefines
CHECK_DEADLOCK FALSE
