-------------------------- MODULE Trace_C11_multi --------------------------
(* Trace validation of the several-objects histories (PersistMulti).  After   *)
(* EVERY step every live object - both originals and every restored object -  *)
(* was observed: the two watched registry rows (mile, foo; 1000 x scale, 0 =  *)
(* absent), the scale of its own unit, whether its numbers are the original's,*)
(* and which objects share a registry object.  P: each object shows what the  *)
(* reference (PersistMulti's Restore / Edit) says.  T: additionally no two    *)
(* objects share a registry object.                                           *)
EXTENDS PersistMulti, IOUtils
Traces == JsonDeserialize(IOEnv.TRACES)
VARIABLES tid, l
NoPairs == {}
NoCls == {}
NoHow == {}
Ev == Traces[tid].ev[l]

Victim(e, n, i, ref) == IF e.op = "restore" /\ i = n THEN "new"
                        ELSE IF e.op = "edit" /\ i = e.t THEN "edited"
                        ELSE IF ref[i].orig THEN "original" ELSE "other-restored"
Report(e, ref) ==
  LET n == Len(ref)
      how == IF e.op = "restore" THEN e.how ELSE IF e.op = "edit" THEN "edit-" \o e.sym ELSE "setup" IN
  /\ \A i \in 1..n :
       LET o == e.obs[i] IN
       /\ (~C11_SameRows(o, ref[i])) =>
            PrintT(ToJson([tag |-> "P-FAIL", tid |-> tid, l |-> l, clause |-> "multi_registry", op |-> e.op, how |-> how, victim |-> Victim(e, n, i, ref),
                           sym |-> IF o.mile # ref[i].tab.mile THEN "mile" ELSE "foo", kind |-> ref[i].kind, obj |-> i,
                           observed |-> <<o.mile, o.foo>>, expected |-> <<ref[i].tab.mile, ref[i].tab.foo>>]))
       /\ (~C11_SameUnit(o, ref[i])) =>
            PrintT(ToJson([tag |-> "P-FAIL", tid |-> tid, l |-> l, clause |-> "multi_units", op |-> e.op, how |-> how, victim |-> Victim(e, n, i, ref),
                           sym |-> ref[i].sym, kind |-> ref[i].kind, obj |-> i, observed |-> <<o.uval>>, expected |-> <<ref[i].uval>>]))
       /\ (~C11_SameNums(o)) =>
            PrintT(ToJson([tag |-> "P-FAIL", tid |-> tid, l |-> l, clause |-> "multi_numbers", op |-> e.op, how |-> how, victim |-> Victim(e, n, i, ref),
                           sym |-> ref[i].sym, kind |-> ref[i].kind, obj |-> i, observed |-> <<>>, expected |-> <<>>]))
  /\ (\E i \in 1..n : e.regof[i] # i) =>
       PrintT(ToJson([tag |-> "T-FAIL", tid |-> tid, l |-> l, op |-> "multi:" \o how, model |-> [i \in 1..n |-> i], observed |-> e.regof]))

TraceInit == MInit /\ tid = 1 /\ l = 1
Step(e) == CASE e.op = "setup" -> Setup(<<e.k1, e.u1, e.k2, e.u2>>, e.cls)
             [] e.op = "restore" -> Restore(e.x, e.how)
             [] OTHER -> Edit(e.t, e.sym)
TraceNext ==
  /\ tid <= Len(Traces)
  /\ \/ /\ l <= Len(Traces[tid].ev)
        /\ IF Ev.k = "ok"
           THEN Step(Ev) /\ Report(Ev, objs')
           ELSE \* the call itself was refused: the object did not come back; the reference does not get it either
                /\ PrintT(ToJson([tag |-> "P-FAIL", tid |-> tid, l |-> l, clause |-> "multi_restore", op |-> Ev.op, how |-> IF Ev.op = "restore" THEN Ev.how ELSE "edit",
                                  victim |-> "new", sym |-> "", kind |-> "", obj |-> 0, observed |-> <<>>, expected |-> <<>>]))
                /\ hist' = Append(hist, [op |-> "refused"]) /\ UNCHANGED <<cls, objs, blob>>
        /\ l' = l + 1 /\ tid' = tid
     \/ /\ l = Len(Traces[tid].ev) + 1
        /\ tid' = tid + 1 /\ l' = 1
        /\ cls' = "" /\ objs' = <<>> /\ blob' = <<None, None>> /\ hist' = <<>>
=============================================================================
