INIT Init
NEXT Next
INVARIANT StepP
CHECK_DEADLOCK FALSE
