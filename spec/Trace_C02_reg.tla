---------------------------- MODULE Trace_C02_reg ----------------------------
(* Trace validation for C02 over user registries.  One state per recorded    *)
(* history.  TLC recomputes the registry state from the calls alone           *)
(* (DefsReg!Run), derives the probes and conversion pairs and what the        *)
(* definitions imply for each, and evaluates on the observations              *)
(*   P  C02_RegScale / C02_Dim on every probe (name, prefixed name, compound  *)
(*      over user + default symbols resolved in its registry), and            *)
(*      C02_RegConvert on every route of every pair                           *)
(*   T  which calls were accepted, that every probe resolves and every pair   *)
(*      converts                                                              *)
(* ECHO-FAIL: the harness looked at other probes / pairs / symbolic values    *)
(* than TLC derives (machinery).                                              *)
EXTENDS DefsReg
Obs == JsonDeserialize(IOEnv.C02REGOBS)
VARIABLE i
Init == i = 0
Next == i < Len(Obs) /\ i' = i + 1

Fail(tag, clause, idx, detail) == PrintT(ToJson([tag |-> tag, i |-> i, clause |-> clause, idx |-> idx, detail |-> detail]))
EvOf(e) == [op |-> e.op, r |-> e.r, sym |-> e.sym, t |-> e.t, c |-> e.c, form |-> e.form, pfx |-> e.pfx]
\* the route by which the user symbols of an expression came to their definition (for the finding key)
RouteOf(st, r) == st.slot[r]["foo"].route \o (IF st.slot[r]["qux"].on THEN "+" \o st.slot[r]["qux"].route ELSE "")

TraceP(o) ==
  LET sys == <<o.sys[1], o.sys[2]>>
      h == [k \in DOMAIN o.h |-> EvOf(o.h[k])]
      st == Run(sys, h)
      oks == OkFrom(InitSt(sys), h, 1)
      want == Probes(st)
      pairs == Pairs(st) IN
  /\ \A k \in DOMAIN o.h : (o.h[k].ok # oks[k]) => Fail("T-FAIL", "reg-call-" \o o.h[k].op, k, [model |-> oks[k], observed |-> o.h[k].ok, exc |-> o.h[k].exc])
  /\ (Len(o.probes) # Len(want) \/ Len(o.pairs) # Len(pairs)) => Fail("ECHO-FAIL", "lists", 0, <<>>)
  \* the name the user symbol was spelled with (uk = 0: "foo"): a candidate TLC generates, spelled as TLC spells it, and
  \* outside the frozen vocabulary - only then do the clauses below demand that strings mentioning it reach the user's definition
  /\ (o.uk # 0 /\ (o.uk \notin 1..NCand \/ o.uname # USpell(o.uk) \/ ~UDemandedName(o.uname))) => Fail("ECHO-FAIL", "user-name", o.uk, <<>>)
  /\ (o.uk = 0 /\ o.uname # "foo") => Fail("ECHO-FAIL", "user-name", 0, <<>>)
  /\ \A k \in DOMAIN o.probes :
       LET p == o.probes[k] IN
       k <= Len(want) =>
         /\ (p.r # want[k].r \/ p.toks # want[k].toks \/ p.gens # ExprGens(want[k].toks, st.slot[p.r])) => Fail("ECHO-FAIL", "probe", k, <<>>)
         /\ ~p.ok => Fail("T-FAIL", "reg-probe-raises", k, [exc |-> p.exc])
         /\ (p.ok /\ ~C02_RegScale(p.eu, p.toks)) =>
              Fail("P-FAIL", "reg-scale", k, [eu |-> p.eu, kk |-> Len(p.toks) + 3, system |-> o.sys[p.r], route |-> RouteOf(st, p.r)])
         /\ (p.ok /\ ~C02_Dim(p.dim, Dense(ExprDimV(p.toks, st.slot[p.r])))) =>
              Fail("P-FAIL", "reg-dimension", k, [want |-> Dense(ExprDimV(p.toks, st.slot[p.r])), got |-> p.dim, system |-> o.sys[p.r], route |-> RouteOf(st, p.r)])
  /\ \A k \in DOMAIN o.pairs :
       LET q == o.pairs[k] IN
       k <= Len(pairs) =>
         /\ (q.k # pairs[k].k \/ q.a # pairs[k].a \/ q.b # pairs[k].b \/ q.r1 # pairs[k].r1 \/ q.r2 # pairs[k].r2 \/ q.w1 # pairs[k].w1 \/ q.w2 # pairs[k].w2)
              => Fail("ECHO-FAIL", "pair", k, <<>>)
         /\ ~q.accepted => Fail("T-FAIL", "reg-pair-unit-raises", k, [exc |-> q.exc])
         /\ q.accepted => \A j \in DOMAIN q.routes :
              LET rt == q.routes[j] IN
              /\ (rt.ok /\ ~C02_RegConvert(rt.n, rt.e)) => Fail("P-FAIL", "reg-convert", k, [kind |-> q.k, route |-> rt.n, e |-> rt.e])
              /\ ~rt.ok => Fail("P-FAIL", "reg-convert-raises", k, [kind |-> q.k, route |-> rt.n, e |-> rt.e])

StepP == i > 0 => TraceP(Obs[i])
=============================================================================
