INIT TraceInit
NEXT TraceNext
INVARIANT Check
CHECK_DEADLOCK FALSE
