CONSTANTS
  Alias = FALSE
  MaxObj = 3
  PreKind = 1
  MaxLen = 12
  ExportLen = 9
INIT SInit
NEXT SNext
INVARIANT ExportHist
CHECK_DEADLOCK FALSE
