"""C16 - scalars are quantities, arrays are arrays, views stay attached to their data.

Spec: spec/Shape.tla (+ MC_C16, Trace_C16).
  1. TLC enumerates histories of calls on a small object graph (MC_C16_single: every root shape of rank 0-3 with
     extents 0-3, one constructor, one call of the full alphabet; MC_C16_hist: a few roots, reduced alphabet, deeper,
     exhaustively and with -simulate) and exports them.
  2. every history is replayed on real objects (harness/impl_c16.py): each result is projected (class, shape, unit,
     name, values, shares_memory with every earlier object); then every object in turn is overwritten in place and all
     objects are read back.
  3. TLC (Trace_C16) compares every step with the implementation-shaped transition (T -> DRIFT) and evaluates the C16
     predicates on the observations (P -> VIOLATION / KNOWN-FINDING), incl. the write phase.
  4. the repository's own test-suite, recorded under the tracer, against the event predicate P16 (SuiteTrace).

The three pipelines (single-call table, object-graph histories, suite trace) run side by side; every TLC run is made
on a private shallow copy of the Check object (own run list -> own TLC metadir, own counters) and the counters are
merged at the end, verdicts are recorded under a lock in a fixed order -> deterministic output.
"""

import concurrent.futures as cf
import copy
import json
import os
import random
import threading

from common import NCPU, MachineryFailure

KEYF = ("clause", "op", "s", "form", "srck", "k", "rclass", "lay")
_LOCK = threading.Lock()


def _fork(ck, base):
    c = copy.copy(ck)
    c.tlc_runs = [None] * base
    c._replay_n = base
    c.cov = {"states": 0, "transitions": 0, "tlc_runs": [], "traces_validated_against_impl": 0, "samples": [], "bound": {}}
    return c


def _merge(ck, c):
    for k in ("states", "transitions", "traces_validated_against_impl"):
        ck.cov[k] += c.cov.get(k, 0)
    ck.cov["tlc_runs"] += c.cov["tlc_runs"]
    for s in c.cov.get("samples", []):
        ck.sample(s)
    ck.cov.setdefault("bound", {}).update(c.cov.get("bound", {}))
    for k, v in c.cov.items():
        if k not in ("states", "transitions", "traces_validated_against_impl", "tlc_runs", "samples", "bound"):
            ck.cov[k] = v


def _brief(h):
    return [{k: v for k, v in op.items() if v not in ("", 0, [], None) or k == "op"} for op in h]


def _tlc(c, idx, module, cfg, **kw):
    c2 = _fork(c, len(c.tlc_runs) + 1000 + 10 * idx)
    res = type(c).tlc(c2, module, cfg, **kw)
    return res, c2.cov


def _parallel(c, jobs):
    """jobs: list of (module, cfg, kwargs) -> list of TLCResult (same order); counters merged into c.cov"""
    with cf.ThreadPoolExecutor(max_workers=max(1, NCPU)) as ex:
        futs = [ex.submit(_tlc, c, i, m, g, **kw) for i, (m, g, kw) in enumerate(jobs)]
        out = [f.result() for f in futs]
    c.tlc_runs += [None] * (10 * len(jobs) + 1000)
    for _, cov in out:
        c.cov["states"] += cov["states"]
        c.cov["transitions"] += cov["transitions"]
        c.cov["tlc_runs"] += cov["tlc_runs"]
    return [r for r, _ in out]


def _validate(c, traces, label, stats):
    if not traces:
        return
    CH = max(400, min(12000, -(-len(traces) // max(1, NCPU))))
    chunks = [traces[off : off + CH] for off in range(0, len(traces), CH)]
    paths = [c.write_json(f"traces_{label}_{i}.json", part) for i, part in enumerate(chunks)]
    jobs = [("Trace_C16", None, dict(env={"TRACES": paths[i]}, workers=1, coverage=False, label=f"trace-validation {label} chunk {i} ({len(chunks[i])} histories)", timeout=3000)) for i in range(len(chunks))]
    results = _parallel(c, jobs)
    with _LOCK:
        for part, path, res in zip(chunks, paths, results):
            expect = sum(len(t["h"]) + len(t["obs"]) + 1 for t in part)
            if res.distinct != expect:
                raise MachineryFailure(f"trace validation consumed {res.distinct} states, expected {expect}")
            c.cov["traces_validated_against_impl"] += len(part)
            for r in res.by_tag("T-FAIL"):
                t = part[r["tid"] - 1]
                ex = r["extra"] if isinstance(r["extra"], dict) else {}
                m = ex.get("model", {}) if isinstance(ex.get("model", {}), dict) else {}
                dk = f"{r['op']}:{r['s']}:{r['form']} {r['clause']} src={r['srck']}{r['srcsh']} model={m.get('k')}{m.get('sh')}{m.get('u')} nm={m.get('nm')} obs={r['k']}{r['sh']}{r['u']} nm={r['nm']} en={ex.get('en')} obj={ex.get('tobj')} vals={ex.get('tvals')} sm={ex.get('tsm')}"
                if dk in stats["driftcls"] or len(stats["driftcls"]) < 150:
                    stats["driftcls"][dk] = stats["driftcls"].get(dk, 0) + 1
                c.drift_step(r["op"] + (":" + r["s"] if r["s"] else ""), {"root": t["root"], "history": _brief(t["h"]), "step": r["l"], "clause": r["clause"], "observed": {"k": r["k"], "sh": r["sh"], "u": r["u"], "nm": r["nm"]}, "extra": r["extra"]})
            for r in res.by_tag("P-FAIL"):
                t = part[r["tid"] - 1]
                key = {f: r[f] for f in KEYF}
                stats["pfail"] += 1
                c.violation(
                    key,
                    {"root": t["root"], "lay": t["lay"], "history": _brief(t["h"]), "step": r["l"], "source": {"k": r["srck"], "sh": r["srcsh"]}, "result": {"k": r["k"], "sh": r["sh"], "u": r["u"], "nm": r["nm"]}, "extra": r["extra"]},
                    case={"root": t["root"], "lay": t["lay"], "h": t["h"]},
                )
            os.unlink(path)


def _replay_and_validate(c, cases, label, stats):
    traces = c.pmap("impl_c16", "observe", cases)
    bad = [t for t in traces if "_error" in t]
    if bad:
        raise MachineryFailure("replay error: " + json.dumps(bad[0])[:1500])
    stats["evaluations"] += sum(len(t["h"]) for t in traces)
    stats["writes"] += sum(1 for t in traces for w in t["writes"] if not w["skip"])
    for t in traces:
        for op, ob in zip(t["h"], t["obs"][1:]):
            stats["ops"][op["op"]] = stats["ops"].get(op["op"], 0) + 1
            if op["op"] == "copy":
                # call form x layout of the data the call meets (measured; vacuity guard in run())
                form = ("copy(%s)" if op["a"] else "copy(order=%s)") % op["s"] if op["s"] else "copy()"
                srcob = t["obs"][int(op["src"]) - 1]
                layc = "0-d/1-d" if len(srcob["sh"]) <= 1 else "C" if srcob["cc"] else "F/strided"
                stats["ops"][form + " on " + layc] = stats["ops"].get(form + " on " + layc, 0) + 1
            if ob["k"] in ("Q", "A") and (ob["sh"] == [] or 1 in ob["sh"] or 0 in ob["sh"]):
                stats["nontrivial"] += 1
            elif any(ob["sm"]):
                stats["nontrivial"] += 1
    _validate(c, traces, label, stats)


def _newstats():
    return {"evaluations": 0, "nontrivial": 0, "writes": 0, "ops": {}, "pfail": 0, "driftcls": {}}


def _single(c, stats):
    """single-call table over all root shapes; the roots are partitioned over parallel TLC runs"""
    src = c.q("MC_C16_single", "MC_C16_single_thorough")
    ns = max(1, min(NCPU, 8))
    jobs = []
    for k in range(ns):
        cfg = open(c.spec + f"/{src}.cfg").read().replace("Slice = 0", f"Slice = {k}").replace("NSlices = 1", f"NSlices = {ns}")
        open(c.spec + f"/MC_C16_single_run{k}.cfg", "w").write(cfg)
        jobs.append(("MC_C16", f"MC_C16_single_run{k}", dict(workers=1, coverage=False, label=f"single-call table ({src}) slice {k}/{ns}", timeout=3000)))
    results = _parallel(c, jobs)
    recs = [r for res in results for r in res.by_tag("H")]
    if len(recs) < 1000:
        raise MachineryFailure("too few histories exported")
    recs.sort(key=lambda r: json.dumps([r["root"], r["lay"], r["h"]], sort_keys=True))
    cases = [{"root": r["root"], "lay": r["lay"], "h": r["h"]} for r in recs]
    model_bad = {}
    for r in recs:
        for b in r["bad"]:
            k = f"{b['op']}{':' + b['s'] if b['s'] else ''} {b['srck']}->{b['k']} shape={b['sh']}"
            model_bad[k] = model_bad.get(k, 0) + 1
    c.cov["model_level_class_violations"] = dict(sorted(model_bad.items())[:60])
    c.cov["bound"].update({"single": src, "roots": len({json.dumps(x["root"]) for x in cases}), "single_cases": len(cases)})
    c.cov["samples"].append({"root": cases[len(cases) // 2]["root"], "history": _brief(cases[len(cases) // 2]["h"])})
    _replay_and_validate(c, cases, "single", stats)


def _hist(c, stats):
    """deeper histories on a few roots: exhaustive to Depth, then simulation beyond"""
    depth = c.q(2, 3)
    cfgt = open(c.spec + "/MC_C16_hist.cfg").read().replace("Depth = 3", "Depth = 2")
    open(c.spec + "/MC_C16_hist_run.cfg", "w").write(cfgt)
    res = c.tlc("MC_C16", "MC_C16_hist_run", workers=1, label="object-graph histories, exhaustive depth 2", required_actions=["Next"], timeout=3000)
    cases = [{"root": r["root"], "lay": r["lay"], "h": r["h"]} for r in res.by_tag("H")]
    if depth > 2:
        # depth 3 with two constructors, the 8 roots partitioned over parallel TLC runs
        ns = max(1, min(NCPU, 4))
        jobs = []
        for k in range(ns):
            cfg3 = open(c.spec + "/MC_C16_hist.cfg").read().replace("Depth = 3", f"Depth = {depth}").replace('Ctors = {"ctor_a", "ctor_am", "ctor_q", "mul_unit"}', 'Ctors = {"ctor_a", "ctor_q"}').replace('Layouts = {"C", "F", "col"}', 'Layouts = {"C", "F"}')
            cfg3 = cfg3.replace("Slice = 0", f"Slice = {k}").replace("NSlices = 1", f"NSlices = {ns}")
            open(c.spec + f"/MC_C16_hist3_run{k}.cfg", "w").write(cfg3)
            jobs.append(("MC_C16", f"MC_C16_hist3_run{k}", dict(workers=1, label=f"object-graph histories, exhaustive depth {depth} slice {k}/{ns}", timeout=3000)))
        recs = [r for res3 in _parallel(c, jobs) for r in res3.by_tag("H")]
        recs.sort(key=lambda r: json.dumps([r["root"], r["lay"], r["h"]], sort_keys=True))
        cases += [{"root": r["root"], "lay": r["lay"], "h": r["h"]} for r in recs]
    c.cov["bound"].update({"hist_depth": depth, "hist_cases": len(cases)})
    if cases:
        c.cov["samples"].append({"root": cases[len(cases) // 3]["root"], "history": _brief(cases[len(cases) // 3]["h"])})
    _replay_and_validate(c, cases, "hist", stats)

    n_sim = c.q(40, 300)
    sdepth = c.q(5, 6)
    cfgt = open(c.spec + "/MC_C16_hist.cfg").read().replace("Depth = 3", f"Depth = {sdepth}").replace("INVARIANT Export", "INVARIANT ExportAny")
    open(c.spec + "/MC_C16_sim.cfg", "w").write(cfgt)
    res = c.tlc("MC_C16", "MC_C16_sim", workers=1, simulate=n_sim, depth=sdepth + 1, label=f"object-graph histories, simulation depth {sdepth}", timeout=3000)
    sims = [{"root": r["root"], "lay": r["lay"], "h": r["h"]} for r in res.by_tag("H") if len(r["h"]) >= 3]
    # the simulator evaluates the exporting invariant on every successor of each visited state: keep a seeded sample per family
    rnd = random.Random(c.seed)
    fam = {}
    for x in sims:
        fam.setdefault(json.dumps([x["root"], x["lay"], x["h"][:-1]], sort_keys=True), []).append(x)
    sims = [x for k in sorted(fam) for x in rnd.sample(fam[k], min(2, len(fam[k])))]
    cap = c.q(3000, 40000)
    if len(sims) > cap:
        sims = rnd.sample(sims, cap)
    if sims:
        c.cov["samples"].append({"root": sims[0]["root"], "simulated_history": _brief(sims[0]["h"])})
        _replay_and_validate(c, sims, "sim", stats)
    c.cov["simulated_histories"] = len(sims)


def _mixed(c, stats):
    """mixed-unit lists: every unit pattern (lengths 2-4, repeating and offset units) x call form x a few roots"""
    ns = max(1, min(NCPU, 3))
    jobs = []
    for k in range(ns):
        cfg = open(c.spec + "/MC_C16_mixed.cfg").read().replace("Slice = 0", f"Slice = {k}").replace("NSlices = 1", f"NSlices = {ns}")
        if c.tier == "quick":
            cfg = cfg.replace('Layouts = {"C", "F"}', 'Layouts = {"C"}').replace("MixQuick = FALSE", "MixQuick = TRUE")
        open(c.spec + f"/MC_C16_mixed_run{k}.cfg", "w").write(cfg)
        jobs.append(("MC_C16", f"MC_C16_mixed_run{k}", dict(workers=1, coverage=False, label=f"mixed-unit lists slice {k}/{ns}", timeout=3000)))
    recs = [r for res in _parallel(c, jobs) for r in res.by_tag("H")]
    if len(recs) < 500:
        raise MachineryFailure("too few mixed-list cases exported")
    recs.sort(key=lambda r: json.dumps([r["root"], r["lay"], r["h"]], sort_keys=True))
    cases = [{"root": r["root"], "lay": r["lay"], "h": r["h"]} for r in recs]
    c.cov["bound"].update({"mixed_cases": len(cases)})
    c.cov["samples"].append({"root": cases[len(cases) // 2]["root"], "history": _brief(cases[len(cases) // 2]["h"])})
    _replay_and_validate(c, cases, "mixed", stats)


def _suite(c, stats):
    """code -> spec: the repository's own test-suite against the event predicate P16"""
    import suite

    fails = suite.validate(c, ["P16"])
    with _LOCK:
        for r, e in fails:
            c.violation({"source": "suite", "pred": r["pred"], "fn": e["fn"], "method": e["method"], "exc": e["exc"]}, suite.brief(e), case={"suite_event": e})


def run(ck):
    ck.level = "model_checking"
    ck.assumptions += [
        "shapes of rank 0-3 with extents 0-3 (85 roots; the quick tier takes rank-3 roots over extents 0-2); values 1..n (float64) so every observation is an exact integer; units km/m/cm (integral factors)",
        "index alphabet: ints {0,-1,1}, named slices, integer-array indices, boolean masks, ellipsis, newaxis, scalar bool; at most one advanced index per expression, never mixed with integers; at most 2 (rank 3: 1) axes carry something else than ':'",
        "the class rule is judged on calls whose input obeys it and whose class the caller did not name (explicit constructors are exempt)",
        "memory sharing of reshape is demanded only for C-contiguous parents; of indexing only for basic indexing with a result of rank >= 1",
        "known findings are matched on (clause, call, function, index form / partner, source class, result class, shape class)",
    ]
    if ck.replay:
        stats = _newstats()
        blob = json.load(open(ck.replay))
        case = blob["case"]
        if "suite_event" in case:
            import suite

            fails = suite.validate(ck, ["P16"], events=[case["suite_event"]], label="replay")
            for r, e in fails:
                ck.violation({"source": "suite", "pred": r["pred"], "fn": e["fn"], "method": e["method"], "exc": e["exc"]}, suite.brief(e), case={"suite_event": e})
            return
        _replay_and_validate(ck, [case], "replay", stats)
        return

    if "VERIF_XMX" not in os.environ or os.environ["VERIF_XMX"].lower() not in ("1g", "2g", "3g"):
        os.environ["VERIF_XMX"] = "3g"  # several JVMs run side by side (this process only)
    parts = [("single", _single, _fork(ck, 100000), _newstats()), ("hist", _hist, _fork(ck, 200000), _newstats()), ("suite", _suite, _fork(ck, 300000), _newstats()), ("mixed", _mixed, _fork(ck, 400000), _newstats())]
    with cf.ThreadPoolExecutor(max_workers=4) as ex:
        futs = [ex.submit(f, c, st) for _, f, c, st in parts]
        errs = []
        for fu in futs:
            try:
                fu.result()
            except Exception as e:  # noqa: BLE001
                errs.append(e)
    if errs:
        raise errs[0]
    stats = _newstats()
    for _, _, c, st in parts:
        _merge(ck, c)
        for k in ("evaluations", "nontrivial", "writes", "pfail"):
            stats[k] += st[k]
        for k, v in st["ops"].items():
            stats["ops"][k] = stats["ops"].get(k, 0) + v
        for k, v in st["driftcls"].items():
            stats["driftcls"][k] = stats["driftcls"].get(k, 0) + v
    # vacuity guard (the table runs without TLC's coverage statistics): every call form of copy() met every class of
    # data layout
    need = ["copy()"] + ["copy(order=%s)" % o for o in "CFAK"] + ["copy(%s)" % o for o in "CFAK"]
    miss = [f + " on " + lc for f in need for lc in ("0-d/1-d", "C", "F/strided") if not stats["ops"].get(f + " on " + lc) and not (f.startswith("copy(") and "=" not in f and f != "copy()" and lc == "F/strided")]
    if miss:
        raise MachineryFailure("copy() call forms not generated: " + ", ".join(miss))
    ck.cov["exhaustive"] = True
    ck.cov["evaluations"] = stats["evaluations"]
    ck.cov["distinct_nontrivial"] = stats["nontrivial"]
    ck.cov["rule"] = "calls replayed; non-trivial = the result is a unyt object of shape (), of size 1 or empty (where the class decisions differ), or shares memory with an earlier object"
    ck.cov["writes_observed"] = stats["writes"]
    ck.cov["calls_by_op"] = dict(sorted(stats["ops"].items()))
    ck.cov["drift_classes"] = dict(sorted(stats["driftcls"].items()))
