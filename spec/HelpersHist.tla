----------------------------- MODULE HelpersHist -----------------------------
(* Histories of calls of the closeness/equality helpers over a small pool of  *)
(* operand OBJECTS that are reused (property C19).                            *)
(*                                                                            *)
(* An object is [k, dt, x, u, view]: kind "q" (unyt_quantity), "arr"          *)
(* (unyt_array) or "ba" (bare ndarray); dtype "float64"/"float32"; readings;  *)
(* unit name ("bare"); view = it is the slice [1:1+n] of a larger array whose *)
(* other elements are `Pad`.  A step is one helper call                        *)
(*   [helper, a, d, rea, red, rt, at]                                         *)
(* a, d: index of the pool object passed as actual/desired (the same object   *)
(* may be passed twice); rea/red # "": the operand handed over is             *)
(* `obj.to(rea)`, re-expressed at the moment of the call.                     *)
(*                                                                            *)
(* P, per step: (1) the verdict is the one Helpers!P demands for the          *)
(* quantities the operands are SUPPOSED to denote - the objects' original     *)
(* numbers and units - whatever was called before; (2) the helpers are pure:  *)
(* after the call every pool object has its original numbers, unit label and  *)
(* dtype, and so has the base array behind a view.                            *)
(* T: the helpers are pure in today's code, so the transition is Helpers!T on *)
(* the denoted case and an unchanged pool.                                    *)
EXTENDS Helpers

Obj(k, dt, x, u, view) == [k |-> k, dt |-> dt, x |-> x, u |-> u, view |-> view]
Pad == <<R(7), R(9)>>            \* first and last element of the larger array behind a view
BaseOf(ob) == IF ob.view THEN <<Pad[1]>> \o ob.x \o <<Pad[2]>> ELSE ob.x

\* the operand a step hands to the helper, as the quantity it is supposed to denote
OperandX(ob, re) == IF re = "" THEN ob.x ELSE [i \in DOMAIN ob.x |-> ToUnit(ob.x[i], ob.u, re)]
OperandU(ob, re) == [i \in DOMAIN ob.x |-> IF re = "" THEN ob.u ELSE re]
StepCase(pool, st) ==
  [helper |-> st.helper, reg |-> "dy", ka |-> pool[st.a].k, kd |-> pool[st.d].k,
   a |-> OperandX(pool[st.a], st.rea), au |-> OperandU(pool[st.a], st.rea),
   d |-> OperandX(pool[st.d], st.red), du |-> OperandU(pool[st.d], st.red), rt |-> st.rt, at |-> st.at,
   sa |-> [i \in DOMAIN pool[st.a].x |-> ""], sd |-> [i \in DOMAIN pool[st.d].x |-> ""], en |-> ""]

\* (2) purity: snapshot sn = <<[x, u, dt, base] per pool object>> taken after the call
\* readings are normalised rationals on both sides; plain equality (the harness encodes an unrepresentable float by a sentinel)
SeqEq(xs, ys) == Len(xs) = Len(ys) /\ \A i \in DOMAIN xs : xs[i] = ys[i]
StateOf(ob) == [x |-> ob.x, u |-> ob.u, dt |-> ob.dt, base |-> BaseOf(ob)]
\* what differs between the state pv of an object before a call and its snapshot s after it
ChangedFrom(pv, s) ==
  IF ~SeqEq(pv.x, s.x) THEN "numbers"
  ELSE IF s.u # pv.u THEN "unit"
  ELSE IF s.dt # pv.dt THEN "dtype"
  ELSE IF ~SeqEq(pv.base, s.base) THEN "base-array"
  ELSE ""
Changed(ob, s) == ChangedFrom(StateOf(ob), s)
\* the role the changed object played in the call
Role(st, i) == IF st.a = i /\ st.d = i THEN "both" ELSE IF st.a = i THEN "actual" ELSE IF st.d = i THEN "desired" ELSE "bystander"
THistOk(pool, st, o, sn) == TOk(StepCase(pool, st), o) /\ \A i \in DOMAIN pool : Changed(pool[i], sn[i]) = ""
=============================================================================
