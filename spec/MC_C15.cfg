CONSTANT CfgSel = "all"
CONSTANT PairAll = FALSE
CONSTANT CodeInTable = FALSE
INIT Init
NEXT Next
INVARIANT Export
INVARIANT Tables
CHECK_DEADLOCK FALSE
