"""Replay of Parser.tla cases in real unyt (C20).

Runs inside the pmap workers.  Every case is executed in a forked child of the
worker under a wall-clock limit, so that a non-terminating parse becomes the
outcome "Hang" (the child is killed and re-forked) and never stalls the check.

observe(case):
  k = "ast": {"a": prefix tree, "sp": spellings with {k} name placeholders, "sem": [[e]] over name indices}
       -> per spelling the projection of Unit(spelling); print/re-read observations ("rt") for the units
          obtained from spellings 1 and 6 and from unit arithmetic on the same tree (plain / simplify /
          base equivalent)
  k = "tok": {"s": the joined string} -> outcome + foreign evaluations
  k = "str": {"s": string}            -> outcome + foreign evaluations + primitive lexical classes
Projection only: exponent vectors over the name table, rationals, 12x dimension
vectors, repr of offsets, booleans from float tolerance matching."""

import builtins
import dis
import io
import math
import os
import pickle
import select
import signal
import struct
import sys
import time
import tokenize
from fractions import Fraction

_U = {}
LIMIT = float(os.environ.get("VERIF_C20_LIMIT", "6.0"))  # per-case limit: CPU seconds of the child
VOCAB = {"Symbol", "Integer", "Float", "Rational", "sqrt"}
DANGER = {
    "LOAD_ATTR", "LOAD_METHOD", "LOAD_SUPER_ATTR", "IMPORT_NAME", "IMPORT_FROM", "MAKE_FUNCTION", "STORE_NAME", "STORE_GLOBAL",
    "STORE_FAST", "STORE_ATTR", "STORE_SUBSCR", "STORE_DEREF", "DELETE_NAME", "DELETE_GLOBAL", "DELETE_FAST", "DELETE_ATTR",
    "DELETE_SUBSCR", "LOAD_BUILD_CLASS", "YIELD_VALUE", "GET_AWAITABLE",
}
EXPR_FILE = "<unyt-verif-expr>"
DIMLESS = 9999  # index standing for the symbol "dimensionless" when it is not a row of the name table
_events = []


# ----------------------------------------------------------------------------
# instrumentation: what does the evaluated expression resolve / execute?
# ----------------------------------------------------------------------------
class _Rec(dict):
    """locals mapping handed to eval(): records every name the expression looks up."""

    def __init__(self, base):
        super().__init__(base or {})
        self.names = []

    def __getitem__(self, k):
        self.names.append(k)
        return dict.__getitem__(self, k)


def _install():
    import sympy.parsing.sympy_parser as sp

    if getattr(sp.eval_expr, "_verif", False):
        return
    orig = sp.eval_expr
    opname = dis.opname

    def local(frame, event, arg):
        if event == "opcode":
            last = _state.get(id(frame))
            if last in DANGER:
                _events.append("op:" + last)
            _state[id(frame)] = opname[frame.f_code.co_code[frame.f_lasti]]
        elif event == "exception":
            _state[id(frame)] = None
        elif event == "return":
            last = _state.pop(id(frame), None)
            if arg is not None and last in DANGER:
                _events.append("op:" + last)
        return local

    def tracer(frame, event, arg):
        if frame.f_code.co_filename == EXPR_FILE:
            frame.f_trace_opcodes = True
            return local
        return None

    _state = {}

    def profiler(frame, event, arg):
        # calls made BY the evaluated expression: C functions (abs, len, exec, __import__ ...) and Python
        # functions that do not belong to sympy (the vocabulary's callables and operators all do)
        if event == "c_call":
            if frame.f_code.co_filename == EXPR_FILE:
                _events.append("call:" + ascii(getattr(arg, "__qualname__", type(arg).__name__)).strip("'"))
        elif event == "call":
            back = frame.f_back
            if back is not None and back.f_code.co_filename == EXPR_FILE and frame.f_code.co_filename != EXPR_FILE:
                mod = str(frame.f_globals.get("__name__", ""))
                if not (mod == "sympy" or mod.startswith("sympy.") or mod == __name__):
                    _events.append("call:" + ascii(mod + "." + frame.f_code.co_qualname).strip("'"))

    def eval_expr(code, local_dict, global_dict):
        rec = _Rec(local_dict)
        co = code
        if isinstance(code, str):
            co = compile(code, EXPR_FILE, "eval")
        old = sys.gettrace()
        oldp = sys.getprofile()
        sys.settrace(tracer)
        sys.setprofile(profiler)
        try:
            return eval(co, global_dict, rec)  # noqa: S307 - this is sympy's own eval_expr, instrumented
        finally:
            sys.setprofile(oldp)
            sys.settrace(old)
            _state.clear()
            bi = global_dict.get("__builtins__", builtins)
            bi = bi if isinstance(bi, dict) else vars(bi)
            for n in rec.names:
                if n in VOCAB:
                    continue
                if dict.__contains__(rec, n) or n in global_dict or n in bi:
                    _events.append("name:" + ascii(n).strip("'"))

    eval_expr._verif = True
    eval_expr._orig = orig
    sp.eval_expr = eval_expr
    # warm-up: the first opcode-traced frame of a process does not deliver opcode events yet (CPython 3.12
    # switches instruction monitoring on lazily); make sure no real case is that first frame
    for _ in range(3):
        try:
            eval_expr("(1).real", {}, {})
        except Exception:  # noqa: BLE001
            pass
    warm = "op:LOAD_ATTR" in _events
    del _events[:]
    if not warm:
        raise RuntimeError("opcode tracing of evaluated expressions is not working")


# ----------------------------------------------------------------------------
# setup / tables
# ----------------------------------------------------------------------------
def setup(common=None):
    import sympy
    import unyt
    from unyt import dimensions
    from unyt.exceptions import UnitParseError
    from unyt.unit_object import Unit
    from unyt.unit_registry import UnitRegistry

    _U.update(unyt=unyt, Unit=Unit, UPE=UnitParseError, sympy=sympy, dims=dimensions, UnitRegistry=UnitRegistry)
    _install()
    reg = UnitRegistry()
    for sym, val, dim, pfx in CUSTOM:
        reg.add(sym, val, getattr(dimensions, dim), prefixable=pfx)
    _U["reg"] = reg
    _U["base"] = list(dimensions.base_dimensions)
    if common and "names" in common:
        names = common["names"]
        _U["names"] = names
        _U["idx"] = {r["s"]: i + 1 for i, r in enumerate(names)}


CUSTOM = [("code_length", 3.5, "length", False), ("foo_bar", 7.0, "time", True)]


def _dimvec(dim):
    sympy = _U["sympy"]
    base = _U["base"]
    vec = [0] * len(base)
    if dim == 1:
        return vec
    try:
        pd = sympy.sympify(dim).as_powers_dict()
    except Exception:  # noqa: BLE001
        return []
    for b, e in pd.items():
        if b.is_Number:
            continue
        try:
            i = base.index(b)
        except ValueError:
            return []
        e12 = Fraction(int(e.p), int(e.q)) * 12 if getattr(e, "is_Rational", False) else None
        if e12 is None or e12.denominator != 1 or abs(e12) > 10**6:
            return []
        vec[i] += int(e12)
    return vec


def _resolve(s, lut, inv, prefixes):
    """Independent reading of a name: (prefix factor, base symbol, canonical symbol) or None."""
    s2 = s.replace("%", "percent").replace("°", "deg")
    s3 = inv.get(s2, s2)
    if s3 in lut:
        return 1.0, s3, s3
    for p in sorted(prefixes, key=len, reverse=True):
        if s3.startswith(p) and s3[len(p):] in lut and lut[s3[len(p):]][4]:
            return prefixes[p][0], s3[len(p):], s3
    return None


# names whose scale is extreme (first: the plain numerator g) - the magnitude instance of MC_C20
MAG_NAMES = ["g", "Mpc", "Gpc", "Gyr", "Ym", "ym", "amu", "eV", "km"]

MC_SPELLINGS = [
    # (spelling, alternative spelling, kind)
    ("m", "meter", "plain"),
    ("s", "second", "plain"),
    ("km", "kilometer", "prefixed"),
    ("µm", "um", "unicode"),
    ("degC", "°C", "offset"),
    ("ohm", "Ω", "unicode"),
    ("g", "gram", "plain"),
    ("Å", "angstrom", "unicode"),
    ("code_length", "code_length", "custom"),
    ("°", "degree", "unicode"),
    ("percent", "%", "unicode"),
    ("delta_degC", "delta_degC", "offset"),
    ("degF", "°F", "offset"),
    ("kfoo_bar", "kfoo_bar", "custom"),
    ("K", "kelvin", "plain"),
    ("μs", "us", "unicode"),
    ("dyn", "dyne", "plain"),
    ("lon", "lon", "offset"),
]


def build_tables(case):
    """names tables for TLC: the small model table (MC) and the sweep over every documented name."""
    from unyt._unit_lookup_table import inv_name_alternatives as inv
    from unyt._unit_lookup_table import unit_prefixes as prefixes

    Unit = _U["Unit"]
    out = {}
    for which in ("mc", "sweep", "mag"):
        lut = dict(_U["reg"].lut)
        if which == "mc":
            strings = [a for a, _b, _k in MC_SPELLINGS] + [b for _a, b, _k in MC_SPELLINGS]
        elif which == "mag":
            strings = list(MAG_NAMES)
        else:
            from unyt._unit_lookup_table import default_unit_symbol_lut

            strings = list(default_unit_symbol_lut)
            base = [k for k in strings if lut[k][4]]
            strings += [p + k for k in base for p in prefixes]
            strings += list(inv)
            strings += ["°", "°C", "°F", "%", "°R"] + [c[0] for c in CUSTOM] + ["kfoo_bar", "µfoo_bar"]
        seen = {}
        excluded = []
        for s in strings:
            if s in seen or not s:
                continue
            r = _resolve(s, lut, inv, prefixes)
            if r is None:
                excluded.append(s)
                continue
            seen[s] = r
        # canonical atoms must be rows as well
        for s, r in list(seen.items()):
            if r[2] not in seen:
                seen[r[2]] = _resolve(r[2], lut, inv, prefixes)
        order = list(seen)
        index = {s: i + 1 for i, s in enumerate(order)}
        classes = {}
        members = {}
        for s in order:
            f, b, _c = seen[s]
            key = (repr(float(f)), b)
            classes.setdefault(key, len(classes) + 1)
            members.setdefault(key, []).append(s)
        kinds = {a: k for a, b, k in MC_SPELLINGS}
        alts = {a: b for a, b, _k in MC_SPELLINGS}
        alts.update({b: a for a, b, _k in MC_SPELLINGS})
        rows = []
        for s in order:
            f, b, c = seen[s]
            key = (repr(float(f)), b)
            mem = members[key]
            alt = alts.get(s) if which == "mc" else mem[(mem.index(s) + 1) % len(mem)]
            row = lut[b]
            custom = b in [x[0] for x in CUSTOM]
            rows.append(
                {
                    "s": s,
                    "cls": classes[key],
                    "atom": DIMLESS if c == "dimensionless" else index[c],
                    "alt": index.get(alt, index[s]),
                    "dim": _dimvec(row[1]),
                    "off": repr(float(row[2])),
                    "kind": "custom" if custom else kinds.get(s, "plain" if f == 1.0 else "prefixed"),
                    "scale": repr(float(f) * float(row[0])),
                    "lg": int(round(1000 * math.log10(abs(float(f) * float(row[0]))))) if float(f) * float(row[0]) != 0 else 0,
                    "custom": custom,
                }
            )
        out[which] = {"rows": rows, "excluded": excluded}
    _ = Unit
    return out


# ----------------------------------------------------------------------------
# projections
# ----------------------------------------------------------------------------
def _small(n):
    return abs(int(n)) < 2**31


def _float_rat(coef):
    try:
        fr = Fraction(str(coef))
    except (ValueError, ZeroDivisionError):
        return None
    if fr.denominator < 2**31 and abs(fr.numerator) < 2**31:
        return [fr.numerator, fr.denominator]
    return None


def _proj(u, scale_ref):
    """exact projection of a Unit + tolerance match of its scale against scale_ref."""
    sympy = _U["sympy"]
    idx = _U["idx"]
    expr = u.expr
    coef, rest = expr.as_coeff_Mul()
    vec = []
    cf = bool(coef == 1) and rest != 1  # a pure number (expr 1 prints as "dimensionless") is not "coefficient free"
    exact = True
    if rest != 1:
        for b, e in rest.as_powers_dict().items():
            if isinstance(b, sympy.Symbol) and getattr(e, "is_Rational", False) and _small(e.p) and _small(e.q):
                vec.append([DIMLESS if b.name == "dimensionless" else idx.get(b.name, 0), int(e.p), int(e.q)])
            else:
                cf = False
                exact = False
    vec.sort()
    if getattr(coef, "is_Rational", False) and _small(coef.p) and _small(coef.q):
        cj = [int(coef.p), int(coef.q)]
    elif getattr(coef, "is_Float", False) and _float_rat(coef) is not None:
        cj = _float_rat(coef)  # a Float coefficient (left by simplify) is projected through its printed decimal
    else:
        cj = [0, 1]
        exact = False
    bv = float(u.base_value)
    sc = False
    if scale_ref is not None:
        sc = _same_scale(bv, float(scale_ref), 1e-9)
    return {"o": "Ok", "vec": vec, "coef": cj, "cf": cf, "exact": exact, "dim": _dimvec(u.dimensions), "off": repr(float(u.base_offset)), "sc": bool(sc)}


def _fail(o):
    return {"o": o, "vec": [], "coef": [0, 1], "cf": False, "exact": False, "dim": [], "off": "", "sc": False}


def _construct(s, reg):
    """Unit(s) -> (outcome, unit or None)."""
    Unit = _U["Unit"]
    try:
        u = Unit(s) if reg is None else Unit(s, registry=reg)
        return "Ok", u
    except _U["UPE"]:
        return "UnitParseError", None
    except Exception as e:  # noqa: BLE001 - the exception class is the observation
        return type(e).__name__, None


def _expected_scale(sem, names):
    x = float(Fraction(sem["coef"][0], sem["coef"][1]))
    for k, n, d in sem["vec"]:
        try:
            x *= float(names[k - 1]["scale"]) ** (n / d)
        except OverflowError:
            x *= math.inf
    return x


def _same_scale(a, b, rel):
    """float tolerance match; two infinities of one sign, two zeros and two NaNs count as the same scale."""
    if math.isnan(a) or math.isnan(b):
        return math.isnan(a) and math.isnan(b)
    return a == b or math.isclose(a, b, rel_tol=rel, abs_tol=0.0)


def _fill(sp, names):
    import re

    return re.sub(r"\{(\d+)\}", lambda m: names[int(m.group(1)) - 1]["s"], sp)


def _arith(a, names, reg, coefs, exps):
    Unit = _U["Unit"]
    pos = [0]

    def mk(s):
        return Unit(s) if reg is None else Unit(s, registry=reg)

    def go():
        t = a[pos[0]]
        pos[0] += 1
        if t > 10000:
            return mk(names[t - 10001]["s"])
        if 200 < t < 300:
            n, d = coefs[t - 201]
            return mk(str(n) if d == 1 else f"{n}/{d}")
        if t == 1:
            x = go()
            return x * go()
        if t == 2:
            x = go()
            return x / go()
        if t == 3:
            return go() ** 0.5
        n, d = exps[t - 301]
        x = go()
        return x ** (n if d == 1 else n / d)

    return go()


def _reread(u, via, reg):
    text = str(u) if via == "str" else repr(u)
    o, u2 = _construct(text, reg)
    if u2 is None:
        r = _fail(o)
        r.update(same=False, hash=False)
    else:
        r = _proj(u2, float(u.base_value))
        try:
            same = bool(u2.expr == u.expr)
            hsh = bool(hash(u2) == hash(u))
        except Exception:  # noqa: BLE001
            same, hsh = False, False
        r.update(same=same, hash=hsh)
    return ascii(text), r


def _micro_alias(u):
    """keying aid: does the expression hold a micro-prefixed symbol spelled with 'u' or U+00B5 (not U+03BC)?"""
    lut = _U["reg"].lut
    for a in u.expr.atoms(_U["sympy"].Symbol):
        n = a.name
        if n[:1] in ("u", "\u00b5") and n[1:] in lut and lut[n[1:]][4]:
            return True
    return False


def _observe_ast(case):
    names = _U["names"]
    a = case["a"]
    custom = any(t > 10000 and names[t - 10001]["custom"] for t in a)
    reg = _U["reg"] if custom else None
    want = _expected_scale(case["sem"], names)
    sp = []
    units = {}
    texts = []
    memo = {}
    for j, s in enumerate(case["sp"]):
        text = _fill(s, names)
        texts.append(ascii(text))
        if text not in memo:  # the same text parses the same way: construct once per case
            o, u = _construct(text, reg)
            memo[text] = (_fail(o), None) if u is None else (_proj(u, want), u)
        sp.append(dict(memo[text][0]))
        if memo[text][1] is not None:
            units["sp%d" % (j + 1)] = memo[text][1]
    rt = []
    srcs = [("sp1", units.get("sp1")), ("sp6", units.get("sp6"))] + [("sp%d" % j, units.get("sp%d" % j)) for j in range(7, len(case["sp"]) + 1)]
    try:
        base = _arith(a, names, reg, case["coefs"], case["exps"])
        srcs.append(("arith-none", base))
        for post in ("simplify", "base"):
            try:
                # Unit.simplify() works in place and returns self: use a fresh object
                v = _arith(a, names, reg, case["coefs"], case["exps"]).simplify() if post == "simplify" else base.get_base_equivalent()
                srcs.append(("arith-" + post, v))
            except Exception:  # noqa: BLE001 - no unit obtained: nothing to re-read
                pass
    except Exception:  # noqa: BLE001
        pass
    done = set()
    srepr = _U["sympy"].srepr
    for src, u in srcs:
        if u is None:
            continue
        sig = (srepr(u.expr), repr(u.base_value), repr(u.base_offset), str(u.dimensions))
        if sig in done and src != "arith-none":  # an identical unit object was already printed and re-read in this case
            continue
        done.add(sig)
        pu = _proj(u, float(u.base_value))
        for via in ("str", "repr"):
            text, r = _reread(u, via, reg)
            rt.append({"src": src, "via": via, "text": text, "u": pu, "r": r, "micro": _micro_alias(u)})
    negscale = any(t > 10000 and float(names[t - 10001]["scale"]) < 0 for t in a)
    return {"k": "ast", "a": a, "st": case["st"], "sem": case["sem"], "sp": sp, "rt": rt, "texts": texts, "negscale": negscale}


PRIM_OPS = {"*": "mul", "/": "div", "**": "pow", "(": "lp", ")": "rp", "-": "minus", "+": "plus", ",": "comma", ".": "dot", "[": "lb", "]": "rb", "=": "eq", ":": "colon"}


def _prim(s):
    """primitive lexical classes of a string (Python's tokeniser projected onto Parser.tla's classes)."""
    out = []
    s = s.replace("%", "percent").replace("\u00b0", "deg")  # the parser's own textual rewriting comes first
    try:
        for tok in tokenize.generate_tokens(io.StringIO(s).readline):
            if tok.type == tokenize.NAME:
                out.append("sqrt" if tok.string == "sqrt" else "callable" if tok.string in VOCAB else "name")
            elif tok.type == tokenize.NUMBER:
                t = tok.string.lower().replace("_", "")
                if t.isdigit():
                    out.append("bignum" if int(t) >= 9 else "num")
                else:
                    out.append("frac")
            elif tok.type == tokenize.OP:
                out.append(PRIM_OPS.get(tok.string, "op"))
            elif tok.type == tokenize.STRING:
                out.append("str")
            elif tok.type == tokenize.ERRORTOKEN and tok.string.strip():
                out.append("op")
    except Exception:  # noqa: BLE001 - tokenisation stops at the first lexical error
        pass
    merged = []
    for c in out:  # sympy's untokenize glues "* *" into "**"
        if c == "mul" and merged and merged[-1] == "mul":
            merged[-1] = "pow"
        elif c == "div" and merged and merged[-1] == "div":
            merged[-1] = "floordiv"
        else:
            merged.append(c)
    return merged[:60]


def _observe_string(case):
    del _events[:]
    o, _u = _construct(case["s"], None)
    ev = sorted(set(_events))
    out = {"k": case["k"], "o": o, "ev": ev}
    if case["k"] == "tok":
        out["t"] = case["t"]
        out["j"] = case["j"]
    else:
        out["cs"] = _prim(case["s"])
    return out


def _observe_py(case):
    """Python-corner string with the parser warm (eval() has planted __builtins__ in the shared dict) or cold."""
    import unyt._parsing as up

    if case["warm"]:
        _construct("m", None)
        warm = "__builtins__" in up.global_dict
    else:
        up.global_dict.pop("__builtins__", None)
        warm = False
    del _events[:]
    o, _u = _construct(case["s"], None)
    ev = sorted(set(_events))
    return {"k": "py", "h": case["h"], "tr": case["tr"], "w": case["w"], "warm": case["warm"], "iswarm": warm, "o": o, "ev": ev}


# ---- persistence ------------------------------------------------------------
class _FakeAttrs(dict):
    pass


class _FakeDataset:
    def __init__(self, data):
        import numpy as np

        self._d = np.array(data)
        self.attrs = _FakeAttrs()

    shape = property(lambda self: self._d.shape)
    dtype = property(lambda self: self._d.dtype)

    def __getitem__(self, k):
        return self._d[k]

    def __setitem__(self, k, v):
        import numpy as np

        self._d[k] = np.asarray(v)


class _FakeGroup(dict):
    def create_group(self, name):
        self[name] = _FakeGroup()
        return self[name]

    def create_dataset(self, name, data=None):
        self[name] = _FakeDataset(data)
        return self[name]


_FAKE_FILES = {}


class _FakeFile(_FakeGroup):
    """in-memory stand-in for h5py.File: only unyt's side of the HDF5 route is exercised."""

    def __new__(cls, filename, mode="r"):
        if filename not in _FAKE_FILES:
            _FAKE_FILES[filename] = _FakeGroup.__new__(cls)
            dict.__init__(_FAKE_FILES[filename])
        return _FAKE_FILES[filename]

    def __init__(self, filename, mode="r"):
        pass

    def close(self):
        pass


def _install_fake_h5py():
    import types

    if "h5py" not in sys.modules:
        mod = types.ModuleType("h5py")
        mod.File = _FakeFile
        mod.__version__ = "0-verif-stub"
        sys.modules["h5py"] = mod


def _persist_registry(rk):
    """(registry, text of the special symbol S) for a registry kind of Parser.tla."""
    d = _U["dims"]
    uq = _U["unyt"].unyt_quantity
    reg = _U["UnitRegistry"]()
    if rk == "default":
        return reg, "pc"
    if rk.startswith("uni-"):
        # default symbols whose canonical (printed) spelling is not ASCII, named here in their ASCII spelling
        return reg, {"uni-micro": "um", "uni-ohm": "ohm", "uni-angstrom": "angstrom", "uni-degree": "degC", "uni-delta": "delta_degC"}[rk]
    if rk == "user":
        reg.add("code_length", 3.5e19, d.length)
        return reg, "code_length"
    if rk == "userpfx":
        reg.add("foo_bar", 7.0, d.time, prefixable=True)
        return reg, "foo_bar"
    if rk == "usermod":
        reg.add("code_length", 3.5e19, d.length)
        reg.modify("code_length", 4.5e20)
        return reg, "code_length"
    if rk == "modify":
        reg.modify("Msun", 1.9891e30)
        return reg, "Msun"
    if rk == "modifyq":
        reg.modify("pc", uq(3.0856e16, "m"))
        return reg, "pc"
    if rk == "readd":
        reg.add("pc", 3.0856e16, d.length, prefixable=True)
        return reg, "pc"
    if rk == "mixed":
        reg.modify("pc", uq(3.0856e16, "m"))
        reg.add("code_time", 3.15e13, d.time)
        return reg, "(pc/code_time)"
    raise ValueError(rk)


def _observe_persist(case):
    import pickle as pk
    import tempfile

    unyt = _U["unyt"]
    Unit = _U["Unit"]
    rk, form, ca, rt = case["rk"], case["f"], case["ca"], case["rt"]
    reg, S = _persist_registry(rk)
    text = {"S": S, "S**2": S + "**2", "S/s": S + "/s", "kS": "k" + S, "MS**14": "M" + S + "**14"}[form]
    if form == "MS**14":
        # a scale beyond the range of a double, built by unit arithmetic (the string route is judged on the total side)
        half = Unit("M" + S, registry=reg) ** 7
        u = half * half
    else:
        u = Unit(text, registry=reg)
    if ca == "array":
        obj = unyt.unyt_array([1.0, 2.0], u)
    elif ca == "columns":
        obj = [unyt.unyt_array([4.0, 5.0], "km"), unyt.unyt_array([1.0, 2.0], u)]
    elif ca == "quantity":
        obj = unyt.unyt_quantity(3.0, u)
    else:
        obj = u
    w = {"dim": _dimvec(u.dimensions), "off": repr(float(u.base_offset)), "text": ascii(str(u))}
    try:
        stock = float(Unit(text, registry=_U["UnitRegistry"]()).base_value)
    except Exception:  # noqa: BLE001 - user symbols have no stock reading
        stock = None
    if form == "MS**14":
        stock = None  # every reading overflows: "written" and "stock" cannot be told apart
    exc = ""
    try:
        if rt.startswith("pickle"):
            back = pk.loads(pk.dumps(obj, protocol=int(rt[6:])))
        elif rt == "savetxt":
            fd, path = tempfile.mkstemp(prefix="unytverif_c20_", suffix=".txt")
            os.close(fd)
            try:
                unyt.savetxt(path, obj)
                back = unyt.loadtxt(path)
            finally:
                os.unlink(path)
            if ca == "columns":
                # the ASCII column next to it must come back as written, or the reading counts as "something else"
                other_ok = len(back) == 2 and back[0].units == obj[0].units
                back = back[1] if other_ok else back[0]
        elif rt == "string":
            back = unyt.unyt_quantity.from_string(obj.to_string(), unit_registry=reg)
        else:
            _install_fake_h5py()
            name = "c20_%d.h5" % len(_FAKE_FILES)
            obj.write_hdf5(name)
            back = type(obj).from_hdf5(name) if ca == "array" else unyt.unyt_array.from_hdf5(name)
            _FAKE_FILES.pop(name, None)
        v = back if ca == "unit" else back.units
        # the re-read text, read against the re-read registry, must denote the same unit too
        v2 = Unit(str(v), registry=v.registry)
        r = {"o": "Ok", "dim": _dimvec(v.dimensions), "off": repr(float(v.base_offset)), "sc": _which(v, v2, u, stock), "text": ascii(str(v))}
        if ca == "columns" and not other_ok:
            r["sc"] = "other"
    except Exception as e:  # noqa: BLE001 - the reader refused
        exc = type(e).__name__
        r = {"o": "Raise", "dim": [], "off": "", "sc": "", "text": ""}
    return {"k": "persist", "rk": rk, "f": form, "ca": ca, "rt": rt, "w": w, "r": r, "exc": exc}


def _which(v, v2, u, stock):
    def close(a, b):
        return _same_scale(a, b, 1e-12)

    a, b, want = float(v.base_value), float(v2.base_value), float(u.base_value)
    if close(a, want) and close(b, want):
        return "written"
    if stock is not None and (close(a, stock) or close(b, stock)):
        return "stock"
    return "other"


# ---- parsing history ----------------------------------------------------------
H_JOINERS = [" ", "", "\t"]


def _hist_warmups(x, j, kind):
    s = H_JOINERS[j - 1].join(x)
    if kind == "joiners":
        out = [jj.join(x) for jj in H_JOINERS + ["  "]]
    elif kind == "case":
        out = [s.lower(), s.upper(), s.swapcase(), s.title()]
    else:
        out = [s.strip(), " " + s, s + " ", "(" + s + ")", s.rstrip("*/( \t"), s.lstrip("*/) \t")]
    seen = []
    for w in out:
        if w != s and w not in seen:
            seen.append(w)
    return s, seen


def _hist_forms(s, reg):
    """the three call forms that hand the string to the registry's parser; projection of the unit obtained."""
    unyt = _U["unyt"]
    out = []
    first = None
    for form in ("unit", "quantity", "to"):
        try:
            if form == "unit":
                u = _U["Unit"](s, registry=reg)
                first = u
            elif form == "quantity":
                u = unyt.unyt_quantity(1.0, s, registry=reg).units
            else:
                u = unyt.unyt_quantity(3.0, "s", registry=reg).to(s).units
            out.append({"o": "Ok", "dim": _dimvec(u.dimensions), "off": repr(float(u.base_offset)), "bv": float(u.base_value)})
        except _U["UPE"]:
            out.append({"o": "UnitParseError", "dim": [], "off": "", "bv": 0.0})
        except Exception as e:  # noqa: BLE001 - the class is the observation
            out.append({"o": type(e).__name__, "dim": [], "off": "", "bv": 0.0})
    return out, first


def _hist_registry(kind):
    """a fresh registry with the contents of a kind of Parser.tla (HRegs)."""
    d = _U["dims"]
    if kind == "bare":
        reg = _U["UnitRegistry"](add_default_symbols=False)
        reg.add("a", 1.7018, d.length, prefixable=True)
        reg.add("in", 0.0254, d.length, prefixable=False)
        reg.add("s", 2.5, d.time, prefixable=False)
        return reg
    reg = _U["UnitRegistry"]()
    if kind == "plus":
        reg.add("a", 1.7018, d.length, prefixable=True)
        reg.add("in", 0.0254, d.length, prefixable=True)
    elif kind == "minus":
        reg.remove("m")
    elif kind != "default":
        raise ValueError(kind)
    return reg


def _observe_hist(case):
    if case["w"] != "foreign":
        return _observe_hist_here(case)
    # process-wide state must not travel from case to case: a cold reading is cold for the whole process
    import pickle as pk

    r, w = os.pipe()
    pid = os.fork()
    if pid == 0:
        try:
            os.close(r)
            try:
                res = _observe_hist_here(case)
            except BaseException as e:  # noqa: BLE001
                res = {"_error": type(e).__name__ + ": " + str(e)[:300]}
            with os.fdopen(w, "wb") as f:
                f.write(pk.dumps(res))
        finally:
            os._exit(0)
    os.close(w)
    with os.fdopen(r, "rb") as f:
        blob = f.read()
    os.waitpid(pid, 0)
    if not blob:
        return {"_error": "history case: the forked reader died"}
    return pk.loads(blob)


def _observe_hist_here(case):
    rk, qk = case.get("r", "default"), case.get("q", "same")
    if case["w"] == "foreign":
        s = H_JOINERS[case["j"] - 1].join(case["x"])
        warmups = [jj.join(case["x"]) for jj in H_JOINERS]
    else:
        s, warmups = _hist_warmups(case["x"], case["j"], case["w"])
    cold_reg = _hist_registry(rk)
    cold, first = _hist_forms(s, cold_reg)
    memo = True
    if first is not None:
        try:
            memo = _U["Unit"](s, registry=cold_reg) is first
        except Exception:  # noqa: BLE001
            memo = False
    warm_reg = _hist_registry(rk)
    other = warm_reg if qk == "same" else _hist_registry(qk)
    for w in warmups:
        _construct(w, other)
    warm, _f = _hist_forms(s, warm_reg)
    for c, w in zip(cold, warm):
        w["sc"] = bool(c["o"] == "Ok" and w["o"] == "Ok" and _same_scale(c["bv"], w["bv"], 1e-12))
        c["sc"] = True
    for r in cold + warm:
        r["bv"] = repr(r["bv"])
    return {"k": "hist", "t": case["t"], "j": case["j"], "w": case["w"], "r": rk, "q": qk, "s": ascii(s), "warmups": [ascii(w) for w in warmups], "cold": cold, "warm": warm, "memo": bool(memo)}


def _inner(case):
    if case["k"] == "hist":
        return _observe_hist(case)
    if case["k"] == "ast":
        return _observe_ast(case)
    if case["k"] == "py":
        return _observe_py(case)
    if case["k"] == "persist":
        return _observe_persist(case)
    return _observe_string(case)


# ----------------------------------------------------------------------------
# per-case wall-clock limit: forked child, killed on timeout
# ----------------------------------------------------------------------------
_child = {}
WALL_CAP = 60 * LIMIT
_TICK = os.sysconf("SC_CLK_TCK")


def _cpu(pid):
    """CPU seconds (user + system) consumed so far by process pid."""
    try:
        with open("/proc/%d/stat" % pid) as f:
            parts = f.read().rsplit(")", 1)[1].split()
        return (int(parts[11]) + int(parts[12])) / _TICK
    except Exception:  # noqa: BLE001
        return 0.0


def _send(fd, obj):
    b = pickle.dumps(obj)
    os.write(fd, struct.pack("<I", len(b)) + b)


def _readn(fd, n):
    buf = b""
    while len(buf) < n:
        part = os.read(fd, n - len(buf))
        if not part:
            raise EOFError
        buf += part
    return buf


def _recv(fd):
    (n,) = struct.unpack("<I", _readn(fd, 4))
    return pickle.loads(_readn(fd, n))


def _spawn():
    c2p_r, c2p_w = os.pipe()
    p2c_r, p2c_w = os.pipe()
    pid = os.fork()
    if pid == 0:
        os.close(c2p_r)
        os.close(p2c_w)
        try:
            import resource

            try:
                with open("/proc/self/statm") as f:
                    vs = int(f.read().split()[0]) * os.sysconf("SC_PAGE_SIZE")
                lim = vs + 3 * 2**30
                resource.setrlimit(resource.RLIMIT_AS, (lim, lim))
            except Exception:  # noqa: BLE001
                pass
            while True:
                case = _recv(p2c_r)
                try:
                    res = _inner(case)
                except BaseException as e:  # noqa: BLE001
                    res = {"_error": type(e).__name__ + ": " + str(e)[:300]}
                _send(c2p_w, res)
        except BaseException:  # noqa: BLE001
            pass
        finally:
            os._exit(0)
    os.close(c2p_w)
    os.close(p2c_r)
    _child.update(pid=pid, r=c2p_r, w=p2c_w)


def _kill():
    if _child:
        try:
            os.kill(_child["pid"], signal.SIGKILL)
            os.waitpid(_child["pid"], 0)
        except Exception:  # noqa: BLE001
            pass
        for k in ("r", "w"):
            try:
                os.close(_child[k])
            except OSError:
                pass
        _child.clear()


def _hang(case):
    if case["k"] == "ast":
        n = len(case["sp"])
        return {"k": "ast", "a": case["a"], "st": case["st"], "sem": case["sem"], "sp": [_fail("Hang") for _ in range(n)], "rt": [], "texts": [], "negscale": False}
    if case["k"] == "persist":
        return {"k": "persist", "rk": case["rk"], "f": case["f"], "ca": case["ca"], "rt": case["rt"], "w": {"dim": [], "off": "", "text": ""},
                "r": {"o": "Hang", "dim": [], "off": "", "sc": "", "text": ""}, "exc": "Hang"}
    if case["k"] == "hist":
        z = [{"o": "Hang", "dim": [], "off": "", "bv": "0.0", "sc": False} for _ in range(3)]
        return {"k": "hist", "t": case["t"], "j": case["j"], "w": case["w"], "r": case.get("r", "default"), "q": case.get("q", "same"), "s": "", "warmups": [], "cold": z, "warm": z, "memo": True}
    if case["k"] == "py":
        return {"k": "py", "h": case["h"], "tr": case["tr"], "w": case["w"], "warm": case["warm"], "iswarm": False, "o": "Hang", "ev": []}
    out = {"k": case["k"], "o": "Hang", "ev": []}
    if case["k"] == "tok":
        out["t"] = case["t"]
        out["j"] = case["j"]
    else:
        out["cs"] = _prim(case["s"])
    return out


def observe(case):
    if case.get("k") == "tables":
        return build_tables(case)
    if not _child:
        _spawn()
    try:
        _send(_child["w"], case)
        # the limit is on the CPU time the child spends on this case (a loaded machine must not turn a
        # trivial parse into a "Hang"); a generous wall-clock cap guards against a child blocked off-CPU
        cpu0 = _cpu(_child["pid"])
        t0 = time.time()
        while True:
            ready, _, _ = select.select([_child["r"]], [], [], 0.5)
            if ready:
                return _recv(_child["r"])
            if _cpu(_child["pid"]) - cpu0 >= LIMIT or time.time() - t0 > WALL_CAP:
                _kill()
                return _hang(case)
    except (EOFError, OSError, struct.error):
        # the child died (e.g. killed by the kernel): report as a hang-like outcome of this case
        _kill()
        out = _hang(case)
        if "o" in out:
            out["o"] = "Crash"
        return out
