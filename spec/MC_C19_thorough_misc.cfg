CONSTANTS
  Tier = "thorough"
  Part = "misc"
INIT Init
NEXT Next
INVARIANT Export
CHECK_DEADLOCK FALSE
