"""C05 - Unit objects form a consistent multiplicative algebra.

Spec: spec/UnitAlg.tla (+ MC_C05, Trace_C05, UnitAlgLaws for Apalache).
  1. MR pass: TLC enumerates the cases (law, leaves, exponents) over the dyadic model registry defined in
     MC_C05, runs the transcribed operators on each and checks the C05 predicates on the model run
     (INVARIANT ModelHolds), and exports every case with its register program.
  2. every case is executed with real Unit objects on real registries built from the exported model registry
     (harness/impl_c05.py); every register is projected (expression powers, coefficient, log2 scale, dimension
     vector, offset, registry) and the ==/hash outcomes of the law's register pairs are recorded.
  3. TLC (Trace_C05) evaluates the C05 predicates on the observed registers (P) and compares each step with the
     transcribed operator applied to the observed operands (T).
  4. TAB pass: the same with leaves = rows of the real unit table (all atoms, prefixed, compound strings, a custom
     registry); tuples are enumerated by TLC (all pairs for comm/ident/inverse/equality, a seeded residue class
     for the other laws); float scales are compared through measured deviations.
  5. code -> spec: the Unit operator events of the repository's test-suite are validated by suite.check(P04).
  6. thorough: Apalache proves the exponent-vector laws for unbounded integers (UnitAlgLaws.tla).

Development switches (not used by the registered commands): C05_NOSUITE=1 skips step 5; C05_DEBUG=<file> appends the
detail of every P-FAIL / T-FAIL to <file>.
"""

import json
import os
import subprocess
import threading
import uuid
import time
from concurrent.futures import ThreadPoolExecutor

from common import NCPU, MachineryFailure

PREFIX_PICK = ["k", "m", "c", "M", "u", "G", "n", "d", "da", "T", "p", "h"]
COMPOUND = [
    "kg*m**2/s**2", "N*m", "kg*m/s**2", "g*cm**2/s**2", "dyne*cm", "W*s", "Pa*m**3", "V*A", "J/s", "C*V", "A*s",
    "m/s", "km/hr", "cm/s", "g/cm**3", "kg/m**3", "1/s", "m**2", "cm**(1/2)", "J/K", "erg/K", "N/m**2",
    "kg/(m*s**2)", "Msun/yr", "km/s/Mpc", "mile/hr", "ft*lbf", "T*m**2", "V*s", "ohm*A", "F*V", "H*A", "lm/m**2",
    "rad/s", "degree/hr", "1/K", "mol/m**3", "percent*m", "eV/K",
    # strings that carry a numeric coefficient, a bare number, and ratios that simplify to a bare number
    "100*m", "3*km", "0.5*s", "1000*g", "2.54*cm", "1000", "0.001", "12*inch/ft", "km/m", "hr/s", "60*s/minute", "4.184*J/cal",
]
CUSTOM = ["code_length", "code_mass", "code_time", "code_temp", "h", "code_mass/code_length**3", "code_length/code_time",
          "h*code_length", "kg", "km", "code_mass*code_length**2/code_time**2"]


def _tab_leaves(ck):
    """rows of the real table: every symbol of the default lookup table, a prefixed form of every prefixable
    symbol, compound strings, and units of a custom registry.  dc = dimension class (same dc = same dimension)."""
    data = ck.extract()
    leaves = []
    dcs = {}

    def dc(key):
        return dcs.setdefault(key, len(dcs) + 1)

    syms = [r["sym"] for r in data["lut"]]
    for r in data["lut"]:
        leaves.append({"reg": 0, "s": r["sym"], "cls": "atom", "dkey": json.dumps(r["dim"])})
    prefixes = {p["p"] for p in data["prefixes"]}
    n = 0
    for r in data["lut"]:
        if r["prefixable"]:
            p = PREFIX_PICK[n % len(PREFIX_PICK)]
            n += 1
            if p in prefixes and (p + r["sym"]) not in syms:
                leaves.append({"reg": 0, "s": p + r["sym"], "cls": "prefixed", "dkey": json.dumps(r["dim"])})
    for s in COMPOUND:
        leaves.append({"reg": 0, "s": s, "cls": "compound", "dkey": None, "co": s[0].isdigit()})
    for s in CUSTOM:
        leaves.append({"reg": 3, "s": s, "cls": "custom", "dkey": None})
    # a second registry that defines the same code-unit names differently (ratios with expression 1 and scale != 1)
    for s in ["code_length", "code_mass", "code_time", "h", "code_mass/code_length**3", "code_length/code_time"]:
        leaves.append({"reg": 6, "s": s, "cls": "custom2", "dkey": None})
    # units GIVEN with a scale that is xv times what their expression resolves to (Unit(expr, base_value=..., dimensions=...))
    for s, xv in [("1", 0.5), ("1", 1000.0), ("dimensionless", 0.25), ("m", 3.0), ("km/m", 0.001), ("s", 0.25), ("kg*m**2/s**2", 7.0), ("1/s", 0.001)]:
        leaves.append({"reg": 0, "s": s, "cls": "explicit", "dkey": None, "xv": xv})
    return leaves, dc


_PMAP_LOCK = threading.Lock()


def _pmap(ck, *a, **kw):
    """(ck.pmap is thread-safe: the three replays run concurrently, each on a share of the cores)"""
    return ck.pmap(*a, **kw)


def _chunks(cases, obs, size):
    """split into chunks of about `size` observations; the phases of one history stay together."""
    out, cur_c, cur_o = [], [], []
    for c, o in zip(cases, obs):
        if len(cur_o) >= size and not (o.get("hist") and o.get("ph", 0) > 0):
            out.append((cur_c, cur_o))
            cur_c, cur_o = [], []
        cur_c.append(c)
        cur_o.append(o)
    if cur_o:
        out.append((cur_c, cur_o))
    return out


def _tlc_trace(ck, part, mode, n, workers):
    """one TLC trace-validation run (called from worker threads); returns the parsed records."""
    cfg_name = f"Trace_C05_run_{workers}"
    path = ck.write_json(f"obs_{mode}_{n}_{uuid.uuid4().hex[:8]}.json", part)  # several chunks are written concurrently
    res = ck.tlc("Trace_C05", cfg_name, env={"OBS": path}, workers=workers, coverage=False,
                 label=f"trace validation {mode} chunk {n} ({len(part)} observations)", timeout=2400)
    os.unlink(path)
    if res.distinct != len(part) + workers:
        raise MachineryFailure(f"trace validation consumed {res.distinct - workers} of {len(part)} observations")
    if res.by_tag("SHAPE"):
        raise MachineryFailure("observation does not have the shape of its program: " + str(res.by_tag("SHAPE")[0]))
    return res


def _submit_validation(ck, pool, cases, obs, mode, common, jobs):
    """queue the trace validation of (cases, obs) as parallel TLC runs; verdicts are drawn later, in order."""
    bad = [o for o in obs if "_error" in o]
    if bad:
        raise MachineryFailure("replay error: " + json.dumps(bad[0])[:800])
    workers = max(1, min(4, NCPU))
    with _PMAP_LOCK:  # written once: another TLC may be reading it
        run_cfg = ck.spec + f"/Trace_C05_run_{workers}.cfg"
        if not os.path.exists(run_cfg):
            cfg = open(ck.spec + "/Trace_C05.cfg").read().replace("Stripes = 8", f"Stripes = {workers}")
            with open(run_cfg + ".tmp", "w") as f:
                f.write(cfg)
            os.replace(run_cfg + ".tmp", run_cfg)
    size = max(400, min(3000, len(obs) // max(1, NCPU // workers) + 1))
    for n, (cc, oo) in enumerate(_chunks(cases, obs, size)):
        jobs.append((mode, common, cc, oo, pool.submit(_tlc_trace, ck, oo, mode, n, workers)))


QUERY_KINDS = ("has", "get", "unit", "define", "keys", "pfx", "samedim", "json", "id", "lutcopy", "dcopy", "pickle", "baseq", "latex")


def _edits_str(c):
    return [f"query {e['k']} {e['sym']}" if e["k"] in QUERY_KINDS else f"{e['k']} {e['sym']} lg={e['lg']} dim={e['d']}" for e in c.get("edits", [])]


def _draw_verdicts(ck, jobs):
    """main thread, submission order: turn TLC's P-FAIL / T-FAIL records into verdicts."""
    nontrivial = 0
    for mode, common, cases, part, fut in jobs:
        res = fut.result()
        ck.validated(len(part))
        ck.cov["out_of_float_range"] = ck.cov.get("out_of_float_range", 0) + len(res.by_tag("RANGE"))
        for r in sorted(res.by_tag("T-FAIL"), key=lambda r: (r["idx"], r["what"], r["at"])):
            o = part[r["idx"] - 1]
            c = cases[r["idx"] - 1]
            cls = f"{mode}:{o['law']}:{r['what']}:{_where(c, o, r['what'], r['at'])['op']}"
            _DRIFT_SEEN[cls] = _DRIFT_SEEN.get(cls, 0) + 1
            ck.drift_step(cls, _detail(c, o, r["what"], r["at"]) if _DRIFT_SEEN[cls] <= 2 else None)
            if os.environ.get("C05_DEBUG"):
                with open(os.environ["C05_DEBUG"], "a") as f:
                    f.write(json.dumps({"T": cls, "d": _detail(c, o, r["what"], r["at"])}) + "\n")
        for r in sorted(res.by_tag("P-FAIL"), key=lambda r: (r["idx"], r["clause"], r["at"])):
            o = part[r["idx"] - 1]
            c = cases[r["idx"] - 1]
            what = "pair" if r["clause"] in ("Law", "Eq", "Hash") else "leaf" if r["clause"] == "Current" else "reg" if r["clause"] == "State" else "step"
            w = _where(c, o, what, r["at"])
            key = {"clause": r["clause"], "law": o["law"], "op": w["op"], "mode": mode, "units": w["units"], "exps": w["exps"]}
            if o.get("hist"):
                key["edits"] = _edits_str(c)
                key["phase"] = o["ph"]
                key["registry"] = c.get("origin", "long")
            ck.violation(key, _detail(c, o, what, r["at"]), case={"mode": mode, "case": c, "common": common})
            if os.environ.get("C05_DEBUG"):
                with open(os.environ["C05_DEBUG"], "a") as f:
                    f.write(json.dumps({"P": key, "d": _detail(c, o, what, r["at"])}) + "\n")
        for o in part:
            if any(k["kind"] != "probe" and o["regs"][k["i"] - 1]["k"] == "unit" and o["regs"][k["j"] - 1]["k"] == "unit" for k in _pairs_of(o)):
                nontrivial += 1
    return nontrivial


_PAIRS = {}
_DRIFT_SEEN = {}


def _pairs_of(o):
    return _PAIRS[o["law"]]


def _estr(e):
    return f"{e['n']}/{e['d']}:{e['kind']}" if e["d"] != 1 or e["kind"] != "int" else str(e["n"])


def _where(c, o, what, at):
    """stable description of the failing instruction / pair: operation, the leaf units involved, the exponents."""
    names = o["leafnames"]
    used = sorted(set(names))
    if what == "step":
        ins = c["prog"][at - 1]
        op = ins["op"]
        exps = [_estr(ins["e"])] if op == "pow" else []
    elif what == "pair":
        pr = c["pairs"][at - 1]
        op = f"pair{pr['i']}-{pr['j']}"
        exps = []
    elif what == "reg":
        op = "reg" + str(at) + ("" if at <= 4 else ":" + c["prog"][at - 5]["op"])
        exps = []
    else:
        op = "leaf"
        exps = []
        used = [names[at - 1]] if at <= 3 else ["1"]
    if o["law"] in ("powpow", "powadd", "powmul", "simp", "state"):
        exps = [_estr(c["p"])] + ([_estr(c["q"])] if o["law"] in ("powpow", "powadd") else [])
    return {"op": op, "units": used, "exps": exps}


def _short(r):
    if r["k"] != "unit":
        return "raise:" + r.get("exc", "")
    return {"ex": r["ex"], "lg": r["lg"], "dim": [x for x in r["dim"]], "off": r["off"], "reg": r["reg"], "c1": r["c1"], "syncerr": r["syncerr"]}


def _detail(c, o, what, at):
    d = {"law": o["law"], "leaves": o["leafnames"], "atoms": o["atoms"], "p": c["p"], "q": c["q"], "what": what, "at": at}
    if what == "step":
        ins = c["prog"][at - 1]
        d["ins"] = {"op": ins["op"], "a": ins["a"], "b": ins["b"], "e": ins["e"]}
        d["operands"] = [_short(o["regs"][ins["a"] - 1])] + ([_short(o["regs"][ins["b"] - 1])] if ins["b"] else [])
        d["result"] = _short(o["regs"][4 + at - 1])
        d["herr_1e-16"] = o["herr"][at - 1]
    elif what == "pair":
        pr = c["pairs"][at - 1]
        d["pair"] = pr
        d["a"] = _short(o["regs"][pr["i"] - 1])
        d["b"] = _short(o["regs"][pr["j"] - 1])
        d["observed"] = o["pairs"][at - 1]
    elif what == "reg":
        d["register"] = _short(o["regs"][at - 1])
        d["hash_class"] = o["hc"][at - 1]
    else:
        d["leaf"] = _short(o["regs"][at - 1])
    if o.get("hist"):
        d["edits"] = _edits_str(c)
        d["phase"] = o["ph"]
        d["registry"] = c.get("origin", "long")
        d["hash_classes"] = o["hc"]
        d["table_rows_read_back"] = {"atoms": o["atoms"], "lg": o["alg"]}
    return d


def _mc(ck, mode, consts, env=None, label=""):
    cfg = open(ck.spec + f"/MC_C05_{mode.lower()}.cfg").read()
    out = []
    for line in cfg.splitlines():
        k = line.strip().split(" = ")[0] if " = " in line else None
        if k in consts:
            line = f"  {k} = {consts[k]}"
        out.append(line)
    name = f"MC_C05_run_{mode.lower()}"
    open(ck.spec + f"/{name}.cfg", "w").write("\n".join(out) + "\n")
    res = ck.tlc("MC_C05", name, env=env, workers=NCPU, label=label, coverage=False, timeout=3000)  # -coverage makes TLC run out of memory on the recursive operators
    cases = res.by_tag("CASE")
    # several workers print concurrently: fix the order
    cases.sort(key=lambda r: json.dumps([r["law"], r["lv"], r["p"], r["q"], r.get("edits", []), r.get("origin", "")], sort_keys=True))
    for r in cases:
        _PAIRS.setdefault(r["law"], r["pairs"])
    return res, cases


def _bylaw(cases):
    d = {}
    for c in cases:
        d[c["law"]] = d.get(c["law"], 0) + 1
    return d


def _flatten(cases, obs):
    """histories come back as {"phases": [...]}: one observation per phase, the case repeated."""
    cc, oo = [], []
    for c, o in zip(cases, obs):
        if isinstance(o, dict) and "phases" in o:
            for ph in o["phases"]:
                cc.append(c)
                oo.append(ph)
        else:
            cc.append(c)
            oo.append(o)
    return cc, oo


def _tab_cases(ck, seed):
    """TAB pass up to the exported cases (runs in a worker thread)."""
    leaves, dc = _tab_leaves(ck)
    probe = _pmap(ck, "impl_c05", "probe_leaves", [leaves], nproc=1, common={"mode": "TAB", "tab": leaves})[0]
    if "_error" in probe:
        raise MachineryFailure("leaf probe failed: " + str(probe))
    uncovered = []
    if probe["unknown_bases"]:
        uncovered.append({"base dimensions outside the 8 modelled": probe["unknown_bases"]})
    kept = []
    for l, p in zip(leaves, probe["leaves"]):
        if p["ok"]:
            l["dc"] = dc(json.dumps(p["dim"]))
            kept.append(l)
        else:
            uncovered.append({"leaf does not resolve": l["s"], "why": p["why"]})
    leaves = kept
    tabpath = ck.write_json("tab.json", [{"dc": l["dc"], "co": bool(l.get("co", False))} for l in leaves])
    consts = ck.q(
        {"Seed": seed, "PairN": 5, "TripleN": 3, "PowN": 3, "PowMulN": 3, "SimpN": 3, "RuleN": 4, "HistN": 0, "QHistN": 0, "CoefN": 2, "EqN": 0},
        {"Seed": seed, "PairN": 0, "TripleN": 60, "PowN": 40, "PowMulN": 60, "SimpN": 40, "RuleN": 40, "HistN": 0, "QHistN": 0, "CoefN": 30, "EqN": 0},
    )
    res, tcases = _mc(ck, "TAB", consts, env={"TAB": tabpath}, label=f"TAB instance over {len(leaves)} table leaves {consts}: tuple enumeration")
    if len(tcases) < 500:
        raise MachineryFailure("TAB instance: too few cases")
    tobs = _pmap(ck, "impl_c05", "observe", tcases, nproc=max(2, NCPU // 2) if ck.tier == "quick" else NCPU, chunk_timeout=ck.q(900, 10800), common={"mode": "TAB", "tab": leaves})
    return leaves, tcases, consts, uncovered, tobs


def run(ck):
    ck.level = "model_checking"
    ck.assumptions += [
        "MR pass: 18 model atoms with scales 2**k (k integer), four real registries (two in the same state, one edited by the histories); scales well separated, so math.isclose in Unit.__eq__ never decides",
        "exponents: 22 values for p (int, Fraction, sympy Rational, float, two-decimal float), 8 for q; at most one two-decimal exponent per case (32-bit integers in TLC)",
        "registry histories (law 'state'): one or two edits (modify / add over / remove+add, also with another dimension, also back to the original row) of 8 offset-free symbols of one long-lived registry object; the same 17-instruction program runs in every phase on terms re-built from their strings; only re-built terms are compared (what a unit created before an edit keeps is C12's statement)",
        "registry histories with read-only queries (membership, item access, construction of a prefixed unit, refused define_unit, keys/json/id/copies/pickle; prefixed names cold and warm, atoms, unknown names) run on a registry made for the history (UnitRegistry() + model table, or a copy of registry 1's table); phases are compared as 'the same registry state' when only queries lie between them, or when the history has no query and the edits were undone; edits undone after a query derived a prefixed row are not compared (C12 known finding lutrow: the derived row stays in the table)",
        "TAB pass: float scales never enter TLC; the harness measures relative deviations against 40-digit references (unit 1e-16) and TLC bounds them (one operation 2e-14 + 4e-16 x |ln scale| for powers, law 1e-11, 'different' 4e-9)",
        "C05_Sync (expression denotes (scale, dimension)) is evaluated only when all leaves of the case live in one registry and have positive scale",
        "raising operations (offset and logarithmic guards) are outside the laws: a law instance is evaluated when both sides returned",
    ]
    if ck.replay:
        blob = json.load(open(ck.replay))
        rc = blob["case"]
        if "suite_event" in rc:
            import suite

            for r, e in suite.validate(ck, ["P04"], events=[rc["suite_event"]], label="replay"):
                ck.violation({"source": "suite", "pred": r["pred"], "fn": e["fn"], "method": e["method"], "exc": e["exc"]}, suite.brief(e), case=rc)
            return
        _PAIRS[rc["case"]["law"]] = rc["case"]["pairs"]
        obs = ck.pmap("impl_c05", "observe", [rc["case"]], nproc=1, common=rc["common"])
        cc, oo = _flatten([rc["case"]], obs)
        jobs = []
        with ThreadPoolExecutor(max_workers=1) as pool:
            _submit_validation(ck, pool, cc, oo, rc["mode"], rc["common"], jobs)
            _draw_verdicts(ck, jobs)
        return

    import suite

    seed = ck.seed % 1000
    pool = ThreadPoolExecutor(max_workers=max(4, NCPU))
    jobs = []
    try:
        # independent strands start at once: the traced test-suite, Apalache, the TAB instance, the MR instance
        f_suite = None if os.environ.get("C05_NOSUITE") else pool.submit(suite.validate, ck, ["P04"])
        f_apalache = pool.submit(_apalache, ck) if ck.tier == "thorough" else None
        f_tab = pool.submit(_tab_cases, ck, seed)
        consts = ck.q(
            {"Seed": seed, "PairN": 12, "TripleN": 14, "PowN": 16, "PowMulN": 16, "SimpN": 10, "RuleN": 10, "HistN": 8, "QHistN": 1, "CoefN": 6, "EqN": 12},
            {"Seed": seed, "PairN": 0, "TripleN": 0, "PowN": 0, "PowMulN": 0, "SimpN": 400, "RuleN": 0, "HistN": 120, "QHistN": 4, "CoefN": 300, "EqN": 0},
        )
        res, cases = _mc(ck, "MR", consts, label=f"MR instance {consts}: model run + ModelHolds + export (cases and registry histories)")
        mr = res.by_tag("MR")
        if len(mr) != 1 or len(cases) < 500:
            raise MachineryFailure("MR instance: table or cases missing")
        hist = [c for c in cases if c["law"] == "state"]
        if len(hist) < 50:
            raise MachineryFailure("MR instance: registry histories missing")
        ck.cov["model_level_failures"] = len([c for c in cases if c["modelfails"]])
        common = {"mode": "MR", "mr": mr[0]}
        ck.sample({"mr_case": {k: cases[len(cases) // 2][k] for k in ("law", "lv", "p", "q")}})
        ck.sample({"registry_history": {k: hist[len(hist) // 2][k] for k in ("lv", "p", "edits", "origin")}})
        qhist = [c for c in hist if c.get("origin") != "long"]  # (every one of them contains a query)
        if len(qhist) < 20:
            raise MachineryFailure("MR instance: registry histories with read-only queries missing")
        ck.sample({"registry_history_with_queries": {k: qhist[len(qhist) // 2][k] for k in ("lv", "p", "edits", "origin")}})
        # histories first (they are the long poles of the replay), then the single-state cases
        plain = [c for c in cases if c["law"] != "state"]
        np_ = max(2, NCPU // 2) if ck.tier == "quick" else NCPU
        # (the histories with queries run in worker processes of their own: each has its own registry object, the
        #  edit-only histories share one long-lived registry per process and keep its memo layers warm)
        lhist = [c for c in hist if c.get("origin") == "long"]
        f_hist = pool.submit(_pmap, ck, "impl_c05", "observe", lhist, nproc=np_, chunk_timeout=ck.q(900, 10800), common=common)
        f_qhist = pool.submit(_pmap, ck, "impl_c05", "observe", qhist, nproc=max(1, np_ // 2), chunk_timeout=ck.q(900, 10800), common=common)
        f_plain = pool.submit(_pmap, ck, "impl_c05", "observe", plain, nproc=np_, chunk_timeout=ck.q(900, 10800), common=common)
        hc, ho = _flatten(lhist, f_hist.result())
        _submit_validation(ck, pool, hc, ho, "MR", common, jobs)
        qc, qo = _flatten(qhist, f_qhist.result())
        _submit_validation(ck, pool, qc, qo, "MR", common, jobs)
        ho = ho + qo
        obs = f_plain.result()
        _submit_validation(ck, pool, plain, obs, "MR", common, jobs)
        ck.cov["mr_cases_by_law"] = _bylaw(cases)
        ck.cov["registry_histories"] = {"histories": len(hist), "phases": len(ho), "with_two_edits": sum(1 for c in hist if len(c["edits"]) == 2),
                                        "back_to_an_earlier_state": sum(1 for c in hist if _returns(c)),
                                        "with_read_only_queries": len(qhist),
                                        "query_kinds": sorted({e["k"] + " " + e["sym"] for c in qhist for e in c["edits"] if e["k"] in QUERY_KINDS}),
                                        "by_registry_origin": {k: sum(1 for c in hist if c.get("origin") == k) for k in ("long", "fresh", "lutcopy")}}
        n_eval = len(plain) + len(ho)

        leaves, tcases, tconsts, uncovered, tobs = f_tab.result()
        ck.cov["uncovered"] += uncovered
        tcommon = {"mode": "TAB", "tab": leaves}
        ck.sample({"tab_case": {"law": tcases[len(tcases) // 3]["law"], "leaves": [leaves[i - 1]["s"] for i in tcases[len(tcases) // 3]["lv"]]}})
        _submit_validation(ck, pool, tcases, tobs, "TAB", tcommon, jobs)
        ck.cov["tab_cases_by_law"] = _bylaw(tcases)
        ck.cov["tab_leaves"] = {k: sum(1 for l in leaves if l["cls"] == k) for k in ("atom", "prefixed", "compound", "custom", "custom2", "explicit")}
        n_eval += len(tcases)

        nontrivial = _draw_verdicts(ck, jobs)
        ck.cov["exhaustive"] = ck.tier == "thorough"
        ck.cov["evaluations"] = n_eval
        ck.cov["distinct_nontrivial"] = nontrivial
        ck.cov["rule"] = "cases / history phases in which at least one law/twin register pair has both sides returned as units (the law is actually evaluated)"
        ck.cov["bound"] = {"MR": consts, "TAB": tconsts}

        # ---- code -> spec: Unit operator events of the repository's test-suite ----
        if f_suite is not None:
            for r, e in f_suite.result():
                key = {"source": "suite", "pred": r["pred"], "fn": e["fn"], "method": e["method"], "exc": e["exc"]}
                ck.violation(key, suite.brief(e), case={"suite_event": e})
        if f_apalache is not None:
            f_apalache.result()
    finally:
        pool.shutdown(wait=True, cancel_futures=True)


def _returns(c):
    """does the history come back to a table it had before (decided again by TLC; this is only a counter)."""
    tab = {}
    seen = [dict(tab)]
    for e in c["edits"]:
        if e["k"] in QUERY_KINDS:
            continue
        tab[e["sym"]] = (e["lg"], e["d"] if e["k"] != "modify" else tab.get(e["sym"], (None, e["sym"]))[1])
        seen.append(dict(tab))
    base = {"la": 0, "lb": 10, "lc": -3, "ta": 0, "tb": 6, "ma": 0, "mb": -5, "nq": -2, "fo": 3}
    norm = [frozenset((k, v) for k, v in t.items() if not (v[1] == k and base.get(k) == v[0])) for t in seen]
    return len(set(norm)) < len(norm)


def _apalache(ck):
    """LawsHold must be proved; NotALaw (division commutes) must be refuted - the proof set-up is not vacuous."""
    out = {}
    for inv, want in (("LawsHold", "NoError"), ("NotALaw", "Error")):
        t = time.time()
        cmd = ["apalache-mc", "check", "--init=Init", "--next=Next", f"--inv={inv}", "--length=0", f"--out-dir={ck.path('apalache_' + inv)}", "UnitAlgLaws.tla"]
        try:
            p = subprocess.run(cmd, cwd=ck.spec, capture_output=True, text=True, timeout=600, env=ck.env())
        except (subprocess.TimeoutExpired, FileNotFoundError) as e:
            ck.cov["apalache"] = {"result": "not available: " + type(e).__name__}
            return
        txt = p.stdout + p.stderr
        got = "NoError" if "The outcome is: NoError" in txt else "Error" if "The outcome is: Error" in txt else "unknown"
        out[inv] = {"outcome": got, "expected": want, "wall_s": round(time.time() - t, 1)}
        if got != want:
            if got == "unknown":
                ck.cov["apalache"] = {"result": "not decided", "detail": out}
                ck.note({"apalache": txt[-800:]})
                return
            raise MachineryFailure(f"Apalache: {inv} gave {got}, expected {want} (the exponent-vector laws of the specification itself):\n" + txt[-1500:])
    ck.cov["apalache"] = {"module": "UnitAlgLaws", "result": "LawsHold proved for unbounded integers; NotALaw refuted", "detail": out}
