CONSTANTS
  MaxChain = 4
  PathSet <- AllPaths
  Combos <- AllCombos
  ClsSet <- Classes
  OrderSet <- BothOrders
  PreSet <- AllPre
INIT Init
NEXT Next
INVARIANT Export
CHECK_DEADLOCK FALSE
