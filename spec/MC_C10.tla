------------------------------- MODULE MC_C10 -------------------------------
(* Bounded single-step instance of UnitSystem for C10: the case table        *)
(*   system  x  unit  x  entry point                                         *)
(* over the data of the tree under test.  TLC enumerates the cases, computes *)
(* for each the route and the outcome of the transcription, checks the C10   *)
(* clauses on that outcome (model level: which classes of cases break C10 in *)
(* the design as transcribed) and exports every case for replay.             *)
(*                                                                           *)
(* Families (selected by the constant Family so that each export is one TLC  *)
(* run with its own counters):                                               *)
(*   "atoms"    every table system x every atom of the table x every variant *)
(*   "prefixed" every table system x prefix in PrefixSet x prefixable atom   *)
(*   "compound" every table system x a^e1 * b^e2 over CompAtoms              *)
(*   "user"     generated user-defined systems (base units from the first    *)
(*              NCand consistent atoms of each slot + one prefixed form,     *)
(*              with / without an MKS current, optional declarations)        *)
(*              x probe units                                                *)
EXTENDS UnitSystem
CONSTANTS Family, PrefixSet, Variants, CompStride, NCand, KiloPrefix, DeclStride

VARIABLE c
Init == c = <<>>

IsSys(i) == i \in DOMAIN Systems
RegOk(S, x) == \A t \in x : Atoms[t[2]].reg = 0 \/ S.reg = 1
VarOk(S, v) == /\ (v \in {"in_sys", "convert_sys", "gbe_sys"} => S.short # "")
               /\ (v \in {"default", "default_conv"} => S.reg = 0)

AtomUnits == {{<<0, a, 12>>} : a \in 1..NAtoms}
PrefUnits == {{<<p, a, 12>>} : p \in PrefixSet, a \in {b \in 1..NAtoms : Atoms[b].pfx}}
\* compound alphabet: the first atom of every dimension in table order (every CompStride-th of them), plus the EM atoms
FirstOfDim == {a \in 1..NAtoms : Atoms[a].reg = 0 /\ ~Atoms[a].off /\ \A b \in 1..(a - 1) : Atoms[b].dim # Atoms[a].dim}
Rank(a) == Cardinality({b \in FirstOfDim : b < a})
CompAtoms == {a \in FirstOfDim : Rank(a) % CompStride = 0} \cup {EMTab[i].from : i \in DOMAIN EMTab}
Exps == {12, -12, 24, 6}
CompUnits == {{<<0, a, e1>>, <<0, b, e2>>} : a \in CompAtoms, b \in CompAtoms, e1 \in Exps, e2 \in {12, -12}} \ {{}}
CompOk(x) == Cardinality(x) = 2 /\ Cardinality(XAtoms(x)) = 2

\* ---- generated user-defined systems ----
SlotAtoms(i) == {a \in 1..NAtoms : Atoms[a].reg = 0 /\ ~Atoms[a].off /\ Atoms[a].dim = DBase(i)}
FirstN(S, n) == {a \in S : Cardinality({b \in S : b < a}) < n}
SlotCands(i) == {<<0, a>> : a \in FirstN(SlotAtoms(i), NCand)}
                \cup {<<KiloPrefix, a>> : a \in FirstN({b \in SlotAtoms(i) : Atoms[b].pfx}, 1)}
\* the last atoms of the table of that dimension too (the planck / geometrized end of the table)
LastN(S, n) == {a \in S : Cardinality({b \in S : b > a}) < n}
SlotCands2(i) == SlotCands(i) \cup {<<0, a>> : a \in LastN(SlotAtoms(i), 1)}
\* declarations: one atom of a derived dimension per declaration; dimension = the atom's
DeclAtomsAll == {a \in FirstOfDim \cup {EMTab[i].from : i \in DOMAIN EMTab} : Atoms[a].dim \notin {DBase(i) : i \in 1..NDim} /\ ~DIsZero(Atoms[a].dim)}
DeclAtomsAlpha == {a \in DeclAtomsAll : Cardinality({b \in DeclAtomsAll : b < a}) % DeclStride = 0}
DeclSeqs(cur) == {<<>>} \cup {<<[dim |-> Atoms[a].dim, x |-> <<<<0, a, 12>>>>]>> : a \in {b \in DeclAtomsAlpha : cur \/ Atoms[b].dim[CUR] = 0}}
UserBases == {<<m, l, t, th, Defaults[5], cu, NoUnit, Defaults[8], Defaults[9]>> :
                m \in SlotCands2(1), l \in SlotCands2(2), t \in SlotCands(3), th \in {<<0, a>> : a \in FirstN(SlotAtoms(4), 2)}, cu \in {Defaults[6], NoUnit}}
UserProbes == {{<<0, a, 12>>} : a \in CompAtoms} \cup {{<<KiloPrefix, a, 12>>} : a \in {EMTab[i].from : i \in DOMAIN EMTab}}

Case(i, spec, x, v) == [sys |-> i, spec |-> spec, x |-> x, var |-> v,
                        route |-> Route(spec, x), exp |-> Target(spec, x)]
NoSpec == [base |-> <<>>, decl |-> <<>>, reg |-> 0, coef |-> FALSE]

Next ==
  /\ c = <<>>
  /\ \/ /\ Family = "atoms"
        /\ \E i \in DOMAIN Systems, x \in AtomUnits, v \in Variants :
             RegOk(Systems[i], x) /\ VarOk(Systems[i], v) /\ c' = Case(i, Systems[i], x, v)
     \/ /\ Family = "prefixed"
        /\ \E i \in DOMAIN Systems, x \in PrefUnits, v \in Variants :
             RegOk(Systems[i], x) /\ VarOk(Systems[i], v) /\ c' = Case(i, Systems[i], x, v)
     \/ /\ Family = "compound"
        /\ \E i \in DOMAIN Systems, x \in CompUnits, v \in Variants :
             CompOk(x) /\ RegOk(Systems[i], x) /\ VarOk(Systems[i], v) /\ c' = Case(i, Systems[i], x, v)
     \/ /\ Family = "user"
        /\ \E b \in UserBases : \E ds \in DeclSeqs(b[CUR] # NoUnit) : \E x \in UserProbes, v \in Variants :
             LET spec == [base |-> b, decl |-> ds, reg |-> 0, coef |-> FALSE, short |-> ""] IN
             RegOk(spec, x) /\ VarOk(spec, v) /\ c' = Case(0, spec, x, v)

\* ---- model level: the clauses the transcription itself breaks (reported per route, never a verdict) ----
ModelClauses(S, x) ==
  LET t == Target(S, x) IN
  IF t.k = "raise" THEN {}
  ELSE LET t2 == Target(S, t.x) d == XDim(t.x) IN
       (IF Inside(S, t.x, d) THEN {} ELSE {"Inside"})
       \cup (IF DimOk(XDim(x), d) THEN {} ELSE {"Dimension"})
       \cup (IF t2.k = "ok" /\ t2.x = t.x THEN {} ELSE {"Idempotent"})

Export == c # <<>> =>
  PrintT(ToJson([tag |-> "CASE", sys |-> c.sys,
                 base |-> IF c.sys = 0 THEN c.spec.base ELSE <<>>,
                 decl |-> IF c.sys = 0 THEN c.spec.decl ELSE <<>>,
                 x |-> c.x, var |-> c.var, route |-> c.route,
                 model |-> ModelClauses(c.spec, c.x)]))
=============================================================================
