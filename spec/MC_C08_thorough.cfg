CONSTANTS
  ArithP = {"", "M", "k", "h", "da", "d", "c", "m", "u"}
  ConvSrcP = {"", "Y", "Z", "E", "P", "T", "G", "M", "k", "h", "da", "d", "c", "m", "u", "n", "p", "f", "a", "z", "y"}
  ConvDstP = {"", "Y", "Z", "E", "P", "T", "G", "M", "k", "h", "da", "d", "c", "m", "u", "n", "p", "f", "a", "z", "y"}
  ReadSets = {1, 2}
  Shapes = {"arr", "sc"}
  BinForms = {"operator", "ufunc", "inplace", "out", "out0", "out1", "outv0", "outv1"}
  BinOpSet = {"add", "subtract", "maximum", "minimum", "less", "greater", "less_equal", "greater_equal", "equal", "not_equal"}
  ConvVias = {"in_units", "to", "convert_to_units", "to_value", "in_base", "convert_to_base"}
  ChainP = {"", "m", "k"}
  ChainTgt = {"K", "R", "degC", "degF", "mdegC"}
  ChainDT = {"f8", "f4", "i4", "i8"}
  ChainLen3 = TRUE
  ChainBases = {"K", "R", "degC", "degF", "delta_degC", "delta_degF"}
  ConvDT = {"f8", "f4", "i2", "u2", "i4", "u4", "i8"}
  MixP = {"", "Y", "Z", "E", "P", "T", "G", "M", "k", "h", "da", "d", "c", "m", "u", "n", "p", "f", "a", "z", "y", "micro_sign", "micro_mu"}
  MixOps = {"add", "subtract", "maximum", "minimum", "less", "greater", "less_equal", "greater_equal", "equal", "not_equal"}
  RefFreeP = {"", "M", "k", "h", "da", "d", "c", "m", "u"}
  PredP = {"", "m", "k", "c", "M"}
  PredShapes = {"v1", "v2", "v3", "v4", "g12", "g21", "g22", "g23", "g32", "g13", "g31"}
  PredForms = {"function", "axnone", "ax0", "ax1", "axm1", "axm2", "axt01", "ax0k", "ax1k", "axm1k", "axnonek"}
  Fams = {"conv", "bin", "red", "ref", "pred", "chain", "mix"}
INIT Init
NEXT Next
INVARIANT Export
CHECK_DEADLOCK FALSE
