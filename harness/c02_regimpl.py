"""Replay of DefsReg.tla histories (C02 over user registries): two real UnitRegistry objects created with the unit
systems of the case, the calls of the history (define_unit / registry.add / registry.modify in the form the event says),
then the probes and conversion pairs TLC listed, each through every route.  Projection only: floats are compared with
the exact value of TLC's symbolic result (probes) or with the exact ratio of the two units' own base values (pairs) and
reported in integer units of 4e-15."""

from fractions import Fraction

import mpmath

from c02_data import CLIP, err_units, exact


def _text(U, toks, case, style=1):
    tree, _ = U["parse"](toks)
    return U["render"](tree, case["names"], case["coefs"], case["exps"], style)


def _dimension(U, dim):
    sympy = U["sympy"]
    out = sympy.Integer(1)
    for b, (n, d) in zip(U["base"], dim):
        if n != 0:
            out = out * b ** sympy.Rational(n, d)
    return out


def _sym(e, case):
    """the spelling of the user symbol: "foo"/"qux", or the candidate name TLC chose for foo (case["uname"])"""
    return case["uname"] if e["sym"] == "foo" and case.get("uk") else e["sym"]


def _step(U, regs, e, case, old):
    unyt = U["unyt"]
    D = U["defs"]
    reg = regs[e["r"] - 1]
    coef = float(Fraction(*case["coefs"][e["c"] - 1]))
    text = _text(U, e["text"], case)
    try:
        if e["op"] == "modify":
            # Unit objects of the current definition, taken before the edit (never a prefixed form)
            old[e["r"]] = {tuple(t): U["Unit"](_text(U, t, case), registry=reg) for t in case["snap"]}
        if e["op"] == "define":
            if e["form"] == "tuple":
                val = (coef, text)
            elif e["form"] == "qdef":
                val = unyt.unyt_quantity(coef, text)
            else:
                val = unyt.unyt_quantity(coef, text, registry=reg)
            U["define_unit"](_sym(e, case), val, prefixable=bool(e["pfx"]), registry=reg)
        elif e["op"] == "add":
            reg.add(_sym(e, case), float(D.eval_gens(e["gens"])), _dimension(U, e["dim"]), prefixable=bool(e["pfx"]))
        elif e["op"] == "modify":
            if e["form"] == "number":
                reg.modify(_sym(e, case), float(D.eval_gens(e["gens"])))
            elif e["form"] == "qdef":
                reg.modify(_sym(e, case), unyt.unyt_quantity(coef, text))
            else:
                reg.modify(_sym(e, case), unyt.unyt_quantity(coef, text, registry=reg))
        else:
            raise ValueError("unknown op " + str(e["op"]))
        return {"ok": True, "exc": ""}
    except Exception as ex:  # noqa: BLE001
        return {"ok": False, "exc": type(ex).__name__}


def _routes(U, u1, u2, same_registry_text):
    """every way of converting [1, 3] u1 to u2; returns (name, value/1, value/3) triples"""
    unyt = U["unyt"]
    out = []

    def run(name, f):
        try:
            a, b = f()
            out.append((name, float(a), float(b)))
        except Exception as ex:  # noqa: BLE001
            out.append((name, type(ex).__name__, None))

    x = unyt.unyt_array([1.0, 3.0], u1)
    run("to", lambda: (lambda y: (y.d[0], y.d[1] / 3.0))(x.to(u2)))
    run("in_units", lambda: (lambda y: (y.d[0], y.d[1] / 3.0))(x.in_units(u2)))
    run("to_value", lambda: (lambda y: (y[0], y[1] / 3.0))(x.to_value(u2)))

    def inplace():
        z = x.copy()
        z.convert_to_units(u2)
        return z.d[0], z.d[1] / 3.0

    run("convert_to_units", inplace)

    def gcf():
        f, off = u1.get_conversion_factor(u2)
        if off is not None:
            raise ValueError("offset")
        return f, f

    run("get_conversion_factor", gcf)
    run("quantity.to", lambda: (lambda q: (q.d, q.d))(unyt.unyt_quantity(1.0, u1).to(u2)))
    run("via_in_base", lambda: (lambda y: (y.d[0], y.d[1] / 3.0))(x.in_base("mks").to(u2)))
    if same_registry_text is not None:
        run("to(str)", lambda: (lambda y: (y.d[0], y.d[1] / 3.0))(x.to(same_registry_text)))
    return out


def observe(U, case):
    D = U["defs"]
    tol = D.tol
    regs = [U["UnitRegistry"](unit_system=s) for s in case["sys"]]
    old = {}
    ev = []
    for e in case["h"]:
        o = _step(U, regs, e, case, old)
        ev.append({"op": e["op"], "r": e["r"], "sym": e["sym"], "t": e["t"], "c": e["c"], "form": e["form"], "pfx": e["pfx"], "ok": o["ok"], "exc": o["exc"]})
    probes = []
    for p in case["probes"]:
        text = _text(U, p["toks"], case)
        rec = {"r": p["r"], "toks": p["toks"], "gens": p["gens"], "text": text}
        try:
            u = U["Unit"](text, registry=regs[p["r"] - 1])
            want = D.eval_gens(p["gens"])
            rec.update(ok=True, exc="", eu=err_units(u.base_value, want, tol), dim=U["dim"](u.dimensions), bv=repr(float(u.base_value)), want=mpmath.nstr(want, 17))
        except Exception as ex:  # noqa: BLE001
            rec.update(ok=False, exc=type(ex).__name__, eu=[CLIP] * len(tol), dim=[[99, 1]] * 9, bv="", want="")
        probes.append(rec)
    pairs = []
    for p in case["pairs"]:
        ta, tb = _text(U, p["a"], case), _text(U, p["b"], case)
        rec = {"k": p["k"], "r1": p["r1"], "a": p["a"], "w1": p["w1"], "r2": p["r2"], "b": p["b"], "w2": p["w2"], "ta": ta, "tb": tb}
        try:
            u1 = old[p["r1"]][tuple(p["a"])] if p["w1"] == "old" else U["Unit"](ta, registry=regs[p["r1"] - 1])
            u2 = old[p["r2"]][tuple(p["b"])] if p["w2"] == "old" else U["Unit"](tb, registry=regs[p["r2"] - 1])
        except Exception as ex:  # noqa: BLE001
            rec.update(accepted=False, exc=type(ex).__name__, routes=[], s1="", s2="")
            pairs.append(rec)
            continue
        want = exact(u1.base_value) / exact(u2.base_value)
        routes = []
        same = tb if (p["r1"] == p["r2"] and p["w2"] == "new" and p["w1"] == "new") else None
        for name, a, b in _routes(U, u1, u2, same):
            if b is None:
                routes.append({"n": name, "ok": False, "e": CLIP, "exc": a})
            else:
                routes.append({"n": name, "ok": True, "e": max(err_units(a, want, tol)[0], err_units(b, want, tol)[0]), "exc": "", "got": repr(a)})
        rec.update(accepted=True, exc="", routes=routes, s1=repr(float(u1.base_value)), s2=repr(float(u2.base_value)), want=mpmath.nstr(want, 17))
        pairs.append(rec)
    return {"kind": "reg", "uk": case.get("uk", 0), "uname": case.get("uname", "foo"), "sys": case["sys"], "h": ev, "probes": probes, "pairs": pairs}
