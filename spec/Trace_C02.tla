------------------------------ MODULE Trace_C02 ------------------------------
(* Trace validation for C02: the observations recorded while replaying the   *)
(* TLC-generated cases in the real library are stepped through one by one.    *)
(* For every observation TLC recomputes, from the identity of the case alone, *)
(* what the definitions imply (class, tolerance multiplier, dimension,        *)
(* meaning of the expression) and evaluates                                   *)
(*   P  the property predicates of Defs (C02_Scale, C02_Dim, C02_Prefix,      *)
(*      C02_Convert) on the observed outcome           -> P-FAIL records      *)
(*   T  the implementation-shaped expectations (table dimension, offset flag, *)
(*      prefix splitting, acceptance)                  -> T-FAIL records      *)
(* and checks that the harness evaluated the symbolic value TLC exported      *)
(* (ECHO-FAIL = machinery).  One state per observation.                       *)
EXTENDS DefsSys
Obs == JsonDeserialize(IOEnv.C02OBS)
VARIABLE i
Init == i = 0
Next == i < Len(Obs) /\ i' = i + 1

Pairs(d) == [b \in 1..NB |-> <<d[b][1], d[b][2]>>]
Fail(tag, clause, detail) == PrintT(ToJson([tag |-> tag, i |-> i, clause |-> clause, detail |-> detail]))

\* ---- a name spelling
NameP(o) ==
  LET r == KeyRead[Names[o.n].key]
      p == r[1]
      t == r[2] IN
  IF r[1] < 0 \/ TabNode[t] = 0 \/ ~o.ok THEN TRUE   \* unreadable / no definition / not accepted: nothing demanded (counted by the harness)
  ELSE /\ (o.gens # ExpGens(p, t)) => Fail("ECHO-FAIL", "gens", <<>>)
       /\ ~C02_Scale(o.eu, ExpCls(t), ExpK(p, t)) => Fail("P-FAIL", "scale", [cls |-> ExpCls(t), kk |-> ExpK(p, t), eu |-> o.eu])
       /\ ~C02_Dim(o.dim, DefDim(t)) => Fail("P-FAIL", "dimension", [want |-> DefDim(t), got |-> o.dim])
       /\ (Pairs(o.dim) # TableDim(t) \/ o.hasoff # Table[t].off) => Fail("T-FAIL", "name-row", [got |-> o.dim])

\* ---- prefix x prefixable symbol
PfxP(o) ==
  LET str == Prefixes[o.p].p \o Table[o.t].sym
      own == NameKey(str)
      \* the spelling is a name in its own right meaning something else: not a prefixed name
      shadowed == own # 0 /\ (KeyRead[own][2] # o.t \/ PfxExp(KeyRead[own][1]) # PfxExp(o.p))
      ls == LibSplit(str) IN
  IF shadowed THEN TRUE
  ELSE /\ (o.ok /\ ~C02_Prefix(o.eu, Pairs(o.dimp), Pairs(o.dims))) =>
            Fail("P-FAIL", IF o.eu[1] <= 2 THEN "prefix-dimension" ELSE "prefix-scale", [eu |-> o.eu, kexp |-> PfxExp(o.p)])
       /\ (o.ok # (ls.k = "prefixed" /\ ls.t = o.t)) => Fail("T-FAIL", "prefix-split", [lib |-> ls.k, ok |-> o.ok])
       /\ (o.ok /\ ~o.offsame) => Fail("T-FAIL", "prefix-offset", <<>>)

\* ---- conversion between two names sharing a dimension
ConvP(o) ==
  /\ (o.ok /\ ~C02_Convert(o.eu)) => Fail("P-FAIL", "convert", [eu |-> o.eu])
  /\ (~o.ok /\ o.accepted) => Fail("P-FAIL", "convert-raises", [eu |-> o.eu])
  /\ (~o.accepted) => Fail("T-FAIL", "convert-name", <<>>)

\* ---- compound expression, two routes (Unit(string), Unit arithmetic)
RouteP(o, r, route, want, k) ==
  /\ (r.ok /\ r.inrange /\ r.eu[1] > k) => Fail("P-FAIL", "expr-scale-" \o route, [eu |-> r.eu, kk |-> k])
  /\ (r.ok /\ ~C02_Dim(r.dim, want)) => Fail("P-FAIL", "expr-dimension-" \o route, [want |-> want, got |-> r.dim])
  /\ (~r.ok /\ o.atoms) => Fail("T-FAIL", "expr-raises-" \o route, <<>>)
ExprP(o) ==
  LET m == Meaning(o.toks)
      want == ExprDim(m.at, o.pool)
      \* tolerance in units of 4e-15: one per node, plus |ln magnitude| / 50 (o.magu) per power with a non-dyadic exponent
      k == Len(o.toks) + 1 + NonDyadic(o.toks, 1) * o.magu IN
  /\ (o.at # m.at \/ o.co # m.co) => Fail("ECHO-FAIL", "meaning", <<>>)
  /\ (ImplMeaning(o.toks) # m) => Fail("ECHO-FAIL", "impl-vs-meaning", <<>>)
  /\ RouteP(o, o.s, "string", want, k)
  /\ RouteP(o, o.a, "arith", want, k)
  \* consequence: 1 <expr> converted to the coherent SI unit = scale(expr)  (same-dimension results only)
  /\ (o.c.ok /\ o.c.inrange /\ o.c.eu[1] > k + 2) => Fail("P-FAIL", "expr-convert", [eu |-> o.c.eu, kk |-> k + 2])

\* ---- a sequence of prefixed names resolved in that order in a fresh registry
OrdP(o) ==
  LET run == ModelRun(o.t, o.seq, 1, <<>>) IN
  \A j \in DOMAIN o.steps :
    LET st == o.steps[j] IN
    /\ (st.ok /\ ~C02_OrderStep(st)) =>
          Fail("P-FAIL", IF st.eu[1] <= 2 THEN "order-dimension" ELSE "order-scale", [step |-> j, eu |-> st.eu, kexp |-> PfxExp(o.seq[j])])
    /\ (st.ok # (run[j].t = o.t /\ run[j].p # 0)) => Fail("T-FAIL", "order-resolves", [step |-> j, model |-> run[j].k, ok |-> st.ok])
    /\ (st.ok /\ ~st.offsame) => Fail("T-FAIL", "order-offset", [step |-> j])

\* ---- a float exponent through the object API
PowObsP(o) ==
  LET q == <<o.q[1], o.q[2]>> IN
  /\ ~o.ok => Fail("T-FAIL", "pow-raises", [form |-> o.form])
  /\ (o.ok /\ PowUnreadable(q, o.e)) => Fail("T-FAIL", "pow-exponent-unreadable", [carried |-> q])
  /\ (o.ok /\ ~PowUnreadable(q, o.e) /\ ~C02_PowExponent(q, o.e)) => Fail("P-FAIL", "pow-exponent", [typed |-> PowP(o.e), carried |-> q, cls |-> PowExps[o.e][3]])
  /\ (o.ok /\ ~C02_PowDim(o.dim, o.b, q)) => Fail("P-FAIL", "pow-dimension", [carried |-> q, got |-> o.dim])
  /\ (o.ok /\ ~C02_PowScale(o.eus, o.magu)) => Fail("P-FAIL", "pow-scale", [carried |-> q, eu |-> o.eus, magu |-> o.magu])
  /\ (o.ok /\ ~C02_PowScale(o.euv, o.magu)) => Fail("P-FAIL", "pow-value", [typed |-> PowP(o.e), eu |-> o.euv])

\* ---- edits of a default symbol: every spelling, warm or cold memo
EditP(o) ==
  LET t == o.t
      nforms == IF SqOk(t) THEN 2 ELSE 1 IN
  \A j \in DOMAIN o.phases :
    LET ph == o.phases[j]
        last == j = Len(o.phases)
        d == IF j = 1 THEN DefAfter(t, o.op, o.c) ELSE DefAfter2(t, o.op, o.c, o.c2)
        want == Four(d) IN
    /\ (ph.exp.name # want.name \/ ph.exp.sq # want.sq \/ ph.exp.kname # want.kname \/ ph.exp.ksq # want.ksq) => Fail("ECHO-FAIL", "edit-gens", [phase |-> j])
    /\ (Len(ph.probes) # nforms * (Cardinality(SpellTab[t]) + IF last THEN Cardinality(KiloTab[t]) ELSE 0)) => Fail("ECHO-FAIL", "edit-probes", [phase |-> j])
    /\ ~ph.ok => Fail("T-FAIL", "edit-call-" \o ph.op, [phase |-> j, exc |-> ph.exc])
    /\ \A k \in DOMAIN ph.probes :
         LET p == ph.probes[k]
             warm == j > 1 \/ o.w = -1 \/ (o.w = p.n)
             info == [phase |-> j, k |-> k, warm |-> warm, spelling |-> IF Names[p.n].name = Table[t].sym THEN "symbol" ELSE IF p.n \in KiloTab[t] THEN "kilo" ELSE "alias"] IN
         IF d.on THEN
           /\ (p.ok # p.base_ok) => Fail("T-FAIL", "edit-acceptance", info)
           /\ (p.ok /\ ~C02_EditScale(p.eu)) => Fail("P-FAIL", "edit-scale", info)
           /\ (p.ok /\ ~C02_Dim(p.dim, ProbeDim(t, p.form))) => Fail("P-FAIL", "edit-dimension", info)
           /\ (p.ok /\ p.conv /\ ~p.tosym.ok) => Fail("P-FAIL", "edit-convert-raises", info)
           /\ (p.ok /\ p.conv /\ p.tosym.ok /\ ~C02_EditConvert(p.tosym.eu)) => Fail("P-FAIL", "edit-convert", info)
           /\ (p.ok /\ p.conv /\ p.via.ok /\ p.via.same /\ ~C02_EditConvert(p.via.eu)) => Fail("P-FAIL", "edit-convert-via-si", info)
         ELSE
           \* the symbol was removed: an accepted spelling would carry a scale no current definition implies (C12 states the same
           \* from the side of the history)
           p.ok => Fail("P-FAIL", "edit-removed-resolves", info)

\* ---- reduction to a named unit system inside an edited registry: every call form
SysP(o) ==
  LET s == o.s
      src == [j \in DOMAIN o.src |-> <<o.src[j][1], o.src[j][2], o.src[j][3]>>]
      an == Anchors(s, src, o.t, o.op)
      want == FormsOf(s, o.ctor)
      sdim == SDim(src) IN
  /\ ({<<o.anch[j].n, o.anch[j].g>> : j \in DOMAIN o.anch} # {<<n, an[n]>> : n \in DOMAIN an}) => Fail("ECHO-FAIL", "sys-anchors", <<>>)
  /\ ([j \in DOMAIN o.forms |-> o.forms[j].form] # want) => Fail("ECHO-FAIL", "sys-forms", <<>>)
  /\ ~o.edit_ok => Fail("T-FAIL", "sys-edit-" \o o.op, [exc |-> o.exc])
  /\ \A j \in DOMAIN o.anch :
       LET a == o.anch[j] IN
       /\ ~a.ok => Fail("T-FAIL", "sys-atom-raises", [n |-> a.n])
       /\ (a.ok /\ ~C02_SysAtom(a.eu)) => Fail("P-FAIL", "sys-atom-scale", [n |-> a.n, eu |-> a.eu])
  /\ \A j \in DOMAIN o.forms :
       LET f == o.forms[j]
           at == [k \in DOMAIN f.at |-> <<f.at[k][1], f.at[k][2], f.at[k][3]>>]
           known == \A k \in DOMAIN at : at[k][1] # 0 /\ Readable(at[k][1])
           info == [form |-> j] IN
       IF ~f.ok THEN Fail("T-FAIL", "sys-raises", [form |-> j, exc |-> f.exc])
       ELSE
         /\ ~known => Fail("T-FAIL", "sys-atom-unknown", info)
         /\ (known /\ ~(\A k \in DOMAIN at : at[k][1] \in Pool(s, src))) => Fail("T-FAIL", "sys-atom-outside-system", info)
         /\ ~f.co1 => Fail("T-FAIL", "sys-coefficient", info)
         \* the returned unit: dimension and scale are those of its constituents in the caller's registry
         /\ (known /\ ~C02_Dim(f.dim, SDim(at))) => Fail("P-FAIL", "sys-unit-dimension", [form |-> j, want |-> SDim(at), got |-> f.dim])
         /\ (known /\ ~C02_SysScale(f.euc, at, f.magu)) => Fail("P-FAIL", "sys-unit-scale", [form |-> j, eu |-> f.euc])
         \* the value: x * scale(u1) / scale(u2), when the library stays in the dimension of the source (electromagnetic
         \* units are re-routed between cgs and SI by design: not compared)
         /\ (known /\ f.isq /\ SDim(at) = sdim) =>
              /\ ~f.val.ok => Fail("P-FAIL", "sys-convert-raises", info)
              /\ (f.val.ok /\ ~C02_SysConvert(f.val.eu, src, at, f.magu)) => Fail("P-FAIL", "sys-convert", [form |-> j, eu |-> f.val.eu])
              /\ (f.same.ok /\ ~C02_SysSame(f.same.eu)) => Fail("P-FAIL", "sys-convert-same-expression", [form |-> j, eu |-> f.same.eu])
              /\ ~f.same.ok => Fail("P-FAIL", "sys-convert-same-expression-raises", info)
              /\ (f.back.ok /\ ~C02_SysConvert(f.back.eu, src, at, f.magu)) => Fail("P-FAIL", "sys-convert-back", [form |-> j, eu |-> f.back.eu])
              /\ ~f.back.ok => Fail("P-FAIL", "sys-convert-back-raises", info)

StepP == i > 0 =>
  LET o == Obs[i] IN
  CASE o.kind = "name" -> NameP(o)
    [] o.kind = "pfx" -> PfxP(o)
    [] o.kind = "conv" -> ConvP(o)
    [] o.kind = "expr" -> ExprP(o)
    [] o.kind = "edit" -> EditP(o)
    [] o.kind = "ord" -> OrdP(o)
    [] o.kind = "pow" -> PowObsP(o)
    [] o.kind = "sys" -> SysP(o)
=============================================================================
