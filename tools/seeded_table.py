#!/usr/bin/env python3
"""Rebuild DESIGN.md section 14 (seeded changes: which checks catch which) from seeded/*/meta.json."""
import glob, json, os
HERE = os.path.dirname(os.path.dirname(os.path.abspath(__file__)))
B, E = "<!-- SEEDED-BEGIN (generated from seeded/*/meta.json by tools/seeded_table.py) -->", "<!-- SEEDED-END -->"
rows = []
for d in sorted(glob.glob(os.path.join(HERE, "seeded", "*"))):
    mf = os.path.join(d, "meta.json")
    if not os.path.exists(mf):
        continue
    m = json.load(open(mf))
    hist = m.get("history", [])
    first = hist[0]["verdict"] if hist else "-"
    last = m.get("status", "-")
    what = (m.get("summary") or "").replace("\n", " ").replace("|", "/")
    needs = (m.get("needs") or "").replace("\n", " ").replace("|", "/")
    how = (hist[-1]["ran"] if hist else "").replace("\n", " ").replace("|", "/")
    rows.append(f"| `{os.path.basename(d)}` | {m.get('property','')} | {what[:260]} | {needs[:260]} | {first} | {last} | {', '.join(m.get('checks', []))}: {how[:300]} |")
caught = sum(1 for r in rows if "| caught |" in r.split("|", 6)[6][:40] or r.count("| caught |"))
txt = B + "\n\n| id | property | what the change does | what it needs to manifest | first run | now | check and evidence |\n|---|---|---|---|---|---|---|\n" + "\n".join(rows) + "\n\n" + E
p = os.path.join(HERE, "DESIGN.md")
d = open(p, encoding="utf-8").read()
if B in d:
    d = d[: d.index(B)] + txt + d[d.index(E) + len(E):]
else:
    sec = ("## 14. Seeded changes: realistic breakage written without sight of the checks\n\n"
           "Each row is a change to unyt written by an independent sub-agent that saw only the text of one property and a scratch "
           "worktree (nothing from /verif). Every change keeps the repository's tests at their baseline (652 passed, the same 28 "
           "failures) and comes with a demonstration program that exits 0 on the unchanged tree and 1 with the change; both facts were "
           "re-confirmed by the coordinator on a scratch copy (`tools/seeded_check.sh`). `first run` is the verdict of the owning check "
           "as it stood when the change arrived; `now` is the verdict after the check was strengthened (the `history` list in "
           "`seeded/<id>/meta.json` records what was changed in between). `tools/selftest.py` re-runs the whole table.\n\n" + txt +
           "\n\n---------------------------------------------------------------------------\n\n")
    k = d.index("## Appendix A.")
    d = d[:k] + sec + d[k:]
open(p, "w", encoding="utf-8").write(d)
print("DESIGN.md: seeded table with", len(rows), "rows")
