CONSTANTS
  MaxRegs = 2
  MaxLen = 3
  ExportLen = 3
  Mixed = TRUE
  Namespaces = TRUE
  Editing = TRUE
  WarmSet = {FALSE}
  DScales = {2}
  DPfx = {TRUE}
  AddScales = {2}
  ModScales = {4}
  ReadKeys = {"kfoo"}
  ReadProbes = {"kfoo/km"}
  BinP = {"foo", "m"}
  BinF = {"mul", "add"}
  CopyP = {"kfoo"}
  PickleP = {"m"}
  ConvHows = {"to"}
  HandleH = {"copyreg", "unitcopy"}
  PickleH = {"registry"}
  ModVias = {"num", "ns"}
  DefVias = {"num"}
  InBaseQ = {"km", "m"}
  InBaseS = "slim"
INIT Init
NEXT Next
VIEW View
INVARIANT ExportState
INVARIANT ModelSharing
ACTION_CONSTRAINT ModelFrame
CHECK_DEADLOCK FALSE
