CONSTANTS
  Seeds = {0, 1, 2}
  DTs = {"f", "i", "c"}
  ShAll = {"s", "3", "2x3", "3x3", "0"}
  InLays = {"C", "F", "S", "R", "B"}
  OutLays = {"C", "F", "S", "R", "O"}
  KwKinds = {"handled", "override", "default"}
  KwShapes = {"40", "3x40", "40x3", "2x3"}
  KwDC = {"plain", "ties", "nan"}
  AliasCombos <- CombosAll
  UCs = {"B1", "D1", "BR", "DR"}
  AllClsDC = {"nan", "inf", "nz"}
INIT Init
NEXT Next
INVARIANT Export
CHECK_DEADLOCK FALSE
