------------------------------- MODULE MC_C06 -------------------------------
(* Bounded instance of ArrayFnNum, structural layer: the case table           *)
(*   function x template x shapes x dtype x value seed                        *)
(* One state per case (single step from Init).  Every case carries            *)
(*   exp / texp / kinds : the numbers, shapes, dtype kinds NumPy's function   *)
(*                        NAMED by the call produces (property side),         *)
(*   m                  : the outcome of the handler-level transition         *)
(*                        (semantics of the routine the wrapper forwards to), *)
(*   mfail              : model-level verdict (does the design as transcribed *)
(*                        refine the named function on this case?).           *)
EXTENDS ArrayFnNum, Json
CONSTANTS Seeds, DTs, Fixes, Fams

FGrid == << <<0,1>>, <<1,1>>, <<-1,1>>, <<2,1>>, <<1,2>>, <<-3,2>>, <<3,1>>, <<-2,1>>, <<5,4>>, <<-1,4>>, <<4,1>> >>
IGrid == << <<0,1>>, <<1,1>>, <<-1,1>>, <<2,1>>, <<3,1>>, <<-2,1>>, <<4,1>>, <<-3,1>>, <<5,1>>, <<1,1>>, <<-4,1>> >>
Grid(dt) == IF dt = "i" THEN IGrid ELSE FGrid
GenV(dt, s, n) == [k \in 1..n |-> Grid(dt)[((s * 7 + k * k * 3 + k * s) % 11) + 1]]
Arr(dt, s, sh) == [sh |-> sh, v |-> GenV(dt, s, IProd(sh))]
Sc(dt, s) == Arr(dt, s, <<>>)
BArr(s, sh) == [sh |-> sh, v |-> [k \in 1..IProd(sh) |-> IF (s + k * k) % 3 = 0 THEN RZero ELSE ROne]]
IArr(s, sh, n) == [sh |-> sh, v |-> [k \in 1..IProd(sh) |-> R((s + k * k + k) % n)]]
SortedArr(dt, s, n) == A1(RSort(GenV(dt, s, n)))
\* strictly increasing abscissae with power-of-two spacing (exact float slopes)
XP(s) == IF s % 2 = 0 THEN A1(<<R(-1), R(1), R(3)>>) ELSE A1(<<R(0), R(1), R(2), R(4)>>)
Seed1 == CHOOSE s \in Seeds : \A t \in Seeds : s <= t
Sh1 == {<<3>>, <<4>>}
Sh1e == {<<0>>, <<3>>, <<4>>}
Sh2 == {<<2, 3>>, <<3, 3>>, <<3, 2>>}
Sh012 == {<<>>, <<3>>, <<2, 3>>}
Pow2Mats == {A \in {[sh |-> <<2, 2>>, v |-> <<R(x), R(y), R(z), R(w)>>] : x \in {1, 2, -2, 4}, z \in {1, -1, 2}, y \in {-1, 0, 1, 3}, w \in {-1, 1, 2, 3}} : ExactLU(A)}

\* ---- closeness tests: operand pairs around the tolerance band of rtol = 1/8 --------------------------------------
\* wide: second = first * (1 + d) (integers: first + d) with d on both sides of the band, equal, on its edge and far
\* away; narrow: every pair close in the order (first, second), some only in that order (allclose)
CA(dt, w) == IF dt = "i" THEN (IF w = "wide" THEN <<R(15), R(-15), R(17), R(8), R(0), R(16), R(3), R(-9)>>
                                              ELSE <<R(15), R(-15), R(17), R(16), R(-23), R(31), R(24), R(-33)>>)
             ELSE (IF w = "wide" THEN <<R(1), R(-1), R(2), <<-3, 2>>, R(0), <<5, 4>>, R(3), <<1, 2>>>>
                                 ELSE <<R(1), R(-1), R(2), <<-3, 2>>, <<5, 4>>, R(3), <<1, 2>>, R(-2)>>)
CD(dt, w) == IF dt = "i" THEN (IF w = "wide" THEN <<R(0), R(2), R(-2), R(1), R(-1), R(3), R(2)>> ELSE <<R(0), R(2), R(1), R(0), R(2), R(1), R(2)>>)
             ELSE (IF w = "wide" THEN <<R(0), <<9, 64>>, <<-15, 128>>, <<1, 4>>, <<1, 8>>, <<-1, 64>>, <<9, 64>>>>
                                 ELSE <<R(0), <<9, 64>>, <<1, 8>>, <<-1, 64>>, <<9, 64>>, R(0), <<1, 8>>>>)
CmpA(dt, s, sh, w) == [sh |-> sh, v |-> [k \in 1..IProd(sh) |-> CA(dt, w)[((s + k * 3) % 8) + 1]]]
CmpB(dt, s, X, w) == [sh |-> X.sh, v |-> [k \in 1..Len(X.v) |->
     LET x == X.v[k] d == CD(dt, w)[((s * 2 + k) % 7) + 1] IN
     IF dt = "i" THEN RAdd(x, IF x[1] < 0 THEN RNeg(d) ELSE d) ELSE IF x = RZero THEN RDivS(d, R(4)) ELSE RMul(x, RAdd(ROne, d))]]
\* <<first, second>> operand pairs: equal shapes in both orders, and an array against a 0-d operand in both orders
CmpPairs(dt, s, w) == UNION {LET X == CmpA(dt, s, sh, w) Y == CmpB(dt, s, X, w) IN
                              {<<X, Y>>, <<Y, X>>} \cup (IF Len(sh) = 0 THEN {} ELSE {<<X, A0(Y.v[2])>>, <<A0(Y.v[2]), X>>})
                            : sh \in {<<>>, <<3>>, <<4>>, <<2, 3>>}}
\* who carries units: q quantity / b bare ndarray / l Python list or number / d dimensionless unyt_array
Carriers == {<<"q", "q">>, <<"q", "b">>, <<"b", "q">>, <<"q", "l">>, <<"l", "q">>, <<"q", "d">>, <<"d", "q">>}
Tols == {<<"tol", <<1, 8, 0, 1>>>>, <<"tol", <<1, 8, 1, 64>>>>, <<"tol", <<0, 1, 1, 4>>>>, <<"tolkw", <<1, 8, 0, 1>>>>}

VARIABLE c
Init == c = <<>>
K(fn, t, a, ia, p, s, dt) == [layer |-> "S", fn |-> fn, t |-> t, a |-> a, ia |-> ia, p |-> p, s |-> s, dt |-> dt]
Full(k) ==
  LET exp == EvalFn(k.fn, k)
      texp == EvalTarget(k.fn, k)
      own == Own(k.fn, Fixes)
      m == EvalHandler(k.fn, k, Fixes) IN
  [layer |-> "S", fn |-> k.fn, t |-> k.t, a |-> k.a, ia |-> k.ia, p |-> k.p, s |-> k.s, dt |-> k.dt,
   exp |-> exp, texp |-> texp, kinds |-> [j \in 1..Len(exp) |-> KindOf(k.fn, k.dt, j)],
   m |-> m, fwd |-> IF k.fn \in {"max", "min", "mean", "sum", "cumsum", "sort", "argsort", "transpose", "reshape", "ravel", "flip", "fliplr", "flipud", "roll", "repeat", "tile", "rot90", "delete", "append", "unique", "setxor1d", "digitize"} THEN ""
           ELSE (IF own \in {"det", "inv", "solve"} THEN "np.linalg." ELSE "np.") \o own,   \* default-path / method-backed functions: no handler frame
   mfail |-> m # exp,
   \* closeness tests: would handing the operands to NumPy in the other order change the answer?
   sw |-> k.fn \in {"isclose", "allclose"} /\ SwapSensitive(k.fn, k.a, k.p)]

Two(dt, s, sh) == <<Arr(dt, s, sh), Arr(dt, s + 5, sh)>>
Three(dt, s, sh) == <<Arr(dt, s, sh), Arr(dt, s + 5, sh), Arr(dt, s + 9, sh)>>

Next ==
  /\ c = <<>>
  /\ \E s \in Seeds, dt \in DTs :
     \/ /\ "join" \in Fams
        /\ \/ \E sh \in Sh1e \cup Sh2, ax \in {0, 1} : (ax = 0 \/ Len(sh) = 2) /\ c' = Full(K("concatenate", "axis", Two(dt, s, sh), <<>>, <<ax>>, <<>>, dt))
           \/ \E sh \in Sh1 : c' = Full(K("concatenate", "axis", Three(dt, s, sh), <<>>, <<0>>, <<>>, dt))
           \/ \E sh \in Sh1 \cup Sh2 : c' = Full(K("concatenate", "axnone", Two(dt, s, sh), <<>>, <<>>, <<>>, dt))
           \/ \E sh \in Sh012 \cup Sh2, fn \in {"vstack", "hstack", "dstack"} : c' = Full(K(fn, "pos", Two(dt, s, sh), <<>>, <<>>, <<>>, dt))
           \/ \E sh \in Sh1, fn \in {"vstack", "hstack", "dstack", "column_stack"} : c' = Full(K(fn, "pos", Three(dt, s, sh), <<>>, <<>>, <<>>, dt))
           \/ \E sh \in Sh1 \cup Sh2 : c' = Full(K("column_stack", "pos", Two(dt, s, sh), <<>>, <<>>, <<>>, dt))
           \/ \E sh \in Sh012 \cup Sh2, ax \in {0, 1, 9} : (ax # 1 \/ Len(sh) >= 1) /\ c' = Full(K("stack", "axis", Two(dt, s, sh), <<>>, <<ax>>, <<>>, dt))
           \/ \E sh \in Sh1 : c' = Full(K("block", "flat", Two(dt, s, sh), <<>>, <<>>, <<>>, dt))
           \/ c' = Full(K("block", "nested", <<Arr(dt, s, <<2, 2>>), Arr(dt, s + 3, <<2, 1>>), Arr(dt, s + 5, <<1, 2>>), Arr(dt, s + 7, <<1, 1>>)>>, <<>>, <<>>, <<>>, dt))
           \/ \E sh \in Sh1 : c' = Full(K("append", "pos", Two(dt, s, sh), <<>>, <<>>, <<>>, dt))
     \/ /\ "select" \in Fams
        /\ \/ \E sh \in Sh1 \cup Sh2 : c' = Full(K("where", "three", Two(dt, s, sh), <<BArr(s, sh)>>, <<>>, <<>>, dt))
           \/ \E sh \in Sh1 : c' = Full(K("choose", "pos", Three(dt, s, sh), <<IArr(s, sh, 3)>>, <<>>, <<>>, dt))
           \/ \E sh \in Sh1 : c' = Full(K("select", "default", <<Arr(dt, s, sh), Arr(dt, s + 5, sh), Sc(dt, s + 2)>>, <<BArr(s, sh), BArr(s + 1, sh)>>, <<>>, <<>>, dt))
           \/ \E sh \in Sh1 \cup Sh2 : c' = Full(K("clip", "pos", <<Arr(dt, s, sh), A0(R(-1)), A0(R(2))>>, <<>>, <<>>, <<>>, dt))
           \/ \E ix \in {<<0, 2, 2>>, <<1>>, <<2, 0>>} : c' = Full(K("take", "pos", <<Arr(dt, s, <<4>>)>>, <<ix>>, <<>>, <<>>, dt))
           \/ \E ix \in {<<1, 0>>, <<1, 1, 0>>}, ax \in {0, 1}, sh \in {<<2, 3>>, <<3, 2>>} : c' = Full(K("take", "axis", <<Arr(dt, s, sh)>>, <<ix>>, <<ax>>, <<>>, dt))
           \/ \E pos \in 0..4 : c' = Full(K("insert", "pos", <<Arr(dt, s, <<4>>), Sc(dt, s + 3)>>, <<>>, <<pos>>, <<>>, dt))
           \/ \E pos \in 0..3 : c' = Full(K("delete", "pos", <<Arr(dt, s, <<4>>)>>, <<>>, <<pos>>, <<>>, dt))
           \/ \E sh \in {<<3>>, <<2, 3>>}, l \in 0..2, r \in 0..1 : c' = Full(K("pad", "cv", <<Arr(dt, s, sh), Sc(dt, s + 3)>>, <<>>, <<l, r>>, <<>>, dt))
           \/ \E sh \in Sh2, k \in -1..1, fn \in {"triu", "tril"} : c' = Full(K(fn, "k", <<Arr(dt, s, sh)>>, <<>>, <<k>>, <<>>, dt))
           \/ \E side \in {"left", "right"} : c' = Full(K("searchsorted", "side", <<SortedArr(dt, s, 4), Arr(dt, s + 5, <<3>>)>>, <<>>, <<>>, <<side>>, dt))
           \/ c' = Full(K("digitize", "pos", <<Arr(dt, s, <<4>>), A1(Uniq(RSort(GenV(dt, s + 5, 4))))>>, <<>>, <<>>, <<>>, dt))
     \/ /\ "arith" \in Fams
        /\ \/ \E sh \in Sh1e, n \in 1..2 : c' = Full(K("diff", "n", <<Arr(dt, s, sh)>>, <<>>, <<n>>, <<>>, dt))
           \/ \E sh \in Sh2, n \in 1..2, ax \in {0, 1} : c' = Full(K("diff", "axis", <<Arr(dt, s, sh)>>, <<>>, <<n, ax>>, <<>>, dt))
           \/ \E sh \in Sh1 : c' = Full(K("ediff1d", "pos", <<Arr(dt, s, sh)>>, <<>>, <<>>, <<>>, dt))
           \/ \E sh \in Sh1 \cup Sh2, fn \in {"sum", "prod", "max", "min", "ptp", "mean"} : c' = Full(K(fn, "all", <<Arr(dt, s, sh)>>, <<>>, <<>>, <<>>, dt))
           \/ \E sh \in Sh2, ax \in {0, 1}, fn \in {"sum", "prod", "max", "min", "ptp", "mean"} : c' = Full(K(fn, "axis", <<Arr(dt, s, sh)>>, <<>>, <<ax>>, <<>>, dt))
           \/ \E sh \in Sh1e : c' = Full(K("cumsum", "all", <<Arr(dt, s, sh)>>, <<>>, <<>>, <<>>, dt))
           \/ \E sh \in Sh2, ax \in {0, 1} : c' = Full(K("cumsum", "axis", <<Arr(dt, s, sh)>>, <<>>, <<ax>>, <<>>, dt))
           \/ \E sh \in Sh2, off \in -1..1 : c' = Full(K("trace", "off", <<Arr(dt, s, sh)>>, <<>>, <<off>>, <<>>, dt))
           \/ \E p \in {<<<<3>>, <<3>>>>, <<<<2, 3>>, <<3>>>>, <<<<3>>, <<3, 2>>>>, <<<<2, 3>>, <<3, 2>>>>, <<<<3, 3>>, <<3, 3>>>>} :
                 c' = Full(K("dot", "pos", <<Arr(dt, s, p[1]), Arr(dt, s + 5, p[2])>>, <<>>, <<>>, <<>>, dt))
           \/ \E sh \in Sh1 \cup {<<2, 3>>}, fn \in {"vdot", "inner"} : c' = Full(K(fn, "pos", Two(dt, s, sh), <<>>, <<>>, <<>>, dt))
           \/ \E p \in {<<<<3>>, <<4>>>>, <<<<2>>, <<3>>>>, <<<<2, 2>>, <<3>>>>} : c' = Full(K("outer", "pos", <<Arr(dt, s, p[1]), Arr(dt, s + 5, p[2])>>, <<>>, <<>>, <<>>, dt))
           \/ \E p \in {<<<<3>>, <<2>>>>, <<<<2, 2>>, <<2, 3>>>>, <<<<1, 2>>, <<2, 2>>>>} : c' = Full(K("kron", "pos", <<Arr(dt, s, p[1]), Arr(dt, s + 5, p[2])>>, <<>>, <<>>, <<>>, dt))
           \/ c' = Full(K("cross", "pos", Two(dt, s, <<3>>), <<>>, <<>>, <<>>, dt))
           \/ \E ax \in 0..2 : c' = Full(K("tensordot", "axes", IF ax = 1 THEN <<Arr(dt, s, <<2, 3>>), Arr(dt, s + 5, <<3, 2>>)>> ELSE Two(dt, s, <<2, 2>>), <<>>, <<ax>>, <<>>, dt))
           \/ \E mode \in {"full", "same", "valid"}, n \in 3..4, m \in 2..3, fn \in {"convolve", "correlate"} :
                 c' = Full(K(fn, "mode", <<Arr(dt, s, <<n>>), Arr(dt, s + 5, <<m>>)>>, <<>>, <<>>, <<mode>>, dt))
           \/ dt = "f" /\ \E n \in 2..4 : c' = Full(K("trapezoid", "dx", <<Arr(dt, s, <<n>>), A0(<<1, 2>>)>>, <<>>, <<>>, <<>>, dt))
           \/ dt = "f" /\ c' = Full(K("trapezoid", "x", <<Arr(dt, s, <<4>>), SortedArr(dt, s + 5, 4)>>, <<>>, <<>>, <<>>, dt))
           \/ dt = "f" /\ c' = Full(K("interp", "pos", <<Arr(dt, s, <<4>>), XP(s), Arr(dt, s + 5, <<Len(XP(s).v)>>)>>, <<>>, <<>>, <<>>, dt))
           \/ dt = "f" /\ c' = Full(K("histogram", "edges", <<Arr(dt, s, <<4>>), A1(<<R(-2), R(0), R(1), R(4)>>)>>, <<>>, <<>>, <<>>, dt))
           \/ dt = "f" /\ s = Seed1 /\ \E A \in Pow2Mats : c' = Full(K("det", "pos", <<A>>, <<>>, <<>>, <<>>, dt))
           \/ dt = "f" /\ s = Seed1 /\ \E A \in Pow2Mats : c' = Full(K("inv", "pos", <<A>>, <<>>, <<>>, <<>>, dt))
           \/ dt = "f" /\ \E A \in Pow2Mats : A.v[2] = RZero /\ c' = Full(K("solve", "vec", <<A, Arr("i", s, <<2>>)>>, <<>>, <<>>, <<>>, dt))
     \/ /\ "compare" \in Fams
        /\ \/ \E fn \in {"isclose", "allclose"}, uc \in Carriers, tl \in Tols :
              \E pr \in CmpPairs(dt, s, IF fn = "allclose" THEN "narrow" ELSE "wide") :
                 c' = Full(K(fn, tl[1], pr, <<>>, tl[2], uc, dt))
           \* equality tests: operands of one unit (different units are different quantities: not C06's concern)
           \/ \E fn \in {"array_equal", "array_equiv"}, w \in {"wide", "narrow"} : \E pr \in CmpPairs(dt, s, w) \cup {<<CmpA(dt, s, <<3>>, w), CmpA(dt, s, <<3>>, w)>>} :
                 c' = Full(K(fn, "pos", pr, <<>>, <<0, 1, 0, 1>>, <<"q", "q">>, dt))
     \/ /\ "order" \in Fams
        /\ \/ \E sh \in Sh1, fn \in {"union1d", "intersect1d", "setdiff1d", "setxor1d", "isin"} : c' = Full(K(fn, "pos", <<Arr("i", s, sh), Arr("i", s + 5, <<3>>)>>, <<>>, <<>>, <<>>, "i"))
           \/ \E sh \in Sh1 : c' = Full(K("unique", "pos", <<Arr(dt, s, sh)>>, <<>>, <<>>, <<>>, dt))
           \/ \E sh \in Sh1, fn \in {"sort", "argsort"} : c' = Full(K(fn, "pos", <<Arr(dt, s, sh)>>, <<>>, <<>>, <<>>, dt))
           \/ \E sh \in Sh2, ax \in {0, 1}, fn \in {"sort", "argsort"} : c' = Full(K(fn, "axis", <<Arr(dt, s, sh)>>, <<>>, <<ax>>, <<>>, dt))
     \/ /\ "shape" \in Fams
        /\ \/ \E sh \in Sh2, fn \in {"transpose", "ravel", "fliplr", "flipud", "rot90"} : c' = Full(K(fn, "pos", <<Arr(dt, s, sh)>>, <<>>, <<>>, <<>>, dt))
           \/ c' = Full(K("reshape", "pos", <<Arr(dt, s, <<2, 3>>)>>, <<>>, <<3, 2>>, <<>>, dt))
           \/ \E sh \in Sh1 : c' = Full(K("flip", "pos", <<Arr(dt, s, sh)>>, <<>>, <<>>, <<>>, dt))
           \/ \E sh \in Sh1, n \in {-1, 1, 2, 5} : c' = Full(K("roll", "pos", <<Arr(dt, s, sh)>>, <<>>, <<n>>, <<>>, dt))
           \/ \E sh \in Sh1, n \in 1..2, fn \in {"repeat", "tile"} : c' = Full(K(fn, "pos", <<Arr(dt, s, sh)>>, <<>>, <<n>>, <<>>, dt))
     \/ /\ "inplace" \in Fams
        /\ \/ \E sh \in Sh2 : c' = Full(K("fill_diagonal", "pos", <<Arr(dt, s, sh), Sc(dt, s + 3)>>, <<>>, <<>>, <<>>, dt))
           \/ \E ix \in {<<0, 2>>, <<3, 1>>, <<1, 1>>} : c' = Full(K("put", "pos", <<Arr(dt, s, <<4>>), Arr(dt, s + 5, <<2>>)>>, <<ix>>, <<>>, <<>>, dt))
           \/ \E sh \in Sh1 : c' = Full(K("putmask", "pos", Two(dt, s, sh), <<BArr(s, sh)>>, <<>>, <<>>, dt))
           \/ c' = Full(K("place", "pos", <<Arr(dt, s, <<4>>), Arr(dt, s + 5, <<2>>)>>, <<BArr(s, <<4>>)>>, <<>>, <<>>, dt))
           \/ \E sh \in Sh1 \cup {<<2, 3>>} : c' = Full(K("copyto", "where", Two(dt, s, sh), <<BArr(s, sh)>>, <<>>, <<>>, dt))
Spec == Init /\ [][Next]_c

Export == c # <<>> => PrintT(ToJson(c))
\* every generated case has a defined expectation (an empty result means the table lacks the function)
Defined == c # <<>> => (c.exp # <<>> \/ c.texp # <<>>)
\* model-level theorem: the design as transcribed refines the named function, except where a finding is recorded
HandlerRefines == c # <<>> => (c.mfail => c.fn = "hstack")
=============================================================================
