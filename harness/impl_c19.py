"""Replay of MC_C19 / MC_C19_deco cases on the real library (C19).

observe(case) dispatches on case["fam"]:

  "close"  one call of a closeness/equality helper
           -> {"k": "true"|"false"|"pass"|"raise"|"vec"|"other", "exc": class name, "v": [bool, ...]}
  "hist"   a history of helper calls over a pool of operand objects that are reused
           -> {"steps": [{"o": outcome as for "close", "snap": [{"x", "u", "dt", "base"} per pool object]}, ...]}
  "deco"   a history of calls of ONE function decorated once with accepts/returns
           -> {"steps": [{"k": "ok"|"raise", "exc", "called": bool, "same": bool}, ...], "build": ""|exception class}

Python only turns a case into real objects/calls and projects the outcome to
strings/bools; every verdict is TLC's (spec/Trace_C19.tla, spec/Trace_C19_deco.tla)."""

from fractions import Fraction

_U = {}

DY = [("la", 1.0, "L"), ("lb", 1024.0, "L"), ("lc", 0.125, "L"), ("ld", 1024.0, "L"), ("ta", 1.0, "T"), ("tb", 16.0, "T"), ("na", 1.0, "N"), ("nq", 0.25, "N")]


class _Units(dict):
    """name -> Unit; a name outside the fixed tables is a unit EXPRESSION of the default registry (registry "rx" of the
    specification: "1000*kg/m**3", "dyne*cm", "12*inch" ...) and is parsed from its text, once"""

    def __init__(self, d, unyt):
        super().__init__(d)
        self._unyt = unyt

    def __missing__(self, name):
        u = self[name] = self._unyt.Unit(name)
        return u


def setup(common=None):
    import numpy as np
    import unyt
    from unyt import dimensions as D
    from unyt.testing import assert_allclose_units, assert_array_equal_units

    dims = {"L": D.length, "T": D.time, "N": D.dimensionless}

    def registry(la_scale):
        r = unyt.UnitRegistry()
        for n, s, d in DY:
            r.add(n, la_scale if n == "la" else s, dims[d])
        return r

    reg = registry(1.0)
    units = {n: unyt.Unit(n, registry=reg) for n, _, _ in DY}
    # the same spelling with another value: a second registry in which la = 4 (lb unchanged) ...
    reg2 = registry(4.0)
    units["la2"] = unyt.Unit("la", registry=reg2)
    units["lb2"] = unyt.Unit("lb", registry=reg2)
    # ... and a third one whose la is re-valued by registry.modify between taking the two units
    reg3 = registry(1.0)
    units["lapre"] = unyt.Unit("la", registry=reg3)
    reg3.modify("la", 4.0)
    units["lapost"] = unyt.Unit("la", registry=reg3)
    for n in ("m", "km", "cm", "inch", "s", "ms", "dimensionless", "percent", "K", "degC"):
        units[n] = unyt.Unit(n)
    units = _Units(units, unyt)
    _U.update(np=np, unyt=unyt, D=D, units=units, uq=unyt.unyt_quantity, ua=unyt.unyt_array, reg=reg)
    _U["helpers"] = {
        "allclose_units": unyt.allclose_units,
        "assert_allclose_units": assert_allclose_units,
        "np.allclose": np.allclose,
        "np.isclose": np.isclose,
        "np.array_equal": np.array_equal,
        "np.array_equiv": np.array_equiv,
        "assert_array_equal_units": assert_array_equal_units,
    }
    _U["fcache"] = {}


def _f(p):
    return int(p[0]) / int(p[1])


_TAGS = {"nan": float("nan"), "inf": float("inf"), "-inf": float("-inf"), "-0": -0.0}


def _vals(xs, tags):
    tags = tags or [""] * len(xs)
    return [_TAGS[t] if t else _f(x) for x, t in zip(xs, tags)]


def _operand(kind, xs, us, tags=None):
    np, U = _U["np"], _U["units"]
    vs = _vals(xs, tags)
    if kind == "q":
        return _U["uq"](vs[0], U[us[0]])
    if kind == "arr":
        return _U["ua"](np.array(vs, dtype="float64"), U[us[0]])
    if kind == "a0":
        return _U["ua"](np.array(vs[0]), U[us[0]])
    if kind == "bs":
        return vs[0]
    if kind == "ba":
        return np.array(vs, dtype="float64")
    if kind == "lst":
        return [_U["uq"](v, U[u]) for v, u in zip(vs, us)]
    raise ValueError(kind)


def _tol(t):
    if t["k"] == "bare":
        return _f(t["v"])
    return _U["uq"](_f(t["v"]), _U["units"][t["u"]])


def _is_bool(x):
    return isinstance(x, (bool, _U["np"].bool_))


def _call_helper(h, a, d, rt, at, en=""):
    np = _U["np"]
    f = _U["helpers"][h]
    kw = {"equal_nan": en == "true"} if en else {}
    try:
        if h in ("allclose_units", "assert_allclose_units"):
            res = f(a, d, _tol(rt), _tol(at), **kw)
        elif h in ("np.allclose", "np.isclose"):
            res = f(a, d, rtol=_tol(rt), atol=_tol(at), **kw)
        else:
            res = f(a, d, **kw)
    except Exception as e:  # noqa: BLE001 - the observation is the exception
        return {"k": "raise", "exc": type(e).__name__, "v": []}
    if h.startswith("assert_"):
        return {"k": "pass" if res is None else "other", "exc": "", "v": []}
    if h == "np.isclose":
        arr = np.atleast_1d(np.asarray(res))
        if arr.dtype != np.bool_:
            return {"k": "other", "exc": "", "v": []}
        return {"k": "vec", "exc": "", "v": [bool(x) for x in arr.ravel()]}
    if not _is_bool(res):
        return {"k": "other", "exc": type(res).__name__, "v": []}
    return {"k": "true" if res else "false", "exc": "", "v": []}


def observe_close(c):
    a = _operand(c["ka"], c["a"], c["au"], c.get("sa"))
    d = _operand(c["kd"], c["d"], c["du"], c.get("sd"))
    return _call_helper(c["helper"], a, d, c["rt"], c["at"], c.get("en", ""))


# ---------------------------------------------------------------------------
# decorators
# ---------------------------------------------------------------------------


def _unit_of(e):
    """unit AST -> Unit: ["u", sym] | ["mul", a, b] | ["div", a, b] | ["pow", a, n, d]"""
    unyt = _U["unyt"]
    if e[0] == "u":
        return unyt.Unit(e[1])
    if e[0] == "mul":
        return _unit_of(e[1]) * _unit_of(e[2])
    if e[0] == "div":
        return _unit_of(e[1]) / _unit_of(e[2])
    if e[0] == "pow":
        import sympy

        return _unit_of(e[1]) ** sympy.Rational(int(e[2]), int(e[3]))
    raise ValueError(e)


def _dim_of(e):
    """dimension AST -> sympy expression built from the names of unyt.dimensions"""
    D = _U["D"]
    if e[0] == "n":
        return getattr(D, e[1])
    if e[0] == "mul":
        return _dim_of(e[1]) * _dim_of(e[2])
    if e[0] == "div":
        return _dim_of(e[1]) / _dim_of(e[2])
    if e[0] == "pow":
        import sympy

        return _dim_of(e[1]) ** sympy.Rational(int(e[2]), int(e[3]))
    raise ValueError(e)


def _value(v):
    """value spec -> object: {"k": "q"|"arr"|"bare", "u": unit AST}"""
    if v["k"] == "bare":
        return 3.0
    if v["k"] == "int":
        return 3
    if v["k"] == "q":
        return _U["uq"](2.0, _unit_of(v["u"]))
    if v["k"] == "arr":
        return _U["ua"]([2.0, 4.0], _unit_of(v["u"]))
    raise ValueError(v)


def _build(t):
    """template -> (decorated function, state dict).  The body counts its executions and returns fixed objects
    (or echoes parameters), so that 'called' and 'same object returned' are observable."""
    unyt = _U["unyt"]
    state = {"n": 0, "last": None}
    ns = {"_state": state, "_defaults": {}, "_consts": []}
    parts = []
    seen_var = False
    for p in t["params"]:
        n, k = p["n"], p["k"]
        if k == "pos":
            parts.append(n)
        elif k == "def":
            ns["_defaults"][n] = _value(p["dv"])
            parts.append(f"{n}=_defaults['{n}']")
        elif k == "var":
            parts.append("*" + n)
            seen_var = True
        elif k in ("kwo", "kwd"):
            if not seen_var:
                parts.append("*")
                seen_var = True
            if k == "kwd":
                ns["_defaults"][n] = _value(p["dv"])
                parts.append(f"{n}=_defaults['{n}']")
            else:
                parts.append(n)
        elif k == "varkw":
            parts.append("**" + n)
    rets = []
    for r in t["result"]:
        if r["src"] == "param":
            rets.append(r["n"])
        else:
            ns["_consts"].append(_value(r["val"]))
            rets.append(f"_consts[{len(ns['_consts']) - 1}]")
    if t["single"]:
        retexpr = rets[0]
    else:
        retexpr = "(" + ", ".join(rets) + ("," if len(rets) == 1 else "") + ")"
    src = f"def f({', '.join(parts)}):\n    _state['n'] += 1\n"
    for loc in t["locals"]:
        src += f"    {loc} = 0\n"
    src += f"    _r = {retexpr}\n    _state['last'] = _r\n    return _r\n"
    exec(src, ns)  # noqa: S102 - the source is assembled from the template's identifiers only
    f = ns["f"]
    acc = {e["n"]: _dim_of(e["dim"]) for e in t["acc"]}
    ret = [_dim_of(e) for e in t["ret"]]
    if t["order"] == "acc_inner":
        if t["hasAcc"]:
            f = unyt.accepts(**acc)(f)
        if t["hasRet"]:
            f = unyt.returns(*ret)(f)
    else:
        if t["hasRet"]:
            f = unyt.returns(*ret)(f)
        if t["hasAcc"]:
            f = unyt.accepts(**acc)(f)
    return f, state


def observe_deco(c):
    try:
        f, state = _build(c["tpl"])
    except Exception as e:  # noqa: BLE001
        return {"steps": [], "build": type(e).__name__ + ": " + str(e)[:200]}
    steps = []
    for call in c["calls"]:
        args = [_value(v) for v in call["pos"]]
        kwargs = {e["n"]: _value(e["v"]) for e in call["kw"]}
        n0 = state["n"]
        state["last"] = None
        try:
            res = f(*args, **kwargs)
            steps.append({"k": "ok", "exc": "", "called": state["n"] - n0 == 1, "ncalls": state["n"] - n0, "same": res is state["last"]})
        except Exception as e:  # noqa: BLE001
            steps.append({"k": "raise", "exc": type(e).__name__, "called": state["n"] - n0 >= 1, "ncalls": state["n"] - n0, "same": False})
    return {"steps": steps, "build": ""}


# ---------------------------------------------------------------------------
# histories of helper calls over reused operand objects
# ---------------------------------------------------------------------------

_PAD = (7.0, 9.0)
_HUGE = [2147483647, 1]


def _rat(x):
    """exact rational of a float the library holds (dyadic registry: exact), or a sentinel no model value equals"""
    import math

    x = float(x)
    if math.isnan(x) or math.isinf(x):
        return _HUGE
    f = Fraction(x)
    if abs(f.numerator) >= 2**31 - 1 or f.denominator >= 2**31 - 1:
        return _HUGE
    return [f.numerator, f.denominator]


def _make_obj(ob):
    """-> (object handed to the helpers, the array that owns its memory)"""
    np, U = _U["np"], _U["units"]
    vals = [_f(x) for x in ob["x"]]
    dt = np.dtype(ob["dt"])
    if ob["k"] == "q":
        q = _U["uq"](dt.type(vals[0]), U[ob["u"]])
        return q, q
    raw = np.array(([_PAD[0]] + vals + [_PAD[1]]) if ob["view"] else vals, dtype=dt)
    full = raw if ob["k"] == "ba" else _U["ua"](raw, U[ob["u"]])
    obj = full[1 : 1 + len(vals)] if ob["view"] else full
    return obj, full


def _uname(units):
    """name of a unit in the specification's table: spelling, value AND registry identify it (la of three registries)"""
    for n, u in _U["units"].items():
        if str(units) == str(u) and units.base_value == u.base_value and units.registry is u.registry:
            return n
    return str(units)


def _snap(obj, full):
    np = _U["np"]
    return {
        "x": [_rat(v) for v in np.asarray(obj).ravel()],
        "u": _uname(obj.units) if hasattr(obj, "units") else "bare",
        "dt": str(np.asarray(obj).dtype),
        "base": [_rat(v) for v in np.asarray(full).ravel()],
    }


def observe_hist(c):
    U = _U["units"]
    objs = [_make_obj(ob) for ob in c["pool"]]
    out = []
    for st, cc in zip(c["steps"], c["c"]):
        a = objs[st["a"] - 1][0]
        d = objs[st["d"] - 1][0]
        try:
            if st["rea"]:
                a = a.to(U[st["rea"]])
            if st["red"]:
                d = d.to(U[st["red"]])
            o = _call_helper(st["helper"], a, d, st["rt"], st["at"])
        except Exception as e:  # noqa: BLE001
            o = {"k": "raise", "exc": type(e).__name__, "v": []}
        out.append({"o": o, "snap": [_snap(ob, full) for ob, full in objs]})
    return {"steps": out}


def observe(case):
    if case.get("fam") == "deco":
        return observe_deco(case)
    if case.get("fam") == "hist":
        return observe_hist(case)
    return observe_close(case)
