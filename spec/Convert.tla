----------------------------- MODULE Convert -----------------------------
(* Unit conversion as unyt does it (C03).                                   *)
(*                                                                          *)
(* Transcribed (same branch order) from                                     *)
(*   unyt/unit_systems.py   _split_prefix                                   *)
(*   unyt/unit_registry.py  _lookup_unit_symbol (table hit, else prefix)    *)
(*   unyt/unit_object.py    _get_conversion_factor (ratio; both offsets     *)
(*                          zero -> no offset; temperature: the offset of a *)
(*                          prefixed unit is divided by its scale; offset = *)
(*                          ratio*o_old - o_new), _check_em_conversion /    *)
(*                          _em_conversion (to_unit given), Unit.__mul__ /  *)
(*                          __pow__ for two-atom compounds                  *)
(*   unyt/array.py          in_units / to / to_value / convert_to_units     *)
(*                          (x*factor, then "if offset: subtract"), dtype   *)
(*                          rule of the copy and the in-place route         *)
(*                                                                          *)
(* Numbers.  Scales are  s * G^tag : s an exact rational, G one irrational  *)
(* generator per commensurability class (pi for angles, the speed of light  *)
(* for the CGS<->SI electromagnetic pairs, none elsewhere).  A value is a   *)
(* Laurent polynomial in G with rational coefficients, exponents -2..2      *)
(* (tuple of five rationals); a complex value is a pair of them.  Floats    *)
(* never enter TLC: the harness evaluates the polynomials with the float G  *)
(* and matches observed floats to them within a rounding tolerance.         *)
(*                                                                          *)
(* The registry.  A conversion is computed from the table of the registry   *)
(* the quantity's unit is bound to: the table read here IS that registry's  *)
(* table.  The `user` instance is a registry made by the caller (symbols    *)
(* added that exist nowhere else, symbols re-calibrated - among them base   *)
(* units of the stock unit systems); its predicted numbers and the meaning  *)
(* of a resulting unit come from that table, never from the default one.    *)
(*                                                                          *)
(* The table (symbol, scale, offset, dimension vector, prefixable), the     *)
(* prefixes and the em_conversions table are regenerated from the tree on   *)
(* every run and read from IOEnv.C03_DATA.  Units are referred to by name;  *)
(* prefix splitting and resolution happen here, in TLA+.                    *)
(*                                                                          *)
(* The C03 predicates (bottom) say only what the property says: identity,   *)
(* inverse, composition, agreement of routes (numbers and resulting unit).  *)
EXTENDS Rational, Dim, Sequences, FiniteSets, TLC, Json, IOUtils

Data == JsonDeserialize(IOEnv.C03_DATA)
Lut == Data.lut            \* <<[name, dim, ex, off, s, tag, o, pfxable]>>  ex: s/o are exact rationals (else dummies)
Prefixes == Data.prefixes  \* <<[p, ex, v]>>
EMTab == Data.em           \* <<[from, fromdim, to, todim, ex, f, tag]>>
ExactMode == Data.exact    \* FALSE: never compute expected numbers (whole-table sweep)

(* ---------------- checked rationals ---------------- *)
\* TLC integers are 32 bit.  Products are cross-cancelled first and checked before they are formed; a result that
\* would not fit is the absorbing value Bad (denominator 0): the case then has no predicted numbers (not exact).
Bad == <<0, 0>>
IsBad(a) == a[2] = 0
IAbs(n) == IF n < 0 THEN -n ELSE n
Big == 1000000000
MulFits(m, n) == m = 0 \/ n = 0 \/ IAbs(m) <= Big \div IAbs(n)
XMul(a, b) == IF IsBad(a) \/ IsBad(b) THEN Bad
              ELSE LET g1 == GCD(a[1], b[2]) g2 == GCD(b[1], a[2])
                       h1 == IF g1 = 0 THEN 1 ELSE g1 h2 == IF g2 = 0 THEN 1 ELSE g2
                       n1 == a[1] \div h1 n2 == b[1] \div h2 d1 == a[2] \div h2 d2 == b[2] \div h1 IN
                   IF MulFits(n1, n2) /\ MulFits(d1, d2) THEN Norm(n1 * n2, d1 * d2) ELSE Bad
XInv(a) == IF IsBad(a) \/ a[1] = 0 THEN Bad ELSE IF a[1] < 0 THEN <<-a[2], -a[1]>> ELSE <<a[2], a[1]>>
XDiv(a, b) == XMul(a, XInv(b))
XAdd(a, b) == IF IsBad(a) \/ IsBad(b) THEN Bad
              ELSE LET g == GCD(a[2], b[2]) p == b[2] \div g q == a[2] \div g IN
                   IF MulFits(a[1], p) /\ MulFits(b[1], q) /\ MulFits(q, b[2]) THEN Norm(a[1] * p + b[1] * q, q * b[2]) ELSE Bad
XNeg(a) == IF IsBad(a) THEN Bad ELSE RNeg(a)
XSub(a, b) == XAdd(a, XNeg(b))
RECURSIVE XPowNat(_, _)
XPowNat(a, n) == IF n = 0 THEN ROne ELSE XMul(a, XPowNat(a, n - 1))
XPow(a, n) == IF n >= 0 THEN XPowNat(a, n) ELSE XInv(XPowNat(a, -n))

(* ---------------- Laurent polynomials in the class generator ---------------- *)
PZero == <<RZero, RZero, RZero, RZero, RZero>>
PConst(r) == <<RZero, RZero, r, RZero, RZero>>
PAdd(p, q) == <<XAdd(p[1], q[1]), XAdd(p[2], q[2]), XAdd(p[3], q[3]), XAdd(p[4], q[4]), XAdd(p[5], q[5])>>
PNeg(p) == <<XNeg(p[1]), XNeg(p[2]), XNeg(p[3]), XNeg(p[4]), XNeg(p[5])>>
POk(p) == \A i \in 1..5 : ~IsBad(p[i])
PSub(p, q) == PAdd(p, PNeg(q))
PCoef(p, r, e, i) == IF (i - e) \in 1..5 THEN XMul(p[i - e], r) ELSE RZero
\* p * (r * G^e)
PMulMono(p, r, e) == <<PCoef(p, r, e, 1), PCoef(p, r, e, 2), PCoef(p, r, e, 3), PCoef(p, r, e, 4), PCoef(p, r, e, 5)>>
PFits(p, e) == \A i \in 1..5 : (p[i][1] # 0) => ((i + e) \in 1..5)
\* a number: real and imaginary part
Num(re, im) == [re |-> re, im |-> im]
NReal(r) == Num(PConst(r), PZero)

(* ---------------- table look-up ---------------- *)
LutNames == {Lut[i].name : i \in DOMAIN Lut}
LutRowOf == [n \in LutNames |-> Lut[CHOOSE i \in DOMAIN Lut : Lut[i].name = n]]
PrefixSet == {Prefixes[i].p : i \in DOMAIN Prefixes}
PrefixRowOf == [p \in PrefixSet |-> Prefixes[CHOOSE i \in DOMAIN Prefixes : Prefixes[i].p = p]]

\* unit_systems._split_prefix: one attempt, first character (or "da"), rest must be a prefixable table symbol
SplitPrefix(str) ==
  LET n == Len(str)
      isda == n >= 2 /\ SubSeq(str, 1, 2) = "da"
      pp == IF isda THEN "da" ELSE IF n >= 1 THEN SubSeq(str, 1, 1) ELSE ""
      rest == IF isda THEN SubSeq(str, 3, n) ELSE SubSeq(str, 2, n) IN
  IF pp \in PrefixSet /\ rest \in LutNames /\ LutRowOf[rest].pfxable THEN <<pp, rest>> ELSE <<"", str>>

NoUnit == [idx |-> 0, ok |-> FALSE, ex |-> FALSE, off |-> FALSE, s |-> ROne, tag |-> 0, o |-> RZero, dim |-> DZero, atomic |-> TRUE, str |-> ""]
\* unit_registry._lookup_unit_symbol: table hit first, else prefix + prefixable symbol (scale * prefix, same offset)
ResolveAtom(name) ==
  IF name \in LutNames
  THEN LET r == LutRowOf[name] IN
       [idx |-> 0, ok |-> TRUE, ex |-> r.ex, off |-> r.off, s |-> r.s, tag |-> r.tag, o |-> r.o, dim |-> r.dim, atomic |-> TRUE, str |-> name]
  ELSE LET sp == SplitPrefix(name) IN
       IF sp[1] = "" THEN NoUnit
       ELSE LET r == LutRowOf[sp[2]] pv == PrefixRowOf[sp[1]] IN
            [idx |-> 0, ok |-> TRUE, ex |-> r.ex /\ pv.ex /\ ~IsBad(XMul(r.s, pv.v)), off |-> r.off, s |-> XMul(r.s, pv.v), tag |-> r.tag, o |-> r.o, dim |-> r.dim, atomic |-> TRUE, str |-> name]

\* a unit spec is [a, ea, b, eb]: atom a (ea = 1, b = "") or the compound a**ea * b**eb
AtomSpec(n) == [a |-> n, ea |-> 1, b |-> "", eb |-> 0, coef |-> 1]
DimPow(d, n) == <<d[1]*n, d[2]*n, d[3]*n, d[4]*n, d[5]*n, d[6]*n, d[7]*n, d[8]*n, d[9]*n>>
DimMul(d, e) == <<d[1]+e[1], d[2]+e[2], d[3]+e[3], d[4]+e[4], d[5]+e[5], d[6]+e[6], d[7]+e[7], d[8]+e[8], d[9]+e[9]>>
\* Unit.__mul__/__pow__: scales multiply, dimensions multiply; an operand with an offset refuses (never generated here)
\* the dimensionless unit 1 (second factor of a single-atom power / of a coefficient unit)
UnitOne == [NoUnit EXCEPT !.ok = TRUE, !.ex = TRUE, !.dim = <<0, 0, 0, 0, 0, 0, 0, 0, 0>>]
\* a unit spec is coef * a**ea * b**eb (b = "" : no second atom).  coef = 1, ea = 1, b = "" is the atom itself;
\* anything else goes through Unit.__mul__/__pow__ (scales multiply, dimensions add; an offset operand refuses)
\* and is not atomic: "1000*m", "s**-1", "N*m" are spellings with the scale of km, Hz, J.
ResolveSpec(u) ==
  LET a == ResolveAtom(u.a) IN
  IF u.b = "" /\ u.ea = 1 /\ u.coef = 1 THEN a
  ELSE LET b == IF u.b = "" THEN UnitOne ELSE ResolveAtom(u.b)
           eb == IF u.b = "" THEN 0 ELSE u.eb
           sc == XMul(R(u.coef), XMul(XPow(a.s, u.ea), XPow(b.s, eb))) IN
       [idx |-> 0, ok |-> a.ok /\ b.ok /\ ~a.off /\ ~b.off /\ u.a # u.b,
        ex |-> a.ex /\ b.ex /\ ~IsBad(sc), off |-> FALSE,
        s |-> IF a.ex /\ b.ex THEN sc ELSE ROne,
        tag |-> a.tag * u.ea + b.tag * eb, o |-> RZero,
        dim |-> DimMul(DimPow(a.dim, u.ea), DimPow(b.dim, eb)), atomic |-> FALSE, str |-> "(compound)"]

(* ---------------- the pool of units of this instance ---------------- *)
\* Data.pool lists unit specs: the atoms of the instance, then every a**ea * b**eb over the compound atoms and
\* exponent pairs of the instance (a plain cartesian product; which of them are units at all, and which are
\* commensurable, is decided here by ResolveSpec / Supported).  No RECURSIVE operator on this path: TLC
\* re-evaluates definitions that depend on one at every reference.
Pool == Data.pool
PoolU == [i \in DOMAIN Pool |-> [ResolveSpec(Pool[i]) EXCEPT !.idx = i]]
NPool == Len(Pool)

(* ---------------- _get_conversion_factor ---------------- *)
TemperatureDim == <<0, 0, 0, 12, 0, 0, 0, 0, 0>>
AngleDim == <<0, 0, 0, 0, 12, 0, 0, 0, 0>>
\* str(unit) of a compound never splits into prefix + table symbol
Prefixed(u) == u.atomic /\ SplitPrefix(u.str)[1] # ""
\* "for degree Celsius, back out the SI prefix scaling": only when the dimension is temperature
EffOff(u) == IF u.dim = TemperatureDim /\ Prefixed(u) THEN XDiv(u.o, u.s) ELSE u.o
NoFactor == [k |-> "raise", r |-> ROne, e |-> 0, hasoff |-> FALSE, off |-> PZero]
ConvFactor(A, B) ==
  IF A.dim # B.dim THEN NoFactor
  ELSE LET r == XDiv(A.s, B.s) e == A.tag - B.tag IN
       IF RIsZero(A.o) /\ RIsZero(B.o) THEN [k |-> "ok", r |-> r, e |-> e, hasoff |-> FALSE, off |-> PZero]
       ELSE [k |-> "ok", r |-> r, e |-> e, hasoff |-> TRUE,
             off |-> PSub(PMulMono(PConst(EffOff(A)), r, e), PConst(EffOff(B)))]

(* ---------------- unit objects bound to another table ---------------- *)
\* A unit object is a symbol read in ONE table: the quantity's registry, or another one in which the same spelling
\* carries another value (a unit of a second registry; a Unit object made before its registry was re-calibrated).
\* The rows of that second table are listed under `<symbol>@2`; everything above (prefix splitting, look-up,
\* compounds, the affine rule) works on the row, whatever table it belongs to - as _get_conversion_factor works on
\* the two unit objects' own base_value / base_offset / dimensions and never looks a spelling up again.
TwinMark == "@2"
IsTwinName(n) == Len(n) > 2 /\ SubSeq(n, Len(n) - 1, Len(n)) = TwinMark
BareName(n) == IF IsTwinName(n) THEN SubSeq(n, 1, Len(n) - 2) ELSE n
TableSuffix(n) == IF IsTwinName(n) THEN TwinMark ELSE ""

(* ---------------- _check_em_conversion(unit, to_unit) + _em_conversion ---------------- *)
EmDims == {EMTab[i].fromdim : i \in DOMAIN EMTab}
NoEm == [k |-> "none", f |-> ROne, tag |-> 0, emu |-> NoUnit, ex |-> FALSE]
EmRoute(A, B) ==
  \* `unit == to_unit` needs equal dimensions, in which case no branch below fires either
  IF A.dim = B.dim \/ A.dim \notin EmDims THEN NoEm
  ELSE LET sp == IF A.atomic THEN SplitPrefix(A.str) ELSE <<"", A.str>>
           hits == {i \in DOMAIN EMTab : EMTab[i].from = BareName(sp[2]) /\ EMTab[i].fromdim = A.dim} IN
       IF hits = {} THEN NoEm
       ELSE LET info == EMTab[CHOOSE i \in hits : TRUE]
                \* Unit(prefix + counterpart, registry = the source unit's registry)
                emu == ResolveAtom(sp[1] \o info.to \o TableSuffix(sp[2])) IN
            IF emu.ok /\ B.dim = emu.dim THEN [k |-> "em", f |-> info.f, tag |-> info.tag, emu |-> emu, ex |-> info.ex] ELSE NoEm
\* new_units = factor * em_unit; conv = new_units.get_conversion_factor(to_units): no offsets on these units
EmFactor(A, B) == LET em == EmRoute(A, B) IN
  [k |-> "ok", r |-> XDiv(XMul(em.f, em.emu.s), B.s), e |-> em.tag + em.emu.tag - B.tag, hasoff |-> FALSE, off |-> PZero]

\* the factor the array-level routes use (in_units sets offset = 0 on the EM route, convert_to_units keeps it: it is None there)
RouteFactor0(A, B) == IF EmRoute(A, B).k = "em" THEN EmFactor(A, B) ELSE ConvFactor(A, B)
Supported(A, B) == A.ok /\ B.ok /\ (A.dim = B.dim \/ EmRoute(A, B).k = "em")
ExactPair0(A, B) == ExactMode /\ A.ex /\ B.ex /\ (EmRoute(A, B).k = "em" => (EmRoute(A, B).ex /\ EmRoute(A, B).emu.ex))
\* both, tabulated once for the pairs of the pool (TLC evaluates a constant definition once)
PairTab == IF ExactMode
           THEN [i \in 1..NPool |-> [j \in 1..NPool |->
                   IF Supported(PoolU[i], PoolU[j]) THEN [f |-> RouteFactor0(PoolU[i], PoolU[j]), xp |-> ExactPair0(PoolU[i], PoolU[j])]
                   ELSE [f |-> NoFactor, xp |-> FALSE]]]
           ELSE <<>>
RouteFactor(A, B) == IF ExactMode /\ A.idx > 0 /\ B.idx > 0 THEN PairTab[A.idx][B.idx].f ELSE RouteFactor0(A, B)
ExactPair(A, B) == IF ExactMode /\ A.idx > 0 /\ B.idx > 0 THEN PairTab[A.idx][B.idx].xp ELSE ExactPair0(A, B)
\* get_conversion_factor applied by hand has no EM route: refuses across dimensions
HandFactor(A, B) == ConvFactor(A, B)

\* x*factor, then `if offset: subtract`; the imaginary part only scales
ApplyP(p, f) == LET y == PMulMono(p, f.r, f.e) IN IF f.hasoff /\ f.off # PZero THEN PSub(y, f.off) ELSE y
Apply(z, f) == Num(ApplyP(z.re, f), PMulMono(z.im, f.r, f.e))
ApplyVec(v, f) == [i \in DOMAIN v |-> Apply(v[i], f)]
FitsVec(v, f) == \A i \in DOMAIN v : PFits(v[i].re, f.e) /\ PFits(v[i].im, f.e)
VecOk(v) == \A i \in DOMAIN v : POk(v[i].re) /\ POk(v[i].im)
VecsOk(vs) == \A j \in DOMAIN vs : VecOk(vs[j])

(* ---------------- dtype of the result (array.py) ---------------- *)
\* copy route: kind c|f, itemsize max(2, itemsize)
CopyDt(dt) == CASE dt = "i8" -> "f8" [] dt = "i4" -> "f4" [] OTHER -> dt
\* in-place route: integers become floats of the same item size (1-byte integers refuse: not in the alphabet)
InPlaceDt(dt) == CopyDt(dt)
\* to_value: a quantity returns a Python float
ToValueDt(dt, sh) == IF sh = "scalar" THEN "pyfloat" ELSE CopyDt(dt)

\* projection of the observed dtype names
NormDt(d) == CASE d = "float64" -> "f8" [] d = "float32" -> "f4" [] d = "complex128" -> "c16" [] d = "int64" -> "i8"
               [] d = "int32" -> "i4" [] OTHER -> d

(* ---------------- input values ---------------- *)
IsComplex(dt) == dt = "c16"
\* complex inputs are x + (x+1)i
InVec(dt, xs) == [i \in DOMAIN xs |-> IF IsComplex(dt) THEN Num(PConst(xs[i]), PConst(XAdd(xs[i], ROne))) ELSE NReal(xs[i])]

(* ---------------- expected numbers of one case (implementation-shaped) ---------------- *)
\* candidate vectors per group of numbers.  conv: A: <<x, A->B->A>>, B: <<A->B>>, C: <<A->B->C, A->C>>; aa = A->A
\* A case is exact when every leg has exact table data, every number fits (32 bit, exponent range); otherwise the
\* only candidate is the input itself (the property predicates are still evaluated on the observations).
Inexact(x) == [exact |-> FALSE, cd |-> [A |-> <<x>>, B |-> <<>>, C |-> <<>>], aa |-> x]
ConvEval(A, B, C, dt, xs) ==
  LET x == InVec(dt, xs) IN
  IF ~(ExactPair(A, B) /\ ExactPair(B, A) /\ ExactPair(B, C) /\ ExactPair(A, C) /\ ExactPair(A, A)) THEN Inexact(x)
  ELSE LET fab == RouteFactor(A, B) fba == RouteFactor(B, A) fbc == RouteFactor(B, C) fac == RouteFactor(A, C)
           ab == ApplyVec(x, fab)
           cd == [A |-> <<x, ApplyVec(ab, fba)>>, B |-> <<ab>>, C |-> <<ApplyVec(ab, fbc), ApplyVec(x, fac)>>]
           aa == ApplyVec(x, RouteFactor(A, A)) IN
       IF /\ FitsVec(x, fab) /\ FitsVec(x, fac) /\ FitsVec(ab, fba) /\ FitsVec(ab, fbc)
          /\ VecsOk(cd.A) /\ VecsOk(cd.B) /\ VecsOk(cd.C) /\ VecOk(aa)
       THEN [exact |-> TRUE, cd |-> cd, aa |-> aa] ELSE Inexact(x)

(* ---------------- base cases: in_base / convert_to_base / in_cgs / in_mks ---------------- *)
\* get_base_equivalent: the unit the system's units_map lists for the dimension (when it lists one and no EM route
\* interferes); other targets (synthesised from base units, EM re-routing) are observed, not predicted.
Systems == Data.systems   \* <<[name, map: <<[dim, unit]>>]>>
SysTarget(s, A) == LET hits == {i \in DOMAIN Systems[s].map : Systems[s].map[i].dim = A.dim} IN
                   IF hits = {} \/ A.dim \in EmDims THEN NoUnit
                   ELSE ResolveAtom(Systems[s].map[CHOOSE i \in hits : TRUE].unit)
SysTargetName(s, A) == LET hits == {i \in DOMAIN Systems[s].map : Systems[s].map[i].dim = A.dim} IN
                       IF hits = {} \/ A.dim \in EmDims THEN "" ELSE Systems[s].map[CHOOSE i \in hits : TRUE].unit
\* The registry a quantity lives in may be configured with a unit system (UnitRegistry(unit_system = ...)): cfg is the
\* index of that system in Systems, 0 when the registry was made without one.  A unit-system request made with the
\* DEFAULT argument (in_base(), convert_to_base(), get_base_equivalent()) asks for "the configured base units
\* (defaults to MKS)" (docstrings of in_base / convert_to_base): unit_registry._sanitize_unit_system(None, obj) reads
\* obj.units.registry.unit_system, and UnitRegistry.__init__ resolves its own None to mks.
MksIdx == CHOOSE s \in DOMAIN Systems : Systems[s].name = "mks"
DefaultSys(cfg) == IF cfg = 0 THEN MksIdx ELSE cfg
\* the request family the default-argument forms of a base case (requested system s, registry configured cfg) belong
\* to: the same request as the named forms when the default resolves to s, else a request of their own
DefaultIsNamed(s, cfg) == DefaultSys(cfg) = s
\* A: <<x, A->U->A>>, B: <<A->U>>, C: <<A->Ud>> (Ud the target of the default-argument forms when it is another system)
BaseEval(A, s, cfg, dt, xs) ==
  LET x == InVec(dt, xs) U == SysTarget(s, A) d == DefaultSys(cfg)
      Ud == SysTarget(d, A) IN
  IF ~(U.ok /\ ExactPair(A, U) /\ ExactPair(U, A)) THEN Inexact(x)
  ELSE LET fau == RouteFactor(A, U) fua == RouteFactor(U, A)
           au == ApplyVec(x, fau)
           aud == IF d # s /\ Ud.ok /\ ExactPair(A, Ud) /\ FitsVec(x, RouteFactor(A, Ud)) /\ VecOk(ApplyVec(x, RouteFactor(A, Ud)))
                  THEN <<ApplyVec(x, RouteFactor(A, Ud))>> ELSE <<>>
           cd == [A |-> <<x, ApplyVec(au, fua)>>, B |-> <<au>>, C |-> aud] IN
       IF FitsVec(x, fau) /\ FitsVec(au, fua) /\ VecsOk(cd.A) /\ VecsOk(cd.B)
       THEN [exact |-> TRUE, cd |-> cd, aa |-> x] ELSE Inexact(x)

\* keyed the way MC_C03 exports a case and Trace_C03 reads it back
CaseEval(kind, A, B, C, s, cfg, dt, xs) == IF kind = "conv" THEN ConvEval(A, B, C, dt, xs) ELSE BaseEval(A, s, cfg, dt, xs)
ClsOf(A) == IF A.dim = TemperatureDim THEN "temperature" ELSE IF A.dim = AngleDim THEN "angle"
            ELSE IF A.dim \in EmDims THEN "em" ELSE "other"

(* ---------------- C03 at the level of the model (what TLC checks on the transcription) ---------------- *)
M_Id(ev, x) == ev.aa = x
M_Inv(ev, x) == ev.cd.A[2] = x
M_Comp(ev) == ev.cd.C[1] = ev.cd.C[2]
\* the by-hand route and the array route use the same factor whenever both are defined
M_Routes(A, B) == (A.dim = B.dim) => (HandFactor(A, B) = RouteFactor(A, B))

(* ---------------- C03 on observations ---------------- *)
\* An observed number is a reference <<i, f>>: i > 0 - it matched candidate vector i of its group (same element)
\* within rounding; i = 0 - it matched none, f is the id of its cluster of mutually matching observed numbers.
ObsNum(cands, ref, e) == IF ref[1] > 0 THEN [z |-> cands[ref[1]][e], f |-> 0] ELSE [z |-> Num(PZero, PZero), f |-> ref[2]]
ObsVec(cands, v) == [e \in DOMAIN v |-> ObsNum(cands, v[e], e)]
AsObs(vec) == [e \in DOMAIN vec |-> [z |-> vec[e], f |-> 0]]
=============================================================================
