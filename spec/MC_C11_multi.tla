---------------------------- MODULE MC_C11_multi ----------------------------
(* Bounded instances of PersistMulti: every history Setup ; (Restore | Edit)^MaxSteps is exported at its full length *)
(* (shorter histories are its prefixes; the predicates are evaluated after every step).                              *)
EXTENDS PersistMulti
QuickPairs == {<<"stock", "mile", "modmile", "mile">>, <<"modmile", "mile", "stock", "mile">>,
               <<"foo", "foo", "foomod", "mile">>, <<"foo", "foo", "foo", "foo">>}
AllPairs == QuickPairs \cup {<<"foomod", "mile", "foo", "mile">>, <<"foomod", "foo", "foomod", "mile">>, <<"stock", "mile", "stock", "mile">>,
                             <<"modmile", "mile", "foomod", "mile">>}
QuickHow == {"pickle", "reload", "deepcopy"}
AllHow == {"pickle", "reload", "deepcopy", "json"}
ArrayOnly == {"array"}
ArrayUnit == {"array", "unit"}
AllCls == {"array", "quantity", "unit"}
MSpec == MInit /\ [][MNext]_mvars
ExportM == (Steps = MaxSteps) => PrintT(ToJson([tag |-> "MCASE", h |-> hist]))
=============================================================================
