------------------------------ MODULE MC_C04 ------------------------------
(* Bounded instance of Arith for C04: programs (sequences of steps over      *)
(* registers) x assignments of units to the two leaves x a re-expression of  *)
(* each leaf in another commensurable unit (run B; the product machine).     *)
(* TLC enumerates every program up to MaxLen (or simulates deeper ones),     *)
(* carries the transcription's registers for both runs, and exports the case *)
(* together with, for every register, the transcription's numbers (iv), its  *)
(* unit (u) and the reference numbers in that unit (rv).  The model-level    *)
(* verdict of the C04 predicates on the transcription itself is exported as  *)
(* MODEL-FAIL classes (today: floor_divide / divmod of commensurable         *)
(* operands written in different units).                                     *)
EXTENDS Arith
CONSTANTS MaxLen, ExportLen, LeafSet, XShapes, YShapes, ValSets, ReexAll, OpSet,
          InitPairs,     \* {} = every pair of leaf units; otherwise the set of 100*ix+iy to start from
          ClassPairs,    \* TRUE: leaf pairs of one scale class (Reex) plus those listed in InitPairs
          RegPairs,      \* registries of the two leaves, as 10*rx+ry (1, 2: the two custom registries; 3: unyt's default registry)
          ReexReg,       \* TRUE: run B writes each leaf in the OTHER custom registry (same symbols, other sizes)
          DTX, DTY,      \* dtypes of the two leaves: "f8" "f4" "c16" "c8" "i8" "i4" "i2" "i1" "u1"
          MixedShapes,   \* TRUE: only leaf pairs of DIFFERENT shapes (one operand is broadcast against the other)
          ResBound       \* bound on the numerators / denominators of a step's result (8192 wherever chains continue)

UX(i, e6) == [k \in 1..NA |-> IF k = i THEN e6 ELSE 0]      \* exponent given x6
U3(i, ei, j, ej, l, el) == [k \in 1..NA |-> IF k = i THEN 6 * ei ELSE IF k = j THEN 6 * ej ELSE IF k = l THEN 6 * el ELSE 0]
U2(i, ei, j, ej) == [k \in 1..NA |-> IF k = i THEN 6 * ei ELSE IF k = j THEN 6 * ej ELSE 0]
\* leaf unit catalogue
LeafCat == << UAtom(1), UAtom(2), UAtom(3), UAtom(4), UAtom(5), UAtom(6), UOne,
              U2(1, 1, 4, -1), U2(2, 1, 5, -1), U2(1, 2, 1, 2), U2(2, 1, 3, 1),
              UAtom(7), UAtom(8), UAtom(9), UAtom(10), UAtom(11), U2(7, 1, 10, -1),
              UAtom(12), UAtom(14), UAtom(15), UAtom(13), U2(3, 2, 3, 2), U2(8, 2, 8, 2), U2(1, 1, 5, -1),
              \* 25..37: magnitude classes (tiny / huge scales, see Arith!AtomPV)
              UAtom(16), UAtom(17), UAtom(18), UAtom(19), UAtom(20), UAtom(21), UAtom(22), UAtom(23), UAtom(24), UAtom(25),
              UAtom(26), UAtom(27), UAtom(28),
              \* 38..39: angle units with a zero point (trig only)
              UAtom(29), UAtom(30),
              \* 40..46: units whose quotient / product cancels only partly pair by pair: exponents 3/2 and -3/2 (the integer part
              \* cancels pairwise into the coefficient, the half power is left as a scaled dimensionless unit), and the compound
              \* velocity atom xva (xva*xlb against xlc*xla/xta: xlb/xlc cancels pairwise, xva*xta/xla only as a whole)
              UX(2, 9), UX(3, 9), UX(3, -9), UX(1, 9), UAtom(31), U3(31, 1, 2, 1, 2, 0), U3(3, 1, 1, 1, 4, -1),
              \* 47..48: reciprocal lengths - a product with a length cancels completely into a whole-number coefficient
              \* (xlb * 1/xla -> 32, xlb * 1/xlc -> 256; the km * 1/m of the power-of-two registry)
              UX(1, -6), UX(3, -6) >>
NLeafCat == 48
IsAngle(u) == DV(u) = DAngle1
Commens(i, j) == DV(LeafCat[i]) = DV(LeafCat[j])
\* a leaf is re-expressed inside its scale class: commensurable units whose scale ratio is a small rational (so that the
\* re-expressed leaf values stay inside the value bound); tiny, ordinary and huge units form separate classes
Reex(i, j) == Commens(i, j) /\ LET r == PVRat(VSub(SV(LeafCat[i]), SV(LeafCat[j]))) IN r.ok /\ r.v[1] <= 2048 /\ r.v[2] <= 2048
\* cyclic successor inside the commensurability class (quick tier: one re-expression per unit)
NextIn(i) == LET later == {j \in LeafSet : j > i /\ Reex(i, j)}
                 all == {j \in LeafSet : Reex(i, j)} IN
             IF later # {} THEN CHOOSE j \in later : \A k \in later : j <= k
             ELSE CHOOSE j \in all : \A k \in all : j <= k
Alt(i) == IF ReexAll THEN {j \in LeafSet : Reex(i, j)} ELSE {NextIn(i)}

\* leaf values (run A)
\* angles: degrees for `degree`, multiples of 15 degrees for the other angle leaves; chosen so that sin and cos (x) / tan (y)
\* are rational on every element (set 1) or sin = 1/2 (x), cos = +-1/2 (y) (other sets)
DegX(s) == IF s = 1 THEN <<R(90), R(180)>> ELSE <<R(30), R(150)>>
DegY(s) == IF s = 1 THEN <<R(45), R(135)>> ELSE <<R(60), R(120)>>
StepX(s) == IF s = 1 THEN <<R(6), R(12)>> ELSE <<R(2), R(10)>>
StepY(s) == IF s = 1 THEN <<R(3), R(9)>> ELSE <<R(4), R(8)>>
\* the same angles written in lat (degrees = 90 - x) / lon (degrees = x + 180)
FromDeg(v, u) == IF u = UAtom(LatAtom) THEN [i \in DOMAIN v |-> RSub(R(90), v[i])] ELSE IF u = UAtom(LonAtom) THEN [i \in DOMAIN v |-> RSub(v[i], R(180))] ELSE v
ToDeg(v, u) == IF u = UAtom(LatAtom) THEN [i \in DOMAIN v |-> RSub(R(90), v[i])] ELSE IF u = UAtom(LonAtom) THEN [i \in DOMAIN v |-> RAdd(v[i], R(180))] ELSE v
XVals(u, s) == IF IsAngle(u) THEN (IF u = UAtom(12) THEN DegX(s) ELSE IF HasOffset(u) THEN FromDeg(DegX(s), u) ELSE StepX(s))
               ELSE CASE s = 1 -> <<R(7), <<-5, 2>> >> [] s = 2 -> <<R(-9), R(4)>> [] s = 3 -> <<R(64), R(96)>> [] s = 4 -> <<R(96), R(40)>> [] s = 5 -> <<R(2), R(8)>>
                    \* 6, 7: small whole numbers (integer dtypes: the raw product fits int8 / int16, coefficient x product does not)
                    [] s = 6 -> <<R(7), R(5)>> [] s = 7 -> <<R(100), R(90)>>
YVals(u, s) == IF IsAngle(u) THEN (IF u = UAtom(12) THEN DegY(s) ELSE IF HasOffset(u) THEN FromDeg(DegY(s), u) ELSE StepY(s))
               ELSE CASE s = 1 -> <<R(3), R(2)>> [] s = 2 -> <<R(-2), <<5, 4>> >> [] s = 3 -> <<R(2), <<3, 2>> >> [] s = 4 -> <<R(4), R(3)>> [] s = 5 -> <<R(4), <<3, 2>> >>
                    [] s = 6 -> <<R(3), R(2)>> [] s = 7 -> <<R(2), R(1)>>
VB == 8192
Bounded(v) == \A i \in DOMAIN v : IAbs(v[i][1]) <= VB /\ v[i][2] <= VB
BoundedR(v) == \A i \in DOMAIN v : IAbs(v[i][1]) <= ResBound /\ v[i][2] <= ResBound
RECURSIVE Pow2(_)
Pow2(d) == d = 1 \/ (d % 2 = 0 /\ Pow2(d \div 2))
DyadicVals(v) == \A i \in DOMAIN v : Pow2(v[i][2])
\* re-expression of leaf numbers: by the ratio of the scales; through degrees when a zero point is involved
Deg == UAtom(12)
ConvS(v, sa, sb) == LET c == PVRat(VSub(sa, sb)) IN Map1(LAMBDA x : CMul(G(x), c), v)
ConvR(v, ua, ub) == ConvS(v, SV(ua), SV(ub))
\* (units with a zero point exist in registry 1 only)
Conv(v, ua, ub, rga, rgb) ==
  IF ~(HasOffset(ua) \/ HasOffset(ub)) THEN ConvS(v, SVr(rga, ua), SVr(rgb, ub))
  ELSE LET d == IF HasOffset(ua) THEN GV(ToDeg(v, ua)) ELSE ConvR(v, ua, Deg) IN
       IF ~AllOk(d) THEN d
       ELSE IF HasOffset(ub) THEN GV(FromDeg(Strip(d), ub)) ELSE ConvR(Strip(d), Deg, ub)
IsCx(dt) == dt \in {"c16", "c8"}
\* imaginary parts of complex leaves (run A); a complex leaf holds real parts then imaginary parts
XImag(n) == IF n = 1 THEN <<R(2)>> ELSE <<R(2), <<-3, 2>> >>
YImag(n) == IF n = 1 THEN <<R(-1)>> ELSE <<R(-1), R(5)>>
Leaf(v, u, rg, dt) == [k |-> "q", u |-> u, sv |-> SVr(rg, u), rg |-> rg, cx |-> IsCx(dt), dt |-> dt, v |-> v, rv |-> v, pv |-> v,
                       pf |-> "ok", ex |-> UDyadic(u) /\ DyadicVals(v)]
\* registry 3 is a plain UnitRegistry(): it does not know the custom atoms
RegOk(rg, u) == rg = 3 => \A i \in 1..NA : (AtomDyadic[i] \/ i = StAtom) => u[i] = 0
OtherReg(rg) == IF ReexReg THEN (IF rg = 1 THEN 2 ELSE IF rg = 2 THEN 1 ELSE rg) ELSE rg

VARIABLES steps, ra, rb, cfgv
vars == <<steps, ra, rb, cfgv>>
Dummy == [k |-> "x", u |-> UOne, sv |-> SZero, rg |-> 0, cx |-> FALSE, dt |-> "f8", v |-> <<ROne>>, rv |-> <<ROne>>, pv |-> <<ROne>>, pf |-> "ok", ex |-> TRUE]
BareNum(p) == [k |-> "n", u |-> UOne, sv |-> SZero, rg |-> 0, cx |-> FALSE, dt |-> "f8", v |-> <<p>>, rv |-> <<p>>, pv |-> <<p>>, pf |-> "ok", ex |-> TRUE]

Init ==
  \E ix \in LeafSet, iy \in LeafSet, xs \in XShapes, ys \in YShapes, s \in ValSets, rp \in RegPairs, dtx \in DTX, dty \in DTY :
  \E jx \in Alt(ix), jy \in Alt(iy) :
    (MixedShapes => xs # ys) /\
    (IF ClassPairs THEN Reex(ix, iy) \/ (100 * ix + iy) \in InitPairs ELSE InitPairs = {} \/ (100 * ix + iy) \in InitPairs) /\
    LET ux == LeafCat[ix]  uy == LeafCat[iy]  rx == rp \div 10  ry == rp % 10
        \* shapes: "v" a 1-d array of two numbers, "s" a 0-d quantity, "o" a 1-d array holding ONE number (cfg.xs / cfg.ys
        \* tell the harness which of the two one-number objects to build)
        rex == IF xs \in {"s", "o"} THEN <<XVals(ux, s)[1]>> ELSE XVals(ux, s)
        rey == IF ys \in {"s", "o"} THEN <<YVals(uy, s)[1]>> ELSE YVals(uy, s)
        vx == IF IsCx(dtx) THEN rex \o XImag(Len(rex)) ELSE rex
        vy == IF IsCx(dty) THEN rey \o YImag(Len(rey)) ELSE rey
        wx == Conv(vx, ux, LeafCat[jx], rx, OtherReg(rx))  wy == Conv(vy, uy, LeafCat[jy], ry, OtherReg(ry)) IN
    \* dtypes: a non-default dtype in either position, or the same one in both
    /\ (dtx = "f8" \/ dty = "f8" \/ dtx = dty)
    /\ RegOk(rx, ux) /\ RegOk(ry, uy) /\ RegOk(rx, LeafCat[jx]) /\ RegOk(ry, LeafCat[jy])
    /\ (rp # 11 \/ dtx # "f8" \/ dty # "f8") => ~(HasOffset(ux) \/ HasOffset(uy) \/ HasOffset(LeafCat[jx]) \/ HasOffset(LeafCat[jy]))
    /\ AllOk(wx) /\ AllOk(wy) /\ Bounded(Strip(wx)) /\ Bounded(Strip(wy))
    /\ steps = <<>>
    /\ ra = <<Leaf(vx, ux, rx, dtx), Leaf(vy, uy, ry, dty)>>
    /\ rb = <<Leaf(Strip(wx), LeafCat[jx], OtherReg(rx), dtx), Leaf(Strip(wy), LeafCat[jy], OtherReg(ry), dty)>>
    /\ cfgv = [ix |-> ix, iy |-> iy, jx |-> jx, jy |-> jy, xs |-> xs, ys |-> ys, s |-> s, rp |-> rp, dtx |-> dtx, dty |-> dty]

(* ---- catalogue of step kinds: <<op, method, form>> ---- *)
BinForms(op) ==
  CASE op \in {"add", "subtract", "multiply", "divide", "floor_divide", "remainder"} -> {"uf", "op", "iop", "out", "outself"}
    [] op \in CmpBin -> {"uf", "op"}
    [] op \in {"divmod_q", "divmod_r"} -> {"uf", "op"}
    [] OTHER -> {"uf", "out"}
UnForms(op) ==
  CASE op \in {"negative", "absolute", "positive"} -> {"uf", "op"}
    [] op \in PowUn -> {"uf", "out"}
    [] OTHER -> {"uf"}
BinOps == (HomBin \cup CmpBin \cup MulBin \cup DivMod) \cap OpSet
UnOps == (HomUn \cup PowUn \cup Trig \cup {"sign"}) \cap OpSet
RedKinds == {<<"add", "reduce", {"uf", "fn"}>>, <<"multiply", "reduce", {"uf", "fn"}>>,
             <<"maximum", "reduce", {"uf", "fn"}>>, <<"minimum", "reduce", {"uf", "fn"}>>, <<"divide", "reduce", {"uf"}>>,
             <<"add", "accumulate", {"uf", "fn"}>>, <<"maximum", "accumulate", {"uf"}>>, <<"minimum", "accumulate", {"uf"}>>}
OuterOps == {"add", "subtract", "multiply", "divide", "floor_divide", "less", "equal", "maximum", "remainder"} \cap OpSet
DotForms == {"meth", "fn", "op", "matmul", "vdot", "inner", "vecdot"}
Exponents == {<<2, 1>>, <<3, 1>>, <<-1, 1>>, <<-2, 1>>, <<1, 2>>, <<0, 1>>, <<1, 1>>}
Scalars == {R(3), <<1, 2>>, R(-2)}

Reg(rs, i, p) == IF i = 0 THEN BareNum(p) ELSE rs[i]
Shapes(op, meth, A, B, unary) ==
  CASE op = "dot" -> Len(A.v) = 2 /\ Len(B.v) = 2
    [] meth = "call" /\ unary -> TRUE
    [] meth = "call" /\ CxCase(A, B) -> TRUE       \* InClaim demands equally many complex numbers on both sides
    [] meth = "call" -> (Len(A.v) \in {1, 2} /\ Len(B.v) \in {1, 2}) \/ (Len(A.v) = 4 /\ Len(B.v) = 1) \/ (Len(A.v) = 1 /\ Len(B.v) = 4)
    [] meth = "outer" -> Len(A.v) = 2 /\ Len(B.v) = 2
    [] meth \in {"reduce", "accumulate"} -> Len(A.v) = 2
IsExact(op, meth, A, B, r) ==
  A.ex /\ B.ex /\ DyadicVals(r.v) /\ op \notin {"hypot", "cbrt", "power"} \cup Trig

\* one run of one step: [ok, reg]; the register carries the transcription's numbers (v), the reference numbers
\* in the same unit (rv) and the verdict of the C04 predicates on the transcription's own result (pf)
No == [ok |-> FALSE, reg |-> Dummy]
Run(op, meth, A, B, p, unary) ==
  IF ~(A.k \in {"q", "n"} /\ B.k \in {"q", "n", "x"} /\ (A.k = "q" \/ B.k = "q")) THEN No
  ELSE IF ~Shapes(op, meth, A, B, unary) \/ ~InClaim(op, meth, A, B) \/ ~IntFits(op, meth, A, B, p) THEN No
  ELSE IF op \in PowUn \cup {"power"} /\ ~(UPowOk(A.u, PowOf(op, p)[1], PowOf(op, p)[2]) /\ VDivOk(VScale(A.sv, PowOf(op, p)[1]), PowOf(op, p)[2])) THEN No
  ELSE IF op \in Discontinuous /\ ~((A.ex /\ B.ex) \/ Robust(op, meth, A, B)) THEN No
  ELSE IF RadianRaw(op, A, B) \/ ~SignedZeroFree(op, A, B) THEN No
  ELSE LET r == ImplStep(op, meth, A, B, p) IN
       IF ~r.ok \/ ~BoundedR(r.v) THEN No
       ELSE LET want == RefValsC(op, meth, A, B, p, r) IN
            IF ~AllOk(want) THEN No
            ELSE LET pure == RefValsC(op, meth, [A EXCEPT !.v = A.pv], [B EXCEPT !.v = B.pv], p, r) IN
                 [ok |-> TRUE, reg |-> [k |-> r.k, u |-> r.u, sv |-> r.sv, rg |-> r.rg, cx |-> r.cx, dt |-> "f8", v |-> r.v, rv |-> Strip(want), ex |-> IsExact(op, meth, A, B, r),
                                        \* pv: the reference chain from the leaves (never follows a wrong step of the transcription)
                                        pv |-> IF AllOk(pure) /\ Bounded(Strip(pure)) THEN Strip(pure) ELSE Strip(want),
                                        pf |-> PVerdict(op, meth, A, B, p, r)]]

Do(op, meth, forms, a, b, p, unary) ==
  LET xa == Run(op, meth, Reg(ra, a, p), IF unary THEN Dummy ELSE Reg(ra, b, p), p, unary)
      xb == Run(op, meth, Reg(rb, a, p), IF unary THEN Dummy ELSE Reg(rb, b, p), p, unary) IN
  \* programs are chains: every step after the first uses the newest register (a step on older registers only
  \* is already a shorter program)
  /\ (Len(steps) = 0 \/ a = Len(ra) \/ b = Len(ra))
  /\ xa.ok /\ xb.ok
  /\ steps' = Append(steps, [op |-> op, meth |-> meth, forms |-> forms, a |-> a, b |-> b, p |-> p])
  /\ ra' = Append(ra, xa.reg) /\ rb' = Append(rb, xb.reg)
  /\ UNCHANGED cfgv

\* a power with a general exponent (Arith "powerx"): the result register lives in exponent space (kind "l": u = exponent of
\* every atom, sv = prime exponents of the scale, v = prime exponents of the transcription's numbers, rv = pv = prime
\* exponents of the reference SI magnitudes); it is not an operand of later steps
RunX(A, p) ==
  IF ~(InClaimX(A, p) /\ DecidableX(A, p)) THEN No
  ELSE LET r == ImplX(A, p)  ref == RefX(A, p) IN
       [ok |-> TRUE, reg |-> [k |-> "l", u |-> r.ue, sv |-> r.sv, rg |-> A.rg, cx |-> FALSE, dt |-> "f8", v |-> r.lv, rv |-> ref.si, pv |-> ref.si,
                              ex |-> FALSE, pf |-> "ok", dq |-> ref.dq]]
DoX(forms, a, p) ==
  LET xa == RunX(ra[a], p)  xb == RunX(rb[a], p) IN
  /\ (Len(steps) = 0 \/ a = Len(ra))
  /\ ra[a].k = "q" /\ rb[a].k = "q"
  /\ xa.ok /\ xb.ok
  /\ steps' = Append(steps, [op |-> "powerx", meth |-> "call", forms |-> forms, a |-> a, b |-> 0, p |-> p])
  /\ ra' = Append(ra, xa.reg) /\ rb' = Append(rb, xb.reg)
  /\ UNCHANGED cfgv
\* exponents that are not ratios of small integers: decimals of 4 to 6 digits (a measured index, a truncated root of two,
\* e, one third), fractions whose denominators are not on the x6 grid, and neighbours of the usual ones
XExponents == {<<7071, 5000>>, <<3333, 10000>>, <<-23547, 10000>>, <<27183, 10000>>, <<333333, 1000000>>, <<1, 7>>, <<3, 16>>,
               <<2, 3>>, <<-1, 3>>, <<5, 4>>, <<1001, 1000>>, <<99, 100>>, <<-7, 5>>}
\* call forms: operator, ufunc, in-place, out=, out=self, and the carriers of the exponent (numpy scalar, 0-d array, array of
\* equal exponents, dimensionless quantity) - each takes its own branch of the power rule in __array_ufunc__
\* decimals of seven digits next to a simple fraction: Rational(str(p)).limit_denominator() turns them into 1/3, 2/3, 1/4, 1
\* (denominator bound 10^6) while the numbers are raised to the float itself
XFine == {<<3333333, 10000000>>, <<6666667, 10000000>>, <<2500001, 10000000>>, <<10000001, 10000000>>}
XForms == {"op", "uf", "iop", "out", "outself", "op64", "uf0d", "ufarr", "ufq", "opq"}
Idx == 1..Len(ra)
PowerX == "powerx" \in OpSet /\ \E a \in Idx, p \in XExponents \cup XFine : DoX(XForms, a, p)
Binary == \E op \in BinOps, a \in Idx, b \in Idx : Do(op, "call", BinForms(op), a, b, ROne, FALSE)
Unary == \E op \in UnOps, a \in Idx : Do(op, "call", UnForms(op), a, 0, ROne, TRUE)
Power == "power" \in OpSet /\ \E a \in Idx, p \in Exponents : Do("power", "call", {"uf", "op", "iop"}, a, 0, p, TRUE)
Scalar == \E op \in {"multiply", "divide"} \cap OpSet, a \in Idx, c \in Scalars :
             \/ Do(op, "call", {"op", "uf", "iop"}, a, 0, c, FALSE)
             \/ Do(op, "call", {"op", "uf"}, 0, a, c, FALSE)
Reduce == \E k \in RedKinds, a \in Idx : k[1] \in OpSet /\ Do(k[1], k[2], k[3], a, 0, ROne, TRUE)
OuterS == \E op \in OuterOps, a \in Idx, b \in Idx : Do(op, "outer", {"uf"}, a, b, ROne, FALSE)
DotS == "dot" \in OpSet /\ \E a \in Idx, b \in Idx : Do("dot", "call", DotForms, a, b, ROne, FALSE)

\* (an instance about operands of different shapes runs the steps that combine the two leaves: one-operand steps and bare
\* factors are the other instances' business)
Next == Len(steps) < MaxLen /\ (Binary \/ OuterS \/ DotS \/ (~MixedShapes /\ (Unary \/ Power \/ PowerX \/ Scalar \/ Reduce)))
Spec == Init /\ [][Next]_vars

(* ---- export ---- *)
RegOut(r) == IF r.k = "l" THEN [k |-> r.k, u |-> r.u, sv |-> r.sv, rg |-> r.rg, cx |-> r.cx, dt |-> r.dt, v |-> r.v, rv |-> r.rv, pv |-> r.pv, ex |-> r.ex, dq |-> r.dq]
             ELSE [k |-> r.k, u |-> r.u, sv |-> r.sv, rg |-> r.rg, cx |-> r.cx, dt |-> r.dt, v |-> r.v, rv |-> r.rv, pv |-> r.pv, ex |-> r.ex]
ModelFails(rs) == {[op |-> steps[i].op, verdict |-> rs[i + 2].pf] : i \in {j \in 1..Len(steps) : rs[j + 2].pf # "ok"}}
Export ==
  Len(steps) = ExportLen =>
    PrintT(ToJson([tag |-> "CASE", cfg |-> cfgv, steps |-> steps,
                   A |-> [i \in 1..Len(ra) |-> RegOut(ra[i])], B |-> [i \in 1..Len(rb) |-> RegOut(rb[i])],
                   mf |-> ModelFails(ra) \cup ModelFails(rb)]))
\* the atom table travels with the cases (single source for the harness)
ASSUME PrintT(ToJson([tag |-> "TABLE", names |-> AtomName, grp |-> AtomGrp, pv |-> AtomPV, cat |-> LeafCat, reg2 |-> Reg2Atoms]))
=============================================================================
