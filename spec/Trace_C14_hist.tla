--------------------------- MODULE Trace_C14_hist ---------------------------
(* Trace validation of replayed histories: each recorded call is stepped     *)
(* through NamesReg!Construct (T: outcome, row written, memo written) and    *)
(* the history-free C14 predicates are evaluated on the observed step (P).   *)
(* Shape: the initial state branches to every trace (tid), each trace is a   *)
(* short chain; the case of the last step is kept in the state variable cur  *)
(* and the predicates are evaluated as an invariant on it.                   *)
EXTENDS NamesReg
Traces == JsonDeserialize(IOEnv.TRACES)
VARIABLES tid, l, cur
tvars == <<rvars, tid, l, cur>>
NoCase == [pk |-> "init", pi |-> 0, b |-> 0]
TraceInit == RegInit /\ tid = 0 /\ l = 0 /\ cur = NoCase
TraceNext ==
  \/ /\ tid = 0
     /\ \E t \in 1..Len(Traces) : tid' = t
     /\ l' = 1 /\ UNCHANGED <<rvars, cur>>
  \/ /\ tid > 0 /\ l <= Len(Traces[tid].ev)
     /\ cur' = [pk |-> Traces[tid].ev[l].pk, pi |-> Traces[tid].ev[l].pi, b |-> Traces[tid].ev[l].b]
     /\ Construct(CaseStr(cur'))
     /\ hist' = hist
     /\ l' = l + 1 /\ tid' = tid
PFail(clause) == PrintT(ToJson([tag |-> "P-FAIL", tid |-> tid, l |-> l - 1, clause |-> clause, w |-> Witness(cur), doc |-> Documented(cur)]))
TFail(what) == PrintT(ToJson([tag |-> "T-FAIL", tid |-> tid, l |-> l - 1, what |-> what, model |-> last]))
Check ==
  (tid > 0 /\ l > 1) =>
    LET o == Traces[tid].ev[l - 1].o IN
    /\ (~C14_Accept(cur, o) => PFail("Accept"))
    /\ (~C14_Denote(cur, o) => PFail("Denote"))
    /\ (~C14_TableWins(cur, o) => PFail("TableWins"))
    /\ (~C14_NonPrefixable(cur, o) => PFail("NonPrefixable"))
    /\ (~C14_NoDoublePrefix(cur, o) => PFail("NoDoublePrefix"))
    /\ (~TOk(last.m, o) => TFail("outcome"))
    /\ ((TOk(last.m, o) /\ (last.row # o.row \/ last.memo # o.memo)) => TFail("memo"))
=============================================================================
