CONSTANTS
  Factors <- F5
  IntFactors <- FI2
  RealIdx <- R3
  Bases <- B2
  Fams <- FamsAll
  DTypes <- DT2
  DataSets <- DS3
  TempPairs <- TP7
  TmPairs <- TM5
  OneOpFactors <- F5
  BareKinds <- BK2
  Fixes <- NoFixes
INIT Init
NEXT Next
INVARIANT Export
INVARIANT WellFormed
INVARIANT ReexpressionProper
INVARIANT SigCovariant
CHECK_DEADLOCK FALSE
