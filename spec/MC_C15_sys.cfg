CONSTANT Full = FALSE
INIT Init
NEXT Next
INVARIANT Export
CHECK_DEADLOCK FALSE
