CONSTANTS
  DT <- DT15
  OutDT <- DT15
  ConvVC <- AllVC
  UVC0 <- BaseMaxVC
  UVC1 <- AllVC
  Routes <- AllCopyRoutes
  Pairs <- PairsAll
  UPairs <- UPairsFull
  Ops <- OpsAll
  OutOps <- OpsOutAll
  Shapes <- ShapesAll
  UShapes <- UShapesAll
  Fams <- FamsAll
  CDA <- DT15
  CDE <- DT15
  CVB <- AllVC
  CPairs <- PairsSix
  COps <- COpsFull
  OffPairs <- OffPairsFull
  OffVC <- AllVC
  RPairs <- RealPairsFull
  RRoutes <- AllCopyRoutes
INIT Init
NEXT Next
INVARIANT Export
INVARIANT NoIntegerResult
INVARIANT RefusalsAllowed
INVARIANT FloatsKeepWidth
CHECK_DEADLOCK FALSE
