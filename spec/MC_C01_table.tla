--------------------------- MODULE MC_C01_table ---------------------------
(* Gamma sweep for C01: the units are REAL rows of the tree's lookup table   *)
(* (one representative per dimension, read from IOEnv.TABLE), and TLC        *)
(* enumerates ordered pairs of different dimension for every operation       *)
(* class.  On such pairs the transcription and the property coincide:        *)
(* refusal (or all-False / all-True for == / !=).                            *)
EXTENDS MC_C01, IOUtils
CONSTANTS Strides, AllPairs, XStride
TableData == JsonDeserialize(IOEnv.TABLE)
\* primary rows (one unit per dimension) come first; extra rows are the OTHER dimensionless units of the table
\* (percent, Zsun, counts, ...): one = its scale is exactly one (then it equals the null unit)
NAll == Len(TableData)
N == Cardinality({j \in 1..NAll : ~TableData[j].extra})
MCTable == [n \in {TableData[j].name : j \in 1..NAll} |->
              LET r == CHOOSE j \in 1..NAll : TableData[j].name = n IN
              [UnitRec(n, TableData[r].dim, IF TableData[r].dim = "1" /\ ~TableData[r].one THEN <<1,7>> ELSE ROne, RZero)
                 EXCEPT !.em = {TableData[r].emdims[k] : k \in DOMAIN TableData[r].emdims}]]
Pair(a, b) == a # b /\ (AllPairs \/ \E s \in Strides : b = ((a - 1 + s) % N) + 1)
TUfOps == (NeedsComm \cup EqNe) \cap UfOps
TForms == {"call","operator","iop","outer"}
TKinds(form) == IF form = "iop" THEN {<<"a","a">>, <<"a","q">>} ELSE IF form = "outer" THEN {<<"a","q">>} ELSE {<<"q","q">>, <<"a","a">>, <<"q","a">>}
TArrKinds(op) == IF op \in {"linspace","geomspace"} THEN <<"q","q">>
                 ELSE IF op \in {"pad","histogram_range","select"} THEN <<"a","q">> ELSE <<"a","a">>
TNext ==
  /\ c = <<>>
  /\ \E a \in 1..N, b \in 1..N :
       /\ Pair(a, b)
       /\ LET n0 == TableData[a].name n1 == TableData[b].name IN
          \/ \E op \in TUfOps, form \in TForms : \E kk \in TKinds(form) :
               /\ UfLegal(op, form, kk[1], kk[2])
               /\ c' = Case("ufunc", op, form, kk[1], n0, kk[2], n1)
          \/ \E op \in (ArrFns \cap ArrOps) \ {"copyto","einsum"}, form \in ArrForms \cup {"call"} :
               /\ ArrLegal(op, TArrKinds(op)[1], TArrKinds(op)[2]) /\ ArrFormLegal(op, form)
               /\ c' = Case("arrfn", op, form, TArrKinds(op)[1], n0, TArrKinds(op)[2], n1)
          \/ \E k1 \in {"q","a"} : c' = Case("setitem", "setitem", IF k1 = "q" THEN "index" ELSE "slice", "a", n0, k1, n1)
          \/ /\ \E e \in {"to","in_units","to_value","convert_to_units"}, f \in {"obj","str"} :
                  c' = Case("conv", e, f, IF f = "obj" THEN "q" ELSE "a", n0, "u", n1)
          \/ \E e \in {"add","subtract"} : c' = Case("unitop", e, "operator", "u", n0, "u", n1)
\* every dimensionless unit of the table (scaled or not) meets dimensional units where a dimensionless VALUE is treated
\* specially: __setitem__ (value / slice / list of quantities), conversion in both directions, merging array functions
TXNext ==
  /\ c = <<>>
  /\ \E a \in 1..N, x \in (N+1)..NAll :
       /\ TableData[a].dim # "1" /\ (AllPairs \/ a % XStride = 0)
       /\ LET n0 == TableData[a].name nx == TableData[x].name IN
          \/ \E k1 \in {"q","a","lq"} : c' = Case("setitem", "setitem", IF k1 = "q" THEN "index" ELSE "slice", "a", n0, k1, nx)
          \/ \E e \in {"to","in_units","to_value","convert_to_units"} :
               \/ c' = Case("conv", e, "obj", "q", nx, "u", n0)
               \/ c' = Case("conv", e, "obj", "a", n0, "u", nx)
          \/ \E op \in {"concatenate","where","insert","clip","putmask"} \cap ArrFns :
               c' = Case("arrfn", op, "call", "a", n0, "a", nx)
TNextAll == TNext \/ TXNext
=============================================================================
