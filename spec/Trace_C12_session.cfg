CONSTANTS
  Alias = FALSE
  MaxObj = 9
INIT TraceInit
NEXT TraceNext
CHECK_DEADLOCK FALSE
