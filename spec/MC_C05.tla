------------------------------- MODULE MC_C05 -------------------------------
(* Bounded instances of UnitAlg for C05.  One TLC state = one case =          *)
(* (law, leaves, exponents); the program of the law comes from UnitAlg!Prog.   *)
(*                                                                            *)
(* Mode "MR":  leaves range over the dyadic model registry below (atoms,      *)
(*   compound strings, a second registry).  TLC runs the transcribed          *)
(*   operators on every case and evaluates the C05 predicates on the model    *)
(*   run (ModelFails must be empty: transitions => properties on the bounded  *)
(*   instance); every case is exported for replay in the real library.        *)
(* Mode "TAB": leaves range over the rows of the real unit table (IOEnv.TAB,  *)
(*   regenerated from the tree: atoms, prefixed, compound, custom registry);  *)
(*   TLC enumerates the tuples (all pairs for commutativity / identity /      *)
(*   inverse / equality, a seeded sample of the triples and exponent tuples   *)
(*   for the other laws) and exports them; the laws are evaluated by          *)
(*   Trace_C05 on the observations.                                           *)
EXTENDS UnitAlgMR, IOUtils
CONSTANTS Mode,        \* "MR" | "TAB"
          Seed,        \* salt of the seeded sampling
          PairN,       \* comm: partners per first leaf         (0 = all)
          TripleN,     \* assoc: (v, w) samples per first leaf   (0 = all pairs)
          PowN,        \* powpow, powadd: (p, q) samples per leaf (0 = all)
          PowMulN,     \* powmul: (v, p) samples per first leaf  (0 = all)
          SimpN,       \* simp: (v, w, p) samples per first leaf (0 = all)
          RuleN,       \* rules: partners per first leaf        (0 = all)
          HistN,       \* state: registry histories sampled per first leaf (MR mode only)
          CoefN,       \* coef: (v, w, p) samples per first leaf
          QHistN,      \* state: histories WITH read-only queries sampled per first leaf and shape (MR mode only)
          EqN          \* eqsem in TAB mode: partners of the same dimension class per first leaf (0 = all)

(* ------------------------------ exponents -------------------------------- *)
PSeq == <<Ex(2, 1, "int"), Ex(3, 1, "int"), Ex(-1, 1, "int"), Ex(-2, 1, "int"), Ex(-3, 1, "int"),
          Ex(1, 2, "frac"), Ex(1, 3, "frac"), Ex(-1, 2, "frac"), Ex(3, 2, "sym"), Ex(-2, 3, "sym"),
          Ex(1, 2, "float"), Ex(1, 3, "float"), Ex(2, 3, "float"), Ex(1, 4, "float"), Ex(2, 1, "float"),
          Ex(1, 3, "dec2"), Ex(2, 3, "dec2"), Ex(0, 1, "int"), Ex(1, 1, "int"), Ex(1, 6, "float"), Ex(-1, 2, "float"), Ex(-3, 2, "dec2"),
          \* spellings read as n/d whose float value is not n/d (and two exact ones of the same types)
          Ex(1, 3, "dec7"), Ex(2, 3, "f32"), Ex(-1, 3, "dcm"), Ex(4, 3, "strd"), Ex(1, 7, "dec7"), Ex(1, 10, "f32"), Ex(7, 10, "f16"),
          Ex(2, 3, "str"), Ex(5, 6, "np64"), Ex(3, 2, "f32"), Ex(-2, 3, "dec7")>>
QSeq == <<Ex(2, 1, "int"), Ex(3, 1, "int"), Ex(-1, 1, "int"), Ex(1, 2, "frac"), Ex(1, 3, "float"), Ex(3, 2, "float"),
          Ex(-2, 3, "sym"), Ex(6, 1, "int"), Ex(1, 3, "f32"), Ex(3, 1, "np64"), Ex(2, 3, "dec7"), Ex(7, 1, "f32")>>
SimpPSeq == <<Ex(1, 1, "int"), Ex(2, 1, "int"), Ex(-1, 1, "int"), Ex(1, 2, "frac"), Ex(3, 2, "float"), Ex(-2, 1, "int"), Ex(2, 3, "dec7"), Ex(1, 3, "f32")>>

(* ------------------------------ the cases -------------------------------- *)
Tab == IF Mode = "TAB" THEN JsonDeserialize(IOEnv.TAB) ELSE <<>>
NLeaves == IF Mode = "TAB" THEN Len(Tab) ELSE NMR
Leaf == 1..NLeaves
\* seeded pseudo-random pick in 1..n for sample number t of first leaf i (all products stay below 2^31)
\* (the multiplier of t and a quadratic term depend on the salt, so the components of one sample are not correlated)
Sample(i, t, salt, n) == ((i * 7919 + t * (1009 + 37 * salt) + (t * t) * salt + salt * 611953 + (Seed % 1000) * 15485) % n) + 1
\* in TAB mode equality probes are interesting between rows of the same dimension class
SameClass(i, j) == IF Mode = "TAB" THEN Tab[i].dc = Tab[j].dc ELSE TRUE
\* leaves whose string carries no numeric coefficient: a fractional power of a coefficient is an irrational number inside
\* the expression (sqrt(3)*sqrt(km)), which the exponent-vector model does not represent - the power laws take plain leaves
PlainL(i) == IF Mode = "TAB" THEN ~Tab[i].co ELSE PlainLeaf(i)
PlainSeq == SelectSeq([x \in 1..NLeaves |-> x], LAMBDA x : PlainL(x))
\* the leaves of the same dimension class as leaf i (the model registry: the same dimension vector)
SameDim(i, j) == IF Mode = "TAB" THEN Tab[i].dc = Tab[j].dc
                 ELSE DotV(MRLeaves[i].ex, ADIM) = DotV(MRLeaves[j].ex, ADIM) /\ MRLeaves[i].reg = MRLeaves[j].reg
MatesSeq(i) == SelectSeq([x \in 1..NLeaves |-> x], LAMBDA x : SameDim(i, x))
CoefPSeq == <<Ex(2, 1, "int"), Ex(-1, 1, "int"), Ex(-2, 1, "int"), Ex(3, 1, "int"), Ex(1, 1, "int")>>

(* ---------------------- registry histories (law "state") ------------------ *)
\* edits of registry 4: re-scaling, re-definition over the row, removal + re-definition (also with another dimension),
\* and edits that lead back to the original row (the same registry STATE is reached again)
EditSeq == <<Ed("modify", "la", 2, "la"), Ed("modify", "la", 0, "la"), Ed("modify", "lb", 3, "lb"), Ed("modify", "lb", 10, "lb"),
             Ed("modify", "ta", -1, "ta"), Ed("modify", "ta", 0, "ta"), Ed("modify", "ma", 5, "ma"), Ed("modify", "nq", 0, "nq"),
             Ed("modify", "fo", 1, "fo"), Ed("modify", "lc", 0, "lc"), Ed("modify", "tb", 6, "tb"),
             Ed("add", "la", 4, "la"), Ed("add", "la", 1, "ta"), Ed("add", "nq", -2, "nq"), Ed("add", "ma", 0, "ma"),
             Ed("readd", "ta", 2, "la"), Ed("readd", "ma", -2, "ma"), Ed("readd", "lb", 10, "lb"), Ed("readd", "la", 0, "la"),
             Ed("readd", "mb", 3, "ta")>>
HLeafSeq == SelectSeq([x \in 1..NMR |-> x], LAMBDA x : MRLeaves[x].reg = 1 /\ PlainLeaf(x))
Touches(e, lv) == \E r \in 1..3 : ~RIsZero(MRLeaves[lv[r]].ex[AIdx(e.sym)])
\* a history: one or two edits; the first one touches a symbol of the leaves
\* origin = which registry object the history runs on:
\*   "long"    registry 4, ONE long-lived object shared by all such histories (memo layers warm; edits only)
\*   "fresh"   a registry made for this history: UnitRegistry() + the model table (nothing resolved or memoised yet: cold)
\*   "lutcopy" a registry made for this history from a copy of registry 1's table (UnitRegistry(lut=dict(r1.lut), add_default_symbols=False))
HistCase(i, j, k, p, es, org) == [seed |-> FALSE, law |-> "state", lv |-> <<i, j, k>>, p |-> p, q |-> E1, edits |-> es, origin |-> org]
\* read-only queries (kind, name): prefixed names not asked for before in a fresh registry (cold), asked twice (warm),
\* plain atoms, names that do not resolve, and the whole-table reads
QuerySeq == <<Qy("has", "kla"), Qy("has", "Merg"), Qy("has", "Mtb"), Qy("has", "la"), Qy("has", "zzq"), Qy("has", "km"),
              Qy("get", "kla"), Qy("get", "uma"), Qy("get", "zzq"), Qy("get", "la"), Qy("get", "kpc"),
              Qy("unit", "Mtb"), Qy("unit", "km"), Qy("unit", "la"),
              Qy("define", "mla"), Qy("define", "la"), Qy("define", "Merg"),
              Qy("keys", "-"), Qy("pfx", "-"), Qy("samedim", "la"), Qy("json", "-"), Qy("id", "-"), Qy("lutcopy", "-"), Qy("dcopy", "-"),
              Qy("pickle", "ta"), Qy("baseq", "fo"), Qy("latex", "la")>>
\* the queries that derive a prefixed row when the name is asked for the first time
ColdSeq == SelectSeq(QuerySeq, Resolves)
OriginSeq == <<"fresh", "lutcopy">>

VARIABLE c
Case(law, i, j, k, p, q) == [seed |-> FALSE, law |-> law, lv |-> <<i, j, k>>, p |-> p, q |-> q, edits |-> <<>>, origin |-> "-"]
\* initial states are seeds (law, first leaf): TLC's workers expand different seeds in parallel
Init == c \in {[seed |-> TRUE, law |-> l, i |-> i] : l \in Laws, i \in Leaf}
Next ==
  /\ c.seed
  /\ LET i == c.i IN
     CASE c.law = "comm" ->
            IF PairN = 0 THEN \E j \in Leaf : c' = Case("comm", i, j, i, E1, E1)
            ELSE \E t \in 1..PairN : c' = Case("comm", i, Sample(i, t, 11, NLeaves), i, E1, E1)
       [] c.law = "ident" -> c' = Case("ident", i, i, i, E1, E1)
       [] c.law = "eqsem" ->
            IF EqN = 0 THEN \E j \in Leaf : SameClass(i, j) /\ c' = Case("eqsem", i, j, i, E1, E1)
            \* (table: partners of the same dimension class; model registry: any partner)
            ELSE LET ms == IF Mode = "TAB" THEN MatesSeq(i) ELSE [x \in 1..NLeaves |-> x] IN
                 \E t \in 1..EqN : c' = Case("eqsem", i, ms[Sample(i, t, 21, Len(ms))], i, E1, E1)
       [] c.law = "coef" ->
            \* the divisor w is a leaf of u's dimension (so that u*v/w cancels and leaves a coefficient) or a sampled one
            LET ms == MatesSeq(i) IN
            \E t \in 1..CoefN, mate \in BOOLEAN :
              c' = Case("coef", i, Sample(i, t, 96, NLeaves),
                        IF mate THEN ms[Sample(i, t, 97, Len(ms))] ELSE Sample(i, t, 98, NLeaves),
                        CoefPSeq[Sample(i, t, 99, Len(CoefPSeq))], E1)
       [] c.law = "state" ->
            \* first leaf i (of registry 1's leaves), partner sampled, divisor either sampled or the next leaf (same
            \* dimension for la/lb/lc, ta/tb, ma/mb: a pair that cancels), exponent and one or two edits sampled
            /\ Mode = "MR" /\ MRLeaves[i].reg = 1 /\ PlainLeaf(i)
            /\ \/ \E t \in 1..HistN, near \in BOOLEAN, two \in BOOLEAN :
                 LET j == HLeafSeq[Sample(i, t, 91, Len(HLeafSeq))]
                     pos == CHOOSE x \in DOMAIN HLeafSeq : HLeafSeq[x] = i
                     k == IF near THEN HLeafSeq[(pos % Len(HLeafSeq)) + 1] ELSE HLeafSeq[Sample(i, t, 92, Len(HLeafSeq))]
                     p == SimpPSeq[Sample(i, t, 93, Len(SimpPSeq))]
                     e1 == EditSeq[Sample(i, t, 94, Len(EditSeq))]
                     e2 == EditSeq[Sample(i, t, 95, Len(EditSeq))] IN
                 /\ Touches(e1, <<i, j, k>>)
                 /\ c' = HistCase(i, j, k, p, IF two THEN <<e1, e2>> ELSE <<e1>>, "long")
               \* histories with queries, on a registry of their own: a query alone, two queries (the second may repeat
               \* the first: warm), queries after an edit, a query before and after an edit
               \/ \E t \in 1..QHistN, shape \in 1..4 :
                 LET s == 4 * t + shape
                     j == HLeafSeq[Sample(i, s, 101, Len(HLeafSeq))]
                     k == HLeafSeq[Sample(i, s, 102, Len(HLeafSeq))]
                     p == SimpPSeq[Sample(i, s, 103, Len(SimpPSeq))]
                     \* (shapes 2 and 3: first a query that derives a row, then ANY read - a read that looks at the table
                     \*  after it has grown; shapes 1 and 4: any query)
                     q1 == IF shape \in {2, 3} THEN ColdSeq[Sample(i, s, 104, Len(ColdSeq))] ELSE QuerySeq[Sample(i, s, 104, Len(QuerySeq))]
                     q2 == QuerySeq[Sample(i, s, 105, Len(QuerySeq))]
                     e1 == EditSeq[Sample(i, s, 106, Len(EditSeq))]
                     org == OriginSeq[Sample(i, s, 107, Len(OriginSeq))] IN
                 c' = HistCase(i, j, k, p, CASE shape = 1 -> <<q1>> [] shape = 2 -> <<q1, q2>> [] shape = 3 -> <<e1, q1, q2>>
                                              [] shape = 4 -> <<q1, e1, q2>>, org)
       [] c.law = "rules" ->
            IF RuleN = 0 THEN \E j \in Leaf : c' = Case("rules", i, j, i, E1, E1)
            ELSE \E t \in 1..RuleN : c' = Case("rules", i, Sample(i, t, 81, NLeaves), i, E1, E1)
       [] c.law = "assoc" ->
            IF TripleN = 0 THEN \E j, k \in Leaf : c' = Case("assoc", i, j, k, E1, E1)
            ELSE \E t \in 1..TripleN : c' = Case("assoc", i, Sample(i, t, 31, NLeaves), Sample(i, t, 32, NLeaves), E1, E1)
       [] c.law \in {"powpow", "powadd"} ->
            \E x \in DOMAIN PSeq, y \in DOMAIN QSeq :
              /\ PlainL(i)
              /\ PowN = 0 \/ \E t \in 1..PowN : x = Sample(i, t, 41, Len(PSeq)) /\ y = Sample(i, t, 42, Len(QSeq))
              /\ PSeq[x].kind = "dec2" => QSeq[y].kind # "dec2"
              /\ c' = Case(c.law, i, i, i, PSeq[x], QSeq[y])
       [] c.law = "powmul" ->
            IF PowMulN = 0 THEN \E j \in Leaf, x \in DOMAIN PSeq : PlainL(i) /\ PlainL(j) /\ c' = Case("powmul", i, j, i, PSeq[x], E1)
            ELSE \E t \in 1..PowMulN : PlainL(i) /\ c' = Case("powmul", i, PlainSeq[Sample(i, t, 61, Len(PlainSeq))], i, PSeq[Sample(i, t, 62, Len(PSeq))], E1)
       [] c.law = "simp" ->
            IF SimpN = 0 THEN \E j, k \in Leaf, x \in DOMAIN SimpPSeq : PlainL(i) /\ c' = Case("simp", i, j, k, SimpPSeq[x], E1)
            ELSE \E t \in 1..SimpN : PlainL(i) /\ c' = Case("simp", i, Sample(i, t, 71, NLeaves), Sample(i, t, 72, NLeaves), SimpPSeq[Sample(i, t, 73, Len(SimpPSeq))], E1)

\* the effective exponent of every instruction travels with the case (the harness needs its value to measure deviations)
ExportProg(prog) == [x \in DOMAIN prog |-> [op |-> prog[x].op, a |-> prog[x].a, b |-> prog[x].b, e |-> prog[x].e, eff |-> Eff(prog[x].e)]]
\* the model registry itself is exported once: the harness builds the real registries from it
ASSUME Mode = "MR" => PrintT(ToJson([tag |-> "MR", atoms |-> MRAtoms, leaves |-> [x \in DOMAIN MRLeaves |-> [s |-> MRLeaves[x].s, reg |-> MRLeaves[x].reg, xs |-> MRLeaves[x].xs, xlg |-> MRLeaves[x].xlg]], table5 |-> [i \in 1..NA |-> Table5[i].lg]]))
\* export (one line per case); in MR mode with the model-level verdict
Export ==
  ~c.seed =>
    PrintT(ToJson([tag |-> "CASE", law |-> c.law, lv |-> c.lv, p |-> c.p, q |-> c.q, edits |-> c.edits, origin |-> c.origin,
                   prog |-> ExportProg(Prog(c.law, c.p, c.q)), pairs |-> Pairs(c.law),
                   modelfails |-> IF Mode = "MR" THEN ModelFails(c) ELSE {}]))
\* model checking proper: the transcribed operators satisfy the C05 predicates on every case of the instance
ModelHolds == (Mode = "MR" /\ ~c.seed) => ModelFails(c) = {}
=============================================================================
