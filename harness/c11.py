"""C11 - persisted quantities and units come back meaning and behaving the same.

Spec: spec/Persist.tla (+ MC_C11, Trace_C11).
  1. TLC enumerates every history  Build(cls, registry, unit) ; Persist(path)^{1..MaxChain} ; StartFollow(order) ;
     Follow(f) for the whole follow-up battery  of the bounded instances and exports one case per terminal state
     (plus simulated longer chains).
  2. every case is replayed on real unyt objects (harness/impl_c11.py): after every persistence path the restored
     object is projected (numbers, unit, registry rows, identity of the dimension object, unit system, registry id);
     every follow-up is evaluated on the pristine original (baseline), and on original and restored in the order the
     case says.
  3. TLC (Trace_C11) steps through the observations: T = PathEffect / RestSame / OrigSame of Persist.tla,
     P = C11_Numbers / C11_Units / C11_Registry / SameOutcome evaluated on the observation.
Python only projects (floats -> hex strings -> digests) and snaps float noise (1e-12 relative)."""

import hashlib
import json
import random

from common import MachineryFailure

CHUNK = 1000


def _dig(x):
    return hashlib.sha1(json.dumps(x, sort_keys=True).encode()).hexdigest()[:12]


def _oc(o):
    return {"k": o["k"], "vals": _dig(o["vals"]) if o["k"] == "val" else "", "unit": _dig(o["unit"]) if o["k"] == "val" else ""}


def _st(s):
    return {
        "k": "ok",
        "cls": s["cls"],
        "nums": _dig(s["nums"]),
        "unit": _dig(s["unit"]),
        "eq_fwd": bool(s["eq_fwd"]),
        "eq_bwd": bool(s["eq_bwd"]),
        "rows": [_dig(r) for r in s["rows"]],
        "lutdig": s["lutdig"],
        "usys": s["usys"],
        "ident": s["ident"],
        "samereg": bool(s["samereg"]),
        "idsame": bool(s["idsame"]),
        "dimshared": bool(s["dimshared"]),
        "exc": "",
    }


_BLANK = {"cls": "", "nums": "", "unit": "", "eq_fwd": False, "eq_bwd": False, "rows": [], "lutdig": "", "usys": "", "ident": "na", "samereg": False, "idsame": False, "dimshared": False}


def _compress(case, ob):
    import impl_c11

    steps = []
    for s in ob["steps"]:
        if s["k"] == "ok":
            steps.append(_st(s))
        else:
            d = dict(_BLANK)
            d["k"] = s["k"]
            d["exc"] = s.get("exc", "")
            steps.append(d)
    return {
        "cls": case["cls"],
        "reg": case["reg"],
        "unit": case["unit"],
        "pre": case["pre"],
        "memo": case["memo"],
        "sync": case.get("sync", "insync"),
        "chain": case["chain"],
        "order": case["order"],
        "fups": [f["f"] for f in ob["fups"]],
        "watch": list(impl_c11.WATCH_SYMS),
        "orig": _st(ob["orig"]),
        "steps": steps,
        "fo": [{"base": _oc(f["base"]), "orig": _oc(f["orig"]), "rest": _oc(f["rest"])} for f in ob["fups"]],
    }


def _short(o):
    if o["k"] == "raise":
        return "raises " + o.get("exc", "")
    vals = []
    for v in o["vals"][:3]:
        try:
            vals.append(round(float.fromhex(v), 6))
        except Exception:  # noqa: BLE001
            vals.append(v)
    u = o["unit"]
    try:
        ud = [float.fromhex(u[0]), float.fromhex(u[1]), u[2]] if u else []
    except Exception:  # noqa: BLE001
        ud = u
    return {"vals": vals, "unit": ud}


def _run_traces(ck, module, jobs):
    """jobs = [(label, traces, expect_states)]; the TLC trace runs are independent: run them in threads"""
    import concurrent.futures as cf

    def one(j):
        label, traces, expect = j
        path = ck.write_json(f"traces_{label}.json", traces)
        res = ck.tlc(module, module, env={"TRACES": path}, workers=1, coverage=False, label=f"trace-validation {label}", timeout=3000)
        if res.distinct != expect:
            raise MachineryFailure(f"trace validation {label} consumed {res.distinct} states, expected {expect}")
        return res

    with cf.ThreadPoolExecutor(max(1, min(len(jobs), NTHREADS))) as ex:
        return list(ex.map(one, jobs))


def _validate(ck, cases, obs, label):
    bad = [(c, o) for c, o in zip(cases, obs) if "_error" in o]
    if bad:
        raise MachineryFailure("replay error: " + str(bad[0])[:1500])
    nb = [(c, o) for c, o in zip(cases, obs) if not o.get("built")]
    if nb:
        raise MachineryFailure("object could not be built: " + str(nb[0])[:600])
    jobs = []
    parts = []
    for off in range(0, len(cases), CHUNK):
        pc = cases[off : off + CHUNK]
        po = obs[off : off + CHUNK]
        traces = [_compress(c, o) for c, o in zip(pc, po)]
        jobs.append((f"{label}_{off}", traces, 1 + sum(len(t["chain"]) + len(t["fo"]) + 3 for t in traces)))
        parts.append((pc, po))
    results = _run_traces(ck, "Trace_C11", jobs)
    for (pc, po), res in zip(parts, results):
        ck.validated(len(pc))
        for r in res.by_tag("T-FAIL"):
            c = pc[r["tid"] - 1]
            _dump({"drift": r["op"], "cls": c["cls"], "reg": c["reg"], "unit": c["unit"], "pre": c["pre"], "memo": c["memo"], "sync": c.get("sync", "insync"), "chain": c["chain"], "order": c["order"], "model": r["model"], "observed": r["observed"]})
            ck.drift_step(r["op"], {"case": {k: c[k] for k in ("cls", "reg", "unit", "pre", "memo", "sync", "chain", "order")}, "model": r["model"], "observed": r["observed"]})
        for r in res.by_tag("P-FAIL"):
            c = pc[r["tid"] - 1]
            o = po[r["tid"] - 1]
            ud = o["orig"]["unit"]
            key = {
                "clause": r["clause"],
                "path": r["path"],
                "followup": r["followup"],
                "kind": c["cls"],
                "reg": c["reg"],
                "unit": c["unit"],
                "pre": c["pre"],
                "memo": c["memo"],
                "sync": c.get("sync", "insync"),
                "unitchg": r["unitchg"],
                "dim": ud[2],
                "offset": float.fromhex(ud[1]) != 0.0,
                "extra": r["extra"],
                "ident": r["ident"],
                "identloss": r["identloss"],
                "regchg": r["regchg"],
                "usyschg": r["usyschg"],
                "idchg": r["idchg"],
                "sharechg": r["sharechg"],
            }
            detail = {"chain": c["chain"], "order": c["order"]}
            if r["followup"]:
                fu = [f for f in o["fups"] if f["f"] == r["followup"]][0]
                detail.update(baseline=_short(fu["base"]), original=_short(fu["orig"]), restored=_short(fu["rest"]))
            else:
                s = o["steps"][r["l"] - 1]
                detail.update(step=r["l"], observed={k: s.get(k) for k in ("k", "exc", "msg", "nums", "unit", "usys", "eq_fwd", "eq_bwd") if k in s}, original={"nums": o["orig"]["nums"], "unit": o["orig"]["unit"]})
                if r["clause"] == "registry" and s.get("k") == "ok":
                    import impl_c11

                    detail["rows"] = {w: [a, b] for w, a, b in zip(impl_c11.WATCH_SYMS, o["orig"]["rows"], s["rows"]) if a != b}
            _dump({"key": key, "chain": c["chain"], "order": c["order"]})
            ck.violation(key, detail, case={k: c[k] for k in ("cls", "reg", "unit", "pre", "memo", "sync", "chain", "fups", "order")})


def _validate_multi(ck, cases, obs, label):
    bad = [(c, o) for c, o in zip(cases, obs) if "_error" in o]
    if bad:
        raise MachineryFailure("replay error: " + str(bad[0])[:1500])
    jobs = []
    parts = []
    MCH = 6000
    for off in range(0, len(cases), MCH):
        pc = cases[off : off + MCH]
        po = obs[off : off + MCH]
        jobs.append((f"{label}_{off}", po, 1 + sum(len(t["ev"]) + 1 for t in po)))
        parts.append((pc, po))
    results = _run_traces(ck, "Trace_C11_multi", jobs)
    for (pc, po), res in zip(parts, results):
        ck.validated(len(pc))
        for r in res.by_tag("T-FAIL"):
            ck.drift_step(r["op"], {"history": _mshort(pc[r["tid"] - 1]["h"][: r["l"]]), "registry_of": r["observed"]})
        for r in res.by_tag("P-FAIL"):
            c = pc[r["tid"] - 1]
            su = c["h"][0]
            key = {"clause": r["clause"], "op": r["op"], "how": r["how"], "victim": r["victim"], "sym": r["sym"], "objkind": r["kind"], "kind": su["cls"], "pair": su["k1"] + "+" + su["k2"]}
            _dump({"key": key, "h": _mshort(c["h"][: r["l"]])})
            ck.violation(key, {"history": _mshort(c["h"][: r["l"]]), "object": r["obj"], "observed": r["observed"], "expected": r["expected"]}, case={"multi": True, "h": c["h"]})


def _mshort(h):
    out = []
    for e in h:
        if e["op"] == "setup":
            out.append(f"setup {e['cls']} 1={e['k1']}:{e['u1']} 2={e['k2']}:{e['u2']}")
        elif e["op"] == "restore":
            out.append(f"{e['how']}({e['x']})")
        else:
            out.append(f"edit({e['t']},{e['sym']})")
    return out


def _dump(rec):
    import os

    p = os.environ.get("C11_DUMP")
    if p:
        with open(p, "a") as g:
            g.write(json.dumps(rec) + "\n")


def _nontrivial(c):
    """a path that rebuilds the object (not a plain copy) followed by at least one follow-up"""
    return bool(c["fups"]) and any(not p.startswith(("copy_copy", "dot_copy")) for p in c["chain"])


def _mnontrivial(h):
    """a restore after which something was edited or restored again"""
    ops = [e["op"] for e in h[1:]]
    return "restore" in ops[:-1]


def _cases_from(res, pred=None):
    out = []
    for r in res.by_tag("CASE"):
        c = {"cls": r["cls"], "reg": r["reg"], "unit": r["unit"], "pre": r["pre"], "memo": r["memo"], "sync": r["sync"], "chain": list(r["chain"]), "fups": list(r["fups"]), "order": r["order"]}
        if not c["fups"]:
            # the transcription says the chain does not complete: replay it with the whole battery anyway
            c["fups"] = None
        if pred is None or pred(c):
            out.append((c, r))
    return out


NTHREADS = 8


def run(ck):
    import concurrent.futures as cf

    ck.level = "model_checking"
    ck.assumptions += [
        "objects: unyt_quantity (90.0), unyt_array ([0.5, 2.0, 90.0]) and Unit over 21 unit names; registries: the default registry, and custom registries built per case with added (foo), prefixable (pfoo), offset (ofoo), angle (afoo), logarithmic (lfoo) symbols, a modified default symbol (mile), their own 'code' unit system, (customcgs) unit_system='cgs', and (customrm) built-in symbols removed (t, rad) or removed and re-added with another dimension (bar)",
        "pre-persist history chosen by TLC: registry id / code unit system computed after (idlast) or before (idfirst) the first use of prefixed symbols; unit built from the spelling str(unit) (string memo warm) or from another spelling (cold)",
        "out-of-sync objects (chosen by TLC): every symbol of the unit re-valued with registry.modify after the object was created, or the unit built with explicit values under a registered name, string memo warm or cold; sent through the object-carrying paths only (copies, deep copies, pickle of Unit); name-carrying routes and conversions into the code unit system are not demanded for them",
        "savetxt/loadtxt call forms generated by TLC: columns (1, 2, 3 with a bare ndarray) x user header (none, two lines, containing a 'Units' marker line, unit-like words) x footer (none, word, unit-like words, marker + unit line, number) x delimiter (tab, comma, blank) x usecols; fmt and comments at their defaults",
        "several objects: two originals in two registries with the same user symbols (stock / re-valued mile / added foo), restores by pickle, reload of the same bytes, deepcopy, json, and registry edits of any object in between, every order up to 3 (quick) / 4 (thorough) steps",
        "every follow-up pair starts from empty process-wide lru memos; the baseline is the follow-up on the pristine original before anything was persisted",
        "floats are projected to hex strings; a restored-side number within 1e-12 relative of the original-side number is reported as equal (snap)",
        "pickle protocols 0/1 are refused by sympy itself and HDF5 needs h5py (absent): not executed; savetxt/loadtxt only for objects of the default registry (loadtxt has no registry argument); to_string/from_string refusals are not demanded",
    ]
    import impl_c11  # noqa: F401  (constants only; unyt is imported in the workers)

    if ck.replay:
        blob = json.load(open(ck.replay))
        case = blob["case"]
        if case.get("multi"):
            cases = [{"h": case["h"]}]
            obs = ck.pmap("impl_c11", "observe_multi", cases, nproc=1)
            _validate_multi(ck, cases, obs, "replay")
        else:
            case.setdefault("pre", "idlast")
            case.setdefault("memo", "warm")
            case.setdefault("sync", "insync")
            cases = [case]
            obs = ck.pmap("impl_c11", "observe", cases, nproc=1)
            _validate(ck, cases, obs, "replay")
        return

    # ---- 1. TLC generates the histories (independent instances, run side by side) ----
    n_sim = ck.q(60, 1500)
    single = ck.q(
        [("MC_C11_quick1", None), ("MC_C11_quick2", 2), ("MC_C11_pre", None), ("MC_C11_stale", None), ("MC_C11_sv", None)],
        [("MC_C11_full1", None), ("MC_C11_full2", 2), ("MC_C11_prefull", None), ("MC_C11_stale", None), ("MC_C11_svfull", None)],
    )
    multi = ck.q(["MC_C11_multi_quick"], ["MC_C11_multi_full3", "MC_C11_multi_full4"])

    def mc(job):
        kind, cfg = job
        if kind == "single":
            return ck.tlc("MC_C11", cfg, workers=1, label=f"{cfg}: histories build(pre);persist*;follow battery, one case per terminal state", required_actions=["Build", "Persist", "Follow"], timeout=3000)
        if kind == "sim":
            return ck.tlc("MC_C11", "MC_C11_sim", workers=1, simulate=n_sim, depth=60, label="simulation: chains up to 4 paths, every pre-history", timeout=3000)
        if kind == "msim":
            return ck.tlc("MC_C11_multi", "MC_C11_multi_sim", workers=1, simulate=ck.q(40, 1500), depth=9, label="simulation: several objects, 7 steps", timeout=3000)
        return ck.tlc("MC_C11_multi", cfg, workers=1, label=f"{cfg}: several objects, every history setup;(restore|edit)^n", required_actions=["Setup", "Restore", "Edit"], timeout=3000)

    jobs = [("single", cfg) for cfg, _ in single] + [("sim", None)] + [("multi", cfg) for cfg in multi] + [("msim", None)]
    with cf.ThreadPoolExecutor(NTHREADS) as ex:
        results = list(ex.map(mc, jobs))
    rs = dict(zip([j[1] or j[0] for j in jobs], results))

    seen = set()
    nontrivial = 0
    model_classes = set()
    ck.cov["bound"] = {}
    allf = None
    cases = []
    for cfg, only_len in single:
        rows = _cases_from(rs[cfg], (lambda c: len(c["chain"]) == only_len) if only_len else None)
        if len(rows) < 50:
            raise MachineryFailure("too few cases exported by " + cfg)
        if allf is None:
            allf = max((c["fups"] for c, _ in rows if c["fups"]), key=len)
        n = 0
        for c, r in rows:
            if c["fups"] is None:
                c["fups"] = list(allf)
            sig = json.dumps(c, sort_keys=True)
            if sig in seen:
                continue
            seen.add(sig)
            cases.append(c)
            n += 1
            for i, m in enumerate(r["model"]):
                if m:
                    model_classes.add((c["fups"][i], c["unit"], c["pre"], "+".join(sorted({p.rstrip("0123456789") for p in c["chain"]}))))
            if r["restorefails"]:
                model_classes.add(("restore", c["unit"], c["pre"], c["chain"][-1].rstrip("0123456789")))
        ck.cov["bound"][cfg] = {"cases": n}
    ck.sample(cases[len(cases) // 3])
    # beyond the bound: longer chains from TLC's simulator
    rnd = random.Random(ck.seed)
    sims = []
    for c, r in _cases_from(rs["sim"], lambda c: len(c["chain"]) >= 3):
        if c["fups"] is None:
            c["fups"] = list(allf)
        sig = json.dumps(c, sort_keys=True)
        if sig not in seen:
            seen.add(sig)
            sims.append(c)
    sims.sort(key=lambda c: json.dumps(c, sort_keys=True))
    rnd.shuffle(sims)
    sims = sims[: ck.q(60, 2500)]
    if sims:
        ck.sample(sims[0])
    ck.cov["simulated_histories"] = len(sims)
    cases += sims
    nontrivial += sum(1 for c in cases if _nontrivial(c))

    mcases = []
    mseen = set()
    for cfg in multi:
        n = 0
        for r in rs[cfg].by_tag("MCASE"):
            sig = json.dumps(r["h"], sort_keys=True)
            if sig not in mseen:
                mseen.add(sig)
                mcases.append({"h": r["h"]})
                n += 1
        if n < 50:
            raise MachineryFailure("too few histories exported by " + cfg)
        ck.cov["bound"][cfg] = {"histories": n}
    msim = []
    for r in rs["msim"].by_tag("MCASE"):
        sig = json.dumps(r["h"], sort_keys=True)
        if sig not in mseen:
            mseen.add(sig)
            msim.append({"h": r["h"]})
    msim.sort(key=lambda c: json.dumps(c, sort_keys=True))
    rnd.shuffle(msim)
    msim = msim[: ck.q(150, 4000)]
    ck.cov["simulated_multi_histories"] = len(msim)
    mcases += msim
    ck.sample({"several_objects": _mshort(mcases[len(mcases) // 2]["h"])})
    nontrivial += sum(1 for c in mcases if _mnontrivial(c["h"]))

    # ---- 2. replay in the real library ----
    obs = ck.pmap("impl_c11", "observe", cases, chunk_timeout=3000)
    mobs = ck.pmap("impl_c11", "observe_multi", mcases, chunk_timeout=3000)

    # ---- 3. TLC validates the observations (T and P) ----
    _validate(ck, cases, obs, "single")
    _validate_multi(ck, mcases, mobs, "multi")

    ck.cov["model_level_diverging_classes"] = len(model_classes)
    ck.cov["exhaustive"] = True
    ck.cov["evaluations"] = ck.cov["traces_validated_against_impl"]
    ck.cov["distinct_nontrivial"] = nontrivial
    ck.cov["rule"] = "histories exported by TLC replayed on real objects: (a) object x pre-history x chain of persistence paths x order with the whole follow-up battery - non-trivial = the chain contains a path that rebuilds the object (not copy.copy/.copy()) and the battery was applied; (b) two originals, restores and registry edits interleaved - non-trivial = something is restored or edited after a restore"
