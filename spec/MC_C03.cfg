CONSTANTS
  Stride = 1
  Phase = 0
  AllCombos = FALSE
  WithBase = TRUE
INIT Init
NEXT Next
INVARIANT ExportCase
CHECK_DEADLOCK FALSE
