--------------------------- MODULE ArrayFnNumCat ---------------------------
(* C06, Part B: the catalogue of call templates and the C06 predicates on the *)
(* differential observations.                                                 *)
(*                                                                            *)
(* Groups: template class -> functions of that class, template names, and     *)
(* whether the class is instantiated on every shape of the instance (sv) or   *)
(* on the fixed shapes its templates name.  The classification is by the      *)
(* SIGNATURE of the NumPy function (which arguments exist: axis / keepdims /  *)
(* out / dtype / where / initial / ddof / side / mode / k ...), written from  *)
(* NumPy's documentation, independently of unyt's handlers.  A function of    *)
(* the catalogue extracted from the tree that is in no group is exported as   *)
(* UNCOVERED (never silently passed).  "nd.x" = ndarray method / attribute x. *)
EXTENDS Integers, Sequences, FiniteSets, TLC

Groups == <<
  [cls |-> "red_a", sv |-> TRUE,
   fns |-> {"np.nanprod", "np.nansum", "np.prod", "np.sum"},
   t |-> {"axis0", "axm1k", "axpos", "dtype", "initial", "out", "outb", "pos", "where"}],
  [cls |-> "red_nm", sv |-> TRUE,
   fns |-> {"np.nanmax", "np.nanmin"},
   t |-> {"axis0", "axm1k", "axpos", "out", "outb", "pos"}],
  [cls |-> "red_m", sv |-> TRUE,
   fns |-> {"np.amax", "np.amin", "np.max", "np.min"},
   t |-> {"axis0", "axm1k", "axpos", "initial", "out", "outb", "pos", "where"}],
  [cls |-> "red_s", sv |-> TRUE,
   fns |-> {"np.mean", "np.nanmean"},
   t |-> {"axis0", "axm1k", "axpos", "dtype", "out", "outb", "pos", "where"}],
  [cls |-> "red_v", sv |-> TRUE,
   fns |-> {"np.nanstd", "np.nanvar", "np.std", "np.var"},
   t |-> {"axis0", "axm1k", "axpos", "ddof", "ddofpos", "out", "outb", "pos", "where"}],
  [cls |-> "red_med", sv |-> TRUE,
   fns |-> {"np.median", "np.nanmedian", "np.ptp"},
   t |-> {"axis0", "axm1k", "out", "outb", "pos"}],
  [cls |-> "red_b", sv |-> TRUE,
   fns |-> {"np.all", "np.any"},
   t |-> {"axis0", "axm1k", "pos", "where"}],
  [cls |-> "red_c", sv |-> TRUE,
   fns |-> {"np.count_nonzero"},
   t |-> {"axis0", "axm1k", "pos"}],
  [cls |-> "average", sv |-> TRUE,
   fns |-> {"np.average"},
   t |-> {"axis0", "pos", "returned", "weights"}],
  [cls |-> "cum", sv |-> TRUE,
   fns |-> {"np.cumprod", "np.cumsum", "np.nancumprod", "np.nancumsum"},
   t |-> {"axis0", "dtype", "out", "outb", "pos"}],
  [cls |-> "cum2", sv |-> TRUE,
   fns |-> {"np.cumulative_prod", "np.cumulative_sum"},
   t |-> {"axis0", "incl"}],
  [cls |-> "argred", sv |-> TRUE,
   fns |-> {"np.argmax", "np.argmin", "np.nanargmax", "np.nanargmin"},
   t |-> {"axis0", "axk", "out", "pos"}],
  [cls |-> "sort", sv |-> TRUE,
   fns |-> {"np.argsort", "np.sort"},
   t |-> {"axis0", "axnone", "pos", "stable"}],
  [cls |-> "part", sv |-> TRUE,
   fns |-> {"np.partition"},
   t |-> {"kth", "kth0"}],
  [cls |-> "apart", sv |-> TRUE,
   fns |-> {"np.argpartition"},
   t |-> {"kth", "kth0"}],
  [cls |-> "sortc", sv |-> TRUE,
   fns |-> {"np.sort_complex"},
   t |-> {"pos"}],
  [cls |-> "lexsort", sv |-> FALSE,
   fns |-> {"np.lexsort"},
   t |-> {"one", "pos"}],
  [cls |-> "el1", sv |-> TRUE,
   fns |-> {"np.angle", "np.argwhere", "np.atleast_1d", "np.atleast_2d", "np.atleast_3d", "np.common_type", "np.copy", "np.diag", "np.diagflat", "np.fft.fftshift", "np.fft.ifftshift", "np.fix", "np.flatnonzero", "np.flip", "np.flipud", "np.i0", "np.imag", "np.iscomplex", "np.iscomplexobj", "np.isneginf", "np.isposinf", "np.isreal", "np.isrealobj", "np.linalg.vector_norm", "np.min_scalar_type", "np.ndim", "np.nonzero", "np.ones_like", "np.permute_dims", "np.ravel", "np.real", "np.real_if_close", "np.shape", "np.sinc", "np.size", "np.squeeze", "np.transpose", "np.trim_zeros", "np.unique", "np.unique_all", "np.unique_counts", "np.unique_inverse", "np.unique_values", "np.zeros_like"},
   t |-> {"pos"}],
  [cls |-> "empty", sv |-> TRUE,
   fns |-> {"np.empty_like"},
   t |-> {"dtype", "pos"}],
  [cls |-> "nan_to_num", sv |-> TRUE,
   fns |-> {"np.nan_to_num"},
   t |-> {"kw", "nocopy", "pos"}],
  [cls |-> "round", sv |-> TRUE,
   fns |-> {"np.around", "np.round"},
   t |-> {"dec", "deckw", "out", "pos"}],
  [cls |-> "angle", sv |-> TRUE,
   fns |-> {"np.angle"},
   t |-> {"deg"}],
  [cls |-> "axisopt", sv |-> TRUE,
   fns |-> {"np.fft.fftshift", "np.fft.ifftshift", "np.flip", "np.linalg.vector_norm", "np.squeeze", "np.unique"},
   t |-> {"axis0"}],
  [cls |-> "uniq", sv |-> TRUE,
   fns |-> {"np.unique"},
   t |-> {"eqnan", "full"}],
  [cls |-> "like", sv |-> TRUE,
   fns |-> {"np.ones_like", "np.zeros_like"},
   t |-> {"dtype", "shape"}],
  [cls |-> "full_like", sv |-> TRUE,
   fns |-> {"np.full_like"},
   t |-> {"bare", "dtype", "pos"}],
  [cls |-> "mat1", sv |-> TRUE,
   fns |-> {"np.diag_indices_from", "np.diagonal", "np.fliplr", "np.linalg.diagonal", "np.linalg.matrix_transpose", "np.linalg.trace", "np.matrix_transpose", "np.trace", "np.tril_indices_from", "np.triu_indices_from"},
   t |-> {"pos"}],
  [cls |-> "diagk", sv |-> TRUE,
   fns |-> {"np.diag", "np.diagflat", "np.tril", "np.tril_indices_from", "np.triu", "np.triu_indices_from"},
   t |-> {"k1", "km1", "pos"}],
  [cls |-> "trace", sv |-> TRUE,
   fns |-> {"np.diagonal", "np.linalg.diagonal", "np.linalg.trace", "np.trace"},
   t |-> {"off"}],
  [cls |-> "trace2", sv |-> TRUE,
   fns |-> {"np.trace"},
   t |-> {"axes", "dtype", "offpos", "out", "outb"}],
  [cls |-> "trim", sv |-> TRUE,
   fns |-> {"np.trim_zeros"},
   t |-> {"front", "z"}],
  [cls |-> "reshape", sv |-> TRUE,
   fns |-> {"np.reshape"},
   t |-> {"kw", "order", "pos"}],
  [cls |-> "transpose", sv |-> FALSE,
   fns |-> {"np.permute_dims", "np.transpose"},
   t |-> {"axes", "axes3"}],
  [cls |-> "swap", sv |-> FALSE,
   fns |-> {"np.swapaxes"},
   t |-> {"d3", "pos"}],
  [cls |-> "moveaxis", sv |-> FALSE,
   fns |-> {"np.moveaxis", "np.rollaxis"},
   t |-> {"d3", "pos"}],
  [cls |-> "expand", sv |-> TRUE,
   fns |-> {"np.expand_dims"},
   t |-> {"last", "pos"}],
  [cls |-> "repeat", sv |-> TRUE,
   fns |-> {"np.repeat"},
   t |-> {"arr", "axis", "pos"}],
  [cls |-> "tile", sv |-> TRUE,
   fns |-> {"np.tile"},
   t |-> {"pos", "two"}],
  [cls |-> "roll", sv |-> TRUE,
   fns |-> {"np.roll"},
   t |-> {"axis", "pos", "two"}],
  [cls |-> "rot90", sv |-> FALSE,
   fns |-> {"np.rot90"},
   t |-> {"axes", "k", "pos"}],
  [cls |-> "resize", sv |-> TRUE,
   fns |-> {"np.resize"},
   t |-> {"pos", "small"}],
  [cls |-> "bcast_to", sv |-> TRUE,
   fns |-> {"np.broadcast_to"},
   t |-> {"pos", "subok"}],
  [cls |-> "bcast_arrays", sv |-> FALSE,
   fns |-> {"np.broadcast_arrays"},
   t |-> {"pos", "subok"}],
  [cls |-> "meshgrid", sv |-> FALSE,
   fns |-> {"np.meshgrid"},
   t |-> {"ij", "pos", "sparse"}],
  [cls |-> "split", sv |-> FALSE,
   fns |-> {"np.array_split", "np.split"},
   t |-> {"axis", "idx", "pos"}],
  [cls |-> "hvsplit", sv |-> FALSE,
   fns |-> {"np.hsplit", "np.vsplit"},
   t |-> {"idx", "pos"}],
  [cls |-> "dsplit", sv |-> FALSE,
   fns |-> {"np.dsplit"},
   t |-> {"pos"}],
  [cls |-> "unstack", sv |-> FALSE,
   fns |-> {"np.unstack"},
   t |-> {"axis", "pos"}],
  [cls |-> "astype", sv |-> TRUE,
   fns |-> {"np.astype"},
   t |-> {"f4", "i8", "nocopy"}],
  [cls |-> "concat", sv |-> TRUE,
   fns |-> {"np.concat", "np.concatenate"},
   t |-> {"axis1", "axnone", "axpos", "casting", "dtype", "out", "outpos", "pos", "three"}],
  [cls |-> "stack", sv |-> TRUE,
   fns |-> {"np.stack"},
   t |-> {"axis1", "axm1", "casting", "dtype", "out", "outax", "pos"}],
  [cls |-> "vhstack", sv |-> TRUE,
   fns |-> {"np.hstack", "np.vstack"},
   t |-> {"casting", "d2", "dtype", "pos", "tup"}],
  [cls |-> "dcstack", sv |-> TRUE,
   fns |-> {"np.column_stack", "np.dstack"},
   t |-> {"d2", "mixed", "pos"}],
  [cls |-> "block", sv |-> FALSE,
   fns |-> {"np.block"},
   t |-> {"flat", "nested", "single"}],
  [cls |-> "append", sv |-> TRUE,
   fns |-> {"np.append"},
   t |-> {"axis0", "pos"}],
  [cls |-> "dot", sv |-> FALSE,
   fns |-> {"np.dot"},
   t |-> {"bare", "mm", "mv", "out", "outpos", "pos", "sc"}],
  [cls |-> "prod2", sv |-> FALSE,
   fns |-> {"np.convolve", "np.correlate", "np.inner", "np.kron", "np.linalg.outer", "np.linalg.tensordot", "np.linalg.vecdot", "np.outer", "np.tensordot", "np.vdot"},
   t |-> {"bare", "pos", "rbare"}],
  [cls |-> "prod2m", sv |-> FALSE,
   fns |-> {"np.inner", "np.kron", "np.linalg.matmul", "np.linalg.vecdot", "np.outer", "np.vdot"},
   t |-> {"mm"}],
  [cls |-> "outer", sv |-> FALSE,
   fns |-> {"np.outer"},
   t |-> {"out"}],
  [cls |-> "conv", sv |-> FALSE,
   fns |-> {"np.convolve", "np.correlate"},
   t |-> {"full", "same", "valid"}],
  [cls |-> "tensordot", sv |-> FALSE,
   fns |-> {"np.linalg.tensordot", "np.tensordot"},
   t |-> {"ax0", "ax1", "ax2", "axpair"}],
  [cls |-> "cross", sv |-> FALSE,
   fns |-> {"np.cross", "np.linalg.cross"},
   t |-> {"axis", "pos", "stack"}],
  [cls |-> "cross2", sv |-> FALSE,
   fns |-> {"np.cross"},
   t |-> {"axabc"}],
  [cls |-> "multi_dot", sv |-> FALSE,
   fns |-> {"np.linalg.multi_dot"},
   t |-> {"pos"}],
  [cls |-> "einsum", sv |-> FALSE,
   fns |-> {"np.einsum"},
   t |-> {"dtype", "inner", "mm", "opt", "out", "tr", "trace"}],
  [cls |-> "einsum_path", sv |-> FALSE,
   fns |-> {"np.einsum_path"},
   t |-> {"pos"}],
  [cls |-> "close", sv |-> TRUE,
   fns |-> {"np.allclose", "np.isclose"},
   t |-> {"loose", "loosekw", "nan", "pos", "tol", "tolkw"}],
  [cls |-> "aeq", sv |-> TRUE,
   fns |-> {"np.array_equal", "np.array_equiv"},
   t |-> {"pos", "same"}],
  [cls |-> "aeq2", sv |-> TRUE,
   fns |-> {"np.array_equal"},
   t |-> {"nan"}],
  [cls |-> "set2", sv |-> FALSE,
   fns |-> {"np.intersect1d", "np.isin", "np.setdiff1d", "np.setxor1d", "np.union1d"},
   t |-> {"pos"}],
  [cls |-> "set_au", sv |-> FALSE,
   fns |-> {"np.intersect1d", "np.isin", "np.setdiff1d", "np.setxor1d"},
   t |-> {"au"}],
  [cls |-> "intersect", sv |-> FALSE,
   fns |-> {"np.intersect1d"},
   t |-> {"ri"}],
  [cls |-> "isin", sv |-> FALSE,
   fns |-> {"np.isin"},
   t |-> {"invert", "kind"}],
  [cls |-> "linspace", sv |-> FALSE,
   fns |-> {"np.linspace"},
   t |-> {"arr", "axis", "dtype", "noend", "num", "pos", "retstep"}],
  [cls |-> "geomspace", sv |-> FALSE,
   fns |-> {"np.geomspace"},
   t |-> {"noend", "num", "pos"}],
  [cls |-> "logspace", sv |-> FALSE,
   fns |-> {"np.logspace"},
   t |-> {"base", "noend"}],
  [cls |-> "copyto", sv |-> FALSE,
   fns |-> {"np.copyto"},
   t |-> {"bcast", "casting", "pos", "where"}],
  [cls |-> "fill_diagonal", sv |-> FALSE,
   fns |-> {"np.fill_diagonal"},
   t |-> {"arr", "bare", "pos", "wrap", "wrappos"}],
  [cls |-> "put", sv |-> FALSE,
   fns |-> {"np.put"},
   t |-> {"bare", "clip", "pos", "wrapin"}],
  [cls |-> "place", sv |-> FALSE,
   fns |-> {"np.place"},
   t |-> {"pos"}],
  [cls |-> "putmask", sv |-> FALSE,
   fns |-> {"np.putmask"},
   t |-> {"pos", "short"}],
  [cls |-> "put_along", sv |-> FALSE,
   fns |-> {"np.put_along_axis"},
   t |-> {"kw", "pos"}],
  [cls |-> "where", sv |-> TRUE,
   fns |-> {"np.where"},
   t |-> {"bc", "one", "three"}],
  [cls |-> "choose", sv |-> FALSE,
   fns |-> {"np.choose"},
   t |-> {"mode", "modeclip", "out", "outpos", "pos"}],
  [cls |-> "select", sv |-> FALSE,
   fns |-> {"np.select"},
   t |-> {"default", "defkw", "pos"}],
  [cls |-> "clip", sv |-> TRUE,
   fns |-> {"np.clip"},
   t |-> {"arr", "bare", "kw", "maxonly", "minonly", "newkw", "out", "outpos", "pos"}],
  [cls |-> "take", sv |-> FALSE,
   fns |-> {"np.take"},
   t |-> {"axis", "axpos", "clipm", "flat", "out", "pos", "scalar", "wrap"}],
  [cls |-> "take_along", sv |-> FALSE,
   fns |-> {"np.take_along_axis"},
   t |-> {"kw", "pos"}],
  [cls |-> "insert", sv |-> FALSE,
   fns |-> {"np.insert"},
   t |-> {"arr", "axis", "axpos", "bare", "pos"}],
  [cls |-> "delete", sv |-> FALSE,
   fns |-> {"np.delete"},
   t |-> {"axis", "lst", "pos"}],
  [cls |-> "compress", sv |-> FALSE,
   fns |-> {"np.compress"},
   t |-> {"axis", "out", "pos"}],
  [cls |-> "extract", sv |-> FALSE,
   fns |-> {"np.extract"},
   t |-> {"pos"}],
  [cls |-> "searchsorted", sv |-> FALSE,
   fns |-> {"np.searchsorted"},
   t |-> {"bare", "pos", "right", "rightpos", "scalar", "sorter"}],
  [cls |-> "digitize", sv |-> FALSE,
   fns |-> {"np.digitize"},
   t |-> {"pos", "right"}],
  [cls |-> "interp", sv |-> FALSE,
   fns |-> {"np.interp"},
   t |-> {"barefp", "lr", "lrpos", "period", "pos"}],
  [cls |-> "pad", sv |-> TRUE,
   fns |-> {"np.pad"},
   t |-> {"cv", "linear", "modepos", "pos", "reflect", "stat", "wrapm"}],
  [cls |-> "diff", sv |-> TRUE,
   fns |-> {"np.diff"},
   t |-> {"append", "axis0", "axpos", "n2", "nkw", "pos", "prepend"}],
  [cls |-> "ediff1d", sv |-> TRUE,
   fns |-> {"np.ediff1d"},
   t |-> {"ends", "endspos", "pos"}],
  [cls |-> "trapezoid", sv |-> TRUE,
   fns |-> {"np.trapezoid"},
   t |-> {"axis0", "dx", "dxbare", "dxpos", "pos", "x", "xaxis", "xkw"}],
  [cls |-> "unwrap", sv |-> FALSE,
   fns |-> {"np.unwrap"},
   t |-> {"axis0", "discont", "discpos", "period", "pos"}],
  [cls |-> "gradient", sv |-> FALSE,
   fns |-> {"np.gradient"},
   t |-> {"axis", "coords", "dx", "edge2", "pos"}],
  [cls |-> "bincount", sv |-> FALSE,
   fns |-> {"np.bincount"},
   t |-> {"w", "wmin"}],
  [cls |-> "hist", sv |-> FALSE,
   fns |-> {"np.histogram"},
   t |-> {"bins", "density", "dw", "edges", "pos", "range", "rangekw", "wbare", "weights"}],
  [cls |-> "hist2d", sv |-> FALSE,
   fns |-> {"np.histogram2d"},
   t |-> {"bins", "density", "pos", "range", "weights"}],
  [cls |-> "histdd", sv |-> FALSE,
   fns |-> {"np.histogramdd"},
   t |-> {"bins", "density", "pos", "weights"}],
  [cls |-> "hist_edges", sv |-> FALSE,
   fns |-> {"np.histogram_bin_edges"},
   t |-> {"auto", "bins", "pos", "range"}],
  [cls |-> "pctl", sv |-> TRUE,
   fns |-> {"np.nanpercentile", "np.percentile"},
   t |-> {"axis0", "axpos", "keep", "method", "out", "pos", "qarr"}],
  [cls |-> "qtl", sv |-> TRUE,
   fns |-> {"np.nanquantile", "np.quantile"},
   t |-> {"axis0", "axpos", "keep", "method", "out", "pos", "qarr"}],
  [cls |-> "cov", sv |-> FALSE,
   fns |-> {"np.corrcoef", "np.cov"},
   t |-> {"pos", "rowvar", "xy"}],
  [cls |-> "cov2", sv |-> FALSE,
   fns |-> {"np.cov"},
   t |-> {"bias", "ddof"}],
  [cls |-> "la1", sv |-> FALSE,
   fns |-> {"np.linalg.cond", "np.linalg.det", "np.linalg.eig", "np.linalg.eigvals", "np.linalg.inv", "np.linalg.matrix_norm", "np.linalg.matrix_rank", "np.linalg.norm", "np.linalg.pinv", "np.linalg.qr", "np.linalg.slogdet", "np.linalg.svd", "np.linalg.svdvals"},
   t |-> {"pos", "stack"}],
  [cls |-> "la_sym", sv |-> FALSE,
   fns |-> {"np.linalg.cholesky", "np.linalg.eigh", "np.linalg.eigvalsh"},
   t |-> {"pos", "upper"}],
  [cls |-> "svd", sv |-> FALSE,
   fns |-> {"np.linalg.svd"},
   t |-> {"herm", "notfull", "notfullpos", "nouv", "nouvpos"}],
  [cls |-> "norm", sv |-> FALSE,
   fns |-> {"np.linalg.norm"},
   t |-> {"axis", "axkw", "fro", "inf", "ord1", "vec"}],
  [cls |-> "pinv", sv |-> FALSE,
   fns |-> {"np.linalg.pinv"},
   t |-> {"herm", "rcond", "rect"}],
  [cls |-> "solve", sv |-> FALSE,
   fns |-> {"np.linalg.solve"},
   t |-> {"bare", "mat", "vec"}],
  [cls |-> "lstsq", sv |-> FALSE,
   fns |-> {"np.linalg.lstsq"},
   t |-> {"pos", "rcond", "rcpos"}],
  [cls |-> "tensorinv", sv |-> FALSE,
   fns |-> {"np.linalg.tensorinv"},
   t |-> {"ind2", "pos"}],
  [cls |-> "tensorsolve", sv |-> FALSE,
   fns |-> {"np.linalg.tensorsolve"},
   t |-> {"axes", "pos"}],
  [cls |-> "matrix_power", sv |-> FALSE,
   fns |-> {"np.linalg.matrix_power"},
   t |-> {"p0", "p2", "pm1"}],
  [cls |-> "la_kw", sv |-> FALSE,
   fns |-> {"np.linalg.cond", "np.linalg.matrix_norm", "np.linalg.vector_norm"},
   t |-> {"ord1"}],
  [cls |-> "qr", sv |-> FALSE,
   fns |-> {"np.linalg.qr"},
   t |-> {"complete", "r"}],
  [cls |-> "rank", sv |-> FALSE,
   fns |-> {"np.linalg.matrix_rank"},
   t |-> {"herm", "tol"}],
  [cls |-> "fft1", sv |-> FALSE,
   fns |-> {"np.fft.fft", "np.fft.hfft", "np.fft.ifft", "np.fft.ihfft", "np.fft.irfft", "np.fft.rfft"},
   t |-> {"axis", "axpos", "fwd", "n", "nkw", "norm", "pos"}],
  [cls |-> "fftn", sv |-> FALSE,
   fns |-> {"np.fft.fft2", "np.fft.fftn", "np.fft.ifft2", "np.fft.ifftn", "np.fft.irfft2", "np.fft.irfftn", "np.fft.rfft2", "np.fft.rfftn"},
   t |-> {"axes", "norm", "pos", "s", "saxes"}],
  [cls |-> "fftshift", sv |-> FALSE,
   fns |-> {"np.fft.fftshift", "np.fft.ifftshift"},
   t |-> {"axes", "axpos"}],
  [cls |-> "apply_along", sv |-> FALSE,
   fns |-> {"np.apply_along_axis"},
   t |-> {"sort", "sum"}],
  [cls |-> "apply_over", sv |-> FALSE,
   fns |-> {"np.apply_over_axes"},
   t |-> {"sum", "two"}],
  [cls |-> "types", sv |-> TRUE,
   fns |-> {"np.can_cast", "np.may_share_memory", "np.result_type", "np.shares_memory"},
   t |-> {"pos"}],
  [cls |-> "share_self", sv |-> FALSE,
   fns |-> {"np.may_share_memory", "np.shares_memory"},
   t |-> {"self"}],
  [cls |-> "ravel_multi", sv |-> FALSE,
   fns |-> {"np.ravel_multi_index"},
   t |-> {"pos"}],
  [cls |-> "unravel", sv |-> FALSE,
   fns |-> {"np.unravel_index"},
   t |-> {"pos"}],
  [cls |-> "text", sv |-> TRUE,
   fns |-> {"np.array2string", "np.array_repr", "np.array_str"},
   t |-> {"pos"}],
  [cls |-> "save", sv |-> FALSE,
   fns |-> {"np.save", "np.savetxt", "np.savez", "np.savez_compressed"},
   t |-> {"pos"}],
  [cls |-> "unsup", sv |-> FALSE,
   fns |-> {"np.busday_count", "np.busday_offset", "np.datetime_as_string", "np.is_busday", "np.ix_", "np.packbits", "np.piecewise", "np.poly", "np.polyadd", "np.polyder", "np.polydiv", "np.polyfit", "np.polyint", "np.polymul", "np.polysub", "np.polyval", "np.roots", "np.unpackbits", "np.vander"},
   t |-> {"call"}],
  [cls |-> "nd.all", sv |-> TRUE,
   fns |-> {"nd.all"},
   t |-> {"axis0", "axpos", "keep", "out", "pos"}],
  [cls |-> "nd.any", sv |-> TRUE,
   fns |-> {"nd.any"},
   t |-> {"axis0", "axpos", "keep", "out", "pos"}],
  [cls |-> "nd.argmax", sv |-> TRUE,
   fns |-> {"nd.argmax"},
   t |-> {"axis0", "axpos", "pos"}],
  [cls |-> "nd.argmin", sv |-> TRUE,
   fns |-> {"nd.argmin"},
   t |-> {"axis0", "axpos", "pos"}],
  [cls |-> "nd.max", sv |-> TRUE,
   fns |-> {"nd.max"},
   t |-> {"axis0", "axpos", "keep", "out", "pos"}],
  [cls |-> "nd.min", sv |-> TRUE,
   fns |-> {"nd.min"},
   t |-> {"axis0", "axpos", "keep", "out", "pos"}],
  [cls |-> "nd.mean", sv |-> TRUE,
   fns |-> {"nd.mean"},
   t |-> {"axis0", "axpos", "keep", "out", "pos"}],
  [cls |-> "nd.prod", sv |-> TRUE,
   fns |-> {"nd.prod"},
   t |-> {"axis0", "axpos", "keep", "out", "pos"}],
  [cls |-> "nd.sum", sv |-> TRUE,
   fns |-> {"nd.sum"},
   t |-> {"axis0", "axpos", "keep", "out", "pos"}],
  [cls |-> "nd.std", sv |-> TRUE,
   fns |-> {"nd.std"},
   t |-> {"axis0", "axpos", "ddof", "keep", "out", "pos"}],
  [cls |-> "nd.var", sv |-> TRUE,
   fns |-> {"nd.var"},
   t |-> {"axis0", "axpos", "ddof", "keep", "out", "pos"}],
  [cls |-> "nd.cumsum", sv |-> TRUE,
   fns |-> {"nd.cumsum"},
   t |-> {"axis0", "axpos", "pos"}],
  [cls |-> "nd.cumprod", sv |-> TRUE,
   fns |-> {"nd.cumprod"},
   t |-> {"axis0", "axpos", "pos"}],
  [cls |-> "nd.conj", sv |-> TRUE,
   fns |-> {"nd.conj"},
   t |-> {"pos"}],
  [cls |-> "nd.conjugate", sv |-> TRUE,
   fns |-> {"nd.conjugate"},
   t |-> {"pos"}],
  [cls |-> "nd.copy", sv |-> TRUE,
   fns |-> {"nd.copy"},
   t |-> {"order", "orderpos", "pos"}],
  [cls |-> "nd.flatten", sv |-> TRUE,
   fns |-> {"nd.flatten"},
   t |-> {"order", "pos"}],
  [cls |-> "nd.ravel", sv |-> TRUE,
   fns |-> {"nd.ravel"},
   t |-> {"order", "pos"}],
  [cls |-> "nd.nonzero", sv |-> TRUE,
   fns |-> {"nd.nonzero"},
   t |-> {"pos"}],
  [cls |-> "nd.tolist", sv |-> TRUE,
   fns |-> {"nd.tolist"},
   t |-> {"pos"}],
  [cls |-> "nd.squeeze", sv |-> TRUE,
   fns |-> {"nd.squeeze"},
   t |-> {"axis", "pos"}],
  [cls |-> "nd.transpose", sv |-> TRUE,
   fns |-> {"nd.transpose"},
   t |-> {"axes", "pos"}],
  [cls |-> "nd.argsort", sv |-> TRUE,
   fns |-> {"nd.argsort"},
   t |-> {"axis0", "axpos", "kind", "pos"}],
  [cls |-> "nd.byteswap", sv |-> TRUE,
   fns |-> {"nd.byteswap"},
   t |-> {"pos"}],
  [cls |-> "nd.item", sv |-> TRUE,
   fns |-> {"nd.item"},
   t |-> {"pos"}],
  [cls |-> "nd.T", sv |-> TRUE,
   fns |-> {"nd.T"},
   t |-> {"pos"}],
  [cls |-> "nd.mT", sv |-> TRUE,
   fns |-> {"nd.mT"},
   t |-> {"pos"}],
  [cls |-> "nd.real", sv |-> TRUE,
   fns |-> {"nd.real"},
   t |-> {"pos"}],
  [cls |-> "nd.imag", sv |-> TRUE,
   fns |-> {"nd.imag"},
   t |-> {"pos"}],
  [cls |-> "nd.flat", sv |-> TRUE,
   fns |-> {"nd.flat"},
   t |-> {"idx", "pos"}],
  [cls |-> "nd.size", sv |-> TRUE,
   fns |-> {"nd.size"},
   t |-> {"pos"}],
  [cls |-> "nd.shape", sv |-> TRUE,
   fns |-> {"nd.shape"},
   t |-> {"pos"}],
  [cls |-> "nd.ndim", sv |-> TRUE,
   fns |-> {"nd.ndim"},
   t |-> {"pos"}],
  [cls |-> "nd.nbytes", sv |-> TRUE,
   fns |-> {"nd.nbytes"},
   t |-> {"pos"}],
  [cls |-> "nd.itemsize", sv |-> TRUE,
   fns |-> {"nd.itemsize"},
   t |-> {"pos"}],
  [cls |-> "nd.argpartition", sv |-> TRUE,
   fns |-> {"nd.argpartition"},
   t |-> {"kth"}],
  [cls |-> "nd.partition", sv |-> TRUE,
   fns |-> {"nd.partition"},
   t |-> {"kth"}],
  [cls |-> "nd.sort", sv |-> TRUE,
   fns |-> {"nd.sort"},
   t |-> {"axis0", "pos"}],
  [cls |-> "nd.fill", sv |-> TRUE,
   fns |-> {"nd.fill"},
   t |-> {"pos"}],
  [cls |-> "nd.astype", sv |-> TRUE,
   fns |-> {"nd.astype"},
   t |-> {"f4", "i8", "nocopy"}],
  [cls |-> "nd.view", sv |-> TRUE,
   fns |-> {"nd.view"},
   t |-> {"nd", "pos"}],
  [cls |-> "nd.choose", sv |-> FALSE,
   fns |-> {"nd.choose"},
   t |-> {"pos"}],
  [cls |-> "nd.clip", sv |-> TRUE,
   fns |-> {"nd.clip"},
   t |-> {"bare", "kw", "out", "pos"}],
  [cls |-> "nd.compress", sv |-> FALSE,
   fns |-> {"nd.compress"},
   t |-> {"axis", "pos"}],
  [cls |-> "nd.diagonal", sv |-> FALSE,
   fns |-> {"nd.diagonal"},
   t |-> {"off", "offkw", "pos"}],
  [cls |-> "nd.trace", sv |-> FALSE,
   fns |-> {"nd.trace"},
   t |-> {"dtype", "off", "pos"}],
  [cls |-> "nd.dot", sv |-> FALSE,
   fns |-> {"nd.dot"},
   t |-> {"bare", "out", "outpos", "pos", "vec"}],
  [cls |-> "nd.take", sv |-> FALSE,
   fns |-> {"nd.take"},
   t |-> {"axis", "axpos", "clipm", "out", "pos", "scalar", "wrap"}],
  [cls |-> "nd.put", sv |-> FALSE,
   fns |-> {"nd.put"},
   t |-> {"clip", "pos"}],
  [cls |-> "nd.repeat", sv |-> TRUE,
   fns |-> {"nd.repeat"},
   t |-> {"axis", "pos"}],
  [cls |-> "nd.reshape", sv |-> TRUE,
   fns |-> {"nd.reshape"},
   t |-> {"order", "pos", "tup"}],
  [cls |-> "nd.resize", sv |-> FALSE,
   fns |-> {"nd.resize"},
   t |-> {"pos"}],
  [cls |-> "nd.round", sv |-> TRUE,
   fns |-> {"nd.round"},
   t |-> {"dec", "out", "pos"}],
  [cls |-> "nd.searchsorted", sv |-> FALSE,
   fns |-> {"nd.searchsorted"},
   t |-> {"pos", "right", "rightpos"}],
  [cls |-> "nd.swapaxes", sv |-> FALSE,
   fns |-> {"nd.swapaxes"},
   t |-> {"pos"}],
  [cls |-> "nd.getitem", sv |-> FALSE,
   fns |-> {"nd.getitem"},
   t |-> {"d2", "ell", "fancy", "idx", "mask", "new", "sl"}],
  [cls |-> "nd.setitem", sv |-> FALSE,
   fns |-> {"nd.setitem"},
   t |-> {"bare", "idx", "mask", "sl"}]
>>

GroupIdx == 1..Len(Groups)
Known == UNION {Groups[g].fns : g \in GroupIdx}
\* ---- memory layouts ---------------------------------------------------------------------------------
\* templates with an out= / in-place target: the BASE buffer behind the target is observed afterwards
TargetCls == {"copyto", "fill_diagonal", "put", "place", "putmask", "put_along", "nd.sort", "nd.fill", "nd.put", "nd.setitem"}
OutTmplNames == {"out", "outpos", "outb", "outax", "nocopy"}
HasTarget(cls, t) == cls \in TargetCls \/ t \in OutTmplNames
\* layouts of a target: C-contiguous, F-ordered, every second element of a larger buffer (strided), reversed view,
\* the memory of the first input (overlap); layouts of the inputs: C, F, strided, reversed, broadcast (stride 0)
AllOutLays == {"C", "F", "S", "R", "O"}
AllInLays == {"C", "F", "S", "R", "B"}

\* ---- input rank above the natural rank -------------------------------------------------------------------
\* rk = 1: every array operand of rank >= 1 a template creates gets one more leading axis (a stack of two independent
\* data sets).  Functions with default axes (fft2 family: last two; linalg: last two; cross/trapezoid/diff/gradient/
\* flip/roll/rot90/tensordot defaults; reductions with axis given) must then do what NumPy does on the stripped stack.
\* Target templates are not lifted (the out= shape of a lifted call is not stated by the template).
Ranks == {0, 1}

\* ---- argument aliasing x special values --------------------------------------------------------------------
\* classes whose templates take two or more array operands: a later operand of the same rank and dtype may BE the
\* first one ("S": the same object in two slots) or a view of it ("V"); crossed with data holding NaN / +-inf / -0.0
\* (and the empty and 0-d shapes of the instance).  x == x is not true for NaN: identity or shared memory must not
\* change the numbers.
MultiOpCls == {"concat", "stack", "vhstack", "dcstack", "block", "append", "bcast_arrays", "meshgrid", "lexsort",
   "dot", "prod2", "prod2m", "outer", "conv", "tensordot", "cross", "cross2", "multi_dot", "einsum", "einsum_path",
   "close", "aeq", "aeq2", "set2", "set_au", "intersect", "isin", "linspace", "geomspace",
   "copyto", "putmask", "place", "put", "fill_diagonal", "where", "choose", "select", "clip", "insert", "take_along",
   "searchsorted", "digitize", "interp", "trapezoid", "gradient", "hist", "hist2d", "histdd", "cov", "cov2",
   "solve", "lstsq", "tensorsolve", "types", "share_self", "diff", "ediff1d", "full_like", "average", "bincount",
   "nd.dot", "nd.clip", "nd.searchsorted", "nd.choose", "nd.put", "nd.setitem"}
\* LAPACK's iterative routines are undefined on infinities (numpy.linalg.svd of a matrix holding inf does not return in
\* NumPy 2.5 / OpenBLAS): the inf data class is not run on the linear-algebra classes
LapackCls == {"la1", "la_sym", "svd", "norm", "pinv", "solve", "lstsq", "tensorinv", "tensorsolve", "matrix_power", "la_kw", "qr", "rank"}
DataOK(cls, dc) == ~(dc = "inf" /\ cls \in LapackCls)
Aliases == {"S", "V"}
SpecialDC == {"nan", "inf", "nz"}

\* ---- who carries the units ---------------------------------------------------------------------------------
\* Handlers reconcile units operand by operand (a bare operand adopts the other operand's units, a dimensionless one is
\* treated as bare, ...).  WHICH operand carries units must never change the roles or the order in which the operands
\* reach NumPy.  uc = "N": as the template says; "B1" / "D1": the FIRST array operand the template creates is a bare
\* ndarray / a dimensionless unyt_array; "BR" / "DR": every array operand AFTER the first is.  Differential like every
\* catalogue case: the call may be refused (mixed carriers in a merging position), otherwise NumPy's numbers.
UnitCarriers == {"B1", "D1", "BR", "DR"}
\* equality tests answer False for operands of different units BY DESIGN (1 km is not a bare 1): there the units are
\* part of the answer, so mixed carriers are not C06's concern
UnitAwareCls == {"aeq", "aeq2"}
\* a method call is "on unyt arrays" when its RECEIVER is one: with a bare receiver the call is NumPy's own method and a
\* unyt argument only reaches __array_ufunc__ (dtype of ufunc results: C17).  The method classes keep their own
\* `bare` templates (bare non-receiver operand) and are not crossed with the carrier patterns.
MethodMultiCls == {"nd.dot", "nd.clip", "nd.searchsorted", "nd.choose", "nd.put", "nd.setitem"}
CarrierCls == MultiOpCls \ (UnitAwareCls \cup MethodMultiCls)
\* data class "band" (classes with a tolerance): the second operand lies just outside / just inside the tolerance band
\* of the first (|a - b| between rtol*|a| and rtol*|b|), equal, and far away - element by element
BandCls == {"close"}

\* ---- keyword completeness -----------------------------------------------------------------------------
\* keyword -> non-default value classes (the meaning of mode= / order= is function-specific: harness/c06_templates.py);
\* a keyword of NumPy's signature (inspect.signature, extracted from the installed NumPy) that is not in this table is
\* exported as uncovered.  out= is covered by the out templates above.
KwVal ==
  "axis" :> {"0", "m1"} @@
  "keepdims" :> {"T"} @@
  "ddof" :> {"1"} @@
  "correction" :> {"1"} @@
  "kind" :> {"stable", "mergesort", "heapsort"} @@
  "stable" :> {"T"} @@
  "descending" :> {"T"} @@
  "side" :> {"right"} @@
  "dtype" :> {"f4", "f8"} @@
  "casting" :> {"unsafe"} @@
  "where" :> {"mask"} @@
  "initial" :> {"2"} @@
  "decimals" :> {"1", "m1"} @@
  "k" :> {"1", "m1"} @@
  "offset" :> {"1", "m1"} @@
  "axis1" :> {"1"} @@
  "axis2" :> {"0"} @@
  "n" :> {"2", "5"} @@
  "prepend" :> {"q"} @@
  "append" :> {"q"} @@
  "to_end" :> {"q"} @@
  "to_begin" :> {"q"} @@
  "num" :> {"5"} @@
  "endpoint" :> {"F"} @@
  "retstep" :> {"T"} @@
  "base" :> {"2"} @@
  "equal_nan" :> {"T"} @@
  "rtol" :> {"big", "0"} @@
  "atol" :> {"0"} @@
  "assume_unique" :> {"T"} @@
  "return_indices" :> {"T"} @@
  "invert" :> {"T"} @@
  "density" :> {"T"} @@
  "bins" :> {"4"} @@
  "full_matrices" :> {"F"} @@
  "compute_uv" :> {"F"} @@
  "hermitian" :> {"T"} @@
  "UPLO" :> {"U"} @@
  "rcond" :> {"half"} @@
  "ord" :> {"1", "inf"} @@
  "norm" :> {"ortho", "forward"} @@
  "axes" :> {"0"} @@
  "wrap" :> {"T"} @@
  "left" :> {"9"} @@
  "right" :> {"9"} @@
  "period" :> {"p"} @@
  "discont" :> {"1"} @@
  "method" :> {"lower", "nearest"} @@
  "dx" :> {"half"} @@
  "optimize" :> {"T"} @@
  "mode" :> {"alt1", "alt2"} @@
  "order" :> {"F"} @@
  "axisa" :> {"0"} @@
  "axisb" :> {"0"} @@
  "axisc" :> {"0"} @@
  "default" :> {"7"} @@
  "ind" :> {"1"} @@
  "copy" :> {"F"} @@
  "nan" :> {"v"} @@
  "posinf" :> {"v"} @@
  "neginf" :> {"v"} @@
  "weights" :> {"w"} @@
  "range" :> {"r"} @@
  "stat_length" :> {"2"} @@
  "constant_values" :> {"3"} @@
  "end_values" :> {"e"} @@
  "reflect_type" :> {"odd"} @@
  "indexing" :> {"ij"} @@
  "precision" :> {"2"} @@
  "max_line_width" :> {"20"} @@
  "fmt" :> {"e"} @@
  "delimiter" :> {"c"}
\* keywords exercised by hand-written templates of the function's class (clip kw/newkw, trapezoid xkw, fftn s/saxes,
\* searchsorted sorter, cumulative_* incl)
KwCoveredElsewhere == {"out", "a_min", "a_max", "min", "max", "x", "s", "sorter", "include_initial"}
\* keywords NumPy documents but takes through **kwargs (invisible to inspect.signature)
DocKw(fn) == IF fn = "np.pad" THEN {"stat_length", "constant_values", "end_values", "reflect_type"} ELSE {}
\* data classes that make a keyword matter: few distinct values (ties, duplicates), NaNs
DataClasses == {"plain", "ties", "nan"}
\* base template of a class for keyword cases
KwBase(g) == IF "pos" \in Groups[g].t THEN "pos" ELSE CHOOSE t \in Groups[g].t : TRUE

\* ---- what C06 demands per class -----------------------------------------------------------------
\* result values are unspecified (np.empty_like) or text that legitimately mentions the unit
NoValueCls == {"empty", "text"}
\* nanmax / nanmin: NumPy ITSELF computes ndarray subclasses by another routine (amax/amin after NaN replacement instead of
\* fmax/fmin.reduce); among tied zeros the two pick different signs.  NumPy's choice, not unyt's: the sign of a zero is
\* not demanded there (o.valz = values equal up to the sign of zeros); everywhere else -0.0 and +0.0 are different numbers.
ZeroSignFreeCls == {"red_nm"}
\* the 19 functions unyt declares unsupported: NEP 18 TypeError; "raises" satisfies the statement
RefuseCls == {"unsup"}
\* functions documented to refuse units (cumulative products have no single unit)
RefuseFns == {"np.cumprod", "np.nancumprod", "np.cumulative_prod", "nd.cumprod"}

\* o = projected observation of one template instance:
\*   ur / br : the call raised on unyt inputs / NumPy raised on the stripped data
\*   n, shp, knd, val : same leaf structure / shapes / dtype kinds / values as NumPy on the stripped data
\*   tgt, tknd : out= and in-place targets hold the same numbers / dtype kind afterwards
\* C06: either raises or produces exactly NumPy's numbers (shape, dtype kind, values, in-place effect).
\* Not demanded: anything when NumPy itself raises on the stripped data (there are no numbers to agree with).
\* For calls with an out= / in-place target NumPy's refusal is a refusal: a call that returns where NumPy rejects the
\* target cannot have written the caller's memory as NumPy does.
C_Fails(c, o) ==
  IF o.br /\ ~o.ur /\ c.tg THEN {"refusal"}
  ELSE IF o.ur \/ o.br THEN {}
  ELSE (IF o.n THEN {} ELSE {"structure"})
       \cup (IF o.n /\ ~o.shp THEN {"shape"} ELSE {})
       \cup (IF o.n /\ ~o.knd THEN {"kind"} ELSE {})
       \cup (IF o.n /\ o.shp /\ ~(IF c.cls \in ZeroSignFreeCls THEN o.valz ELSE o.val) /\ c.cls \notin NoValueCls THEN {"values"} ELSE {})
       \cup (IF ~o.tgt THEN {"target"} ELSE {})
       \cup (IF ~o.tknd THEN {"target-kind"} ELSE {})
       \* the effect on the INPUTS is part of "which computation is carried out": after the call every input object (and
       \* the buffer it views) holds what NumPy leaves in the stripped input - untouched unless NumPy documents otherwise
       \* (sort(), partition, overwrite_input=True given by the caller, in-place functions), and then changed alike
       \cup (IF ~o.inp THEN {"inputs"} ELSE {})
\* ---- T: dispatch / forwarding protocol as transcribed from unyt -------------------------------------
\* array.py:2050-2068: unsupported -> NotImplemented (TypeError); handled -> handler; default -> func._implementation
\* the routine a handler forwards to (its own _implementation unless listed)
OwnImpl(fn, fixes) ==
  CASE fn = "np.hstack" /\ "hstack" \notin fixes -> "np.vstack"        \* _array_functions.py: hstack calls np.vstack._implementation
    [] fn = "np.concat" -> "np.concatenate"
    [] fn = "np.permute_dims" -> "np.transpose"
    [] fn = "np.cumulative_prod" -> ""                                    \* raises before forwarding
    [] fn = "np.cumprod" -> ""
    [] fn = "np.apply_over_axes" -> ""                                    \* re-implemented, calls func directly
    [] OTHER -> fn
\* (the forwarding clause is not asked of keyword cases and carrier cases: an injected bare keyword / a bare operand can
\* remove the last unyt argument, and the call then no longer dispatches to unyt at all)
C_T(c, o, fixes) ==
  /\ (c.cls \in RefuseCls \/ c.fn \in RefuseFns) => o.ur
  /\ (~o.ur /\ c.kw = "" /\ c.uc = "N" /\ c.kind \in {"handled", "default"} /\ OwnImpl(c.fn, fixes) # "") => OwnImpl(c.fn, fixes) \in {o.fwd[j] : j \in 1..Len(o.fwd)}
=============================================================================
