CONSTANTS
  Seeds = {0}
  DTs = {"f", "i"}
  ShAll = {"s", "3", "2x3", "0"}
  InLays = {"C", "S"}
  OutLays = {"C", "F", "S", "R", "O"}
  KwKinds = {"handled", "override"}
  KwShapes = {"40", "3x40"}
  KwDC = {"ties", "nan"}
  AliasCombos <- CombosQuick
  UCs = {"B1", "D1", "BR", "DR"}
  AllClsDC = {"nan"}
INIT Init
NEXT Next
INVARIANT Export
CHECK_DEADLOCK FALSE
