----------------------------- MODULE SuiteTrace -----------------------------
(* Code -> spec: executions RECORDED from the real library (the repository's  *)
(* own test-suite run under harness/unyt_verif_tracer.py, or a driver) are    *)
(* checked against event-level property predicates.  One event = one          *)
(* top-level public call: its operands projected before and after the call,   *)
(* its result(s), the exception class.                                        *)
(*                                                                            *)
(* The predicates below are the per-call clauses of the listed properties -   *)
(* each says only what the property statement says about ONE call:            *)
(*   P01  (C01) a commensurability-requiring binary ufunc whose operands have *)
(*        different dimensions, outside the documented exceptions, raised,    *)
(*        and every operand is unchanged                                      *)
(*   P04  (C04/C05) the dimension of the result is the one dimensional        *)
(*        analysis gives (ufuncs and Unit operators)                          *)
(*   P13  (C13) modify/remove on the default registry refuse                  *)
(*   P16  (C16) shape () => quantity, more than one element => array          *)
(*   P18  (C18) a call documented to return a new object leaves unit, dtype,  *)
(*        shape and data bytes of every input as they were; a failed in-place *)
(*        call leaves numbers and unit of its target unchanged                *)
(* Which predicates are reported is selected by IOEnv.PREDS (a JSON list).    *)
(* The harness normalises events so that every field exists (harness/suite.py)*)
EXTENDS Integers, Sequences, FiniteSets, TLC, Json, IOUtils

Events == JsonDeserialize(IOEnv.EVENTS)
Preds == JsonDeserialize(IOEnv.PREDS)
On(p) == \E k \in DOMAIN Preds : Preds[k] = p

VARIABLE i
Init == i = 1

(* ---- operand projections ---- *)
IsUnyt(o) == o.k \in {"Q", "A"}
IsBare(o) == o.k \in {"nd", "num", "seq"}
Tracked(o) == o.k \in {"Q", "A", "nd", "U"}
ZeroDim == <<0, 0, 0, 0, 0, 0, 0, 0>>
\* dimension of an operand as the library reads it: bare data is dimensionless
DimKnown(o) == IF IsUnyt(o) \/ o.k = "U" THEN o.dimok ELSE IsBare(o) /\ ~o.hasq
OpDim(o) == IF IsUnyt(o) \/ o.k = "U" THEN o.dim ELSE ZeroDim
VAdd(a, b) == [j \in 1..8 |-> a[j] + b[j]]
VSub(a, b) == [j \in 1..8 |-> a[j] - b[j]]
VNeg(a) == [j \in 1..8 |-> -a[j]]
VScaleOk(a, n, d) == \A j \in 1..8 : (a[j] * n) % d = 0
VScale(a, n, d) == [j \in 1..8 |-> (a[j] * n) \div d]
\* unchanged by the call: unit string, dtype, shape, data bytes
Same(o) == Tracked(o) => (o.u = o.u2 /\ o.dt = o.dt2 /\ o.sh = o.sh2 /\ o.dig = o.dig2)
\* numbers and unit unchanged (bytes are compared only when the dtype did not change:
\* an integer out=/augmented target is retyped to float before validation, which keeps the numbers)
SameNumbers(o) == Tracked(o) => (o.u = o.u2 /\ o.sh = o.sh2 /\ (o.dt = o.dt2 => o.dig = o.dig2))

(* ---- P01 ---- *)
Ordering == {"greater", "greater_equal", "less", "less_equal"}
NeedsCommensurable == {"add", "subtract", "maximum", "minimum", "fmax", "fmin", "hypot",
                       "remainder", "fmod", "arctan2"} \cup Ordering
Binary(e) == e.ev = "ufunc" /\ e.nin = 2 /\ e.method \in {"__call__", "outer"} /\ Len(e.ops) >= 2
P01Applies(e) ==
  /\ Binary(e) /\ e.fn \in NeedsCommensurable
  /\ DimKnown(e.ops[1]) /\ DimKnown(e.ops[2])
  /\ IsUnyt(e.ops[1]) \/ IsUnyt(e.ops[2])
  /\ OpDim(e.ops[1]) # OpDim(e.ops[2])
  \* documented exceptions: an all-zero bare number or bare sequence; ordering against a dimensionless operand
  /\ ~(IsBare(e.ops[1]) /\ e.ops[1].zero) /\ ~(IsBare(e.ops[2]) /\ e.ops[2].zero)
  /\ ~(e.fn \in Ordering /\ (OpDim(e.ops[1]) = ZeroDim \/ OpDim(e.ops[2]) = ZeroDim))
P01(e) == P01Applies(e) => (e.exc # "" /\ \A k \in DOMAIN e.ops : SameNumbers(e.ops[k]))

(* ---- P04: dimensional analysis of one call ---- *)
Multiplicative == {"multiply", "matmul", "vecdot"}
Dividing == {"divide", "true_divide", "floor_divide"}
Preserving == {"add", "subtract", "maximum", "minimum", "fmax", "fmin", "hypot", "remainder", "fmod",
               "negative", "positive", "absolute", "fabs", "conjugate"}
UnytRes(e) == e.exc = "" /\ Len(e.res) = 1 /\ IsUnyt(e.res[1]) /\ e.res[1].dimok
P04(e) ==
  IF e.ev = "ufunc" /\ e.method = "__call__" /\ UnytRes(e) /\ \A k \in 1..e.nin : DimKnown(e.ops[k])
  THEN LET r == e.res[1].dim IN
       CASE e.nin = 2 /\ e.fn \in Multiplicative -> r = VAdd(OpDim(e.ops[1]), OpDim(e.ops[2]))
         [] e.nin = 2 /\ e.fn \in Dividing -> r = VSub(OpDim(e.ops[1]), OpDim(e.ops[2]))
         [] e.nin = 2 /\ e.fn \in Preserving -> r \in {OpDim(e.ops[k]) : k \in {j \in 1..2 : IsUnyt(e.ops[j])}}
         [] e.nin = 2 /\ e.fn = "power" /\ e.ops[2].k = "num" /\ e.ops[2].valok ->
              VScaleOk(OpDim(e.ops[1]), e.ops[2].val[1], e.ops[2].val[2]) =>
                r = VScale(OpDim(e.ops[1]), e.ops[2].val[1], e.ops[2].val[2])
         [] e.nin = 1 /\ e.fn \in Preserving -> r = OpDim(e.ops[1])
         [] e.nin = 1 /\ e.fn = "sqrt" -> VScaleOk(OpDim(e.ops[1]), 1, 2) => r = VScale(OpDim(e.ops[1]), 1, 2)
         [] e.nin = 1 /\ e.fn = "cbrt" -> VScaleOk(OpDim(e.ops[1]), 1, 3) => r = VScale(OpDim(e.ops[1]), 1, 3)
         [] e.nin = 1 /\ e.fn = "square" -> r = VScale(OpDim(e.ops[1]), 2, 1)
         [] e.nin = 1 /\ e.fn = "reciprocal" -> r = VNeg(OpDim(e.ops[1]))
         [] OTHER -> TRUE
  ELSE IF e.ev = "unitop" /\ e.exc = "" /\ Len(e.res) = 1 /\ e.res[1].k \in {"U", "Q", "A"} /\ e.res[1].dimok
          /\ Len(e.ops) = 2 /\ e.ops[1].k = "U" /\ e.ops[1].dimok /\ DimKnown(e.ops[2])
  THEN LET r == e.res[1].dim a == OpDim(e.ops[1]) b == OpDim(e.ops[2]) IN
       CASE e.fn \in {"__mul__", "__rmul__"} -> r = VAdd(a, b)
         [] e.fn = "__truediv__" -> r = VSub(a, b)
         [] e.fn = "__rtruediv__" -> r = VSub(b, a)
         [] e.fn = "__pow__" /\ e.ops[2].k = "num" /\ e.ops[2].valok ->
              VScaleOk(a, e.ops[2].val[1], e.ops[2].val[2]) => r = VScale(a, e.ops[2].val[1], e.ops[2].val[2])
         [] OTHER -> TRUE
  ELSE TRUE

(* ---- P13 ---- *)
P13(e) == (e.ev = "registry" /\ e.regd /\ e.fn \in {"modify", "remove"}) => e.exc # ""

(* ---- P16 ---- *)
P16res(r) == IsUnyt(r) => ((Len(r.sh) = 0 => r.k = "Q") /\ (r.sz > 1 => r.k = "A"))
\* not applied when an operand already is a 0-d unyt_array (built on purpose with the array constructor;
\* class-preserving calls such as in_units then return what they were given)
ZeroDArray(o) == o.k = "A" /\ Len(o.sh) = 0
P16(e) == (e.exc = "" /\ ~\E k \in DOMAIN e.ops : ZeroDArray(e.ops[k])) => \A k \in DOMAIN e.res : P16res(e.res[k])

(* ---- P18 ---- *)
\* array functions that are in-place by documentation (first argument is the target)
InPlaceArrFn == {"numpy.copyto", "numpy.put", "numpy.place", "numpy.putmask", "numpy.fill_diagonal",
                 "numpy.put_along_axis"}
NonMutating(e) ==
  \/ e.ev = "ufunc" /\ e.nout = 0 /\ e.method # "at"
  \/ e.ev = "arrfn" /\ ~e.has_out /\ e.fn \notin InPlaceArrFn
  \/ e.ev = "method" /\ ~e.mutating
  \/ e.ev = "unitop"
P18(e) == /\ NonMutating(e) => \A k \in DOMAIN e.ops : Same(e.ops[k])
          \* a failed in-place call: numbers and unit of the target (operand 1 of a method, the out operands of a ufunc)
          \* (a warning escalated to an error by the test configuration is not a refusal of the library)
          /\ (e.ev = "method" /\ e.mutating /\ e.exc # "" /\ ~e.excwarn /\ Len(e.ops) >= 1) => SameNumbers(e.ops[1])
          /\ (e.ev = "ufunc" /\ e.nout > 0 /\ e.exc # "" /\ ~e.excwarn) => \A k \in DOMAIN e.ops : (e.ops[k].isout => SameNumbers(e.ops[k]))

Fail(p, e) == PrintT(ToJson([tag |-> "P-FAIL", pred |-> p, idx |-> i, ev |-> e.ev, fn |-> e.fn, method |-> e.method, exc |-> e.exc]))
Next ==
  /\ i <= Len(Events)
  /\ LET e == Events[i] IN
       /\ (On("P01") /\ ~P01(e)) => Fail("P01", e)
       /\ (On("P04") /\ ~P04(e)) => Fail("P04", e)
       /\ (On("P13") /\ ~P13(e)) => Fail("P13", e)
       /\ (On("P16") /\ ~P16(e)) => Fail("P16", e)
       /\ (On("P18") /\ ~P18(e)) => Fail("P18", e)
       \* how many events each predicate actually constrained (vacuity report)
       /\ (On("P01") /\ P01Applies(e)) => PrintT(ToJson([tag |-> "APPLIED", pred |-> "P01", idx |-> i]))
  /\ i' = i + 1
=============================================================================
