"""C19 - unit-checking helpers decide by physical equality, not by spelling.

Spec: spec/Helpers.tla (closeness/equality helpers), spec/HelpersHist.tla (histories of helper calls over reused
      operand objects + purity), spec/HelpersDeco.tla (accepts/returns); bounded instances MC_C19 / MC_C19_hist /
      MC_C19_deco; trace validation Trace_C19 / Trace_C19_hist / Trace_C19_deco.
  1. TLC enumerates (a) the single-step case table of the closeness/equality helpers (operand kinds x unit pairs x
     tolerance spellings x value grid straddling every reading of the tolerance), (b) all histories of 2/3 helper
     calls over pairs of reused operand objects (float64/float32 arrays, quantities, bare ndarrays, views; same
     object twice, both orders, re-expression by .to() at call time), (c) the decorator sweep (every dimension of
     unyt.dimensions x units) and all bounded histories of calls of once-decorated functions.
  2. every case/history is replayed on the real library (harness/impl_c19.py); for (b) every pool object is
     snapshotted after every call (numbers, unit label, dtype, base array behind a view).
  3. TLC evaluates the C19 predicates on the observed outcomes (P: verdict on the denoted quantities, purity of the
     helpers, re-expression groups, decorator clauses) and compares with the transcription (T).
The three pipelines run concurrently (ck.tlc is thread-safe; replays are serialised); verdicts are applied by the
main thread in a fixed order, so the output is deterministic.
"""

import concurrent.futures as cf
import json
import threading

from common import MachineryFailure

CASE_FIELDS = ("helper", "reg", "ka", "kd", "a", "au", "d", "du", "rt", "at", "sa", "sd", "en")
_PMAP = threading.Lock()


def pmap(ck, cases, nproc=None):
    with _PMAP:  # Check.pmap numbers its scratch files with a plain counter
        obs = ck.pmap("impl_c19", "observe", cases, nproc=nproc)
    bad = [o for o in obs if "_error" in o]
    if bad:
        raise MachineryFailure("replay error: " + str(bad[0]))
    return obs


def _strip(c):
    return {k: c[k] for k in CASE_FIELDS}


def _key(r):
    return {
        "fam": "close",
        "clause": r["clause"],
        "explains": r["explains"],
        "helper": r["helper"],
        "registry": r["reg"],
        "actual_kind": r["actual_kind"],
        "desired_kind": r["desired_kind"],
        "atol": r["atol"],
        "rtol": r["rtol"],
        "units": r["units"],
        "values": r["values"],
        "equal_nan": r["equal_nan"],
    }


def _new_out():
    return {"validated": 0, "drift": [], "viol": [], "classes": {}}


def _validate_close(ck, cases, obs, label, nchunks=1):
    """-> out dict; groups physically identical cases (projection only: the identity was computed by TLC), makes the
    groups contiguous and validates the chunks concurrently"""
    gid = {}
    recs = []
    # the boolean form's outcome on the same arguments (pairing by the FormKey TLC computed; projection only)
    boolean = {json.dumps(c["form"], sort_keys=True): o for c, o in zip(cases, obs) if c.get("form") and c["helper"] == "allclose_units"}
    none = {"k": "none", "exc": "", "v": []}
    for c, o in zip(cases, obs):
        ph = c.get("phys") or []
        g = 0
        if ph:
            g = gid.setdefault(json.dumps(ph, sort_keys=True), len(gid) + 1)
        twin = boolean.get(json.dumps(c["form"], sort_keys=True), none) if c.get("form") and c["helper"] == "assert_allclose_units" else none
        recs.append({"c": _strip(c), "obs": o, "g": g, "twin": twin})
    order = sorted(range(len(recs)), key=lambda k: (recs[k]["g"], k))
    recs = [recs[k] for k in order]
    cases = [cases[k] for k in order]
    size = max(1, -(-len(recs) // nchunks))
    offs = list(range(0, len(recs), size))

    def one(off):
        part = recs[off : off + size]
        path = ck.write_json(f"obs_{label}_{off}.json", part)
        res = ck.tlc("Trace_C19", env={"OBS": path}, workers=1, coverage=False, label=f"trace-validation {label} [{off}:{off + len(part)}]", timeout=2400)
        if res.distinct != len(part) + 1:
            raise MachineryFailure(f"trace validation consumed {res.distinct} states, expected {len(part) + 1}")
        return off, len(part), res

    with cf.ThreadPoolExecutor(max_workers=max(1, min(len(offs), 4))) as ex:
        results = list(ex.map(one, offs))
    out = _new_out()
    out["groups"] = len(gid)
    for off, n, res in results:
        out["validated"] += n
        for r in res.by_tag("T-FAIL"):
            out["drift"].append((r["helper"], {"kinds": [r["actual_kind"], r["desired_kind"]], "units": r["units"], "atol": r["atol"], "rtol": r["rtol"], "model": r["model"], "observed": r["observed"], "case": _strip(cases[off + r["i"] - 1])}))
        for r in res.by_tag("P-FAIL"):
            c = cases[off + r["i"] - 1]
            cls = f"{r['helper']}|{r['clause']}|{r['explains']}|atol={r['atol']}|rtol={r['rtol']}|{r['units']}"
            out["classes"][cls] = out["classes"].get(cls, 0) + 1
            out["viol"].append((_key(r), {"observed": r["observed"], "model": r["model"], "case": _strip(c)}, dict(_strip(c), fam="close")))
    return out


def _nontrivial_close(c):
    """the case exercises the property beyond 'same unit, zero tolerance': operands in different units or kinds,
    or a tolerance with a unit"""
    units = set(c["au"]) | set(c["du"])
    return len(units) > 1 or c["rt"]["k"] == "q" or c["at"]["k"] == "q" or c["ka"] != c["kd"]


def _pipe_close(ck):
    tier = ck.q("quick", "thorough")

    def gen(part):
        cfg = f"MC_C19_{tier}_{part}"
        res = ck.tlc("MC_C19", cfg, workers=1, coverage=False, label=f"closeness/equality case table {cfg}", timeout=3000)
        part_cases = [r["c"] for r in res.by_tag("CASE")]
        if len(part_cases) != res.distinct - 1 or len(part_cases) < 500:
            raise MachineryFailure(f"exported {len(part_cases)} cases for {res.distinct} states ({cfg})")
        return part_cases

    with cf.ThreadPoolExecutor(max_workers=3) as ex:
        parts = list(ex.map(gen, ("tol", "kind", "misc")))
    cases = [c for p in parts for c in p]
    cases.sort(key=lambda c: json.dumps(_strip(c), sort_keys=True))
    by, cex = {}, {}
    for c in cases:
        k = f"{c['reg']}:{c['helper']}"
        by[k] = by.get(k, 0) + 1
        if c["mp"]:
            k = f"{c['helper']}:{c['mp']}"
            cex[k] = cex.get(k, 0) + 1
        c["fam"] = "close"
    obs = pmap(ck, cases)
    out = _validate_close(ck, cases, obs, "close", nchunks=ck.q(4, 6))
    samples = []
    for h in ("allclose_units", "np.isclose", "assert_array_equal_units"):
        ex = [c for c in cases if c["helper"] == h]
        if ex:
            samples.append(_strip(ex[len(ex) // 2]))
    out.update(cases=len(cases), nontrivial=sum(1 for c in cases if _nontrivial_close(c)), samples=samples, cov={"close_cases_by_helper": by, "close_model_level_counterexamples": cex, "close_cases": len(cases), "close_reexpression_groups": out["groups"]})
    return out


def _pipe_hist(ck):
    import c19_hist

    cases = c19_hist.generate(ck)
    pc = [c19_hist._case(c) for c in cases]
    obs = pmap(ck, pc)
    out = c19_hist.validate(ck, cases, obs, "table")
    mid = cases[len(cases) // 2]
    cex = {}
    for c in cases:
        for st, m in zip(c["steps"], c["mp"]):
            if m:
                cex[f"{st['helper']}:{m}"] = cex.get(f"{st['helper']}:{m}", 0) + 1
    out.update(cases=len(cases), nontrivial=len(cases), samples=[{"pool": mid["pool"], "steps": mid["steps"]}],
               cov={"hist_histories": len(cases), "hist_calls": sum(len(c["steps"]) for c in cases), "hist_model_level_counterexamples": cex})
    return out


def _pipe_deco(ck):
    import c19_deco

    return c19_deco.pipeline(ck)


def _apply(ck, out, classes_name):
    ck.validated(out["validated"])
    for action, detail in out["drift"]:
        ck.drift_step(action, detail)
    for key, detail, case in out["viol"]:
        ck.violation(key, detail, case=case)
    ck.cov[classes_name] = out["classes"]
    for s in out.get("samples", []):
        ck.sample(s)
    ck.cov.update(out.get("cov", {}))


def run(ck):
    ck.level = "model_checking"
    ck.assumptions += [
        "closeness family: dyadic model registry (la=1, lb=ld=2^10, lc=2^-3 length; ta=1, tb=16 time; na=1, nq=1/4 dimensionless) where the float computation is exact (float64 and float32), plus m/km/cm/inch, s/ms, dimensionless/percent, K/degC kept off every tolerance boundary by a 25% relative margin",
        "a bare operand of allclose_units/assert_*/array_equal* is dimensionless ('arrays without units are considered dimensionless'); for np.isclose/np.allclose a bare or scale-1 dimensionless operand may adopt the other operand's unit or be refused, and a bare atol may be read in either operand's unit",
        "np.isclose/np.allclose are only called with bare rtol/atol and with at least one unyt operand (otherwise NumPy's own code runs)",
        "helper histories: pairs of operand objects from a 19-object catalogue, first call over the full alphabet of the pair, later calls over a 9-call probing alphabet; purity is judged on numbers, unit label, dtype and the base array of views after every call",
        "known findings are matched on (helper, clause, the tolerance misreading that reproduces the wrong verdict, tolerance spelling, unit relation)",
    ]
    if ck.replay:
        blob = json.load(open(ck.replay))
        case = blob["case"]
        obs = pmap(ck, [case], nproc=1)
        if case.get("fam") == "deco":
            import c19_deco

            _apply(ck, c19_deco.validate(ck, [case], obs, "replay"), "deco_p_fail_classes")
        elif case.get("fam") == "hist":
            import c19_hist

            _apply(ck, c19_hist.validate(ck, [case], obs, "replay"), "hist_p_fail_classes")
        else:
            case.setdefault("sa", [""] * len(case["a"]))
            case.setdefault("sd", [""] * len(case["d"]))
            case.setdefault("en", "")
            cases = [dict(case, phys=[], form=[])]
            if case["helper"] == "assert_allclose_units":  # its boolean twin, for the form-consistency clause
                cases.append(dict(case, helper="allclose_units", phys=[], form=[]))
                for c in cases:
                    c["form"] = ["twin"]
                obs = obs + pmap(ck, [cases[1]], nproc=1)
            _apply(ck, _validate_close(ck, cases, obs, "replay"), "close_p_fail_classes")
        return

    with cf.ThreadPoolExecutor(max_workers=3) as ex:
        futs = [ex.submit(_pipe_close, ck), ex.submit(_pipe_hist, ck), ex.submit(_pipe_deco, ck)]
        outs = [f.result() for f in futs]
    for out, name in zip(outs, ("close_p_fail_classes", "hist_p_fail_classes", "deco_p_fail_classes")):
        _apply(ck, out, name)
    ck.cov["tlc_runs"].sort(key=lambda r: r["label"])
    ck.cov["exhaustive"] = True
    ck.cov["evaluations"] = sum(o["cases"] for o in outs)
    ck.cov["distinct_nontrivial"] = sum(o["nontrivial"] for o in outs)
    ck.cov["rule"] = (
        "closeness/equality: operands in different units or kinds, or a tolerance carrying a unit; "
        "helper histories: every history (each reuses an operand object across calls); "
        "decorators: a history in which at least one checked argument or return value is present"
    )
