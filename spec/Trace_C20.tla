------------------------------ MODULE Trace_C20 ------------------------------
(* Trace validation for C20.  OBS is the list of observations recorded while  *)
(* the real library processed the TLC-generated cases (and the seeded fuzz    *)
(* strings).  For every observation the property predicates of Parser.tla are *)
(* evaluated on the observed outcome (P-FAIL records) and the outcome is      *)
(* compared with the transcription (T-FAIL records).                          *)
(*   k = "ast": a tree; per spelling the projection of the parsed unit; the   *)
(*              print-and-re-read observations of the units obtained from the *)
(*              spellings and from unit arithmetic on the same tree           *)
(*   k = "tok": a token sequence + joiner; outcome and foreign evaluations    *)
(*   k = "str": a fuzzed string (projected to primitive lexical classes)      *)
EXTENDS Parser
Obs == JsonDeserialize(IOEnv.OBS)
VARIABLE i
P(tag, rec) == PrintT(ToJson([tag |-> tag] @@ rec))

\* ---- trees
SpellReport(n, o) ==
  LET a == o.a IN
  /\ o.sem = Sem(a, "name")  \/ P("M-FAIL", [tid |-> n, what |-> "harness used another [[e]]"])
  /\ \A j \in DOMAIN o.sp :
       LET ob == o.sp[j]
           sa == Sem(a, IF Styles[o.st[j]].alt THEN "altatom" ELSE "atom") IN
       /\ C20_SpellingOk(a, ob, o.sp[1]) \/ P("P-FAIL", [tid |-> n, clause |-> "spelling", j |-> j, idx |-> 0, outcome |-> ob.o,
                 what |-> IF ob.o # "Ok" THEN "raises" ELSE IF ob.dim # DimOfAst(a) THEN "dimension" ELSE IF ~ob.sc THEN "scale" ELSE "offset"])
       /\ (ob.o = "Ok" /\ ob.vec = sa.vec /\ ob.coef = sa.coef) \/ ~C20_SpellingOk(a, ob, o.sp[1])
            \/ P("T-FAIL", [tid |-> n, op |-> "parse-spelling", j |-> j])
RtReport(n, o) ==
  \A x \in DOMAIN o.rt :
    LET e == o.rt[x] IN
    /\ C20_RoundTripEqual(e.u, e.r, Extreme(o.a)) \/ P("P-FAIL", [tid |-> n, clause |-> "reread-equal", j |-> 0, idx |-> x, outcome |-> e.r.o,
              what |-> IF e.r.o # "Ok" THEN "raises" ELSE IF e.r.dim # e.u.dim THEN "dimension" ELSE IF e.r.off # e.u.off THEN "offset" ELSE "scale"])
    /\ C20_RoundTripIdentical(e.u, e.r) \/ ~C20_RoundTripEqual(e.u, e.r, Extreme(o.a))
         \/ P("P-FAIL", [tid |-> n, clause |-> "reread-identical", j |-> 0, idx |-> x, outcome |-> e.r.o,
              what |-> IF ~e.r.same \/ e.r.vec # e.u.vec \/ e.r.coef # e.u.coef THEN "expression" ELSE "hash"])
    \* transcription: the printed text parses back to the very same expression, coefficient included
    \* (the unit with expression 1 prints as "dimensionless" and re-reads as that symbol)
    \* (a micro-prefixed symbol spelled with u / U+00B5 re-reads as the U+03BC symbol: known finding, not transcribed)
    /\ e.micro \/ (e.r.o = "Ok" /\ e.r.coef = e.u.coef /\ e.r.vec = (IF e.u.vec = <<>> /\ e.u.coef = ROne THEN << <<DimlessId, 1, 1>> >> ELSE e.u.vec))
         \/ ~C20_RoundTripEqual(e.u, e.r, Extreme(o.a)) \/ ~C20_RoundTripIdentical(e.u, e.r)
         \/ P("T-FAIL", [tid |-> n, op |-> "reread-" \o e.via, j |-> x])
    \* transcription: arithmetic on the tree gives the monomial [[e]] over the canonical atoms
    /\ (e.src # "arith-none" \/ (e.u.vec = Sem(o.a, "atom").vec /\ e.u.coef = Sem(o.a, "atom").coef))
         \/ P("T-FAIL", [tid |-> n, op |-> "arith", j |-> x])
AstReport(n, o) == SpellReport(n, o) /\ RtReport(n, o)

\* ---- token sequences and fuzzed strings
TotalReport(n, o, feat) ==
  /\ C20_Total(o.o) \/ P("P-FAIL", [tid |-> n, clause |-> "total", j |-> 0, idx |-> 0, outcome |-> o.o, what |-> feat])
  /\ C20_NothingForeign(o.ev) \/ P("P-FAIL", [tid |-> n, clause |-> "foreign", j |-> 0, idx |-> 0, outcome |-> o.o, what |-> o.ev])
TokReport(n, o) ==
  /\ TotalReport(n, o, TokFeatures(o.t))
  /\ (o.j # 1 \/ TokPredict(o.t) \in {"?", o.o}) \/ ~C20_Total(o.o) \/ P("T-FAIL", [tid |-> n, op |-> "tokens-" \o TokPredict(o.t), j |-> 0])
StrReport(n, o) == TotalReport(n, o, Features(o.cs))

\* ---- Python corner: same two predicates; transcription = PyPredict
PyReport(n, o) ==
  /\ TotalReport(n, o, <<>>)
  /\ PyPredict(o.h) \in {"?", o.o} \/ ~C20_Total(o.o) \/ ~C20_NothingForeign(o.ev) \/ P("T-FAIL", [tid |-> n, op |-> "python-corner", j |-> 0])
\* ---- parsing history: per call form, warm = cold; the constructor forms are total; transcription: a second
\* parse of the very same string by the same registry is served from the memo (the identical object)
HistReport(n, o) ==
  /\ \A f \in DOMAIN o.cold :
       /\ C20_HistoryFree(o.cold[f], o.warm[f]) \/ P("P-FAIL", [tid |-> n, clause |-> "history", j |-> f, idx |-> 0, outcome |-> o.warm[f].o,
              what |-> IF o.warm[f].o # o.cold[f].o THEN "outcome" ELSE IF o.warm[f].dim # o.cold[f].dim THEN "dimension" ELSE IF o.warm[f].off # o.cold[f].off THEN "offset" ELSE "scale"])
       /\ (f = 3 \/ (C20_Total(o.cold[f].o) /\ C20_Total(o.warm[f].o))) \/ P("P-FAIL", [tid |-> n, clause |-> "total", j |-> f, idx |-> 0, outcome |-> o.cold[f].o, what |-> <<>>])
  /\ (o.cold[1].o # "Ok" \/ o.memo) \/ P("T-FAIL", [tid |-> n, op |-> "string-memo", j |-> 0])
\* ---- persistence
PersistReport(n, o) ==
  /\ C20_Persist(o.rk, o.rt, o.w, o.r) \/ P("P-FAIL", [tid |-> n, clause |-> "persist", j |-> 0, idx |-> 0, outcome |-> o.r.o,
         what |-> IF o.r.o # "Ok" THEN "raises" ELSE IF o.r.dim # o.w.dim THEN "dimension" ELSE IF o.r.off # o.w.off THEN "offset" ELSE "scale"])
  /\ (LET pr == PersistPredict(o.rk, o.rt, o.f) IN IF pr = "raise" THEN o.r.o = "Raise" ELSE o.r.o = "Ok" /\ o.r.sc = pr)
       \/ ~C20_Persist(o.rk, o.rt, o.w, o.r) \/ P("T-FAIL", [tid |-> n, op |-> "persist-" \o o.rt, j |-> 0])
Report(n) == LET o == Obs[n] IN
  CASE o.k = "ast" -> AstReport(n, o) [] o.k = "tok" -> TokReport(n, o) [] o.k = "py" -> PyReport(n, o)
    [] o.k = "persist" -> PersistReport(n, o) [] o.k = "hist" -> HistReport(n, o) [] OTHER -> StrReport(n, o)
Init == i = 0
Next == i < Len(Obs) /\ i' = i + 1 /\ Report(i + 1)
=============================================================================
