----------------------------- MODULE Trace_C14 -----------------------------
(* Trace validation for C14: the observations of the real library (one per   *)
(* case: the string used as a unit string in the default registry, in a      *)
(* custom registry, as the unit of a quantity, and the attribute of          *)
(* unyt.unit_symbols / of the top-level namespace / of an add_symbols        *)
(* namespace of a custom registry) are consumed one by one.  For each, TLC   *)
(* evaluates the C14 predicates on the observation (P -> P-FAIL records) and *)
(* compares the observation with the transition (T -> T-FAIL records).       *)
EXTENDS Names
Obs == JsonDeserialize(IOEnv.OBS)
VARIABLE c       \* the case under validation: [pk, pi, b, k] (k = number of the observation)
StrRoutes == {"str", "reg", "qty"}
AttrRoutes == {"us", "top", "ns"}
\* (measured: TLC evaluates these predicates ~100x faster when the case is a state variable built by a record
\* constructor one step from the initial state than along a chain i' = i + 1; hence the flat shape)
NoCase == [pk |-> "init", pi |-> 0, b |-> 0, k |-> 0]
PFail(k, clause, route) == PrintT(ToJson([tag |-> "P-FAIL", k |-> k, clause |-> clause, route |-> route, w |-> Witness(c),
                                          doc |-> Documented(c)]))
TFail(k, route, m) == PrintT(ToJson([tag |-> "T-FAIL", k |-> k, route |-> route, model |-> m, observed |-> Obs[k].r[route]]))

CheckStr(k, route) ==
  LET o == Obs[k].r[route]
      m == Resolve(CaseStr(c)) IN
  o.present =>
    /\ (~C14_Accept(c, o) => PFail(k, "Accept", route))
    /\ (~C14_Denote(c, o) => PFail(k, "Denote", route))
    /\ (~C14_TableWins(c, o) => PFail(k, "TableWins", route))
    /\ (~C14_NonPrefixable(c, o) => PFail(k, "NonPrefixable", route))
    /\ (~C14_NoDoublePrefix(c, o) => PFail(k, "NoDoublePrefix", route))
    /\ ((route # "str" /\ ~C14_Agree(c, Obs[k].r["str"], o)) => PFail(k, "Agree", route))
    /\ (~TOk(m, o) => TFail(k, route, m))
CheckAttr(k, route) ==
  LET a == Obs[k].r[route]
      m == ResolveAttr(CaseStr(c)) IN
  a.present =>
    /\ (~C14_AttrDenote(c, a) => PFail(k, "AttrDenote", route))
    /\ (~C14_Agree(c, Obs[k].r["str"], a) => PFail(k, "Agree", route))
    /\ (~TOk(m, a) => TFail(k, route, m))

TraceInit == c = NoCase
TraceNext == c = NoCase /\ \E k \in 1..Len(Obs) : c' = [pk |-> Obs[k].pk, pi |-> Obs[k].pi, b |-> Obs[k].b, k |-> k]
Check == c # NoCase => /\ \A route \in StrRoutes : CheckStr(c.k, route)
                       /\ \A route \in AttrRoutes : CheckAttr(c.k, route)
=============================================================================
