---------------------------- MODULE MC_C15_use ----------------------------
(* Bounded instance of ConstantsUse: TLC enumerates the use histories.       *)
(*   Shallow: every configuration flagged "use" x the primary name of every  *)
(*            row (in the module also the first alias; WideAll: everywhere)  *)
(*            x guise x every call sequence of length 1..MaxLen x every      *)
(*            in-place call                                                  *)
(*   Deep   : the module x the first row of every distinct (dimension, route- *)
(*            table unit) signature x guise x every call sequence of length  *)
(*            MaxLen+1..DeepLen x the in-place calls DeepInPlace             *)
(* and checks on the model that the constant's buffer is never written.      *)
EXTENDS ConstantsUse
CONSTANTS MaxLen, DeepLen, WideAll, DeepAllInPlace
VARIABLE c
NoCase == [a |-> 0, g |-> "", cfg |-> 0, ops |-> <<>>, ip |-> ""]
UseCfgs == {k \in CfgIdx : Cfgs[k].use}
IsModule(k) == Cfgs[k].kind = "module"
UseNames(k) == {n \in NameIdx : Names[n].ai = 0 \/ (Names[n].ai = 1 /\ (IsModule(k) \/ WideAll))}
DeepRows == {ci \in RowIdx : \A cj \in RowIdx : cj < ci => <<Rows[cj].dim, Rows[cj].em>> # <<Rows[ci].dim, Rows[ci].em>>}
DeepInPlace == IF DeepAllInPlace THEN InPlace ELSE {"imul", "convert", "setitem"}
DeepNames == {n \in NameIdx : Names[n].ai = 0 /\ RowOf(n) \in DeepRows}
ModuleCfgs == {k \in UseCfgs : IsModule(k)}
\* (the generators range over the wanted names and configurations only: the unfiltered product does not fit the heap)
Shallow == UNION {{[a |-> n, g |-> g, cfg |-> k, ops |-> s, ip |-> p] : n \in UseNames(k), g \in Guises, s \in OpSeqs(1, MaxLen), p \in InPlace} : k \in UseCfgs}
Deep == {[a |-> n, g |-> g, cfg |-> k, ops |-> s, ip |-> p] : n \in DeepNames, g \in Guises, k \in ModuleCfgs, s \in OpSeqs(MaxLen + 1, DeepLen), p \in DeepInPlace}
WantedS(h) == WellFormed(RowOf(h.a), h.ops)
WantedD(h) == WellFormed(RowOf(h.a), h.ops)
Init == c = NoCase
Next == c = NoCase /\ \/ \E h \in Shallow : WantedS(h) /\ c' = h
                      \/ \E h \in Deep : WantedD(h) /\ c' = h
Export == c # NoCase => PrintT(ToJson([tag |-> "USE", a |-> c.a, g |-> c.g, cfg |-> c.cfg, ops |-> c.ops, ip |-> c.ip]))
\* model-level: under the documented discipline no history writes the constant's buffer
ModelKeeps == c # NoCase => (~ExpConstantWritten(c.ops) /\ \A i \in DOMAIN c.ops : ~ExpShares(c.ops, i))
=============================================================================
