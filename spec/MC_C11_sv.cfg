CONSTANTS
  MaxChain = 1
  PathSet <- SvPairwise
  Combos <- SvCombos
  ClsSet <- ArrayOnly
  OrderSet <- OrigFirst
  PreSet <- PlainPre
INIT Init
NEXT Next
INVARIANT Export
CHECK_DEADLOCK FALSE
