"""C09 - equivalence conversions are mutually inverse, pure, and match their formulas.

Spec: spec/Equiv.tla (+ MC_C09, Trace_C09).
  1. MC_C09_laws: TLC checks, on the transcribed branch tables (register programs over one
     buffer), the model-level laws Total / Formula / Inv / Path / Twin / Value (Lorentz on
     Pythagorean rationals) / Gate for every (equivalence, a, b, c, keyword setting).
  2. MC_C09_single / _hist / _sim: TLC generates histories of conversion calls on one object
     (initial object incl. dtype and shape x requests) with the model's outcome and the formula
     values of each step.
  3. every history is replayed in real unyt (impl_c09); observed floats are snapped to the
     specification's symbolic values (library's own constants) at the coarser of the input's and
     the result's precision.
  4. Trace_C09: TLC evaluates P (Pure, Gate, Total, Formula, Width, Unit, Twin, TwinUnit, Inv/Path) on the
     observed steps and compares them with the transition (T).
Independent TLC runs and trace-validation chunks run concurrently (threads around ck.tlc).
"""

import concurrent.futures as cf
import json
import random

import common
from common import MachineryFailure

_KEYF = ("clause", "eq", "from", "to", "form", "dt", "rdt", "vsig", "reg", "tf")


def _check_chunk(ck, part, label, off):
    path = ck.write_json(f"c09_obs_{label}_{off}.json", part)
    res = ck.tlc("Trace_C09", "Trace_C09", env={"C09_OBS": path}, workers=1, coverage=False, label=f"trace-validation {label}[{off}]", timeout=3000)
    expect = 1 + sum(len(t["ev"]) + 1 for t in part)
    if res.distinct != expect:
        raise MachineryFailure(f"trace validation consumed {res.distinct} states, expected {expect}")
    return res


def _submit_validation(ck, pool, cases, traces, label, chunk):
    bad = [t for t in traces if "_error" in t]
    if bad:
        raise MachineryFailure("replay error: " + str(bad[0])[:2000])
    out = []
    for off in range(0, len(traces), chunk):
        out.append((off, traces[off : off + chunk], pool.submit(_check_chunk, ck, traces[off : off + chunk], label, off)))
    return (label, cases, out)


def _collect(ck, job, stats):
    label, cases, chunks = job
    for off, part, fut in chunks:
        res = fut.result()
        ck.validated(len(part))
        pfail = {(r["tid"], r["l"]) for r in res.by_tag("P-FAIL")}
        for r in sorted(res.by_tag("T-FAIL"), key=lambda r: (r["tid"], r["l"])):
            if (r["tid"], r["l"]) in pfail:
                continue  # not P: a verdict already; drift is "P holds but the transition differs"
            c = cases[off + r["tid"] - 1]["init"]
            ck.drift_step(f"{r['eq']}:{r['from']}->{r['to']}:{r['en']}", {"model": r["model"], "observed": r["observed"], "dt": c["dt"], "sh": c["sh"]})
        for r in sorted(res.by_tag("P-FAIL"), key=lambda r: (r["tid"], r["l"], r["clause"])):
            key = {k: r[k] for k in _KEYF}
            c = cases[off + r["tid"] - 1]
            ck.violation(key, {"entry": r["en"], "step": r["l"], "k": r["k"], "uin": r["uin"], "uout": r["uout"], "sh": r["sh"], "detail": r["detail"]}, case=c)
        for t in part:
            for e in t["ev"]:
                stats["steps"] += 1
                stats["ok" if e["obs"]["k"] == "ok" else "raise"] += 1
                if e["obs"]["k"] == "ok":
                    stats["rdt"][e["obs"]["dt"]] = stats["rdt"].get(e["obs"]["dt"], 0) + 1


def _cases(res):
    return [{"init": r["init"], "h": r["h"]} for r in res.by_tag("HIST")]


def _nontrivial(c, units):
    """a covered request (different member dimensions of the equivalence) somewhere in the history"""
    out = set()
    d = c["init"]["d"]
    for st in c["h"]:
        if st["cand"]:
            out.add((st["eq"], d, units[st["tu"] - 1]["d"], st["en"], c["init"]["u"], st["tu"], st["k"], c["init"]["dt"], c["init"]["sh"], c["init"]["pi"], c["init"]["reg"], st["tf"]))
        if st["fo"] and st["exp"]["k"] == "ok":
            d = units[st["tu"] - 1]["d"]
    return out


def _cfg(ck, src, name, **kv):
    txt = open(ck.spec + f"/{src}.cfg").read()
    out = []
    for line in txt.splitlines():
        s = line.strip()
        for k, v in kv.items():
            if s.startswith(k + " ="):
                line = f"  {k} = {v}"
        out.append(line)
    open(ck.spec + f"/{name}.cfg", "w").write("\n".join(out) + "\n")
    return name


def run(ck):
    ck.level = "model_checking"
    ck.assumptions += [
        "values are symbolic r * prod(const^(e/4)): r from a grid of exact fourth powers x decades 10^-8..10^8 (Lorentz: Pythagorean rationals), so every root is exact; floats never enter TLC",
        "observed floats are matched to the specification's symbolic values with the library's own constants (unyt.physical_constants, long names) at 40 digits; rtol = the coarsest float type an object of the history had: 1e-12 (float64/complex128, integers), 1e-5 (float32/complex64), 2e-2 (float16)",
        "a number claim is made only where the formula value, in the result's unit, lies in the normal range (margin 4) of the result's float type",
        "66 unit spellings (SI, prefixed, CGS, compound, other, registry-valued, code units, and the offset temperature scales degC/degF) of 13 dimensions; a reading y on an offset scale means (y + off) * scale with the exact offsets of Equiv!Offsets (273.15, 459.67); number claims about a result on an offset scale are made where |absolute value / scale| >= |off| / 1024 (8-byte floats) or |off| / 4 (narrower floats, matched at 4x the type's precision), objects written in degC/degF are float64 and hold numbers >= 1 K; a covered request on an INPUT in degC/degF is not required to return (the library refuses arithmetic on such readings), but what it returns must be the formula's value; 13 dtypes (int8..int64, uint8..uint64, float16/32/64, complex64/128; all but float64 only in coherent SI units with values the dtype holds exactly or to its precision; complex data has zero imaginary part); shapes quantity / array / contiguous view / strided view (views of float and complex buffers only)",
        "registry dimension: the default registry, or one custom registry (Msun=2e30 kg, AU=1.5e11 m, eV=1.6e-19 J, me=9e-31 kg, pc=3e16 m; code_length, code_mass, code_time, code_temperature) for float64 quantities/arrays; the value of a spelling is the base_value the library gives it in the registry the history's object was created in; a Unit object of the default registry is passed only for spellings that mean the same in both registries",
        "keyword settings: defaults (mu=0.6, gamma=5/3 as documented), mu=3/4, gamma=4/3, mu=gamma=7/5; keywords are only passed to equivalences that take them",
        "special values: exact zero and +infinity are values of the specification (a monomial K x^p maps them to themselves for p > 0, to each other for p < 0); objects hold an exact zero only as float64/int64/uint64 (quantity: 0; array: 0 next to 16e8), +inf only as the result of an earlier step; an observed +inf is matched to the specification's Inf only when that value is among the step's candidates; negative numbers and nan are not in the grid",
        "the unit of a result is projected to its text (str) and to the registry it belongs to (the one the history's object was created in / the default one / another); TwinUnit compares these between the in-place form and an earlier copying form of the same request on the same object",
        "known findings are matched on (clause, equivalence, from, to, form, dtype, result dtype, numbers of the input)",
    ]
    stats = {"steps": 0, "ok": 0, "raise": 0, "rdt": {}}
    if ck.replay:
        blob = json.load(open(ck.replay))
        res = ck.tlc("MC_C09", "MC_C09_laws", workers=1, label="laws (for the tables)", timeout=1800)
        tables = res.by_tag("TABLES")[0]
        cases = [blob["case"]]
        traces = ck.pmap("impl_c09", "observe", cases, nproc=1, common={"tables": tables})
        with cf.ThreadPoolExecutor(1) as pool:
            _collect(ck, _submit_validation(ck, pool, cases, traces, "replay", 1000), stats)
        return

    nthreads = max(2, min(8, common.NCPU // 2 + 1))
    rnd = random.Random(ck.seed)
    nu = ck.q(3, 6)
    diag = ck.q(10, 3)  # float64/int64 part (round 7: 8 -> 10 pays for the zero pair and the twin prefixes)
    # the other dtypes: with 3 target spellings per dimension a diagonal of 3 keeps every (equivalence, from, to, dtype,
    # shape, entry point) combination, each with one of the target spellings
    diag2 = ck.q(3, 2)
    diag3 = ck.q(10, 2)  # (round 7: 8 -> 10) objects of the custom registry x {string, Unit of the input's registry, Unit of the default registry}
    ml = ck.q(2, 3)
    depth = ck.q(4, 6)
    cfg_hist = _cfg(ck, "MC_C09_hist", "MC_C09_hist_run", MaxLen=ml, ExportLen=ml, Diag=ck.q(3, 2))
    cfg_sim = _cfg(ck, "MC_C09_sim", "MC_C09_sim_run", MaxLen=depth, ExportLen=depth)
    chunk = ck.q(2500, 12000)
    with cf.ThreadPoolExecutor(nthreads) as pool:
        # 1. model-level laws of the transcribed branch tables; 2. the three case generators - all four concurrently
        f_laws = pool.submit(ck.tlc, "MC_C09", "MC_C09_laws", workers=1, label="laws: Total/Formula/Inv/Path/Twin/Value/Gate on the branch tables", timeout=1800)
        f_single = [pool.submit(ck.tlc, "MC_C09", _cfg(ck, "MC_C09_single", f"MC_C09_single_run{part}", NUin=nu, NUout=nu, Diag={1: diag, 2: diag2, 3: diag3}[part], Part=part),
                                workers=1, required_actions=["Next"], timeout=3000,
                                label=f"single step ({what}): all entry points, units rank<={nu} (diagonal {({1: diag, 2: diag2, 3: diag3}[part])}), all values/shapes")
                    for part, what in ((1, "float64/int64"), (2, "the 11 other dtypes"), (3, "custom registry x target forms"))]
        f_hist = pool.submit(ck.tlc, "MC_C09", cfg_hist, workers=1, required_actions=["Next"], timeout=6000,
                             label=f"histories of {ml} calls inside one equivalence (copy/in-place/views/repeats/narrow dtypes)")
        f_sim = pool.submit(ck.tlc, "MC_C09", cfg_sim, workers=1, simulate=ck.q(8, 80), depth=depth + 1, timeout=3000,
                            label=f"simulation depth={depth}: mixed chains across equivalences")
        res = f_laws.result()
        tables = res.by_tag("TABLES")[0]
        units = tables["units"]
        laws = res.by_tag("LAW")
        if {r["eq"] for r in laws} != set(tables["eqs"]):
            raise MachineryFailure("laws instance did not cover every equivalence")
        if any(r["nvals"] == 0 for r in laws):
            raise MachineryFailure("a covered request has no exactly representable value in the grid")
        ck.cov["law_instances"] = len(laws)
        ck.cov["law_value_checks"] = sum(r["nvals"] for r in laws)
        cm = {"tables": tables}
        nontrivial = set()
        ck.cov["bound"] = {}
        jobs = []

        def replay(res, label, sample=None):
            cases = _cases(res)
            if sample is not None:
                cases = sample(cases)
            if len(cases) < 10:
                raise MachineryFailure(f"too few histories exported ({label})")
            mid = cases[len(cases) // 2]
            ck.sample({"instance": label, "init": {k: mid["init"][k] for k in ("d", "u", "pi", "dt", "sh", "reg")},
                       "requests": [{k: st[k] for k in ("en", "eq", "k", "tu", "fo", "tf")} for st in mid["h"]]})
            for c in cases:
                nontrivial.update(_nontrivial(c, units))
            traces = ck.pmap("impl_c09", "observe", cases, common=cm, chunk_timeout=3000)
            jobs.append(_submit_validation(ck, pool, cases, traces, label, chunk))
            return cases

        def thin(cases):
            cap = ck.q(10**9, 40000)
            return cases if len(cases) <= cap else rnd.sample(cases, cap)

        def fam(cases):
            # the simulator evaluates the exporting invariant on every successor of the last state: keep a seeded sample per family
            f = {}
            for c in cases:
                f.setdefault(json.dumps([c["init"], [[st[k] for k in ("en", "eq", "k", "tu", "fo", "tf")] for st in c["h"][:-1]]], sort_keys=True), []).append(c)
            return [c for k in sorted(f) for c in rnd.sample(f[k], min(ck.q(12, 20), len(f[k])))]

        r_hist = f_hist.result()
        cs = replay(r_hist, "hist", thin)
        ck.cov["bound"]["hist"] = {"MaxLen": ml, "histories_exported": len(r_hist.by_tag("HIST")), "histories_replayed": len(cs)}
        cs = replay(f_sim.result(), "sim", fam)
        ck.cov["bound"]["sim"] = {"depth": depth, "histories": len(cs)}
        cs = replay(f_single[2].result(), "single-registry")
        n3 = len(cs)
        cs = replay(f_single[1].result(), "single-narrow")
        ck.cov["dtypes_single"] = sorted({c["init"]["dt"] for c in cs} | {"f8", "i8"})
        n2 = len(cs)
        cs = replay(f_single[0].result(), "single-wide")
        ck.cov["bound"]["single"] = {"NUin": nu, "NUout": nu, "Diag": [diag, diag2, diag3], "histories": len(cs) + n2 + n3, "float64/int64": len(cs), "other dtypes": n2, "custom registry": n3}
        # verdicts in a fixed order, whatever the completion order of the validation runs
        for job in sorted(jobs, key=lambda j: j[0]):
            _collect(ck, job, stats)
    ck.cov["exhaustive"] = True
    ck.cov["steps_replayed"] = stats["steps"]
    ck.cov["steps_returned"] = stats["ok"]
    ck.cov["steps_raised"] = stats["raise"]
    ck.cov["result_dtypes"] = dict(sorted(stats["rdt"].items()))
    ck.cov["evaluations"] = ck.cov["traces_validated_against_impl"]
    ck.cov["distinct_nontrivial"] = len(nontrivial)
    ck.cov["rule"] = "histories of conversion calls exported by TLC (single step exhaustive over the alphabet, two/three steps inside one equivalence, simulated mixed chains) replayed on real quantities; non-trivial = a distinct (equivalence, from, to, entry point, input unit, target unit, keyword setting, dtype, shape, value pair) whose request is covered (two different member dimensions), so that a formula value is computed and compared"
