"""C06 - NumPy functions compute the same numbers on quantities as on bare arrays.

Spec: spec/ArrayFnNum.tla (structural semantics + predicates), spec/ArrayFnNumCat.tla (catalogue of call templates +
predicates), instances MC_C06 (structural case table) and MC_C06_cat (catalogue case table), Trace_C06.
  1. the catalogue (handled / unsupported / default-path dispatching functions, ndarray methods) is extracted from
     the tree under test by the impl module;
  2. TLC (MC_C06) enumerates the structural cases and computes the expected numbers, shapes and dtype kinds itself;
     TLC (MC_C06_cat) enumerates function x template x shape x dtype x seed over the extracted catalogue and reports
     catalogue entries without a template (evidence "uncovered");
  3. every case is replayed in the real library on unyt inputs AND on the stripped bare data in the same worker
     (harness/impl_c06.py); results are projected to exact rationals (structural) / booleans (catalogue);
  4. TLC (Trace_C06) evaluates the C06 predicates on every observation (P), compares with the handler-level
     transition (T: outcome of the routine forwarded to, forwarding protocol) and checks the specification's model of
     NumPy against NumPy itself (ORACLE; a disagreement is a machinery failure, never a verdict).
Oracle note: for the catalogue layer NumPy on the stripped data is the oracle (differential observation); only the
structural layer's numbers are computed by TLC."""

import json
import os
import random
import subprocess
import sys

from common import VERIF, MachineryFailure

CHUNK = 4000
# which of the proposed repairs (fixes/C06-*.patch) the tree under test carries: selects the matching transcription
# (Own / OwnImpl in ArrayFnNum*.tla).  Empty = /repo HEAD.  Override: C06_TREE_FIXES=hstack
TREE_FIXES = {"hstack"}  # /repo HEAD carries the repair (fix: commit 417729e)


def _key(r, c):
    k = {"layer": "struct" if r["layer"] == "S" else "catalogue", "fn": r["fn"], "clause": r["cl"], "template": r["t"]}
    if c["layer"] == "S" and c["fn"] in ("isclose", "allclose"):
        k["carriers"] = "".join(c["s"])  # who carries units: q quantity, b bare ndarray, l list/number, d dimensionless
    if c["layer"] == "C":
        k["keyword"] = c.get("kw", "")
        k["out_layout"] = c.get("lo", "C")
        k["in_layout"] = c.get("li", "C")
        k["rank_lift"] = c.get("rk", 0)
        k["alias"] = c.get("al", "N")
        k["data"] = c.get("dc", "plain")
        k["carriers"] = c.get("uc", "N")
    return k


def _short(c):
    if c["layer"] == "S":
        return "np.%s[%s] shapes=%s ia=%s p=%s s=%s dtype=%s" % (c["fn"], c["t"], [a["sh"] for a in c["a"]], [x if isinstance(x, list) else x["sh"] for x in c["ia"]], c["p"], c["s"], c["dt"])
    x = "%s[%s/%s] shape=%s dtype=%s seed=%s" % (c["fn"], c["cls"], c["t"], c["sh"], c["dt"], c["sd"])
    if c.get("kw"):
        x += " +%s=%s data=%s" % (c["kw"], c["kv"], c["dc"])
    if c.get("rk"):
        x += " rank+1"
    if c.get("al", "N") != "N" or (c.get("dc", "plain") != "plain" and not c.get("kw")):
        x += " alias=%s data=%s" % (c.get("al"), c.get("dc"))
    if c.get("uc", "N") != "N" or c.get("dc") == "band":
        x += " carriers=%s data=%s" % (c.get("uc"), c.get("dc"))
    if c.get("li", "C") != "C" or c.get("lo", "C") != "C":
        x += " layouts in=%s out=%s" % (c.get("li"), c.get("lo"))
    return x


def _validate(ck, obs, label, fixes):
    fx = ck.write_json("fixes.json", sorted(fixes))
    nfail = 0
    import concurrent.futures as cf

    from common import NCPU

    offs = list(range(0, len(obs), CHUNK))

    def one(off):
        part = obs[off : off + CHUNK]
        path = ck.write_json(f"obs_{label}_{off}.json", part)
        return ck.tlc("Trace_C06", env={"OBS": path, "FIXES": fx}, workers=1, coverage=False, label=f"trace validation {label} [{off}:{off + len(part)}]", timeout=3000)

    with cf.ThreadPoolExecutor(max_workers=max(1, min(NCPU, 8))) as ex:
        results = list(ex.map(one, offs))  # chunk order is kept: verdict order is deterministic
    for off, res in zip(offs, results):
        part = obs[off : off + CHUNK]
        if res.distinct != len(part) + 1:
            raise MachineryFailure(f"trace validation consumed {res.distinct} states, expected {len(part) + 1}")
        orc = res.by_tag("ORACLE")
        if orc:
            e = part[orc[0]["i"] - 1]
            raise MachineryFailure("the specification's model of NumPy disagrees with NumPy on bare data (%d cases), first: %s -> %s" % (len(orc), _short(e["c"]), json.dumps(e["b"])[:600]))
        ck.validated(len(part))
        for r in res.by_tag("T-FAIL"):
            e = part[r["i"] - 1]
            d = {"case": _short(e["c"])}
            if e["c"]["layer"] == "S":
                d.update(model=[x["sh"] for x in e["c"]["m"]], observed="raises " + e["u"]["exc"] if e["u"]["raise"] else [x["sh"] for x in e["u"]["res"]], forwarded=e["u"]["fwd"])
            else:
                d.update(raised=e["o"]["ur"], exc=e["o"]["uexc"], forwarded=e["o"]["fwd"])
            ck.drift_step(r["fn"], d)
        for r in res.by_tag("P-FAIL"):
            e = part[r["i"] - 1]
            c = e["c"]
            if c["layer"] == "S":
                detail = {"case": _short(c), "expected": c["exp"] or c["texp"], "observed": e["u"]["res"] or e["u"]["tg"], "numpy_on_bare": e["b"]["res"] or e["b"]["tg"]}
                case = {k: c[k] for k in ("layer", "fn", "t", "a", "ia", "p", "s", "dt", "exp", "texp", "kinds", "m", "fwd", "sw") if k in c}
            else:
                detail = {"case": _short(c), "observed": e["o"].get("show"), "forwarded": e["o"]["fwd"]}
                case = c
            ck.violation(_key(r, c), detail, case=case)
            nfail += 1
    return nfail


def _catalogue(ck):
    out = ck.path("catalogue.json")
    r = subprocess.run([sys.executable, os.path.join(VERIF, "harness", "impl_c06.py"), out], env=ck.env(), capture_output=True, text=True)
    if r.returncode != 0:
        raise MachineryFailure("catalogue extraction failed: " + r.stderr[-1500:])
    cat = json.load(open(out))
    cat["extra"] = ["nd.getitem", "nd.setitem"]  # operators __getitem__ / __setitem__
    return cat


def run(ck):
    ck.level = "model_checking"
    fixes = sorted(set(filter(None, os.environ.get("C06_TREE_FIXES", "").split(","))) or TREE_FIXES)
    ck.assumptions += [
        "structural layer: TLC computes shapes, dtype kinds and exact rational values (arrays of rank <= 2, stacks to rank 3, values from an 11-point dyadic grid); float results are compared bit-for-bit as exact rationals, except quotients by non powers of two (mean, 2 ulp snap) and linalg.det (NumPy computes sign*exp(logdet): 2^-46 relative)",
        "catalogue layer: NumPy on the stripped bare data, computed in the same worker from the same random stream, is the oracle (differential observation, oracle: numpy); TLC judges the projected booleans; values must be equal element-wise (NaN = NaN), bit-equality is recorded",
        "a refusal (exception) on unyt inputs satisfies the statement; nothing is demanded where NumPy itself raises on the stripped data",
        "operands of merging positions carry the same unit (no conversion inside handlers, so the dtype kind must be preserved); out= buffers on ufunc-backed paths are float (integer out= buffers are retyped by __array_ufunc__: C17)",
        "known findings are matched on (layer, function, failing clause)",
    ]
    if fixes:
        ck.assumptions.append("transcription switches for repaired trees: " + ",".join(fixes))
    if ck.replay:
        blob = json.load(open(ck.replay))
        if blob["case"].get("layer") == "C":
            blob["case"].setdefault("uc", "N")  # replay files written before the unit-carrier dimension existed
        obs = ck.pmap("impl_c06", "observe", [blob["case"]], nproc=1)
        if "_error" in obs[0]:
            raise MachineryFailure("replay error: " + str(obs[0]))
        _validate(ck, obs, "replay", fixes)
        return

    # ---- 1. structural case table ----
    cfg = ck.q("MC_C06_quick", "MC_C06_thorough")
    if fixes:
        text = open(ck.spec + f"/{cfg}.cfg").read().replace("Fixes = {}", "Fixes = {" + ", ".join('"%s"' % f for f in fixes) + "}")
        text = text.replace("INVARIANT HandlerRefines\n", "")
        cfg += "_fixes"
        open(ck.spec + f"/{cfg}.cfg", "w").write(text)
    res = ck.tlc("MC_C06", cfg, workers=1, coverage=False, label=f"structural case table {cfg} (export + model-level invariants)", timeout=3000)
    scases = [r for r in res.records if r.get("layer") == "S"]
    if len(scases) != res.distinct - 1:
        raise MachineryFailure(f"exported {len(scases)} structural cases but TLC found {res.distinct - 1}")
    if len(scases) < 500:
        raise MachineryFailure("too few structural cases")
    scases.sort(key=lambda c: json.dumps(c, sort_keys=True))
    sfn = sorted({c["fn"] for c in scases})
    # closeness tests: the instance must contain, for every function and every unit-carrier pattern, cases whose answer
    # changes when the operands reach NumPy in the other order (TLC computes that itself: field sw)
    sens = {}
    for c in scases:
        if c["fn"] in ("isclose", "allclose"):
            k = c["fn"] + ":" + "".join(c["s"])
            sens.setdefault(k, [0, 0])
            sens[k][0] += 1
            sens[k][1] += bool(c["sw"])
    if not sens or any(v[1] == 0 for v in sens.values()):
        raise MachineryFailure("closeness family: a (function, carrier pattern) without a swap-sensitive case: " + str(sens))
    ck.cov["closeness_cases"] = {k: {"cases": v[0], "swap_sensitive": v[1]} for k, v in sorted(sens.items())}
    ck.cov["model_level_failing_functions"] = sorted({c["fn"] for c in scases if c["mfail"]})

    # ---- 2. catalogue case table ----
    cat = _catalogue(ck)
    catp = ck.write_json("cat.json", {k: v for k, v in cat.items() if isinstance(v, (list, dict))})
    ccfg = ck.q("MC_C06_cat_quick", "MC_C06_cat_thorough")
    res2 = ck.tlc("MC_C06_cat", ccfg, env={"CAT": catp}, workers=1, coverage=False, label=f"catalogue case table {ccfg}", timeout=3000)
    ccases = [r for r in res2.records if r.get("layer") == "C"]
    unc = sorted(r["fn"] for r in res2.records if r.get("layer") == "U")
    unckw = sorted({"%s(%s=)" % (r["fn"], r["kw"]) for r in res2.records if r.get("layer") == "K"})
    absent = sorted(r["fn"] for r in res2.records if r.get("layer") == "X")
    if len(res2.records) != res2.distinct - 1:
        raise MachineryFailure(f"exported {len(res2.records)} catalogue records but TLC found {res2.distinct - 1}")
    ccases.sort(key=lambda c: json.dumps(c, sort_keys=True))
    ck.cov["exhaustive"] = True
    ck.cov["catalogue"] = {k: len(v) for k, v in cat.items() if isinstance(v, list)}
    ck.cov["numpy_version"] = cat.get("numpy_version")
    ck.cov["bound"] = {"structural_cfg": cfg, "structural_cases": len(scases), "structural_functions": len(sfn), "catalogue_cfg": ccfg, "catalogue_cases": len(ccases),
                       "catalogue_functions_with_templates": len({c["fn"] for c in ccases}), "function_templates": len({(c["fn"], c["t"], c["cls"]) for c in ccases})}
    rnd = random.Random(ck.seed)
    ck.sample(_short(scases[rnd.randrange(len(scases))]))
    ck.sample(_short(ccases[rnd.randrange(len(ccases))]))
    ck.sample(_short(ccases[rnd.randrange(len(ccases))]))

    # ---- 3. replay ----
    obs = ck.pmap("impl_c06", "observe", scases + ccases, chunk_timeout=ck.q(3000, 14400))  # only a guard against hangs; a shared machine can be 30x slower
    bad = [o for o in obs if "_error" in o]
    if bad:
        raise MachineryFailure("replay error: " + str(bad[0])[:1500])
    nokw = sorted({"%s(%s=%s)" % (o["c"]["fn"], o["c"]["kw"], o["c"]["kv"]) for o in obs if o["c"]["layer"] == "C" and o["o"].get("nokw")})
    keep = [j for j, o in enumerate(obs) if not (o["c"]["layer"] == "C" and o["o"].get("nokw"))]
    obs = [obs[j] for j in keep]
    missing = [o["c"] for o in obs if o["c"]["layer"] == "C" and o["o"].get("missing")]
    if missing:
        raise MachineryFailure("the specification names templates the impl module cannot instantiate: " + str(sorted({(c["cls"], c["t"]) for c in missing})[:10]))
    sobs = [o for o in obs if o["c"]["layer"] == "S"]
    cobs = [o for o in obs if o["c"]["layer"] == "C"]

    # ---- 4. trace validation ----
    _validate(ck, sobs, "struct", fixes)
    _validate(ck, cobs, "cat", fixes)

    # ---- evidence ----
    both_ok = [o for o in cobs if not o["o"]["ur"] and not o["o"]["br"]]
    nontriv_fns = sorted({o["c"]["fn"] for o in both_ok if o["o"]["size"] > 0})
    all_fns = sorted({c["fn"] for c in ccases})
    only_raise = sorted(set(all_fns) - {o["c"]["fn"] for o in both_ok})
    ck.cov["evaluations"] = len(obs)
    ck.cov["distinct_nontrivial"] = sum(1 for o in sobs if not o["u"]["raise"]) + sum(1 for o in both_ok if o["o"]["size"] > 0)
    ck.cov["rule"] = "structural cases where the call on unyt inputs returned (numbers compared with TLC's); catalogue cases where both the call on unyt inputs and NumPy on the bare data returned at least one number (compared differentially)"
    ck.cov["catalogue_outcomes"] = {
        "both_return": len(both_ok),
        "unyt_refuses_numpy_returns": sum(1 for o in cobs if o["o"]["ur"] and not o["o"]["br"]),
        "both_raise": sum(1 for o in cobs if o["o"]["ur"] and o["o"]["br"]),
        "numpy_raises_only": sum(1 for o in cobs if o["o"]["br"] and not o["o"]["ur"]),
        "bit_identical": sum(1 for o in both_ok if o["o"]["bits"]),
        "with_out_or_inplace_target": sum(1 for o in both_ok if o["o"]["nt"] > 0),
    }
    ck.cov["equal_but_not_bit_identical"] = sorted({"%s[%s]" % (o["c"]["fn"], o["c"]["t"]) for o in both_ok if not o["o"]["bits"] and o["o"]["val"] and o["o"]["shp"] and o["o"]["n"]})[:60]
    kwobs = [o for o in cobs if o["c"].get("kw")]
    kw_pairs = {(o["c"]["fn"], o["c"]["kw"]) for o in kwobs}
    kw_live = {(o["c"]["fn"], o["c"]["kw"]) for o in kwobs if not o["o"]["ur"] and not o["o"]["br"] and (o["o"]["size"] > 0 or o["o"]["nt"] > 0)}
    ck.cov["keyword_completeness"] = {"cases": len(kwobs), "function_keyword_pairs": len(kw_pairs), "pairs_compared_with_numbers": len(kw_live),
                                      "pairs_never_returning": sorted("%s(%s=)" % p for p in kw_pairs - kw_live)[:80]}
    car = [o for o in cobs if o["c"].get("uc", "N") != "N"]
    ck.cov["unit_carriers"] = {"cases": len(car), "both_return": sum(1 for o in car if not o["o"]["ur"] and not o["o"]["br"]),
                               "refused_on_unyt_inputs": sum(1 for o in car if o["o"]["ur"] and not o["o"]["br"]),
                               "functions_compared_with_numbers": len({o["c"]["fn"] for o in car if not o["o"]["ur"] and not o["o"]["br"] and o["o"]["size"] > 0}),
                               "band_cases": sum(1 for o in cobs if o["c"].get("dc") == "band")}
    lay = [o for o in both_ok if o["c"].get("lo", "C") != "C"]
    ck.cov["layouts"] = {"input_layout_cases": sum(1 for o in cobs if o["c"].get("li", "C") != "C"), "out_layout_cases": sum(1 for o in cobs if o["c"].get("lo", "C") != "C"),
                         "out_layout_cases_both_return": len(lay), "numpy_refuses_target": sum(1 for o in cobs if o["c"].get("tg") and o["o"]["br"])}
    ck.cov["functions_compared_with_numbers"] = len(nontriv_fns)
    ck.cov["functions_never_returning_on_unyt_inputs"] = only_raise
    ck.cov["function_classes"] = {
        "structural_exact_by_TLC": ["np." + f for f in sfn],
        "differential_oracle_numpy": len(all_fns),
    }
    kinds = {}
    for c in ccases:
        kinds.setdefault(c["kind"], set()).add(c["fn"])
    ck.cov["functions_by_dispatch_kind"] = {k: len(v) for k, v in sorted(kinds.items())}
    ck.cov["uncovered"] = (
        [f"{f}: catalogue entry without a call template in ArrayFnNumCat.tla" for f in unc]
        + [f"{f}: template class in the specification but absent from this NumPy" for f in absent]
        + [f"{f}: keyword of NumPy's signature without a value class in ArrayFnNumCat.tla (KwVal)" for f in unckw]
        + [f"{f}: value class not instantiable for this function" for f in nokw]
        + [f"{f}: every template is refused on unyt inputs (numbers never compared)" for f in only_raise]
        + [
            "numerics of non-structural functions (linalg beyond exact 2x2, fft, percentiles, statistics): NumPy on the stripped data is the oracle, not the specification",
            "nanmax/nanmin with initial=/where=: NumPy itself takes a different algorithm for ndarray subclasses (all-masked slices give NaN); not templated",
            "integer out= buffers on ufunc-backed reductions (retyped to float by __array_ufunc__: C17/C18 territory)",
            "mixed-unit operands of merging functions (conversion is C04/C19 territory), object/datetime/structured dtypes, rank > 3, masked arrays, order=/subok=/like= keywords",
            "structural semantics not written for: einsum, percentile/quantile, linspace, partition, put_along_axis, take_along_axis, gradient, cov/corrcoef (catalogue layer only)",
        ]
    )
