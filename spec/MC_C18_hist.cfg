CONSTANTS
  MaxLen = 3
  ExportLen = 3
  DtAs = {"f8", "i8"}
  DtBs = {"f8"}
  UAs = {"la", "oc"}
  UBs = {"lb", "K"}
  UQs = {"la", "na"}
  DtCs = {"f8"}
  OpSet = {}
  OpSet2 = {}
  FocusR = FALSE
  Fan = 8
  ValSet = {"p2"}
  Seed = 0
INIT Init
NEXT NextRnd
INVARIANT Export
CHECK_DEADLOCK FALSE
