"""Replay side of C15 (runs inside workers; imports unyt from the tree under test).

tables(_)      -> the physical_constants table of the working tree for Constants.tla: rows (primary name, unit string,
                  dimension vector of the unit string, its atoms with exponents, alias list), the flat list of exported
                  names, which names are also unit names (lut / unit_symbols / parseable), which name+suffix attributes
                  the module and the top-level namespace carry, the unit systems (has a current unit?), em_conversions keys.
observe(case)  -> one TLC case:
   kind "guise": name x guise (plain/_mks/_cgs/top) x configuration x comparison route (raw, to, base, cgsmks, eq, ratio)
   kind "rel"  : one defining relation evaluated with real unyt arithmetic on the constants of a configuration/guise
   kind "unit" : constant vs unit of the same name in a configuration
   kind "lit"  : default constant vs the literature value of data/C15_reference.json
  Floats never leave this module: deviations are snapped to the rungs of the reference ladder (flag k = smallest k with
  |x/ref-1| <= ladder[k], 10 = beyond), ratios to integers (log2, or [p10, pc] = 10^p10 * c^pc), dimensions to 12x vectors.
"""

from fractions import Fraction
import json
import math
import os

_U = {}
_C = {}
_NS = {}
NOFLAG = 99
DATA = os.path.join(os.path.dirname(os.path.dirname(os.path.abspath(__file__))), "data", "C15_reference.json")


def _load():
    if _U:
        return
    import unyt
    import unyt.physical_constants as pc
    import unyt.unit_symbols as us
    from unyt import dimensions
    from unyt._unit_lookup_table import default_unit_symbol_lut, physical_constants
    from unyt.array import unyt_quantity
    from unyt.unit_object import Unit, em_conversions
    from unyt.unit_registry import UnitRegistry
    from unyt.unit_systems import UnitSystem, _split_prefix, add_constants, unit_system_registry

    _U.update(unyt=unyt, pc=pc, us=us, D=dimensions, lut=default_unit_symbol_lut, table=physical_constants, uq=unyt_quantity, Unit=Unit, em=em_conversions,
              UnitRegistry=UnitRegistry, UnitSystem=UnitSystem, add_constants=add_constants, usr=unit_system_registry, split=_split_prefix)
    _U["ref"] = json.load(open(DATA, encoding="utf-8"))
    _U["ladder"] = [float(x) for x in _U["ref"]["ladder"]]


def dim_vec(dim):
    import sympy

    base = list(_U["D"].base_dimensions)
    vec = [0] * len(base)
    if dim == 1:
        return vec
    for b, e in sympy.sympify(dim).as_powers_dict().items():
        if b.is_Number:
            continue
        i = base.index(b)
        e12 = Fraction(str(sympy.Rational(e))) * 12
        if e12.denominator != 1:
            return None
        vec[i] += int(e12)
    return vec


def _atoms(unit):
    """atoms of a unit expression as [symbol without prefix, prefix, 12 x exponent]"""
    out = []
    for b, e in unit.expr.as_powers_dict().items():
        if b.is_Number:
            continue
        pre, sym = _U["split"](str(b), _U["lut"])
        e12 = Fraction(str(e)) * 12
        scale_only = dim_vec(_U["Unit"](str(b)).dimensions) == [0] * 9 and float(_U["Unit"](str(b)).base_value) != 1.0
        out.append({"s": sym, "p": pre, "e": int(e12) if e12.denominator == 1 else 0, "z": bool(scale_only)})
    return sorted(out, key=lambda a: (a["s"], a["p"]))


def tables(_case=None):
    _load()
    Unit, lut, pc, us, unyt = _U["Unit"], _U["lut"], _U["pc"], _U["us"], _U["unyt"]
    rows, names = [], []
    for ci, (k, (val, ustr, aliases)) in enumerate(_U["table"].items(), 1):
        u = Unit(ustr)
        single = u.is_atomic
        rows.append({"k": k, "u": ustr, "dim": dim_vec(u.dimensions), "atoms": _atoms(u), "aliases": list(aliases), "val": repr(float(val)),
                     "em_atomic": bool(single and (str(u), u.dimensions) in _U["em"])})
        for ai, n in enumerate([k] + list(aliases)):
            names.append({"n": n, "ci": ci, "ai": ai})
    out = {"rows": rows}
    legacy = _U["ref"].get("legacy_names", {})
    for n, (qid, like) in sorted(legacy.items()):
        # legacy attributes set by add_constants next to a documented name (hmks, hcgs): bare names without suffixed variants
        if isinstance(getattr(pc, n, None), _U["uq"]):
            ci = next((i for i, r in enumerate(rows, 1) if r["k"] == like), 0)
            if ci:
                names.append({"n": n, "ci": ci, "ai": 1000, "bare": True})
    for r in names:
        r.setdefault("bare", False)
        n = r["n"]
        r["in_lut"] = n in lut
        r["in_us"] = hasattr(us, n) and getattr(getattr(us, n), "is_Unit", False)
        try:
            Unit(n)
            r["parses"] = True
        except Exception:  # noqa: BLE001
            r["parses"] = False
        r["mod"] = [s for s in ("", "_mks", "_cgs") if hasattr(pc, n + s)]
        r["top"] = [s for s in ("", "_mks", "_cgs") if hasattr(unyt, n + s)]
        r["top_is_const"] = bool(hasattr(unyt, n) and hasattr(pc, n) and getattr(unyt, n) is getattr(pc, n))
    out["names"] = names
    known = {r["n"] + s for r in names for s in ("", "_mks", "_cgs")}
    out["extra_attrs"] = sorted(k for k, v in vars(pc).items() if not k.startswith("_") and isinstance(v, _U["uq"]) and k not in known)
    out["systems"] = [{"id": str(k), "has_current": s.units_map[_U["D"].current_mks] is not None} for k, s in sorted(_U["usr"].items(), key=lambda kv: str(kv[0]))]
    out["em_keys"] = sorted({k[0] for k in _U["em"]})
    return out


def setup(common):
    _load()
    _C.clear()
    if common:
        _C.update(common)


# ----------------------------------------------------------------- configurations
def _namespace(cfg):
    """the namespace of constants of configuration cfg: (dict, registry or None)"""
    cid = cfg["id"]
    if cid in _NS:
        return _NS[cid]
    kind = cfg["kind"]
    if kind == "module":
        ns, reg = vars(_U["pc"]), _U["pc"]._default_unit_registry
    elif kind == "top":
        ns, reg = vars(_U["unyt"]), _U["pc"]._default_unit_registry
    else:
        if kind == "usersys":
            name = "c15_" + cid
            if name not in _U["usr"]:
                a = cfg["args"]
                _U["UnitSystem"](name, _base_unit(a[0]), _base_unit(a[1]), _base_unit(a[2]), temperature_unit=_base_unit(a[3]), angle_unit=_base_unit(a[4]), current_mks_unit=_base_unit(a[5]))
            reg = _U["UnitRegistry"](unit_system=name)
        elif kind == "codereg":
            # a registry with its own code units and a unit system made of them, bound to the registry
            reg = _U["UnitRegistry"]()
            syms = []
            for dname, size, si in zip(("length", "mass", "time", "temperature"), cfg["sizes"], ("m", "kg", "s", "K")):
                if size is None:
                    syms.append(si)
                else:
                    reg.add("code_" + dname, float(size), getattr(_U["D"], dname))
                    syms.append("code_" + dname)
            name = "c15_" + cid
            reg.unit_system = _U["UnitSystem"](name, syms[0], syms[1], syms[2], temperature_unit=syms[3], registry=reg)
        else:
            reg = _U["UnitRegistry"](unit_system=cfg["sys"])
        for sym, val, dimname in cfg.get("add", []):
            reg.add(sym, float(val), getattr(_U["D"], dimname))
        for sym in cfg.get("remove", []):
            reg.remove(sym)
        for sym, l2 in cfg.get("mods", []):
            reg.modify(sym, float(reg.lut[sym][0]) * 2.0 ** int(l2))
        ns = {}
        _U["add_constants"](ns, reg)
    _NS[cid] = (ns, reg)
    return _NS[cid]


def _flag(x, ref):
    try:
        x, ref = float(x), float(ref)
    except (TypeError, ValueError):
        return 10
    if math.isnan(x) or math.isinf(x):
        return 10
    if ref == 0.0:
        return 0 if x == 0.0 else 10
    d = abs(x / ref - 1.0)
    for k, w in enumerate(_U["ladder"]):
        if d <= w:
            return k
    return 10


def _l2(x, ref):
    try:
        r = float(x) / float(ref)
        if not (r > 0) or math.isinf(r):
            return NOFLAG
        lg = math.log2(r)
        return int(round(lg)) if abs(lg - round(lg)) <= 1e-12 and abs(lg) < 64 else NOFLAG
    except Exception:  # noqa: BLE001
        return NOFLAG


def _raw(q):
    """SI magnitude of a quantity read through its own Unit object: (value - zero offset) x base_value"""
    off = getattr(q.units, "base_offset", 0.0) or 0.0
    return (float(q.value) - float(off)) * float(q.units.base_value)


def _mentions_offset_unit(unit):
    """the unit is, or its expression mentions, a unit with a zero offset (unyt refuses to multiply or raise those)"""
    if getattr(unit, "base_offset", 0.0):
        return True
    lut = unit.registry.lut
    for b in unit.expr.atoms():
        if b.is_Number:
            continue
        _pre, sym = _U["split"](str(b), lut)
        row = lut.get(sym) or lut.get(str(b))
        if row is not None and row[2] != 0.0:
            return True
    return False


def _base_unit(spec):
    """a base unit of a user-defined unit system: a unit string, None, or [coefficient, unit] = a quantity used as base unit"""
    if isinstance(spec, list):
        return float(spec[0]) * _U["Unit"](spec[1])
    return spec


def _num(x, ref, su=True):
    return {"o": "num", "fs": _flag(x, ref), "su": bool(su), "fr": NOFLAG, "fq": NOFLAG, "l2": NOFLAG, "fc": NOFLAG}


def _row_anchor(ci):
    row = _C["rows"][ci - 1]
    return float(row["val"]) * float(_U["Unit"](row["u"]).base_value)


def _q_anchor(qi):
    """SI magnitude of the default constant that carries the primary name of reference quantity qi"""
    if not qi:
        return None
    q = vars(_U["pc"]).get(_C["quantities"][qi - 1]["primary"])
    return None if q is None else _raw(q)


def _dev(x, ci, qi, ns):
    a = _q_anchor(qi)
    m = ns.get(_C["rows"][ci - 1]["k"] + "_mks")  # the configuration's own tabulated guise of the row's primary name
    return {"o": "dev", "fr": _flag(x, _row_anchor(ci)), "fq": NOFLAG if a is None else _flag(x, a), "l2": _l2(x, _row_anchor(ci)),
            "fc": _flag(x, _raw(m)) if isinstance(m, _U["uq"]) else NOFLAG}


def _exc(e):
    return {"o": "exc", "exc": type(e).__name__, "fr": NOFLAG, "fq": NOFLAG, "l2": NOFLAG, "fc": NOFLAG}


def _snap_ratio(r):
    """r = 10^p10 * c^pc with |pc| <= 4 -> [p10, pc], else [99, 99]"""
    c = float(_U["ref"]["c_si"])
    try:
        for pc_ in (0, 1, -1, 2, -2, 3, -3, 4, -4):
            x = r / c**pc_
            if x > 0:
                e = round(math.log10(x))
                if abs(x / 10.0**e - 1.0) <= 1e-13:
                    return [int(e), pc_]
    except Exception:  # noqa: BLE001
        pass
    return [NOFLAG, NOFLAG]


SUFFIX = {"plain": "", "mks": "_mks", "cgs": "_cgs"}


def _guise(case):
    cfg = _C["configs"][case["cfg"] - 1]
    nm = _C["names"][case["a"] - 1]
    ci, qi = nm["ci"], nm["qi"]
    row = _C["rows"][ci - 1]
    ns, reg = _namespace(cfg)
    key = nm["n"] + SUFFIX[case["g"]]
    out = {"present": key in ns and isinstance(ns.get(key), _U["uq"])}
    if not out["present"]:
        return out
    q = ns[key]
    out["dv"] = dim_vec(q.units.dimensions) or []
    out["tab"] = bool(q.units.expr == _U["Unit"](row["u"]).expr)
    out["uem"] = bool(q.units.is_atomic and (str(q.units), q.units.dimensions) in _U["em"])
    out["offu"] = bool(getattr(q.units, "base_offset", 0.0))  # the guise is shown in a unit with a zero offset (degC, degF)
    route = case["route"]
    try:
        if route == "raw":
            r = _dev(_raw(q), ci, qi, ns)
            r["rv"] = out["dv"]
        elif route == "to":
            v = q.to(_U["Unit"](row["u"]))
            r = _dev(_raw(v), ci, qi, ns)
            r["rv"] = dim_vec(v.units.dimensions) or []
        elif route == "base":
            v = q.in_base("mks")
            r = _dev(_raw(v), ci, qi, ns)
            r["rv"] = dim_vec(v.units.dimensions) or []
        elif route == "cgsmks":
            v = q.in_cgs().in_mks()
            r = _dev(_raw(v), ci, qi, ns)
            r["rv"] = dim_vec(v.units.dimensions) or []
        elif route == "shown":
            # the number shown, read in the unit shown: re-enter (value, unit string) in the same registry
            # and read it in the tabulated unit (the CGS<->SI route for a Gaussian guise)
            v = _U["uq"](float(q.value), str(q.units), registry=reg).to(_U["Unit"](row["u"]))
            r = _dev(_raw(v), ci, qi, ns)
            r["rv"] = dim_vec(v.units.dimensions) or []
        elif route in ("tosys", "idem"):
            # tosys: the configuration's tabulated guise converted to the unit the guise shows; idem: the guise converted to the unit it already shows
            u = _U["Unit"](str(q.units)) if cfg["kind"] in ("module", "top") else _U["Unit"](str(q.units), registry=reg)
            src = ns[row["k"] + "_mks"] if route == "tosys" else q
            r = _num(float(src.to(u).value), float(q.value))
            r["rv"] = out["dv"]
        elif route == "defbase":
            # the default constant expressed in the configuration's unit system: number and unit text against the guise's
            d = vars(_U["pc"])[row["k"]]
            v = d.in_base(reg.unit_system if cfg["kind"] not in ("module", "top") else "mks")
            r = _num(float(v.value), float(q.value), su=str(v.units) == str(q.units))
            r["rv"] = dim_vec(v.units.dimensions) or []
        elif route == "eq":
            pcns = vars(_U["pc"])
            a = pcns.get(row["k"])
            b = pcns.get(_C["quantities"][qi - 1]["primary"]) if qi else a
            r = {"o": "bool", "er": bool(q == a) if a is not None else False, "eq": bool(q == b) if b is not None else False, "fr": NOFLAG, "fq": NOFLAG, "l2": NOFLAG, "fc": NOFLAG,
                 "rv": dim_vec(a.units.dimensions) if a is not None else []}
        elif route == "ratio":
            m = ns.get(nm["n"] + "_mks")
            r = {"o": "ratio", "pr": _snap_ratio(float(q.value) / float(m.value)), "fr": NOFLAG, "fq": NOFLAG, "l2": NOFLAG, "fc": NOFLAG, "rv": dim_vec(m.units.dimensions) or []}
        else:
            raise ValueError(route)
    except Exception as e:  # noqa: BLE001 - the exception is the observation
        if isinstance(e, ValueError) and str(e) == route:
            raise
        r = _exc(e)
        r["rv"] = []
    out["r"] = r
    return out


def _rel(case):
    cfg = _C["configs"][case["cfg"] - 1]
    rel = _C["relations"][case["a"] - 1]
    ns, _reg = _namespace(cfg)
    parts = []
    for k, (qi, e) in enumerate(rel["terms"]):
        # mix1 / mix2: the participants wear alternating guises
        suf = SUFFIX[case["g"]] if case["g"] in SUFFIX else ("_mks", "_cgs")[(k + (case["g"] == "mix2")) % 2]
        q = ns.get(_C["quantities"][qi - 1]["primary"] + suf)
        if not isinstance(q, _U["uq"]):
            return {"present": False}
        parts.append((q, e))
    out = {"present": True, "pd": [dim_vec(q.units.dimensions) or [] for q, _ in parts],
           "off": any(_mentions_offset_unit(q.units) for q, _ in parts)}
    coef = float(Fraction(*rel["rat"])) * math.pi ** rel["pik"]
    # (a) real unyt arithmetic: factors multiplied in the order that keeps the running magnitude moderate
    try:
        facs = [q**e for q, e in parts]
        acc = facs.pop(0)
        while facs:
            la = math.log10(abs(float(acc.value))) if float(acc.value) != 0 else 0.0
            j = min(range(len(facs)), key=lambda i: abs(la + (math.log10(abs(float(facs[i].value))) if float(facs[i].value) != 0 else 0.0)))
            acc = acc * facs.pop(j)
        out["homog"] = bool(acc.units.dimensions == 1)
        if out["homog"]:
            v = float(acc.in_base("mks").value) * coef
            out["fu"] = _flag(v, 1.0) if math.isfinite(v) and v != 0.0 else NOFLAG
        else:
            out["fu"] = NOFLAG
        out["exc"] = ""
    except Exception as e:  # noqa: BLE001
        out["homog"], out["fu"], out["exc"] = False, NOFLAG, type(e).__name__
    # (b) the same identity on the raw magnitudes (value x base_value), independent of unyt's arithmetic
    v = coef
    for q, e in parts:
        v *= _raw(q) ** e
    out["fm"] = _flag(v, 1.0) if math.isfinite(v) and v != 0.0 else NOFLAG
    # (c) the identity as ONE quotient of two commensurable quantities, the pure number read by float(), .value and a ufunc
    out["fqv"], out["qexc"] = NOFLAG, ""
    if any(e > 0 for _q, e in parts) and any(e < 0 for _q, e in parts) and not out["off"]:
        try:
            num = [q**e for q, e in parts if e > 0]
            den = [q ** (-e) for q, e in parts if e < 0]
            out["fqv"] = _quotient_flags(_product(num), _product(den), 1.0 / coef)
        except Exception as e:  # noqa: BLE001
            out["qexc"] = type(e).__name__
    return out


def _product(facs):
    facs = list(facs)
    acc = facs.pop(0)
    while facs:
        la = math.log10(abs(float(acc.value))) if float(acc.value) != 0 else 0.0
        j = min(range(len(facs)), key=lambda i: abs(la + (math.log10(abs(float(facs[i].value))) if float(facs[i].value) != 0 else 0.0)))
        acc = acc * facs.pop(j)
    return acc


def _quotient_flags(x, y, want):
    """x / y is the pure number `want`: worst ladder flag over the ways a program consumes it"""
    import numpy as np

    r = x / y
    worst = max(_flag(float(r), want), _flag(float(r.value), want), _flag(float(np.asarray(r)), want))
    if abs(want) < 50:
        worst = max(worst, _flag(float(np.exp(r)), math.exp(want)))
    return worst


def _unit(case):
    cfg = _C["configs"][case["cfg"] - 1]
    nm = _C["names"][case["a"] - 1]
    ns, reg = _namespace(cfg)
    q = ns.get(nm["n"] + SUFFIX[case.get("g", "plain")])
    out = {"present": isinstance(q, _U["uq"])}
    if not out["present"]:
        return out
    try:
        u = _U["Unit"](nm["n"]) if cfg["kind"] in ("module", "top") else _U["Unit"](nm["n"], registry=reg)
    except Exception as e:  # noqa: BLE001
        out["present"] = False
        out["exc"] = type(e).__name__
        return out
    out["ud"] = dim_vec(u.dimensions) or []
    out["cd"] = dim_vec(q.units.dimensions) or []
    if case["route"] in ("quot", "quotinv"):
        # 0.75 of the unit named X divided by the constant named X (and the inverse): a pure number, read as programs read it
        if out["ud"] != out["cd"] or _mentions_offset_unit(q.units):
            return {"present": False, "exc": "not-a-quotient-of-commensurable-scale-units"}
        try:
            x = _U["uq"](0.75, u)
            out["f"] = _quotient_flags(x, q, 0.75) if case["route"] == "quot" else _quotient_flags(q, x, 4.0 / 3.0)
        except Exception as e:  # noqa: BLE001
            out["f"], out["exc"] = 10, type(e).__name__
        out["eq"] = True
        return out
    if out["ud"] == out["cd"]:
        out["f"] = _flag(float(u.base_value), _raw(q))
    else:  # a Gaussian guise against an SI unit (or the reverse): compare through the CGS<->SI route
        try:
            out["f"] = _flag(float(q.to(u).value), 1.0)
        except Exception as e:  # noqa: BLE001
            out["f"], out["exc"] = NOFLAG, type(e).__name__
    try:
        out["eq"] = bool((1 * u) == q)
    except Exception:  # noqa: BLE001
        out["eq"] = False
    return out


def _pair(case):
    """the constant of configuration A against the same constant of configuration B, through one call form"""
    import numpy as np

    nm = _C["names"][case["a"] - 1]
    nsa, _ra = _namespace(_C["configs"][case["cfg"] - 1])
    nsb, _rb = _namespace(_C["configs"][case["cfg2"] - 1])
    x, y = nsa.get(nm["n"]), nsb.get(nm["n"])
    out = {"pa": isinstance(x, _U["uq"]), "pb": isinstance(y, _U["uq"]), "da": [], "db": [], "o": "none", "f": NOFLAG, "b": False, "exc": ""}
    if not (out["pa"] and out["pb"]):
        return out
    out["da"], out["db"] = dim_vec(x.units.dimensions) or [], dim_vec(y.units.dimensions) or []
    if out["da"] != out["db"]:
        return out
    form, yv = case["route"], float(y.value)
    try:
        if form == "to":
            out["o"], out["f"] = "num", _flag(float(x.to(y.units).value), yv)
        elif form == "in_units":
            out["o"], out["f"] = "num", _flag(float(x.in_units(y.units).value), yv)
        elif form == "to_value":
            out["o"], out["f"] = "num", _flag(float(x.to_value(y.units)), yv)
        elif form == "convert":
            z = x.copy()
            z.convert_to_units(y.units)
            out["o"], out["f"] = "num", _flag(float(z.value), yv)
        elif form == "arr":
            # coercion into one array: both entries are shown in the first one's unit
            z = _U["unyt"].unyt_array([y, x])
            out["o"], out["f"] = "num", max(_flag(float(z[1].value), yv), _flag(float(z[0].value), yv))
        elif form == "div":
            out["o"], out["f"] = "num", _quotient_flags(x, y, 1.0)
        elif form == "sub":
            d = x - y
            out["o"], out["f"] = "num", _flag(float(x.value) + float(d.value), float(x.value))
        elif form == "allclose":
            out["o"], out["b"] = "bool", bool(_U["unyt"].allclose_units(x, y, rtol=1e-13)) and bool(_U["unyt"].allclose_units(y, x, rtol=1e-13))
        elif form == "isclose":
            out["o"], out["b"] = "bool", bool(np.isclose(x, y, rtol=1e-13, atol=0.0))
        else:
            raise ValueError(form)
    except Exception as e:  # noqa: BLE001 - the exception is the observation
        if isinstance(e, ValueError) and str(e) == form:
            raise
        out["o"], out["exc"] = "exc", type(e).__name__
    return out


def _lit(case):
    ref = _C["quantities"][case["a"] - 1]
    q = vars(_U["pc"]).get(ref["primary"])
    out = {"present": isinstance(q, _U["uq"])}
    if not out["present"]:
        return out
    out["dv"] = dim_vec(q.units.dimensions) or []
    out["f"] = _flag(_raw(q), float(ref["value"]))
    out["fs"] = _flag(_raw(q), float(ref["system_value"])) if "system_value" in ref else NOFLAG
    return out


def observe(case):
    k = case["kind"]
    o = {"guise": _guise, "rel": _rel, "unit": _unit, "lit": _lit, "pair": _pair}[k](case)
    o["case"] = case
    return o


# ===================================================================== use histories (round 4)
# A history: take one guise of a constant, apply 1-3 documented-copy calls (each on the previous result), then ONE in-place
# call on the last result; afterwards no exported constant of the namespace (nor of the module) may have changed.
_SNAP = {}
_ROWDEV = {}


def _bits(v):
    import numpy as np

    return np.ndarray.item(v)


def _snapshot(cid, ns):
    if cid not in _SNAP:
        _SNAP[cid] = {k: (_bits(v), str(v.units), v.units, np_copy(v)) for k, v in ns.items() if isinstance(v, _U["uq"]) and not k.startswith("_")}
    return _SNAP[cid]


def np_copy(v):
    import numpy as np

    return np.array(v.d, copy=True)


def _changed(cid, ns):
    snap = _snapshot(cid, ns)
    out = []
    for k, (hx, us, _u, _d) in snap.items():
        v = ns.get(k)
        if not isinstance(v, _U["uq"]):
            out.append(k)
            continue
        # same number (bit for bit) and same unit (the Unit object itself, else the same text)
        if _bits(v) != hx or (v.units is not _u and str(v.units) != us):
            out.append(k)
    return out


def _restore(cfg, ns, keys):
    cid = cfg["id"]
    if cfg["kind"] in ("module", "top"):
        snap = _snapshot("module", vars(_U["pc"]))
        for k in keys:
            v = vars(_U["pc"])[k]
            v.units = snap[k][2]
            v.ndview[...] = snap[k][3]
    else:
        _NS.pop(cid, None)
        _SNAP.pop(cid, None)


def _apply(op, y, row, reg, cfg):
    if op == "in_base":
        return y.in_base("mks" if cfg["kind"] in ("module", "top") else reg.unit_system)
    if op == "in_mks":
        return y.in_mks()
    if op == "in_cgs":
        return y.in_cgs()
    if op == "to_same":
        return y.to(y.units)
    if op == "in_units_same":
        return y.in_units(str(y.units))
    if op == "to_tab":
        return y.to(_U["Unit"](row["u"], registry=reg))
    if op == "copy":
        return y.copy()
    if op == "mul1":
        return y * 1.0
    if op == "equiv":
        dv = dim_vec(y.units.dimensions)
        if dv == [12, 0, 0, 0, 0, 0, 0, 0, 0]:
            return y.to_equivalent("J", "mass_energy")
        if dv == [0, 0, 0, 12, 0, 0, 0, 0, 0]:
            return y.to_equivalent("J", "thermal")
        return y.to_equivalent("kg", "mass_energy")
    raise ValueError(op)


def _inplace(op, y):
    import numpy as np

    if op == "imul":
        y *= 2.0
    elif op == "convert":
        try:
            same = str(y.in_cgs().units) == str(y.units)
        except Exception:  # noqa: BLE001
            same = False
        if same:
            y.convert_to_mks()
        else:
            y.convert_to_cgs()
    elif op == "setitem":
        y[...] = y * 3.0
    elif op == "copyto":
        np.copyto(y, y * 3.0)
    elif op == "ufunc_out":
        np.multiply(y, 2.0, out=y)
    elif op == "fill":
        y.fill(float(y.value) * 5.0)
    else:
        raise ValueError(op)


def observe_use(case):
    import numpy as np

    cfg = _C["configs"][case["cfg"] - 1]
    nm = _C["names"][case["a"] - 1]
    row = _C["rows"][nm["ci"] - 1]
    ns, reg = _namespace(cfg)
    mod = vars(_U["pc"])
    _snapshot(cfg["id"] if cfg["kind"] not in ("module", "top") else "module", ns if cfg["kind"] not in ("module", "top") else mod)
    _snapshot("module", mod)
    out = {"case": case}
    src = ns.get(nm["n"] + SUFFIX[case["g"]])
    out["present"] = isinstance(src, _U["uq"])
    if not out["present"]:
        return out
    y, steps = src, []
    for op in case["ops"]:
        try:
            y2 = _apply(op, y, row, reg, cfg)
        except Exception as e:  # noqa: BLE001 - a refused call ends the history
            steps.append({"op": op, "ok": False, "exc": type(e).__name__, "shares": False, "same": False})
            break
        steps.append({"op": op, "ok": True, "exc": "", "shares": bool(np.shares_memory(y2, src)), "same": y2 is src})
        y = y2
    out["steps"] = steps
    out["done"] = sum(1 for s in steps if s["ok"])
    ip = {"op": case["ip"], "ok": False, "exc": "", "applied": False}
    if out["done"] > 0:  # also when a call handed back the constant itself: the program would update "its" value all the same
        ip["applied"] = True
        try:
            _inplace(case["ip"], y)
            ip["ok"] = True
        except Exception as e:  # noqa: BLE001
            ip["exc"] = type(e).__name__
    out["ip"] = ip
    # afterwards: nothing exported may have changed (this namespace and the module), and the guises of the row still read the table value
    cid = "module" if cfg["kind"] in ("module", "top") else cfg["id"]
    ch_ns = _changed(cid, mod if cid == "module" else ns)
    ch_mod = _changed("module", mod) if cid != "module" else []
    out["nchanged"] = len(ch_ns) + len(ch_mod)
    out["changed"] = sorted(ch_ns + ch_mod)[:6]
    rk = (cid, nm["ci"])
    if not (ch_ns or ch_mod) and rk in _ROWDEV:
        out["rowdev"] = _ROWDEV[rk]  # nothing changed bit for bit: the row reads what it read before
        return out
    worst = 0
    tab = _U["Unit"](row["u"])
    for r in _C["names"]:
        if r["ci"] != nm["ci"]:
            continue
        for suf in ("", "_mks", "_cgs"):
            q = ns.get(r["n"] + suf)
            if not isinstance(q, _U["uq"]):
                continue
            try:
                f1 = _flag(_raw(q.to(tab)), _row_anchor(nm["ci"]))
                f2 = _flag(_raw(_U["uq"](float(q.value), str(q.units), registry=reg).to(tab)), _row_anchor(nm["ci"]))
            except Exception:  # noqa: BLE001
                f1 = f2 = 10
            worst = max(worst, f1, f2)
    out["rowdev"] = worst
    if not (ch_ns or ch_mod):
        _ROWDEV[rk] = worst
    if ch_ns or ch_mod:
        if ch_mod or cid == "module":
            _restore({"id": "module", "kind": "module"}, mod, ch_mod if cid != "module" else ch_ns)
        if cid != "module":
            _restore(cfg, ns, ch_ns)
    return out
