CONSTANTS
  MaxTok = 11
  MaxStack = 4
  PoolMod = 480
  Sels = {480, 11}
  NoChain = TRUE
INIT Init
NEXT Next
INVARIANT ImplAgrees
INVARIANT Export
INVARIANT ExportPool
CHECK_DEADLOCK FALSE
