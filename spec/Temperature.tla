----------------------------- MODULE Temperature -----------------------------
(* Offset temperature scales in unyt (property C08).                          *)
(*                                                                            *)
(* Units: the six table rows K, R, degC, degF, delta_degC, delta_degF and the *)
(* SI-prefixed forms of the prefixable ones (K, degC, delta_degC).  A unit is *)
(* [base, pfx]; its real name is pfx \o base.                                 *)
(*                                                                            *)
(* Two layers:                                                                *)
(*  * implementation-shaped outcome `Outcome(c)` of one call, transcribed     *)
(*    from unyt/array.py (__array_ufunc__ binary branch: K/R guard,           *)
(*    conversion of operand 1 + offset guard, _preserve_units,                *)
(*    _difference_units, multiply/divide temperature guard; unary rules       *)
(*    _square_unit/_sqrt_unit/_power_unit/..., multiply.reduce power mapping),*)
(*    unyt/unit_object.py (Unit.__mul__/__truediv__ offset guards,            *)
(*    Unit.__pow__ without one, _get_conversion_factor with the prefix-aware  *)
(*    offset) and unyt/_array_functions.py (diff_helper; np.gradient is not   *)
(*    wrapped and runs NumPy's code on unyt operands);                        *)
(*  * property predicates `P(c, obs)` that only say what C08 says: affine     *)
(*    arithmetic with exact constants 5/9, 27315/100, 45967/100.              *)
(*                                                                            *)
(* Values are exact rationals <<n, d>>; TLC integers are 32 bit, so sums use  *)
(* the lcm and products cross-cancel first (T* operators below), and decimal  *)
(* prefixes only ever enter as differences of exponents.                      *)
EXTENDS Rational, Sequences, FiniteSets, TLC, Json

(* ---------------- overflow-aware rationals ---------------- *)
TAbs(n) == IF n < 0 THEN -n ELSE n
TNorm(n, d) == IF n = 0 THEN <<0, 1>>
               ELSE LET s == IF (n < 0) # (d < 0) THEN -1 ELSE 1
                        g == GCD(TAbs(n), TAbs(d)) IN <<s * (TAbs(n) \div g), TAbs(d) \div g>>
TLcm(a, b) == (a \div GCD(a, b)) * b
TAdd(a, b) == LET L == TLcm(a[2], b[2]) IN TNorm(a[1] * (L \div a[2]) + b[1] * (L \div b[2]), L)
TNeg(a) == <<-a[1], a[2]>>
TSub(a, b) == TAdd(a, TNeg(b))
TMul(a, b) == LET g1 == GCD(TAbs(a[1]), b[2])
                  g2 == GCD(TAbs(b[1]), a[2]) IN
              TNorm((a[1] \div g1) * (b[1] \div g2), (a[2] \div g2) * (b[2] \div g1))
TInv(a) == IF a[1] < 0 THEN <<-a[2], -a[1]>> ELSE <<a[2], a[1]>>
TDiv(a, b) == TMul(a, TInv(b))
THalf(a) == TMul(a, <<1, 2>>)
TLt(a, b) == TSub(a, b)[1] < 0
TMax(a, b) == IF TLt(a, b) THEN b ELSE a
TMin(a, b) == IF TLt(b, a) THEN b ELSE a
RECURSIVE Pow10(_)
Pow10(n) == IF n = 0 THEN 1 ELSE 10 * Pow10(n - 1)
TPow10(k) == IF k >= 0 THEN <<Pow10(k), 1>> ELSE <<1, Pow10(-k)>>

(* ---------------- the unit alphabet ---------------- *)
BaseSeq == <<"K", "R", "degC", "degF", "delta_degC", "delta_degF">>
Bases == {BaseSeq[i] : i \in DOMAIN BaseSeq}
\* ASCII prefix spellings of unyt.unit_prefixes ("" = no prefix); the two non-ASCII micro signs are not modelled
PrefixSeq == <<"", "Y", "Z", "E", "P", "T", "G", "M", "k", "h", "da", "d", "c", "m", "u", "n", "p", "f", "a", "z", "y">>
\* the two non-ASCII micro spellings of unyt.unit_prefixes (MICRO SIGN U+00B5, GREEK SMALL LETTER MU U+03BC) by pseudo-name:
\* TLC strings are ASCII, the harness maps them to the real characters
MicroSpellings == {"micro_sign", "micro_mu"}
AllPrefixes == {PrefixSeq[i] : i \in DOMAIN PrefixSeq} \cup MicroSpellings
PExp(p) == CASE p = "" -> 0 [] p = "Y" -> 24 [] p = "Z" -> 21 [] p = "E" -> 18 [] p = "P" -> 15
             [] p = "T" -> 12 [] p = "G" -> 9 [] p = "M" -> 6 [] p = "k" -> 3 [] p = "h" -> 2
             [] p = "da" -> 1 [] p = "d" -> -1 [] p = "c" -> -2 [] p = "m" -> -3 [] p = "u" -> -6
             [] p = "n" -> -9 [] p = "p" -> -12 [] p = "f" -> -15 [] p = "a" -> -18 [] p = "z" -> -21
             [] p = "y" -> -24 [] p \in MicroSpellings -> -6
Prefixable(b) == b \in {"K", "degC", "delta_degC"}          \* fifth column of the table rows
U(b, p) == [base |-> b, pfx |-> p]
UName(u) == u.pfx \o u.base
UnitsOver(P) == {U(b, "") : b \in Bases} \cup {U(b, p) : b \in {x \in Bases : Prefixable(x)}, p \in P \ {""}}
E10(u) == PExp(u.pfx)

(* implementation-side numbers (table rows) *)
IsF(u) == u.base \in {"R", "degF", "delta_degF"}               \* scale kelvin_per_rankine = 5/9
HasOff(u) == u.base \in {"degC", "degF"}                        \* base_offset != 0
ImplOffset(u) == IF u.base = "degC" THEN <<-27315, 100>> ELSE IF u.base = "degF" THEN <<-45967, 100>> ELSE <<0, 1>>
IsPrefixed(u) == u.pfx # ""
StartsDelta(u) == u.pfx = "" /\ u.base \in {"delta_degC", "delta_degF"}     \* repr(u).startswith("delta_")
\* Unit.__eq__ : base_value, base_offset (isclose) and dimensions
UEq(a, b) == IsF(a) = IsF(b) /\ E10(a) = E10(b) /\ ImplOffset(a) = ImplOffset(b)
FBase(u) == IF IsF(u) THEN <<5, 9>> ELSE <<1, 1>>
\* s_a / s_b : only the difference of the decimal exponents enters
Ratio(a, b) == TMul(TDiv(FBase(a), FBase(b)), TPow10(E10(a) - E10(b)))

(* property-side reading of the same units *)
Kind(u) == IF u.base \in {"degC", "degF"} THEN "point" ELSE "diff"
IsPoint(u) == Kind(u) = "point"
Fam(u) == IF u.base = "degC" THEN "C" ELSE IF u.base = "degF" THEN "F" ELSE "none"
\* kelvin at reading zero: 273.15 for the Celsius scale, 459.67 * 5/9 for the Fahrenheit scale, 0 otherwise
ZeroK(u) == IF u.base = "degC" THEN <<27315, 100>> ELSE IF u.base = "degF" THEN <<45967, 180>> ELSE <<0, 1>>
\* two different offset scales: Celsius against Fahrenheit, and also two differently prefixed Celsius scales
\* (mdegC is a scale of its own: its readings are not degC readings); alternative spellings of the micro prefix are the same scale
MixedOffset(a, b) == Fam(a) # "none" /\ Fam(b) # "none" /\ (Fam(a) # Fam(b) \/ E10(a) # E10(b))
SameScale(a, b) == IsF(a) = IsF(b) /\ E10(a) = E10(b)
KelvinSized(u) == ~IsF(u) /\ E10(u) = 0

\* a difference x (unit u) expressed as a reading on the scale of unit r
DiffIn(x, u, r) == TMul(x, Ratio(u, r))
\* the affine map between the scales of u and r: y with s_r*y + z_r = s_u*x + z_u, split as mantissa * 10^k10
AffSameZero(u, r) == ZeroK(u) = ZeroK(r)
AffK10(u, r) == IF AffSameZero(u, r) THEN E10(u) - E10(r) ELSE -E10(r)
AffMant(x, u, r) == IF AffSameZero(u, r) THEN TMul(x, TDiv(FBase(u), FBase(r)))
                    ELSE TDiv(TAdd(TMul(TMul(FBase(u), TPow10(E10(u))), x), TSub(ZeroK(u), ZeroK(r))), FBase(r))
\* the same at decimal exponent 0 (small prefixes only)
AffIn(x, u, r) == TMul(AffMant(x, u, r), TPow10(AffK10(u, r)))
Map1(F(_), s) == [i \in DOMAIN s |-> F(s[i])]
Map2(F(_, _), a, b) == [i \in DOMAIN a |-> F(a[i], b[i])]

(* ---------------- readings ---------------- *)
\* three readings per operand (enough for gradient); two sets
XS(rs, side) == CASE rs = 1 /\ side = 0 -> <<R(10), R(30), R(60)>>
                  [] rs = 1 /\ side = 1 -> <<R(20), R(5), <<-15, 2>>>>
                  [] rs = 2 /\ side = 0 -> <<R(-40), <<25, 2>>, R(300)>>
                  [] rs = 2 /\ side = 1 -> <<R(32), <<-273, 1>>, <<1, 4>>>>

\* shapes of the repeated-product family: "v<n>" = n readings in a row, "g<r><c>" = an r x c grid (row-major)
ShapeDims(sh) == CASE sh = "v1" -> <<1>> [] sh = "v2" -> <<2>> [] sh \in {"v3", "arr"} -> <<3>> [] sh = "v4" -> <<4>>
                   [] sh = "g12" -> <<1, 2>> [] sh = "g21" -> <<2, 1>> [] sh = "g22" -> <<2, 2>> [] sh = "g23" -> <<2, 3>>
                   [] sh = "g32" -> <<3, 2>> [] sh = "g13" -> <<1, 3>> [] sh = "g31" -> <<3, 1>>
                   [] OTHER -> <<>>
GridShapes == {"v1", "v2", "v3", "v4", "g12", "g21", "g22", "g23", "g32", "g13", "g31"}
ShapeSize(sh) == LET d == ShapeDims(sh) IN IF Len(d) = 0 THEN 1 ELSE IF Len(d) = 1 THEN d[1] ELSE d[1] * d[2]
\* up to six non-zero readings (quotients are taken)
XL(side) == IF side = 0 THEN <<R(10), R(30), R(60), R(20), R(5), R(40)>> ELSE <<R(20), R(5), <<-15, 2>>, R(8), R(25), R(4)>>
\* shape "arr": the three readings; "sc": a scalar quantity holding the second one
X(c, side) == IF c.shape = "sc" THEN <<XS(c.rs, side)[2]>>
              ELSE IF c.shape \in GridShapes THEN [i \in 1..ShapeSize(c.shape) |-> XL(side)[i]]
              ELSE XS(c.rs, side)

(* ---------------- implementation-shaped outcome ---------------- *)
Raise(exc) == [k |-> "raise", exc |-> exc, unit |-> U("", ""), v |-> <<>>, k10 |-> 0]
Val(u, v) == [k |-> "val", exc |-> "", unit |-> u, v |-> v, k10 |-> 0]
Bool(v) == [k |-> "bool", exc |-> "", unit |-> U("", ""), v |-> v, k10 |-> 0]
Opaque(label) == [k |-> "val", exc |-> "", unit |-> U("?", label), v |-> <<>>, k10 |-> 0]

BinOps == {"add", "subtract", "maximum", "minimum", "less", "greater", "less_equal", "greater_equal", "equal", "not_equal"}
Rule(op) == CASE op \in {"add", "maximum", "minimum"} -> "preserve"
              [] op = "subtract" -> "difference"
              [] OTHER -> "comparison"
\* _preserve_units
Preserve(u0, u1) == IF ~HasOff(u0) /\ HasOff(u1) THEN u1 ELSE u0
\* python: repr(a) in repr(b), restricted to what can matter (b starts with "delta_")
InDelta(a, b) == StartsDelta(b) /\ ((a.pfx = "" /\ a.base = "degC" /\ b.base = "delta_degC") \/ (a.pfx = "" /\ a.base = "degF" /\ b.base = "delta_degF") \/ a = b)
\* _difference_units
Difference(u0, u1) ==
  IF ~UEq(u1, u0) THEN
       IF InDelta(u0, u1) THEN [raise |-> "", unit |-> u0]
       ELSE IF InDelta(u1, u0) THEN [raise |-> "", unit |-> u1]
       ELSE [raise |-> "InvalidUnitOperation", unit |-> u0]
  ELSE IF ~HasOff(u0) THEN [raise |-> "", unit |-> u0]
  ELSE IF u0 = U("degF", "") THEN [raise |-> "", unit |-> U("delta_degF", "")]
  ELSE IF u0 = U("degC", "") THEN [raise |-> "", unit |-> U("delta_degC", "")]
  ELSE [raise |-> "RuntimeError", unit |-> u0]
B01(b) == IF b THEN R(1) ELSE R(0)
Apply(op, a, b) ==
  CASE op = "add" -> Map2(TAdd, a, b)
    [] op = "subtract" -> Map2(TSub, a, b)
    [] op = "maximum" -> Map2(TMax, a, b)
    [] op = "minimum" -> Map2(TMin, a, b)
    [] op = "less" -> Map2(LAMBDA x, y : B01(TLt(x, y)), a, b)
    [] op = "greater" -> Map2(LAMBDA x, y : B01(TLt(y, x)), a, b)
    [] op = "less_equal" -> Map2(LAMBDA x, y : B01(~TLt(y, x)), a, b)
    [] op = "greater_equal" -> Map2(LAMBDA x, y : B01(~TLt(x, y)), a, b)
    [] op = "equal" -> Map2(LAMBDA x, y : B01(x = y), a, b)
    [] op = "not_equal" -> Map2(LAMBDA x, y : B01(x # y), a, b)
\* binary branch of __array_ufunc__ for two temperature quantities, in code order
BinOutcome(op, u0, u1, x0, x1) ==
  LET rule == Rule(op) IN
  IF rule = "preserve" /\ HasOff(u1) /\ ~HasOff(u0) /\ u0.pfx = "" /\ u0.base \in {"K", "R"}
  THEN Raise("UnitOperationError")
  ELSE IF ~UEq(u0, u1) /\ (HasOff(u0) \/ HasOff(u1)) /\ HasOff(u1) /\ ~StartsDelta(u0)
  THEN Raise("InvalidUnitOperation")
  ELSE LET v1 == IF UEq(u0, u1) THEN x1 ELSE Map1(LAMBDA x : TMul(x, Ratio(u1, u0)), x1)
           ru == IF rule = "difference" THEN Difference(u0, u1)
                 ELSE [raise |-> "", unit |-> IF rule = "preserve" THEN Preserve(u0, u1) ELSE u0] IN
       IF ru.raise # "" THEN Raise(ru.raise)
       ELSE IF rule = "comparison" THEN Bool(Apply(op, x0, v1))
       ELSE Val(ru.unit, Apply(op, x0, v1))

\* diff_helper (np.diff / np.ediff1d / np.ptp) and NumPy's own gradient on unyt operands
Diffs(x) == [i \in 1..(Len(x) - 1) |-> TSub(x[i + 1], x[i])]
RECURSIVE SeqMax(_, _), SeqMin(_, _)
SeqMax(x, i) == IF i = Len(x) THEN x[i] ELSE TMax(x[i], SeqMax(x, i + 1))
SeqMin(x, i) == IF i = Len(x) THEN x[i] ELSE TMin(x[i], SeqMin(x, i + 1))
Ptp(x) == <<TSub(SeqMax(x, 1), SeqMin(x, 1))>>
Grad(x) == [i \in 1..Len(x) |-> IF i = 1 THEN TSub(x[2], x[1]) ELSE IF i = Len(x) THEN TSub(x[i], x[i - 1])
                                 ELSE THalf(TSub(x[i + 1], x[i - 1]))]
RedOps == {"diff", "ediff1d", "ptp", "gradient"}
RedDeltas(op, x) == IF op = "ptp" THEN Ptp(x) ELSE IF op = "gradient" THEN Grad(x) ELSE Diffs(x)
RedOutcome(op, u, x) ==
  IF op = "gradient" THEN
       IF ~HasOff(u) THEN Val(u, Grad(x))
       ELSE IF IsPrefixed(u) THEN Raise("RuntimeError")                 \* _difference_units: "supposed to be unreachable"
       ELSE Val(u, Map1(LAMBDA d : TAdd(d, ImplOffset(u)), Grad(x)))    \* delta_* differences stored into the degC/degF array: converted as points
  ELSE IF HasOff(u) THEN Raise("InvalidUnitOperation")
  ELSE Val(U("delta_degC", ""), RedDeltas(op, x))                       \* relabelled, never rescaled

\* multiplicative / power family.  partner: "self" (same unit), "K", "m" (metre), "nd" (dimensionless quantity), "two" (bare 2.0)
\* product-like operations on arrays.  Ufunc-based ones go through __array_ufunc__ (rule _multiply_units/_divide_units: the
\* temperature guard refuses ANY partner); array-function handlers multiply the bare result by `unit_a * unit_b`:
\* Unit.__mul__ refuses offset * unit-ful, but lets offset * dimensionless through (keeping the offset), so a unit-less
\* partner is not refused there.  partner: "self" (same unit), "K", "m", "nd" (dimensionless quantity), "bare" (ndarray),
\* "list", "two" (bare 2.0)
UfuncProducts == {"multiply", "divide", "true_divide", "floor_divide", "matmul", "at", "vecdot", "mouter", "douter", "fdouter", "linalg_vecdot", "linalg_matmul"}
FuncProducts == {"dot", "inner", "outer", "vdot", "tensordot", "einsum", "kron", "cross", "convolve", "correlate", "linalg_outer", "linalg_cross"}
\* ufunc method `at` (x[idx] *= b in place): three inputs, refused for every unit ("support ... has not been added")
AtOps == {"mul_at", "div_at", "fdiv_at"}
RefBin == UfuncProducts \cup FuncProducts \cup AtOps \cup {"divmod"}
CumProds == {"cumprod", "nancumprod", "cumulative_prod"}
\* repeated products / quotients of the elements of ONE array: x0 * x1 * ... or x0 / x1 / ...
UfuncReduce == {"prod_reduce", "div_reduce", "tdiv_reduce", "fdiv_reduce"}       \* np.multiply/divide/true_divide/floor_divide.reduce
FuncReduce == {"prod", "prodmethod", "nanprod"}
UfuncAccum == {"mul_accumulate", "div_accumulate", "fdiv_accumulate"}
ReduceAt == {"mul_reduceat", "div_reduceat", "fdiv_reduceat"}                     \* ufunc.reduceat(x, [0])
RedLike == UfuncReduce \cup FuncReduce \cup UfuncAccum \cup ReduceAt \cup CumProds
DivLike(op) == op \in {"div_reduce", "tdiv_reduce", "fdiv_reduce", "div_accumulate", "fdiv_accumulate", "div_reduceat", "fdiv_reduceat"}
RefUn == {"square", "sqrt", "cbrt", "reciprocal", "power2", "power3", "powerhalf", "powerm1", "pow2", "pow3", "powhalf", "powm1"} \cup RedLike
UnitlessPart(part) == part \in {"nd", "bare", "list", "two"}
\* the axis argument is part of the call form: "function" = no axis argument, "axnone" = axis=None, "ax0", "ax1", "axm1",
\* "axm2", "axt01" = axis=(0, 1); a trailing "k" = keepdims=True
AxisForms == {"function", "axnone", "ax0", "ax1", "axm1", "axm2", "axt01", "ax0k", "ax1k", "axm1k", "axnonek"}
AxisIdx(f, nd) == CASE f \in {"ax0", "ax0k"} -> 1 [] f \in {"ax1", "ax1k"} -> 2 [] f \in {"axm1", "axm1k"} -> nd [] f = "axm2" -> nd - 1 [] OTHER -> 0
AxisOk(f, sh) == LET nd == Len(ShapeDims(sh)) IN
                 IF f \in {"function", "axnone", "axnonek"} THEN TRUE ELSE IF f = "axt01" THEN nd = 2 ELSE AxisIdx(f, nd) \in 1..nd
\* property side: how many elements of the array every element of the result combines (what NumPy computes)
TrueCount(op, f, sh) ==
  LET d == ShapeDims(sh)  ix == AxisIdx(f, Len(d)) IN
  IF ix # 0 THEN d[ix]
  ELSE IF f = "function" /\ op \in UfuncReduce \cup UfuncAccum \cup ReduceAt THEN d[1]     \* a ufunc method without axis= works along axis 0
  ELSE ShapeSize(sh)                                                                   \* axis=None, all axes, prod/cumprod without axis=
Combines(c) == IF c.op \in RedLike THEN TrueCount(c.op, c.form, c.shape) >= 2 ELSE TRUE
\* implementation side: _apply_power_mapping raises the unit to power_map(n) with n = the length of the axis when axis= is
\* an integer, else the SIZE of the array (a tuple of axes is not understood); the np.prod / np.nanprod handlers count a.size // res.size
CodeCount(op, f, sh) ==
  LET d == ShapeDims(sh)  ix == AxisIdx(f, Len(d)) IN
  IF op \in {"prod", "nanprod"} THEN TrueCount(op, f, sh) ELSE IF ix # 0 THEN d[ix] ELSE ShapeSize(sh)
CodeExp(op, f, sh) == IF DivLike(op) THEN 2 - CodeCount(op, f, sh) ELSE CodeCount(op, f, sh)
RedLikeOutcome(c) ==
  LET op == c.op  u == c.u0 IN
  CASE op \in CumProds -> Raise("UnytError")                                         \* refused for every unit
    [] op \in UfuncAccum \cup {"fdiv_reduce"} -> Raise("TypeError")                   \* the binary unit rule called with one unit
    [] op \in ReduceAt -> IF HasOff(u) THEN Raise("InvalidUnitOperation") ELSE Opaque("product")   \* binary branch: (array, indices)
    [] c.form = "axt01" /\ op \notin {"prod", "nanprod"} -> Raise("TypeError")                          \* in_shape[(0, 1)]
    [] OTHER -> IF HasOff(u) /\ CodeExp(op, c.form, c.shape) # 1 THEN Raise("InvalidUnitOperation") ELSE Opaque("power")   \* Unit.__pow__
RefOutcome(c) ==
  LET op == c.op  u == c.u0  part == c.part IN
  CASE op \in UfuncProducts -> IF HasOff(u) THEN Raise("InvalidUnitOperation") ELSE Opaque("product")
    [] op \in FuncProducts -> IF HasOff(u) /\ ~UnitlessPart(part) THEN Raise("InvalidUnitOperation") ELSE Opaque("product")
    [] op \in AtOps -> Raise("RuntimeError")
    [] op = "divmod" -> Opaque("passthrough")                                   \* _passthrough_unit: no guard at all
    [] op \in RedLike -> RedLikeOutcome(c)
    [] OTHER -> IF HasOff(u) THEN Raise("InvalidUnitOperation") ELSE Opaque("power")   \* unit * unit / Unit.__pow__ guards

(* ---------------- chains of conversion routes on the SAME source object ---------------- *)
\* c.chain = <<[r, v], ...>>: every route is applied to the source x (unit c.u0, readings X(c, 0)), except
\* "prev_iadd", which adds 1 in place to the previous step's result.  Every conversion route copies
\* ("cconvert*" = convert_to_units / convert_to_base on x.copy()), so after every step the source must still
\* denote the same readings, and every result is the affine image of those readings.
ConvRoutesV == {"to", "in_units", "to_value", "cconvert"}                               \* explicit target s.v
ConvRoutesK == {"in_base_mks", "in_base_cgs", "in_mks", "in_cgs", "cconvert_base", "cconvert_mks", "cconvert_cgs"}   \* base unit kelvin
ConvRoutesR == {"in_base_imperial", "cconvert_base_imperial"}                           \* base unit rankine
IsConvRoute(r) == r \in ConvRoutesV \cup ConvRoutesK \cup ConvRoutesR
RouteTarget(s) == IF s.r \in ConvRoutesV THEN s.v ELSE IF s.r \in ConvRoutesR THEN U("R", "") ELSE U("K", "")
AsAdd(c, s) == [c EXCEPT !.fam = "bin", !.op = "add", !.form = "operator", !.u1 = s.v]
RECURSIVE StepModel(_, _)
StepModel(c, i) ==
  LET s == c.chain[i] IN
  IF IsConvRoute(s.r) THEN Val(RouteTarget(s), Map1(LAMBDA x : AffIn(x, c.u0, RouteTarget(s)), X(c, 0)))
  ELSE IF s.r = "add_diff" THEN BinOutcome("add", c.u0, s.v, X(c, 0), X(c, 1))
  ELSE LET p == StepModel(c, i - 1) IN Val(p.unit, Map1(LAMBDA x : TAdd(x, R(1)), p.v))      \* prev_iadd
ChainOutcome(c) == [k |-> "chain", exc |-> "", unit |-> U("", ""), v |-> <<>>, k10 |-> 0,
                    steps |-> [i \in DOMAIN c.chain |-> StepModel(c, i)]]

(* ---------------- one case ---------------- *)
\* c.fam in {"conv", "bin", "red", "ref", "chain"}; fields: op, form, u0, u1, rs (reading set), shape, part (partner kind of "ref"), chain, dt
Outcome(c) ==
  CASE c.fam = "conv" -> [k |-> "val", exc |-> "", unit |-> c.u1, v |-> Map1(LAMBDA x : AffMant(x, c.u0, c.u1), X(c, 0)), k10 |-> AffK10(c.u0, c.u1)]
    [] c.fam = "bin" -> BinOutcome(c.op, c.u0, c.u1, X(c, 0), X(c, 1))
    [] c.fam = "red" -> RedOutcome(c.op, c.u0, X(c, 0))
    [] c.fam = "ref" -> RefOutcome(c)
    [] c.fam = "chain" -> ChainOutcome(c)

(* ---------------- C08: what the property demands of an observed outcome ---------------- *)
\* obs = [k, exc, unit, v] as above; obs.unit = U("?", text) when the label is not a unit of the alphabet
KnownUnit(u) == u.base \in Bases /\ u.pfx \in AllPrefixes /\ (u.pfx = "" \/ Prefixable(u.base))
\* expected readings of a returning add/subtract, on the scale of the unit the result is labelled with
BinInScope(op, u0, u1) == IF op = "add" THEN ~(IsPoint(u0) /\ IsPoint(u1)) ELSE ~(~IsPoint(u0) /\ IsPoint(u1))
BinWantPoint(op, u0, u1) == IF op = "add" THEN (IsPoint(u0) \/ IsPoint(u1)) ELSE (IsPoint(u0) /\ ~IsPoint(u1))
\* an operand as a reading on the label's scale: points through the affine map, differences through the ratio
OperandIn(x, u, r) == IF IsPoint(u) /\ IsPoint(r) THEN AffIn(x, u, r) ELSE DiffIn(x, u, r)
BinExpect(op, u0, u1, x0, x1, r) ==
  [i \in DOMAIN x0 |-> IF op = "add" THEN TAdd(OperandIn(x0[i], u0, r), OperandIn(x1[i], u1, r))
                       ELSE TSub(OperandIn(x0[i], u0, r), OperandIn(x1[i], u1, r))]
\* clause names: "" = holds
PConv(c, obs) ==
  IF obs.k # "val" THEN "conversion-refused"
  ELSE IF obs.unit # c.u1 THEN "conversion-label"
  ELSE IF obs.v # Map1(LAMBDA x : AffMant(x, c.u0, c.u1), X(c, 0)) THEN "affine-map"
  ELSE ""
PBin(c, obs) ==
  LET u0 == c.u0  u1 == c.u1 IN
  IF MixedOffset(u0, u1) THEN (IF obs.k = "raise" THEN "" ELSE "mixed-offset-scales-returned")
  ELSE IF obs.k = "raise" \/ c.op \notin {"add", "subtract"} \/ ~BinInScope(c.op, u0, u1) THEN ""
  ELSE IF obs.k # "val" \/ ~KnownUnit(obs.unit) THEN "undecided-label"
  ELSE IF IsPoint(obs.unit) # BinWantPoint(c.op, u0, u1) THEN "result-kind"
  ELSE IF obs.v # BinExpect(c.op, u0, u1, X(c, 0), X(c, 1), obs.unit) THEN "affine-value"
  ELSE ""
PRed(c, obs) ==
  IF obs.k = "raise" THEN ""
  ELSE IF obs.k # "val" \/ ~KnownUnit(obs.unit) THEN "undecided-label"
  ELSE IF IsPoint(obs.unit) THEN "result-kind"
  ELSE IF obs.v # Map1(LAMBDA d : DiffIn(d, c.u0, obs.unit), RedDeltas(c.op, X(c, 0))) THEN "affine-value"
  ELSE ""
\* a repeated product / quotient over ONE element is that element: nothing was multiplied or divided, nothing is demanded
PRef(c, obs) == IF HasOff(c.u0) /\ Combines(c) /\ obs.k # "raise" THEN "offset-scale-not-refused" ELSE ""
\* one step of a chain: o = [k, exc, unit, v, srcunit, srcv] (result of the step, then what the source holds afterwards)
StepClause(c, i, o) ==
  LET s == c.chain[i] IN
  IF o.srcunit # c.u0 \/ o.srcv # X(c, 0) THEN "source-reading-changed"
  ELSE IF IsConvRoute(s.r) THEN
       (IF o.k # "val" THEN "conversion-refused"
        ELSE IF o.unit # RouteTarget(s) THEN "conversion-label"
        ELSE IF o.v # StepModel(c, i).v THEN "affine-map" ELSE "")
  ELSE IF s.r = "add_diff" THEN PBin(AsAdd(c, s), o)
  ELSE ""
BadSteps(c, obs) == {i \in DOMAIN c.chain : StepClause(c, i, obs.steps[i]) # ""}
FirstBad(c, obs) == IF BadSteps(c, obs) = {} THEN 0 ELSE CHOOSE i \in BadSteps(c, obs) : \A j \in BadSteps(c, obs) : i <= j
PChain(c, obs) == IF FirstBad(c, obs) = 0 THEN "" ELSE StepClause(c, FirstBad(c, obs), obs.steps[FirstBad(c, obs)])
P(c, obs) == CASE c.fam = "conv" -> PConv(c, obs)
               [] c.fam = "bin" -> PBin(c, obs)
               [] c.fam = "red" -> PRed(c, obs)
               [] c.fam = "ref" -> PRef(c, obs)
               [] c.fam = "chain" -> PChain(c, obs)
\* The transcription after the repairs proposed in fixes/C08-*.patch (so that the check is silent on either tree):
\*  _preserve_units returns the factor s_left/s_right when it picks the right operand's unit; diff_helper keeps the
\*  array's own offset-free unit; Unit.__pow__ refuses units with an offset.
PowOps == RefUn \ ({"square", "pow2"} \cup RedLike)
FixedOutcome(c) ==
  CASE c.fam = "bin" /\ Rule(c.op) = "preserve" ->
         LET t == Outcome(c) IN
         IF t.k = "val" /\ ~HasOff(c.u0) /\ HasOff(c.u1) THEN Val(t.unit, Map1(LAMBDA x : TMul(x, Ratio(c.u0, c.u1)), t.v)) ELSE t
    [] c.fam = "red" /\ c.op # "gradient" ->
         IF HasOff(c.u0) THEN Raise("InvalidUnitOperation") ELSE Val(c.u0, RedDeltas(c.op, X(c, 0)))
    [] c.fam = "ref" /\ c.op \in PowOps -> IF HasOff(c.u0) THEN Raise("InvalidUnitOperation") ELSE Opaque("power")
    [] c.fam = "ref" /\ c.op \in FuncProducts -> IF HasOff(c.u0) THEN Raise("InvalidUnitOperation") ELSE Opaque("product")   \* fixes/C08-array-function-products-refuse-offset
    [] OTHER -> Outcome(c)
\* T: does the observation agree with the transcription (exception class included)?
Matches(t, obs) ==
  /\ obs.k = t.k
  /\ (t.k = "raise" => obs.exc = t.exc)
  /\ (t.k \in {"val", "bool"} /\ t.unit.base # "?" => obs.unit = t.unit /\ obs.v = t.v)
ChainTOk(c, obs) == \A i \in DOMAIN c.chain :
  LET s == c.chain[i]  o == obs.steps[i] IN
  IF s.r = "add_diff" THEN Matches(StepModel(c, i), o) \/ Matches(FixedOutcome(AsAdd(c, s)), o)
  ELSE Matches(StepModel(c, i), o)
TOk(c, obs) == IF c.fam = "chain" THEN ChainTOk(c, obs) ELSE Matches(Outcome(c), obs) \/ Matches(FixedOutcome(c), obs)

\* values the harness may snap an observed float to: the transcription's and the property's for every plausible label
Labels(c) == {c.u0, c.u1, U("delta_degC", ""), U("delta_degF", ""), U("K", "")}
\* 32-bit head-room: the second reading set (300, 1/4, ...) only with decimal exponents within 3 of each other
ExpLim(rs) == IF rs = 1 THEN 6 ELSE 3
SeqSet(s) == {s[i] : i \in DOMAIN s}
RECURSIVE Cands(_)
Cands(c) ==
  IF c.fam = "chain" THEN
     SeqSet(X(c, 0)) \cup UNION {SeqSet(StepModel(c, i).v) : i \in DOMAIN c.chain}
                    \cup UNION {Cands(AsAdd(c, c.chain[i])) : i \in {j \in DOMAIN c.chain : c.chain[j].r = "add_diff"}}
  ELSE
  LET t == Outcome(c) IN
  SeqSet(t.v) \cup SeqSet(FixedOutcome(c).v) \cup
  (CASE c.fam = "bin" /\ c.op \in {"add", "subtract"} /\ ~MixedOffset(c.u0, c.u1) ->
          UNION {SeqSet(BinExpect(c.op, c.u0, c.u1, X(c, 0), X(c, 1), r)) : r \in {l \in Labels(c) : TAbs(E10(l) - E10(c.u0)) <= ExpLim(c.rs) /\ TAbs(E10(l) - E10(c.u1)) <= ExpLim(c.rs)}}
     [] c.fam = "red" -> UNION {SeqSet(Map1(LAMBDA d : DiffIn(d, c.u0, r), RedDeltas(c.op, X(c, 0)))) : r \in {l \in Labels(c) : TAbs(E10(l) - E10(c.u0)) <= ExpLim(c.rs)}}
     [] OTHER -> {})
=============================================================================
