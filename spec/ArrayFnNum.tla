---------------------------- MODULE ArrayFnNum ----------------------------
(* C06 - NumPy functions compute the same numbers on quantities as on bare   *)
(* arrays.                                                                    *)
(*                                                                            *)
(* Part A  exact semantics of the structural NumPy functions (data movement   *)
(*         and rational arithmetic) on arrays of small rationals, rank <= 2   *)
(*         (3 for stacking): TLC computes the expected numbers itself.        *)
(*         Handler(F) = Rewrap(Own(F)_impl(Strip(args))): the transition of a *)
(*         wrapper is the semantics of the routine it forwards to (Own); the  *)
(*         property side is the semantics of the function NAMED by the call.  *)
(* Part B  catalogue of call templates (function -> class -> templates) for   *)
(*         the differential layer and the C06 predicates on the projected     *)
(*         observations (NumPy on the stripped data is the oracle there).     *)
(* An array is [sh |-> <<d1..dk>>, v |-> row-major sequence of rationals].    *)
EXTENDS Rational, Sequences, FiniteSets, TLC

\* ------------------------------------------------------------------ sequences
\* Rational!RDiv normalises with GCD(n, d) and needs a positive divisor
RDivS(a, b) == IF b[1] < 0 THEN RDiv(RNeg(a), RNeg(b)) ELSE RDiv(a, b)
RECURSIVE SeqSum(_), SeqProd(_), IProd(_), SeqMax(_), SeqMin(_)
SeqSum(s) == IF s = <<>> THEN RZero ELSE RAdd(Head(s), SeqSum(Tail(s)))
SeqProd(s) == IF s = <<>> THEN ROne ELSE RMul(Head(s), SeqProd(Tail(s)))
IProd(s) == IF s = <<>> THEN 1 ELSE Head(s) * IProd(Tail(s))
SeqMax(s) == IF Len(s) = 1 THEN s[1] ELSE RMax(Head(s), SeqMax(Tail(s)))
SeqMin(s) == IF Len(s) = 1 THEN s[1] ELSE RMin(Head(s), SeqMin(Tail(s)))
Rev(s) == [k \in 1..Len(s) |-> s[Len(s) + 1 - k]]
CumSumSeq(s) == [k \in 1..Len(s) |-> SeqSum(SubSeq(s, 1, k))]
DiffSeq(s) == [k \in 1..(Len(s) - 1) |-> RSub(s[k + 1], s[k])]
RECURSIVE InsSorted(_, _), RSort(_)
InsSorted(x, s) == IF s = <<>> THEN <<x>> ELSE IF RLe(x, Head(s)) THEN <<x>> \o s ELSE <<Head(s)>> \o InsSorted(x, Tail(s))
RSort(s) == IF s = <<>> THEN <<>> ELSE InsSorted(Head(s), RSort(Tail(s)))
\* stable argsort: position of element k = #(smaller) + #(equal with smaller index)
RankOf(s, k) == Cardinality({j \in 1..Len(s) : RLt(s[j], s[k]) \/ (REq(s[j], s[k]) /\ j < k)}) + 1
ArgSortSeq(s) == [r \in 1..Len(s) |-> CHOOSE k \in 1..Len(s) : RankOf(s, k) = r]
RECURSIVE Uniq(_)
Uniq(s) == IF Len(s) <= 1 THEN s ELSE IF REq(s[1], s[2]) THEN Uniq(Tail(s)) ELSE <<s[1]>> \o Uniq(Tail(s))
Member(x, s) == \E k \in 1..Len(s) : REq(s[k], x)
RECURSIVE Filter(_, _)
Filter(s, keep) == IF s = <<>> THEN <<>> ELSE (IF keep[1] THEN <<Head(s)>> ELSE <<>>) \o Filter(Tail(s), Tail(keep))
RECURSIVE Flatten(_)
Flatten(ss) == IF ss = <<>> THEN <<>> ELSE Head(ss) \o Flatten(Tail(ss))
Const(n, x) == [k \in 1..n |-> x]
I2R(s) == [k \in 1..Len(s) |-> R(s[k])]

\* ------------------------------------------------------------------ arrays
A0(x) == [sh |-> <<>>, v |-> <<x>>]
A1(v) == [sh |-> <<Len(v)>>, v |-> v]
Rk(A) == Len(A.sh)
Mk2(r, c, F(_, _)) == [sh |-> <<r, c>>, v |-> [k \in 1..(r * c) |-> F(((k - 1) \div c) + 1, ((k - 1) % c) + 1)]]
Mk3(a, b, c, F(_, _, _)) == [sh |-> <<a, b, c>>,
   v |-> [k \in 1..(a * b * c) |-> F(((k - 1) \div (b * c)) + 1, (((k - 1) \div c) % b) + 1, ((k - 1) % c) + 1)]]
At2(A, i, j) == A.v[(i - 1) * A.sh[2] + j]
Row(A, i) == [j \in 1..A.sh[2] |-> At2(A, i, j)]
Col(A, j) == [i \in 1..A.sh[1] |-> At2(A, i, j)]
Ravel(A) == A1(A.v)
AL1(A) == IF Rk(A) = 0 THEN [sh |-> <<1>>, v |-> A.v] ELSE A
AL2(A) == IF Rk(A) = 0 THEN [sh |-> <<1, 1>>, v |-> A.v] ELSE IF Rk(A) = 1 THEN [sh |-> <<1, A.sh[1]>>, v |-> A.v] ELSE A
AL3Sh(A) == IF Rk(A) = 0 THEN <<1, 1>> ELSE IF Rk(A) = 1 THEN <<1, A.sh[1]>> ELSE A.sh
Transpose(A) == Mk2(A.sh[2], A.sh[1], LAMBDA i, j : At2(A, j, i))
\* reduce a 2-d array along an axis with a sequence function
RedAx(A, ax, F(_)) == IF ax = 0 THEN A1([j \in 1..A.sh[2] |-> F(Col(A, j))]) ELSE A1([i \in 1..A.sh[1] |-> F(Row(A, i))])
\* map a sequence->sequence function along an axis of a 2-d array (length-preserving or not)
MapAx(A, ax, F(_)) ==
  IF ax = 1 THEN LET rows == [i \in 1..A.sh[1] |-> F(Row(A, i))] IN
                 [sh |-> <<A.sh[1], IF A.sh[1] = 0 THEN 0 ELSE Len(rows[1])>>, v |-> Flatten(rows)]
  ELSE LET cols == [j \in 1..A.sh[2] |-> F(Col(A, j))]
           n == IF A.sh[2] = 0 THEN 0 ELSE Len(cols[1]) IN
       Mk2(n, A.sh[2], LAMBDA i, j : cols[j][i])

\* ------------------------------------------------------------------ joining
Cat0(A, B) == IF Rk(A) = 1 THEN A1(A.v \o B.v) ELSE [sh |-> <<A.sh[1] + B.sh[1], A.sh[2]>>, v |-> A.v \o B.v]
Cat1(A, B) == Mk2(A.sh[1], A.sh[2] + B.sh[2], LAMBDA i, j : IF j <= A.sh[2] THEN At2(A, i, j) ELSE At2(B, i, j - A.sh[2]))
RECURSIVE Fold(_, _, _)
Fold(Op(_, _), acc, s) == IF s = <<>> THEN acc ELSE Fold(Op, Op(acc, Head(s)), Tail(s))
CatAll(s, ax) == IF ax = 0 THEN Fold(Cat0, Head(s), Tail(s)) ELSE Fold(Cat1, Head(s), Tail(s))
MapSeq(s, F(_)) == [k \in 1..Len(s) |-> F(s[k])]
\* element e of every input side by side: new LAST axis of length k
Interleave(s, sh) == [sh |-> sh \o <<Len(s)>>, v |-> [q \in 1..(Len(s[1].v) * Len(s)) |-> s[((q - 1) % Len(s)) + 1].v[((q - 1) \div Len(s)) + 1]]]
VStack(s) == CatAll(MapSeq(s, AL2), 0)
HStack(s) == IF Rk(AL1(s[1])) = 1 THEN CatAll(MapSeq(s, AL1), 0) ELSE CatAll(s, 1)
DStack(s) == Interleave(s, AL3Sh(s[1]))
ColumnStack(s) == IF Rk(s[1]) = 2 THEN CatAll(s, 1) ELSE Interleave(s, <<Len(s[1].v)>>)
Stack(s, ax) ==   \* ax: 0 = first, 9 = last, 1 = middle (2-d inputs)
  IF ax = 0 THEN [sh |-> <<Len(s)>> \o s[1].sh, v |-> Flatten(MapSeq(s, LAMBDA A : A.v))]
  ELSE IF ax = 9 \/ Rk(s[1]) = 1 THEN Interleave(s, s[1].sh)
  ELSE Mk3(s[1].sh[1], Len(s), s[1].sh[2], LAMBDA i, m, j : At2(s[m], i, j))

\* ------------------------------------------------------------------ element selection
IsT(x) == x[1] # 0
Where3(C, X, Y) == [sh |-> X.sh, v |-> [k \in 1..Len(X.v) |-> IF IsT(C.v[k]) THEN X.v[k] ELSE Y.v[k]]]
Choose(ix, ch) == [sh |-> ix.sh, v |-> [k \in 1..Len(ix.v) |-> ch[ix.v[k][1] + 1].v[k]]]
Select2(c1, c2, x1, x2, d) == [sh |-> x1.sh, v |-> [k \in 1..Len(x1.v) |-> IF IsT(c1.v[k]) THEN x1.v[k] ELSE IF IsT(c2.v[k]) THEN x2.v[k] ELSE d]]
Clip(A, lo, hi) == [sh |-> A.sh, v |-> [k \in 1..Len(A.v) |-> RMin(RMax(A.v[k], lo), hi)]]
Take1(A, ix) == A1([k \in 1..Len(ix) |-> A.v[ix[k] + 1]])
Take2(A, ix, ax) == IF ax = 0 THEN Mk2(Len(ix), A.sh[2], LAMBDA i, j : At2(A, ix[i] + 1, j))
                    ELSE Mk2(A.sh[1], Len(ix), LAMBDA i, j : At2(A, i, ix[j] + 1))
Insert1(A, pos, x) == A1(SubSeq(A.v, 1, pos) \o <<x>> \o SubSeq(A.v, pos + 1, Len(A.v)))
Delete1(A, pos) == A1(SubSeq(A.v, 1, pos) \o SubSeq(A.v, pos + 2, Len(A.v)))
Pad1(A, l, r, x) == A1(Const(l, x) \o A.v \o Const(r, x))
Pad2(A, l, r, x) == Mk2(A.sh[1] + l + r, A.sh[2] + l + r,
   LAMBDA i, j : IF i > l /\ i <= l + A.sh[1] /\ j > l /\ j <= l + A.sh[2] THEN At2(A, i - l, j - l) ELSE x)
Triu(A, k) == Mk2(A.sh[1], A.sh[2], LAMBDA i, j : IF j - i >= k THEN At2(A, i, j) ELSE RZero)
Tril(A, k) == Mk2(A.sh[1], A.sh[2], LAMBDA i, j : IF j - i <= k THEN At2(A, i, j) ELSE RZero)
Flip1(A) == A1(Rev(A.v))
Roll1(A, s) == A1([k \in 1..Len(A.v) |-> A.v[((k - 1 - s) % Len(A.v)) + 1]])
Repeat1(A, n) == A1([k \in 1..(Len(A.v) * n) |-> A.v[((k - 1) \div n) + 1]])
Tile1(A, n) == A1([k \in 1..(Len(A.v) * n) |-> A.v[((k - 1) % Len(A.v)) + 1]])
Rot90(A) == Mk2(A.sh[2], A.sh[1], LAMBDA i, j : At2(A, j, A.sh[2] + 1 - i))

\* ------------------------------------------------------------------ arithmetic
RECURSIVE DiffN(_, _)
DiffN(s, n) == IF n = 0 THEN s ELSE DiffN(DiffSeq(s), n - 1)
Trace(A, off) == SeqSum([i \in 1..(IF off >= 0 THEN (IF A.sh[2] - off < A.sh[1] THEN (IF A.sh[2] - off < 0 THEN 0 ELSE A.sh[2] - off) ELSE A.sh[1])
                                      ELSE (IF A.sh[1] + off < A.sh[2] THEN (IF A.sh[1] + off < 0 THEN 0 ELSE A.sh[1] + off) ELSE A.sh[2]))
                          |-> IF off >= 0 THEN At2(A, i, i + off) ELSE At2(A, i - off, i)])
Mean(s) == RDivS(SeqSum(s), R(Len(s)))
Ptp(s) == RSub(SeqMax(s), SeqMin(s))
Dot11(a, b) == SeqSum([k \in 1..Len(a) |-> RMul(a[k], b[k])])
MatMul(A, B) == Mk2(A.sh[1], B.sh[2], LAMBDA i, j : Dot11(Row(A, i), Col(B, j)))
MatVec(A, b) == A1([i \in 1..A.sh[1] |-> Dot11(Row(A, i), b.v)])
VecMat(a, B) == A1([j \in 1..B.sh[2] |-> Dot11(a.v, Col(B, j))])
Inner22(A, B) == Mk2(A.sh[1], B.sh[1], LAMBDA i, j : Dot11(Row(A, i), Row(B, j)))
Outer(a, b) == Mk2(Len(a.v), Len(b.v), LAMBDA i, j : RMul(a.v[i], b.v[j]))
Kron1(a, b) == A1(Outer(a, b).v)
Kron2(A, B) == Mk2(A.sh[1] * B.sh[1], A.sh[2] * B.sh[2],
   LAMBDA i, j : RMul(At2(A, ((i - 1) \div B.sh[1]) + 1, ((j - 1) \div B.sh[2]) + 1), At2(B, ((i - 1) % B.sh[1]) + 1, ((j - 1) % B.sh[2]) + 1)))
Cross3(a, b) == A1(<<RSub(RMul(a.v[2], b.v[3]), RMul(a.v[3], b.v[2])), RSub(RMul(a.v[3], b.v[1]), RMul(a.v[1], b.v[3])),
                     RSub(RMul(a.v[1], b.v[2]), RMul(a.v[2], b.v[1]))>>)
ConvFull(a, b) == [k \in 1..(Len(a) + Len(b) - 1) |->
   SeqSum([i \in 1..Len(a) |-> IF k - i + 1 >= 1 /\ k - i + 1 <= Len(b) THEN RMul(a[i], b[k - i + 1]) ELSE RZero])]
\* Len(a) >= Len(b) assumed for "same" / "valid"
Convolve(a, b, mode) ==
  LET f == ConvFull(a, b) n == Len(a) m == Len(b) IN
  IF mode = "full" THEN f ELSE IF mode = "same" THEN SubSeq(f, ((m - 1) \div 2) + 1, ((m - 1) \div 2) + n) ELSE SubSeq(f, m, n)
Correlate(a, b, mode) == Convolve(a, Rev(b), mode)
Trapz(y, d) == SeqSum([k \in 1..(Len(y) - 1) |-> RDivS(RMul(d[k], RAdd(y[k + 1], y[k])), R(2))])
\* np.interp on increasing xp
Interp1(x, xp, fp) ==
  IF RLt(x, xp[1]) THEN fp[1] ELSE IF RLe(xp[Len(xp)], x) THEN fp[Len(fp)]
  ELSE LET j == CHOOSE q \in 1..(Len(xp) - 1) : RLe(xp[q], x) /\ RLt(x, xp[q + 1]) IN
       RAdd(RMul(RDivS(RSub(fp[j + 1], fp[j]), RSub(xp[j + 1], xp[j])), RSub(x, xp[j])), fp[j])
SearchSorted(a, x, side) == Cardinality({k \in 1..Len(a) : IF side = "left" THEN RLt(a[k], x) ELSE RLe(a[k], x)})
\* histogram counts for explicit increasing edges (last bin closed)
HistCount(x, e) == [b \in 1..(Len(e) - 1) |->
   R(Cardinality({k \in 1..Len(x) : RLe(e[b], x[k]) /\ (IF b = Len(e) - 1 THEN RLe(x[k], e[b + 1]) ELSE RLt(x[k], e[b + 1]))}))]
Det2(A) == RSub(RMul(A.v[1], A.v[4]), RMul(A.v[2], A.v[3]))
Inv2(A) == LET d == Det2(A) IN [sh |-> <<2, 2>>, v |-> <<RDivS(A.v[4], d), RDivS(RNeg(A.v[2]), d), RDivS(RNeg(A.v[3]), d), RDivS(A.v[1], d)>>]
IsPow2(n) == n \in {1, 2, 4, 8, 16}
IsPow2R(x) == x[1] # 0 /\ IsPow2(IF x[1] < 0 THEN -x[1] ELSE x[1]) /\ IsPow2(x[2])
\* LAPACK's LU with partial pivoting is exact in binary floating point when both candidate pivots and the
\* determinant are powers of two (all quotients are then exact)
ExactLU(A) == IsPow2R(A.v[1]) /\ IsPow2R(A.v[3]) /\ IsPow2R(Det2(A))

\* ------------------------------------------------------------------ closeness / equality tests
\* numpy.isclose on finite numbers: |a - b| <= atol + rtol * |b|.  The relative tolerance is taken from the SECOND
\* operand: the test is NOT symmetric, so which operand is handed to NumPy first is part of the computation.
CloseTo(x, y, rt, at) == RLe(RAbs(RSub(x, y)), RAdd(at, RMul(rt, RAbs(y))))
\* broadcasting of the pairs the instance generates: equal shapes, or one operand 0-d
BAt(X, k) == IF Len(X.v) = 1 THEN X.v[1] ELSE X.v[k]
BSh(X, Y) == IF Rk(X) >= Rk(Y) THEN X.sh ELSE Y.sh
BLen(X, Y) == IF Len(X.v) >= Len(Y.v) THEN Len(X.v) ELSE Len(Y.v)
RBool(b) == IF b THEN ROne ELSE RZero
IsCloseArr(X, Y, rt, at) == [sh |-> BSh(X, Y), v |-> [k \in 1..BLen(X, Y) |-> RBool(CloseTo(BAt(X, k), BAt(Y, k), rt, at))]]
AllTrue(B) == A0(RBool(\A k \in 1..Len(B.v) : B.v[k] = ROne))
EqArr(X, Y) == [sh |-> BSh(X, Y), v |-> [k \in 1..BLen(X, Y) |-> RBool(REq(BAt(X, k), BAt(Y, k)))]]
\* The pair of operands unyt hands to NumPy, as transcribed from _array_comp_helper (_array_functions.py:578-588):
\* uc = who carries units ("q" quantity, "b" bare ndarray, "l" Python list / number, "d" dimensionless unyt_array).
\* Three branches: both carry units -> second converted to the first's (same unit here: identity); second without
\* units -> it adopts the first's; first without units -> it adopts the second's.  The ORDER is never changed.
Unitless(k) == k \in {"b", "l", "d"}
CompOperands(a, uc) == IF ~Unitless(uc[1]) /\ ~Unitless(uc[2]) THEN <<a[1], a[2]>>
                       ELSE IF Unitless(uc[2]) THEN <<a[1], a[2]>> ELSE <<a[1], a[2]>>
\* p = <<rtol numerator, rtol denominator, atol numerator, atol denominator>>
CmpFn(fn, x, y, p) == CASE fn = "isclose" -> IsCloseArr(x, y, <<p[1], p[2]>>, <<p[3], p[4]>>)
                        [] fn = "allclose" -> AllTrue(IsCloseArr(x, y, <<p[1], p[2]>>, <<p[3], p[4]>>))
                        [] fn = "array_equal" -> A0(RBool(x.sh = y.sh /\ \A k \in 1..Len(x.v) : REq(x.v[k], y.v[k])))
                        [] fn = "array_equiv" -> AllTrue(EqArr(x, y))
CmpFns == {"isclose", "allclose", "array_equal", "array_equiv"}
\* would the answer change if the two operands were handed over in the other order? (model-level: which cases are
\* sensitive to an operand swap - the instance must contain such cases for every carrier pattern)
SwapSensitive(fn, a, p) == CmpFn(fn, a[1], a[2], p) # CmpFn(fn, a[2], a[1], p)

\* ------------------------------------------------------------------ the structural functions
\* c = [fn, t, a (arrays), ia (integer sequences / arrays), p (integers), s (strings)]; result: sequence of arrays
Own(fn, fixes) == IF fn = "hstack" /\ "hstack" \notin fixes THEN "vstack" ELSE fn   \* _array_functions.py:436 forwards hstack to vstack

EvalFn(fn, c) ==
  LET a == c.a ia == c.ia p == c.p A == c.a[1] IN
  CASE fn = "concatenate" -> <<IF c.t = "axnone" THEN A1(Flatten(MapSeq(a, LAMBDA X : X.v))) ELSE CatAll(a, p[1])>>
    [] fn = "vstack" -> <<VStack(a)>>
    [] fn = "hstack" -> <<HStack(a)>>
    [] fn = "dstack" -> <<DStack(a)>>
    [] fn = "column_stack" -> <<ColumnStack(a)>>
    [] fn = "stack" -> <<Stack(a, p[1])>>
    [] fn = "block" -> <<IF c.t = "flat" THEN CatAll(a, 0) ELSE Cat0(Cat1(a[1], a[2]), Cat1(a[3], a[4]))>>
    [] fn = "append" -> <<A1(a[1].v \o a[2].v)>>
    [] fn = "where" -> <<Where3(ia[1], a[1], a[2])>>
    [] fn = "choose" -> <<Choose(ia[1], a)>>
    [] fn = "select" -> <<Select2(ia[1], ia[2], a[1], a[2], a[3].v[1])>>
    [] fn = "clip" -> <<Clip(A, a[2].v[1], a[3].v[1])>>
    [] fn = "take" -> <<IF Rk(A) = 1 THEN Take1(A, ia[1]) ELSE Take2(A, ia[1], p[1])>>
    [] fn = "insert" -> <<Insert1(A, p[1], a[2].v[1])>>
    [] fn = "delete" -> <<Delete1(A, p[1])>>
    [] fn = "pad" -> <<IF Rk(A) = 1 THEN Pad1(A, p[1], p[2], a[2].v[1]) ELSE Pad2(A, p[1], p[2], a[2].v[1])>>
    [] fn = "triu" -> <<Triu(A, p[1])>>
    [] fn = "tril" -> <<Tril(A, p[1])>>
    [] fn = "diff" -> <<IF Rk(A) = 1 THEN A1(DiffN(A.v, p[1])) ELSE MapAx(A, p[2], LAMBDA s : DiffN(s, p[1]))>>
    [] fn = "ediff1d" -> <<A1(DiffSeq(A.v))>>
    [] fn = "ptp" -> <<IF c.t = "all" THEN A0(Ptp(A.v)) ELSE RedAx(A, p[1], Ptp)>>
    [] fn = "trace" -> <<A0(Trace(A, p[1]))>>
    [] fn = "sum" -> <<IF c.t = "all" THEN A0(SeqSum(A.v)) ELSE RedAx(A, p[1], SeqSum)>>
    [] fn = "prod" -> <<IF c.t = "all" THEN A0(SeqProd(A.v)) ELSE RedAx(A, p[1], SeqProd)>>
    [] fn = "max" -> <<IF c.t = "all" THEN A0(SeqMax(A.v)) ELSE RedAx(A, p[1], SeqMax)>>
    [] fn = "min" -> <<IF c.t = "all" THEN A0(SeqMin(A.v)) ELSE RedAx(A, p[1], SeqMin)>>
    [] fn = "mean" -> <<IF c.t = "all" THEN A0(Mean(A.v)) ELSE RedAx(A, p[1], Mean)>>
    [] fn = "cumsum" -> <<IF c.t = "all" THEN A1(CumSumSeq(A.v)) ELSE MapAx(A, p[1], CumSumSeq)>>
    [] fn = "dot" -> <<IF Rk(A) = 1 /\ Rk(a[2]) = 1 THEN A0(Dot11(A.v, a[2].v)) ELSE IF Rk(A) = 2 /\ Rk(a[2]) = 1 THEN MatVec(A, a[2])
                        ELSE IF Rk(A) = 1 THEN VecMat(A, a[2]) ELSE MatMul(A, a[2])>>
    [] fn = "vdot" -> <<A0(Dot11(A.v, a[2].v))>>
    [] fn = "inner" -> <<IF Rk(A) = 1 THEN A0(Dot11(A.v, a[2].v)) ELSE Inner22(A, a[2])>>
    [] fn = "outer" -> <<Outer(Ravel(A), Ravel(a[2]))>>
    [] fn = "kron" -> <<IF Rk(A) = 1 THEN Kron1(A, a[2]) ELSE Kron2(A, a[2])>>
    [] fn = "cross" -> <<Cross3(A, a[2])>>
    [] fn = "tensordot" -> <<IF p[1] = 0 THEN [sh |-> A.sh \o a[2].sh, v |-> Outer(Ravel(A), Ravel(a[2])).v]
                              ELSE IF p[1] = 1 THEN MatMul(A, a[2]) ELSE A0(Dot11(A.v, a[2].v))>>
    [] fn = "convolve" -> <<A1(Convolve(A.v, a[2].v, c.s[1]))>>
    [] fn = "correlate" -> <<A1(Correlate(A.v, a[2].v, c.s[1]))>>
    [] fn = "union1d" -> <<A1(Uniq(RSort(A.v \o a[2].v)))>>
    [] fn = "intersect1d" -> <<A1(Uniq(RSort(SelectSeq(A.v, LAMBDA x : Member(x, a[2].v)))))>>
    [] fn = "setdiff1d" -> <<A1(Uniq(RSort(SelectSeq(A.v, LAMBDA x : ~Member(x, a[2].v)))))>>
    [] fn = "setxor1d" -> <<A1(Uniq(RSort(SelectSeq(A.v, LAMBDA x : ~Member(x, a[2].v)) \o SelectSeq(a[2].v, LAMBDA x : ~Member(x, A.v)))))>>
    [] fn = "unique" -> <<A1(Uniq(RSort(A.v)))>>
    [] fn = "isin" -> <<[sh |-> A.sh, v |-> [k \in 1..Len(A.v) |-> IF Member(A.v[k], a[2].v) THEN ROne ELSE RZero]]>>
    [] fn = "searchsorted" -> <<A1([k \in 1..Len(a[2].v) |-> R(SearchSorted(A.v, a[2].v[k], c.s[1]))])>>
    [] fn = "digitize" -> <<A1([k \in 1..Len(A.v) |-> R(SearchSorted(a[2].v, A.v[k], "right"))])>>
    [] fn = "trapezoid" -> <<A0(IF c.t = "dx" THEN Trapz(A.v, Const(Len(A.v) - 1, a[2].v[1])) ELSE Trapz(A.v, DiffSeq(a[2].v)))>>
    [] fn = "interp" -> <<A1([k \in 1..Len(A.v) |-> Interp1(A.v[k], a[2].v, a[3].v)])>>
    [] fn = "histogram" -> <<A1(HistCount(A.v, a[2].v)), a[2]>>
    [] fn = "sort" -> <<IF Rk(A) = 1 THEN A1(RSort(A.v)) ELSE MapAx(A, p[1], RSort)>>
    [] fn = "argsort" -> <<IF Rk(A) = 1 THEN A1([k \in 1..Len(A.v) |-> R(ArgSortSeq(A.v)[k] - 1)])
                           ELSE MapAx(A, p[1], LAMBDA s : [k \in 1..Len(s) |-> R(ArgSortSeq(s)[k] - 1)])>>
    [] fn = "transpose" -> <<Transpose(A)>>
    [] fn = "reshape" -> <<[sh |-> <<p[1], p[2]>>, v |-> A.v]>>
    [] fn = "ravel" -> <<Ravel(A)>>
    [] fn = "flip" -> <<Flip1(A)>>
    [] fn = "fliplr" -> <<MapAx(A, 1, Rev)>>
    [] fn = "flipud" -> <<MapAx(A, 0, Rev)>>
    [] fn = "roll" -> <<Roll1(A, p[1])>>
    [] fn = "repeat" -> <<Repeat1(A, p[1])>>
    [] fn = "tile" -> <<Tile1(A, p[1])>>
    [] fn = "rot90" -> <<Rot90(A)>>
    [] fn = "det" -> <<A0(Det2(A))>>
    [] fn = "inv" -> <<Inv2(A)>>
    [] fn = "solve" -> <<MatVec(Inv2(A), a[2])>>
    [] fn \in CmpFns -> <<CmpFn(fn, a[1], a[2], p)>>    \* property side: the operands in the order of the call
    [] OTHER -> <<>>

\* the handler-level transition: the semantics of the routine forwarded to, on the operands the handler hands over
EvalHandler(fn, c, fixes) ==
  IF fn \in {"isclose", "allclose"} THEN <<CmpFn(fn, CompOperands(c.a, c.s)[1], CompOperands(c.a, c.s)[2], c.p)>>
  ELSE EvalFn(Own(fn, fixes), c)

\* in-place writers: expected contents of the target (first array) after the call
EvalTarget(fn, c) ==
  LET a == c.a ia == c.ia p == c.p A == c.a[1] IN
  CASE fn = "fill_diagonal" -> <<Mk2(A.sh[1], A.sh[2], LAMBDA i, j : IF i = j THEN a[2].v[1] ELSE At2(A, i, j))>>
    [] fn = "put" -> <<[sh |-> A.sh, v |-> [k \in 1..Len(A.v) |-> IF \E q \in 1..Len(ia[1]) : ia[1][q] + 1 = k
                         THEN a[2].v[CHOOSE q \in 1..Len(ia[1]) : ia[1][q] + 1 = k /\ \A r \in (q + 1)..Len(ia[1]) : ia[1][r] + 1 # k] ELSE A.v[k]]]>>
    [] fn = "putmask" -> <<[sh |-> A.sh, v |-> [k \in 1..Len(A.v) |-> IF IsT(ia[1].v[k]) THEN a[2].v[k] ELSE A.v[k]]]>>
    [] fn = "place" -> <<[sh |-> A.sh, v |-> [k \in 1..Len(A.v) |-> IF IsT(ia[1].v[k])
                         THEN a[2].v[((Cardinality({q \in 1..k : IsT(ia[1].v[q])}) - 1) % Len(a[2].v)) + 1] ELSE A.v[k]]]>>
    [] fn = "copyto" -> <<[sh |-> A.sh, v |-> [k \in 1..Len(A.v) |-> IF IsT(ia[1].v[k]) THEN a[2].v[k] ELSE A.v[k]]]>>
    [] OTHER -> <<>>
InPlaceFns == {"fill_diagonal", "put", "putmask", "place", "copyto"}
IndexFns == {"searchsorted", "digitize", "argsort"}
BoolFns == {"isin"} \cup CmpFns
FloatFns == {"mean", "trapezoid", "interp", "det", "inv", "solve"}
KindOf(fn, dt, j) == IF fn \in IndexFns THEN "i" ELSE IF fn \in BoolFns THEN "b" ELSE IF fn \in FloatFns THEN "f"
                     ELSE IF fn = "histogram" /\ j = 1 THEN "i" ELSE dt

\* ---- C06 on one structural observation: u = outcome on unyt inputs, b = outcome of NumPy on the stripped data ----
SameNums(obs, exp) == /\ Len(obs) = Len(exp)
                      /\ \A j \in 1..Len(exp) : obs[j].sh = exp[j].sh /\ obs[j].v = exp[j].v
SameKinds(obs, kinds) == Len(obs) = Len(kinds) /\ \A j \in 1..Len(kinds) : obs[j].k = kinds[j]
\* the arguments after the call: every array argument still holds the numbers the case passed in (the first argument of
\* an in-place writer is the target and is judged by the target clause)
InputsKept(c, ins) == /\ Len(ins) = Len(c.a)
                      /\ \A j \in 1..Len(c.a) : (j = 1 /\ c.fn \in InPlaceFns) \/ (ins[j].sh = c.a[j].sh /\ ins[j].v = c.a[j].v)
\* failing clauses of the property on a structural case (empty = holds); a refusal is allowed by the statement
S_Fails(c, u) == IF u.raise THEN {} ELSE
     (IF Len(u.res) = Len(c.exp) /\ \A j \in 1..Len(c.exp) : u.res[j].sh = c.exp[j].sh THEN {} ELSE {"shape"})
     \cup (IF (Len(u.res) = Len(c.exp) /\ \A j \in 1..Len(c.exp) : u.res[j].sh = c.exp[j].sh) /\ ~SameNums(u.res, c.exp) THEN {"values"} ELSE {})
     \cup (IF SameKinds(u.res, c.kinds) \/ Len(u.res) # Len(c.exp) THEN {} ELSE {"kind"})
     \cup (IF SameNums(u.tg, c.texp) THEN {} ELSE {"target"})
     \cup (IF InputsKept(c, u.ins) THEN {} ELSE {"inputs"})
\* is the specification's model of NumPy right? (NumPy on bare data against Part A)
S_OracleOK(c, b) == ~b.raise /\ InputsKept(c, b.ins) /\ SameNums(b.res, c.exp) /\ SameKinds(b.res, c.kinds) /\ SameNums(b.tg, c.texp)
\* T: the handler-level transition (semantics of the routine forwarded to)
S_T(c, u) == ~u.raise /\ SameNums(u.res, c.m) /\ (c.fwd = "" \/ c.fwd \in {u.fwd[j] : j \in 1..Len(u.fwd)})
=============================================================================
