------------------------------- MODULE MC_C02 -------------------------------
(* Bounded instances of Defs over the table of the tree under test: TLC      *)
(* checks the definitional structure and generates every case that is then   *)
(* replayed in the real library.  One case per distinct state (single-step   *)
(* case table); the cfg chooses the family:                                   *)
(*   MC_C02_defs    one state per table symbol: definitional DAG checks and   *)
(*                  the flattened symbolic scale / dimension / class          *)
(*   MC_C02_names   one state per name spelling of the tree (~3.9k)           *)
(*   MC_C02_prefix  one state per (prefix, prefixable symbol) pair            *)
(*   MC_C02_conv    ordered pairs of canonical names sharing a dimension      *)
(*                  (Stride = 1: all of them)                                 *)
(*   MC_C02_all     all of the above in one run (NextAll; the thorough tier   *)
(*                  adds every alias spelling x table symbol of its dimension)*)
EXTENDS Defs
CONSTANTS Stride, Phase
VARIABLE c
Init == c = [k |-> "start"]

\* ---- structure of the definitional DAG against the extracted table (model level)
DimAgrees(t) == TabNode[t] # 0 => \A b \in 1..NB : REq(TableDim(t)[b], DefDim(t)[b])
Unreadable == {k \in DOMAIN Keys : KeyRead[k][1] = -1}
Structure == [tag |-> "STRUCT", wellfounded |-> WellFounded, ungrounded |-> (DOMAIN Nodes) \ Grounded,
              uncovered |-> Uncovered, orphans |-> Orphans, unreadable |-> Unreadable,
              maxrank |-> IF WellFounded THEN (LET rs == {Rank(i) : i \in DOMAIN Nodes} IN CHOOSE m \in rs : \A r \in rs : r <= m) ELSE -1,
              nodes |-> Len(Nodes), rows |-> Len(Table), keys |-> Len(Keys), names |-> Len(Names)]

NextDefs == c.k = "start" /\ \E t \in DOMAIN Table : c' = [k |-> "sym", t |-> t]
NextNames == c.k = "start" /\ \E n \in DOMAIN Names : c' = [k |-> "name", n |-> n]
NextPrefix == c.k = "start" /\ \E p \in DOMAIN Prefixes, t \in PfxRows : c' = [k |-> "pfx", p |-> p, t |-> t]

\* names eligible for the multiplicative conversion law: readable, defined, no offset (affine scales belong to C08)
KeyOk(k) == KeyRead[k][1] >= 0 /\ TabNode[KeyRead[k][2]] # 0 /\ ~Table[KeyRead[k][2]].off
ASSUME TLCSet(131, [k \in DOMAIN Keys |-> IF KeyOk(k) THEN DefDim(KeyRead[k][2]) ELSE <<>>])
KeyDim == TLCGet(131)
NextConv == c.k = "start" /\ \E i \in DOMAIN Keys, j \in DOMAIN Keys :
              /\ (i * 7 + j * 13 + Phase) % Stride = 0
              /\ KeyOk(i) /\ KeyOk(j) /\ KeyDim[i] = KeyDim[j]
              /\ c' = [k |-> "conv", i |-> i, j |-> j]

\* alias spellings: every non-canonical spelling against every table symbol of its dimension (thorough tier)
IsAlias(n) == Names[n].name # Keys[Names[n].key]
SymKey(k) == KeyRead[k][1] = 0
NextConvAlias == c.k = "start" /\ \E n \in DOMAIN Names, j \in DOMAIN Keys :
              /\ (n * 7 + j * 13 + Phase) % Stride = 0
              /\ IsAlias(n) /\ Len(Names[n].name) > 0 /\ KeyOk(Names[n].key) /\ KeyOk(j) /\ SymKey(j) /\ KeyDim[Names[n].key] = KeyDim[j]
              /\ c' = [k |-> "conva", n |-> n, j |-> j]
\* the families of the quick tier in one run
NextAll == NextDefs \/ NextNames \/ NextPrefix \/ NextConv
NextAllThorough == NextAll \/ NextConvAlias

\* ---- export (an INVARIANT: evaluated once per distinct state)
CaseOf(p, t) == [p |-> p, t |-> t, kexp |-> PfxExp(p), covered |-> TabNode[t] # 0,
                 gens |-> IF TabNode[t] # 0 THEN ExpGens(p, t) ELSE <<>>,
                 cls |-> IF TabNode[t] # 0 THEN ExpCls(t) ELSE 0,
                 kk |-> IF TabNode[t] # 0 THEN ExpK(p, t) ELSE 0,
                 dim |-> IF TabNode[t] # 0 THEN DefDim(t) ELSE <<>>]
Export ==
  CASE c.k = "start" -> PrintT(ToJson(Structure))
    [] c.k = "sym" -> PrintT(ToJson([tag |-> "SYM", case |-> CaseOf(0, c.t), dimok |-> DimAgrees(c.t), tabledim |-> TableDim(c.t),
                                     rank |-> IF TabNode[c.t] # 0 /\ WellFounded THEN Rank(TabNode[c.t]) ELSE -1]))
    [] c.k = "name" -> LET r == KeyRead[Names[c.n].key] IN
                       PrintT(ToJson([tag |-> "NAME", n |-> c.n, read |-> r[1] >= 0,
                                      case |-> IF r[1] >= 0 THEN CaseOf(r[1], r[2]) ELSE [p |-> -1, t |-> 0]]))
    [] c.k = "pfx" -> LET str == Prefixes[c.p].p \o Table[c.t].sym
                          ls == LibSplit(str) IN
                      PrintT(ToJson([tag |-> "PFX", case |-> CaseOf(c.p, c.t), own |-> NameKey(str),
                                     lib |-> [k |-> ls.k, t |-> ls.t]]))
    [] c.k = "conv" -> PrintT(ToJson([tag |-> "CONV", i |-> c.i, j |-> c.j]))
    [] c.k = "conva" -> PrintT(ToJson([tag |-> "CONVA", n |-> c.n, j |-> c.j]))
=============================================================================
