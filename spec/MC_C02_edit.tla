----------------------------- MODULE MC_C02_edit -----------------------------
(* Case table of DefsEdit, one state per case: table symbol x which spellings *)
(* are warm before the edit (0 none, -1 all, n that one) x edit x coefficient *)
(* x optional second modify.  RowMod/RowSel select the symbols (1/0 = all).   *)
EXTENDS DefsEdit
CONSTANTS RowMod, RowSel
VARIABLE c
Init == c = [k |-> "start"]
Next == c.k = "start" /\ \E t \in {u \in EditRows : (u + RowSel) % RowMod = 0}, op \in DOMAIN EditOps, c2 \in {0, 2} : \E w \in SpellTab[t] \cup {0, -1} :
          /\ OpOk(t, EditOps[op])
          /\ (c2 # 0 => w \in {0, -1})
          /\ c' = [k |-> "edit", t |-> t, op |-> EditOps[op], w |-> w, c |-> IF op = 2 THEN 3 ELSE 1, c2 |-> c2]
Export ==
  CASE c.k = "start" -> PrintT(ToJson([tag |-> "EDITS", rows |-> EditRows, coefs |-> Coefs]))
    [] c.k = "edit" ->
        LET d1 == DefAfter(c.t, c.op, c.c)
            d2 == DefAfter2(c.t, c.op, c.c, c.c2) IN
        PrintT(ToJson([tag |-> "EDIT", t |-> c.t, op |-> c.op, w |-> c.w, c |-> c.c, c2 |-> c.c2,
                       spell |-> SpellTab[c.t], kilo |-> KiloTab[c.t], sq |-> SqOk(c.t), isbase |-> IsBaseSym(c.t), pfx |-> Table[c.t].pfx, off |-> Table[c.t].off,
                       gens1 |-> d1.gens, gens2 |-> d2.gens, exp1 |-> Four(d1), exp2 |-> Four(d2), second |-> (c.c2 # 0 /\ Second2Ok(c.op)), dim |-> DefDim(c.t)]))
=============================================================================
