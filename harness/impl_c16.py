"""Replay of MC_C16 histories on real unyt objects (C16).

observe(case) -> trace record for Trace_C16.tla:
  obs[i]    projection of object i+1 when it was created: class (Q/A/nd/num/exc), shape, unit string,
            "carries the name", C-contiguous flag, values (ints; non-integral floats as opaque ids),
            sm[j] = np.shares_memory(object, object j) for every earlier object, exception class
  pre       values of every object before the write phase
  writes[w] the write phase: for every object in turn, all its elements are overwritten in place
            (ndarray.__setitem__, below unyt) with -(100*w + p); fin = values of every object afterwards
Python only turns the case into calls and projects; all comparisons are TLC's (Trace_C16)."""

import copy as _pycopy
import zlib

_U = {}

SLICES = {
    "all": slice(None),
    "from1": slice(1, None),
    "to1": slice(None, 1),
    "step2": slice(None, None, 2),
    "rev": slice(None, None, -1),
    "empty": slice(0, 0),
    "last": slice(-1, None),
    "mid": slice(1, 2),
}
FANCY = {"f0": [0], "f00": [0, 0], "fl0": [-1, 0], "fe": [], "fneg": [-1], "f2d": [[0], [-1]]}


def setup(common=None):
    import numpy as np
    import unyt

    _U.update(np=np, unyt=unyt, ua=unyt.unyt_array, uq=unyt.unyt_quantity, Unit=unyt.Unit)
    # units of the specification's table, by the table's (ASCII) names
    _U["table"] = [(n, unyt.Unit(n)) for n in ("km", "m", "cm", "K", "degC", "degF", "R")]


def _uname(units):
    """unit -> the specification's name for it (str() of degC/degF is not ASCII), else str()"""
    for n, u in _U["table"]:
        try:
            if units == u and str(units) == str(u):
                return n
        except Exception:  # noqa: BLE001
            pass
    return str(units)


def _root(sh, lay):
    """the source ndarray holding 1..n (C order of its elements) in the requested memory layout"""
    np = _U["np"]
    n = int(np.prod(sh)) if sh else 1
    vals = np.arange(1, n + 1, dtype="f8").reshape(sh)
    if lay == "C":
        return vals
    if lay == "F":
        return np.asfortranarray(vals)
    if lay == "col":
        base = np.zeros(tuple(sh) + (2,), dtype="f8")
        r = base[..., 1]
        r[...] = vals
        return r
    if lay == "rev":
        base = np.ascontiguousarray(vals[::-1]) if sh else vals
        return base[::-1] if sh else base
    raise ValueError("layout " + lay)


def _mask(name, n):
    np = _U["np"]
    m = np.zeros(n, dtype=bool)
    if name == "mall":
        m[:] = True
    elif name == "mfirst":
        m[:1] = True
    elif name == "malt":
        m[::2] = True
    return m


def _index(x, items):
    np = _U["np"]
    out = []
    for it in items:
        t = it["t"]
        if t == "int":
            out.append(int(it["i"]))
        elif t == "sl":
            out.append(SLICES[it["s"]])
        elif t == "ell":
            out.append(Ellipsis)
        elif t == "new":
            out.append(None)
        elif t == "fancy":
            out.append(np.array(FANCY[it["s"]], dtype=np.intp))
        elif t == "mask1":
            out.append(_mask(it["s"], int(it["i"])))
        elif t == "maskfull":
            return _mask(it["s"], x.size).reshape(x.shape)
        elif t == "bool":
            return bool(it["i"])
        else:
            raise ValueError("item " + t)
    # a single item is written the way users write it (a[::-1], a[0]), several as a tuple
    return out[0] if len(out) == 1 else tuple(out)


def _val(v):
    try:
        f = float(v)
    except Exception:  # noqa: BLE001
        return 1900000000
    if f != f:
        return 1900000001
    if f == int(f) and abs(f) < 2**30:
        return int(f)
    r = round(f)
    if abs(f - r) <= 1e-9 * max(1.0, abs(f)) and abs(r) < 2**30:
        return int(r)
    return 1000000000 + (zlib.crc32(repr(f).encode()) % 800000000)


def _vals(x):
    np = _U["np"]
    if isinstance(x, np.ndarray):
        return [_val(v) for v in np.asarray(x).ravel(order="C").tolist()] if x.dtype.kind in "fiub" else [1900000002] * int(x.size)
    if isinstance(x, (int, float)):
        return [_val(x)]
    return []


def _kind(x):
    np = _U["np"]
    if isinstance(x, _U["uq"]):
        return "Q"
    if isinstance(x, _U["ua"]):
        return "A"
    if isinstance(x, np.ndarray):
        return "nd"
    if isinstance(x, (int, float, np.number)):
        return "num"
    return "other:" + type(x).__name__


def _project(x, earlier, exc=""):
    np = _U["np"]
    if exc:
        return {"k": "exc", "sh": [], "u": "", "nm": False, "cc": False, "vals": [], "sm": [False] * len(earlier), "exc": exc}
    k = _kind(x)
    isarr = isinstance(x, np.ndarray)
    sm = []
    for e in earlier:
        sm.append(bool(isarr and isinstance(e, np.ndarray) and np.shares_memory(x, e)))
    return {
        "k": k,
        "sh": [int(s) for s in x.shape] if isarr else [],
        "u": _uname(x.units) if k in ("Q", "A") else "",
        "nm": bool(getattr(x, "name", None) == "nm") if k in ("Q", "A") else False,
        "cc": bool(x.flags.c_contiguous) if isarr else True,
        "vals": _vals(x),
        "sm": sm,
        "exc": "",
    }


def _partner(x, pk):
    np = _U["np"]
    if pk == "self":
        return x
    if pk in ("q", "rq"):
        return _U["uq"](2.0, x.units)
    if pk in ("num", "rnum"):
        return 2.0
    if pk in ("nd", "rnd"):
        return np.full(x.shape, 2.0)
    if pk == "a1":
        return _U["ua"]([2.0], x.units)
    if pk == "nd2":
        return np.full((2,) + x.shape, 2.0)
    raise ValueError(pk)


def apply(x, op):
    np, ua, uq = _U["np"], _U["ua"], _U["uq"]
    o = op["op"]
    a, b, s, t = int(op["a"]), int(op["b"]), op["s"], op["t"]
    km = _U["Unit"]("km")
    if o == "ctor_a":
        return ua(x, "km", name="nm")
    if o == "ctor_am":
        return ua(x, "m", name="nm")
    if o == "ctor_q":
        return uq(x, "km", name="nm")
    if o == "mul_unit":
        return x * km
    if o == "rmul_unit":
        return km * x
    if o == "ctor_list":
        return ua(x.tolist(), "km", name="nm")
    if o == "mixlist":
        lst = [x[j] * _U["Unit"](t[j % len(t)]) for j in range(x.shape[0])]
        if s == "list":
            return ua(lst)
        if s == "tuple":
            return ua(tuple(lst))
        fam = ("km", "m", "cm") if t[0] in ("km", "m", "cm") else ("K", "degC", "degF", "R")
        arr = ua(np.zeros(x.shape), fam[a - 1])
        if s == "setitem":
            arr[:] = lst
            return arr
        if s == "ufunc":
            return np.add(arr, lst)
        raise ValueError("mixlist form " + s)
    if o == "idx":
        return x[_index(x, op["items"])]
    if o == "iter":
        it = iter(x)
        r = None
        for _ in range(a + 1):
            r = next(it)
        return r
    if o == "reshape":
        return x.reshape(tuple(t))
    if o == "np_reshape":
        return np.reshape(x, tuple(t))
    if o == "T":
        return x.T
    if o == "transpose":
        return x.transpose()
    if o == "np_transpose":
        return np.transpose(x)
    if o == "swapaxes":
        return x.swapaxes(a - 1, b - 1)
    if o == "ravel":
        return x.ravel()
    if o == "flatten":
        return x.flatten()
    if o == "squeeze":
        return x.squeeze()
    if o == "np_squeeze":
        return np.squeeze(x)
    if o == "squeeze_ax":
        return np.squeeze(x, axis=a - 1)
    if o == "expand_dims":
        return np.expand_dims(x, a - 1)
    if o == "atleast_1d":
        return np.atleast_1d(x)
    if o == "view":
        return x.view()
    if o == "broadcast_to":
        return np.broadcast_to(x, (2,) + x.shape, subok=True)
    if o == "repeat2":
        return x.repeat(2)
    if o == "d":
        return x.d
    if o == "ndview":
        return x.ndview
    if o == "ndarray_view":
        return x.ndarray_view()
    if o == "asarray":
        return np.asarray(x)
    if o == "v":
        return x.v
    if o == "value":
        return x.value
    if o == "to_ndarray":
        return x.to_ndarray()
    if o == "to_value":
        return x.to_value()
    if o == "to_value_u":
        return x.to_value(s)
    if o == "copy":
        # call forms: copy(), copy(order=s), copy(s)
        if s == "":
            return x.copy()
        return x.copy(s) if a else x.copy(order=s)
    if o == "py_copy":
        return _pycopy.copy(x)
    if o == "py_deepcopy":
        return _pycopy.deepcopy(x)
    if o == "np_copy":
        return np.copy(x, subok=True)
    if o == "ctor_a_from":
        return ua(x)
    if o == "in_units":
        return x.in_units(s)
    if o == "to":
        return x.to(s)
    if o == "in_base":
        return x.in_base()
    if o == "in_mks":
        return x.in_mks()
    if o == "in_cgs":
        return x.in_cgs()
    if o == "red":
        kw = {}
        if a:
            kw["axis"] = a - 1
        if b:
            kw["keepdims"] = True
        if s in ("sum", "max", "min", "mean", "std"):
            return getattr(x, s)(**kw)
        return {"np_ptp": np.ptp, "np_median": np.median, "np_sum": np.sum, "np_max": np.max}[s](x, **kw)
    if o == "cumsum":
        return x.cumsum(axis=a - 1) if a else x.cumsum()
    if o == "unary":
        return {"neg": lambda: -x, "abs": lambda: abs(x), "sqrt": lambda: np.sqrt(x), "pos": lambda: np.positive(x)}[s]()
    if o == "bin":
        pk = t[0]
        y = _partner(x, pk)
        l, r = (y, x) if pk in ("rnum", "rnd", "rq") else (x, y)
        return {"add": lambda: l + r, "sub": lambda: l - r, "mul": lambda: l * r, "div": lambda: l / r}[s]()
    if o == "arrfn":
        if s == "take_i":
            return np.take(x, 0)
        if s == "m_take_i":
            return x.take(0)
        if s == "take_l":
            return np.take(x, [0, 0])
        if s == "dot":
            return x.dot(x)
        if s == "np_dot":
            return np.dot(x, x)
        if s == "einsum":
            return np.einsum("i,i->", x, x)
        if s == "concat":
            return np.concatenate([x, x])
        if s == "stack":
            return np.stack([x, x])
        if s == "norm":
            return np.linalg.norm(x)
        if s == "np_sort":
            return np.sort(x)
        if s == "np_where":
            return np.where(x.d > 1, x, x)
        if s == "np_clip":
            return np.clip(x, x.min() if x.size else 0 * x.units, x.max() if x.size else 0 * x.units)
    raise ValueError("unknown op " + o)


def _rvals(x):
    """mixed-list values as exact small rationals [n, d] (tolerance snapping of floats is the harness's part)"""
    from fractions import Fraction

    np = _U["np"]
    out = []
    for v in np.asarray(x).ravel().tolist():
        if v != v or abs(v) > 1e7:
            out.append([1999999999, 1])
            continue
        f = Fraction(float(v)).limit_denominator(200000)
        if abs(float(f) - float(v)) > 4e-13 * max(1.0, abs(float(v))):
            # not one of the table's rationals: an opaque value no conversion yields
            out.append([1999999998, 1])
            continue
        out.append([int(f.numerator), int(f.denominator)])
    return out


def observe(case):
    np = _U["np"]
    sh = tuple(int(s) for s in case["root"])
    lay = case.get("lay", "C")
    root = _root(sh, lay)
    objs = [root]
    obs = [_project(root, [])]
    for op in case["h"]:
        src = objs[int(op["src"]) - 1]
        try:
            r = apply(src, op)
            ob = _project(r, objs)
            if op["op"] == "mixlist" and isinstance(r, np.ndarray):
                ob["rv"] = _rvals(r)
                ob["rvs"] = [repr(float(v)) for v in np.asarray(r).ravel().tolist()]
        except Exception as e:  # noqa: BLE001 - the exception is the observation
            r = None
            ob = _project(None, objs, exc=type(e).__name__)
        ob.setdefault("rv", [])
        ob.setdefault("rvs", [])
        objs.append(r)
        obs.append(ob)
    pre = [_vals(x) for x in objs]
    writes = []
    for w, x in enumerate(objs, start=1):
        ok = isinstance(x, np.ndarray) and x.size > 0 and x.flags.writeable and x.dtype.kind == "f"
        if ok:
            newv = -(100.0 * w + np.arange(1, x.size + 1, dtype="f8")).reshape(x.shape)
            try:
                np.ndarray.__setitem__(x, Ellipsis, newv)
            except Exception:  # noqa: BLE001
                ok = False
        writes.append({"w": w, "skip": not ok, "fin": [_vals(y) for y in objs]})
    return {"root": list(sh), "lay": lay, "h": case["h"], "obs": obs, "pre": pre, "writes": writes}
