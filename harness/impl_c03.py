"""Replay of MC_C03 cases in real unyt (C03).

observe(case) -> the case + `res`: one record per executed route
    fam  id | ab | aba | abc | ac | base | bback     which request of the case
    rt   to | in_units | to_value | convert | hand | in_base | convert_base | in_cgs | ...
    g    A | B | C        the group (unit) the numbers are expressed in
    k    ok | raise ; exc ; u (ASCII str of the resulting unit, '' when the route returns bare numbers) ; dt
    v    per element a reference <<i, f>>: i > 0 - the float matches candidate vector i of the group (the number
         the specification predicts) within rounding; i = 0 - it matches none and f numbers its cluster of
         mutually matching observed floats.
Only projection and float-vs-rational tolerance matching happen here; all verdicts are TLC's (Trace_C03)."""

import math
from fractions import Fraction

_U = {}
EPS64 = 2.0**-52
EPS32 = 2.0**-23
DT = {"f8": "float64", "f4": "float32", "c16": "complex128", "i8": "int64", "i4": "int32"}


def setup(common=None):
    import numpy as np
    import unyt
    from unyt.unit_object import Unit
    from unyt.unit_systems import _split_prefix

    _U.update(np=np, unyt=unyt, Unit=Unit, ua=unyt.unyt_array, uq=unyt.unyt_quantity, split=_split_prefix)
    _U["pool"] = (common or {}).get("pool", [])
    _U["gen"] = {k: float(v) for k, v in (common or {}).get("gen", {}).items()}
    # the registry the quantities of this instance live in: the default one, or one the caller created and edited
    from unyt import dimensions as D
    from unyt.unit_registry import UnitRegistry, default_unit_registry

    edits = (common or {}).get("edits")

    def build(cfg):
        """the registry of a case: cfg names the unit system it is configured with ('' = none)"""
        if not edits and not cfg:
            return default_unit_registry, {}
        reg = UnitRegistry(unit_system=cfg) if cfg else UnitRegistry()
        for e in edits or []:
            if e["op"] == "add":
                reg.add(e["sym"], float(e["value"]), getattr(D, e["dim"]), prefixable=bool(e["prefixable"]))
            else:
                reg.modify(e["sym"], float(e["value"]))
        return reg, {"registry": reg}

    twin_edits = (common or {}).get("twin_edits")

    def apply(reg, elist, modify_only=False):
        for e in elist:
            if e["op"] == "add" and not modify_only:
                reg.add(e["sym"], float(e["value"]), getattr(D, e["dim"]), prefixable=bool(e["prefixable"]))
            else:
                reg.modify(e["sym"], float(e["value"]))

    def build_cross(cfg, bind, foreign):
        """registries made afresh for ONE case.  foreign: the spellings of the unit objects that are read in the
        twin table -> (the quantity's registry, {spelling: Unit object})"""
        reg = UnitRegistry(unit_system=cfg) if cfg else UnitRegistry()
        if bind == "stale":
            # the quantity's own registry, while it still holds the twin values; re-calibrated afterwards
            apply(reg, twin_edits)
            units = {s: Unit(s, registry=reg) for s in foreign}
            apply(reg, edits, modify_only=True)
        else:
            reg2 = UnitRegistry()
            apply(reg2, twin_edits)
            units = {s: Unit(s, registry=reg2) for s in foreign}
            apply(reg, edits)
        return reg, units

    _U["build"] = build
    _U["build_cross"] = build_cross
    _U["regs"] = {}
    use("")


def use(cfg):
    """switch to the registry configured with unit system cfg (made once per worker)"""
    if cfg not in _U["regs"]:
        reg, kw = _U["build"](cfg)
        _U["regs"][cfg] = {"reg": reg, "regkw": kw, "ucache": {}, "owncache": {}}
    _U.update(_U["regs"][cfg])


def use_fresh(case, foreign):
    """registries made for this case only (instance `cross`): its history starts from nothing"""
    reg, units = _U["build_cross"](case.get("cfg", ""), case["bind"], foreign)
    _U.update(reg=reg, regkw={"registry": reg}, ucache={}, owncache={}, foreign=units)


def is_foreign(case, which):
    return _U["pool"][case[which.lower()] - 1].get("reg", 1) == 2


def spec_str(case, which):
    s = _U["pool"][case[which.lower()] - 1]  # own copy of the spec: TLC mangles non-ASCII on output
    if s.get("reg", 1) == 2:  # a twin unit is spelled like the unit of the quantity's registry
        s = dict(s, a=s["a"][:-2] if s["a"].endswith("@2") else s["a"], b=s["b"][:-2] if s["b"].endswith("@2") else s["b"])
    coef = s.get("coef", 1)
    if s["b"] == "" and s["ea"] == 1 and coef == 1:
        return s["a"]
    txt = f"{s['a']}**{s['ea']}" if s["ea"] != 1 else s["a"]
    if s["b"] != "":
        txt += f"*{s['b']}**{s['eb']}"
    if coef != 1:
        txt = f"{coef}*{txt}"
    return txt


def unit_of(s):
    c = _U["ucache"]
    if s not in c:
        c[s] = _U["Unit"](s, **_U["regkw"])
    return c[s]


def ascii_unit(u):
    """the resulting unit as a string.  A unit that means something else than the same expression means in the
    quantity's registry (bound to another table with other values) is a different unit; a unit bound to the same
    table, or to a copy with the same values (Unit.copy() makes one), is the same unit."""
    reg = _U["reg"]
    r = getattr(u, "registry", None)
    own = r is reg or getattr(r, "lut", None) is reg.lut
    if not own:
        key = (str(u.expr), float(u.base_value), float(u.base_offset))
        c = _U["owncache"]
        if key not in c:
            try:
                v = _U["Unit"](u.expr, registry=reg)
                c[key] = float(v.base_value) == key[1] and float(v.base_offset) == key[2] and v.dimensions == u.dimensions
            except Exception:  # noqa: BLE001 - the expression does not exist in the quantity's registry
                c[key] = False
        own = c[key]
    return str(u).encode("ascii", "backslashreplace").decode("ascii") + ("" if own else "@another-registry")


def num_float(nj, g):
    re = float(sum((float(Fraction(n, d)) * (g**e if e else 1.0)) for e, n, d in nj["r"])) if nj["r"] else 0.0
    im = float(sum((float(Fraction(n, d)) * (g**e if e else 1.0)) for e, n, d in nj["i"])) if nj["i"] else 0.0
    return complex(re, im)


def eff_off(u):
    """offset of the unit in its own numbers (the library's uniform reading SI = s*(x - o*))."""
    o = float(u.base_offset)
    if o and u.dimensions == _U["unyt"].dimensions.temperature:
        try:
            p, _ = _U["split"](str(u), u.registry.lut)
        except Exception:  # noqa: BLE001
            p = ""
        if p:
            o = o / float(u.base_value)
    return o


def make(case, ustr):
    np = _U["np"]
    dt = np.dtype(DT[case["dt"]])
    xs = [Fraction(n, d) for n, d in case["xs"]]
    if case["dt"] == "c16":
        vals = [complex(float(x), float(x + 1)) for x in xs]
    elif case["dt"] in ("i8", "i4"):
        vals = [int(x) for x in xs]
    else:
        vals = [float(x) for x in xs]
    kw = {} if isinstance(ustr, _U["Unit"]) else _U["regkw"]  # a Unit object brings its table along
    if case["sh"] == "scalar":
        return _U["uq"](dt.type(vals[0]), ustr, **kw)
    return _U["ua"](np.array(vals, dtype=dt), ustr, **kw)


def run(f):
    """execute one route -> (k, exc, values (list of complex) or None, unit or None, dtype str)"""
    np = _U["np"]
    try:
        out = f()
    except Exception as e:  # noqa: BLE001 - the observation is the exception
        return {"k": "raise", "exc": type(e).__name__, "vals": None, "unit": None, "dt": ""}
    unit = getattr(out, "units", None)
    raw = out.d if hasattr(out, "d") else out
    if isinstance(raw, (float, int, complex)) and not isinstance(raw, np.generic):
        dts = "py" + type(raw).__name__
    else:
        dts = str(np.asarray(raw).dtype)
    arr = np.asarray(raw).ravel()
    return {"k": "ok", "exc": "", "vals": [complex(x) for x in arr.tolist()], "unit": unit, "dt": dts}


def hand(q, target):
    f, o = q.units.get_conversion_factor(target)
    r = q.v * f
    if o:
        r = r - o
    return r


def inplace(q, *targets):
    for t in targets:
        q.convert_to_units(t)
    return q


def conv_routes(case, sa, sb, sc):
    # a twin unit object (instance `cross`) cannot be named by a string: a string is read in the quantity's registry
    fb, fc = is_foreign(case, "B"), is_foreign(case, "C")
    ua_ = unit_of(sa)
    ub_ = _U["foreign"][sb] if fb else unit_of(sb)
    uc_ = _U["foreign"][sc] if fc else unit_of(sc)
    mk = lambda: make(case, sa)  # noqa: E731
    R = []

    def add(fam, rt, g, f):
        if rt.startswith("to_name") and ((fb and fam in ("ab", "aba")) or (fc and fam == "ac")):
            return
        r = run(f)
        r.update(fam=fam, rt=rt, g=g)
        R.append(r)

    # the history of the case: requests x -> y made before the observed routes, in the same registries
    by = {"a": ua_, "b": ub_, "c": uc_}
    for leg in case.get("warm", []):
        try:
            make(case, by[leg[0]]).to(by[leg[1]])
        except Exception:  # noqa: BLE001 - the same request is observed below
            pass

    for fam, g, t, tn in (("id", "A", ua_, sa), ("ab", "B", ub_, sb), ("ac", "C", uc_, sc)):
        add(fam, "to", g, lambda t=t: mk().to(t))
        add(fam, "to_name", g, lambda tn=tn: mk().to(tn))  # the target spelled as a string: resolved in the quantity's registry
        add(fam, "in_units", g, lambda t=t: mk().in_units(t))
        add(fam, "to_value", g, lambda t=t: mk().to_value(t))
        add(fam, "convert", g, lambda t=t: inplace(mk(), t))
        add(fam, "hand", g, lambda t=t: hand(mk(), t))
    add("aba", "to", "A", lambda: mk().to(ub_).to(ua_))
    add("aba", "to_name", "A", lambda: mk().to(sb).to(sa))
    add("aba", "convert", "A", lambda: inplace(mk(), ub_, ua_))
    add("aba", "mixed", "A", lambda: inplace(mk().in_units(ub_), ua_))
    add("abc", "to", "C", lambda: mk().to(ub_).to(uc_))
    add("abc", "convert", "C", lambda: inplace(mk(), ub_, uc_))
    add("abc", "to_value", "C", lambda: mk().to(ub_).to_value(uc_))

    # every later use of a quantity: the source of a copy-route conversion is looked at again
    # (a) after all copy routes were asked of one and the same source
    x0 = mk()
    for t in (ua_, ub_, uc_):
        for f in (lambda t=t: x0.to(t), lambda t=t: x0.in_units(t), lambda t=t: x0.to_value(t), lambda t=t: hand(x0, t)):
            try:
                f()
            except Exception:  # noqa: BLE001 - already observed above on a fresh object
                pass
    add("src", "copies", "A", lambda: x0)
    # (b) A -> A (copy) -> B (in place on the copy): the result is an A -> B route; the source still is x in A
    #     and asked again gives A -> B
    x1 = mk()
    add("ab", "mixed_id", "B", lambda: inplace(x1.to(ua_), ub_))
    add("src", "mixed_id", "A", lambda: x1)
    add("ab", "src_mixed_id", "B", lambda: x1.to(ub_))
    # (c) A -> B (copy) -> C (in place on the copy) against A -> C; source afterwards
    x2 = mk()
    add("abc", "mixed", "C", lambda: inplace(x2.in_units(ub_), uc_))
    add("src", "mixed", "A", lambda: x2)
    add("ac", "src_mixed", "C", lambda: x2.to(uc_))
    # (d) A -> B (copy), then the copy goes to a unit-system base in place (twin of in_base); source afterwards
    x3 = mk()

    def to_base_twin():
        y = x3.to(ub_)
        try:
            y.convert_to_mks()
        except Exception:  # noqa: BLE001 - a refusal of the unit system is not this family's business
            y.convert_to_base("imperial")
        return x3

    add("src", "mixed_base", "A", to_base_twin)
    add("ab", "src_mixed_base", "B", lambda: x3.to(ub_))
    return R, {"A": ua_, "B": ub_, "C": uc_}


def _cb(q, name, *a):
    getattr(q, name)(*a)
    return q


def base_routes(case, sa):
    ua_ = unit_of(sa)
    sys_ = case["sys"]
    mk = lambda: make(case, sa)  # noqa: E731
    R = []

    def add(fam, rt, g, f):
        r = run(f)
        r.update(fam=fam, rt=rt, g=g)
        R.append(r)

    usobj = _U["unyt"].unit_systems.unit_system_registry[sys_]
    # the default-argument forms ("the configured base units") and the request family / group of numbers the
    # specification filed them under for this case (the named request, or one of their own)
    dfam, dbfam, dg = case["dfam"], case["dbfam"], case["dg"]
    add("base", "in_base", "B", lambda: mk().in_base(sys_))
    add("base", "in_base_obj", "B", lambda: mk().in_base(usobj))  # the system named by its UnitSystem object
    add("base", "convert_base_obj", "B", lambda: _cb(mk(), "convert_to_base", usobj))
    add("base", "to_equiv_obj", "B", lambda: mk().to(ua_.get_base_equivalent(usobj)))
    add(dfam, "in_base_default", dg, lambda: mk().in_base())
    add(dfam, "convert_base_default", dg, lambda: _cb(mk(), "convert_to_base"))
    add(dfam, "to_equiv_default", dg, lambda: mk().to(ua_.get_base_equivalent()))
    add(dfam, "convert_equiv_default", dg, lambda: inplace(mk(), ua_.get_base_equivalent()))
    add(dfam, "hand_default", dg, lambda: hand(mk(), ua_.get_base_equivalent()))
    add(dfam, "in_base_cfgobj", dg, lambda: mk().in_base(_U["reg"].unit_system))  # the configured system, handed over
    add(dfam, "convert_base_cfgobj", dg, lambda: _cb(mk(), "convert_to_base", _U["reg"].unit_system))
    xd = mk()
    add(dfam, "copy_convert_base_default", dg, lambda: _cb(xd.to(ua_), "convert_to_base"))
    add("src", "copy_convert_base_default", "A", lambda: xd)
    add(dfam, "src_in_base_default", dg, lambda: xd.in_base())
    add("src", "in_base_default", "A", lambda: xd)
    add(dbfam, "to_default", "A", lambda: mk().in_base().to(ua_))
    add(dbfam, "convert_default", "A", lambda: inplace(_cb(mk(), "convert_to_base"), ua_))
    add(dbfam, "to_name_default", "A", lambda: mk().in_base().to(sa))
    add("base", "convert_base", "B", lambda: _cb(mk(), "convert_to_base", sys_))
    add("base", "to_equiv", "B", lambda: mk().to(ua_.get_base_equivalent(sys_)))
    add("base", "convert_equiv", "B", lambda: inplace(mk(), ua_.get_base_equivalent(sys_)))
    add("base", "hand", "B", lambda: hand(mk(), ua_.get_base_equivalent(sys_)))
    # the same request with the target spelled out: the unit expression in_base arrived at, built in the quantity's registry
    add("base", "to_named", "B", lambda: (lambda x: x.to(_U["Unit"](x.in_base(sys_).units.expr, **_U["regkw"])))(mk()))
    if sys_ in ("cgs", "mks"):
        add("base", "in_" + sys_, "B", lambda: getattr(mk(), "in_" + sys_)())
        add("base", "convert_" + sys_, "B", lambda: _cb(mk(), "convert_to_" + sys_))
    # own-unit copy, then the in-place twin on the copy; the source afterwards
    x1 = mk()
    add("base", "copy_convert_base", "B", lambda: _cb(x1.to(ua_), "convert_to_base", sys_))
    add("src", "copy_convert_base", "A", lambda: x1)
    add("base", "src_in_base", "B", lambda: x1.in_base(sys_))
    if sys_ in ("cgs", "mks"):
        x2 = mk()
        add("base", "copy_convert_" + sys_, "B", lambda: _cb(x2.in_units(ua_), "convert_to_" + sys_))
        add("src", "copy_convert_" + sys_, "A", lambda: x2)
    # the object in_base returned is converted on in place (to another system); the source afterwards
    x4 = mk()

    def base_then_twin():
        try:
            y = x4.in_base(sys_)
            y.convert_to_base("mks" if sys_ == "cgs" else "cgs")
        except Exception:  # noqa: BLE001 - refusals of a unit system are not this family's business
            pass
        return x4

    add("src", "in_base_then_twin", "A", base_then_twin)
    add("bback", "to", "A", lambda: mk().in_base(sys_).to(ua_))
    add("bback", "to_name", "A", lambda: mk().in_base(sys_).to(sa))
    add("bback", "convert_name", "A", lambda: inplace(_cb(mk(), "convert_to_base", sys_), sa))
    add("bback", "convert", "A", lambda: inplace(_cb(mk(), "convert_to_base", sys_), ua_))
    ub_ = uc_ = None
    for r in R:
        if r["g"] == "B" and ub_ is None and r["unit"] is not None:
            ub_ = r["unit"]
        if r["g"] == "C" and uc_ is None and r["unit"] is not None:
            uc_ = r["unit"]
    return R, {"A": ua_, "B": ub_, "C": uc_}


def classify(case, R, units):
    """tolerance matching: floats -> references to candidate vectors / clusters (per group, per element)."""
    g = _U["gen"].get(case["gen"], 1.0)
    n = len(case["xs"])
    eps = EPS32 * 32 if case["dt"] in ("f4", "i4") else EPS64 * 512
    cand = {k: [[num_float(z, g) for z in vec] for vec in vs] for k, vs in case["cand"].items()}
    # magnitude of everything met in each group (SI-like reading s*(|x| + |o*|) only within one dimension)
    mag = {}
    for grp in ("A", "B", "C"):
        u = units.get(grp)
        vals = [abs(z) for vec in cand.get(grp, []) for z in vec]
        for r in R:
            if r["g"] == grp and r["vals"]:
                vals += [abs(z) for z in r["vals"] if math.isfinite(abs(z))]
        mag[grp] = (max(vals) if vals else 0.0, u)
    tol = {}
    for grp in ("A", "B", "C"):
        m, u = mag[grp]
        total = m
        if u is not None:
            total += abs(eff_off(u))
            for g2 in ("A", "B", "C"):
                m2, u2 = mag[g2]
                if g2 != grp and u2 is not None and u2.dimensions == u.dimensions:
                    total += abs(float(u2.base_value) / float(u.base_value)) * (m2 + abs(eff_off(u2)))
        tol[grp] = eps * total
    clusters = {}  # (grp, element) -> list of (value, ref)
    for r in R:
        if r["vals"] is None:
            r["v"] = []
            continue
        refs = []
        for e, z in enumerate(r["vals"]):
            grp = r["g"]
            t = tol[grp]
            ref = None
            if e < n and math.isfinite(abs(z)):
                for j, vec in enumerate(cand.get(grp, [])):
                    if abs(vec[e] - z) <= t:
                        ref = [j + 1, 0]
                        break
            if ref is None:
                cl = clusters.setdefault((grp, e), [])
                if math.isfinite(abs(z)):
                    for val, fid in cl:
                        if abs(val - z) <= t:
                            ref = [0, fid]
                            break
                if ref is None:
                    fid = len(cl) + 1
                    cl.append((z, fid))
                    ref = [0, fid]
            refs.append(ref)
        r["v"] = refs
    out = []
    for r in R:
        out.append(
            {
                "fam": r["fam"],
                "rt": r["rt"],
                "g": r["g"],
                "k": r["k"],
                "exc": r["exc"],
                "u": ascii_unit(r["unit"]) if r["unit"] is not None else "",
                "dt": r["dt"],
                "v": r["v"],
                "show": [repr(z) for z in (r["vals"] or [])][:4],
            }
        )
    return out, {k: repr(v) for k, v in tol.items()}


def observe(case):
    sa = spec_str(case, "A")
    if case.get("bind"):
        use_fresh(case, sorted({spec_str(case, w) for w in "BC" if is_foreign(case, w)}))
    else:
        use(case.get("cfg", ""))
    if case["kind"] == "conv":
        sb, sc = spec_str(case, "B"), spec_str(case, "C")
        R, units = conv_routes(case, sa, sb, sc)
    else:
        sb = sc = sa
        R, units = base_routes(case, sa)
    res, tol = classify(case, R, units)
    obs = {k: case[k] for k in ("kind", "a", "b", "c", "k", "dt", "sh", "xs", "exact", "sys", "sysi", "cfg", "cfgi", "dfam")}
    obs["bind"], obs["warm"] = case.get("bind", ""), list(case.get("warm", []))
    obs["res"] = res
    obs["ustr"] = {g: (ascii_unit(u) if u is not None else "") for g, u in units.items()}
    obs["names"] = {"A": sa.encode("ascii", "backslashreplace").decode(), "B": sb.encode("ascii", "backslashreplace").decode(), "C": sc.encode("ascii", "backslashreplace").decode()}
    obs["tol"] = tol
    return obs
