CONSTANTS
  Slice = 0
  NSlices = 1
  Ext = {0, 1, 2, 3}
  Ext3 = {0, 1, 2, 3}
  MaxRank = 3
  RootSet = "small"
  Layouts = {"C", "F", "col"}
  LayCtors = {"ctor_a", "mul_unit"}
  MixQuick = FALSE
  MixRich = FALSE
  IntSet <- IntsB
  SliceSet = {"from1", "step2", "rev"}
  FancySet = {"f00"}
  MaskSet = {"malt"}
  IdxForms = {"plain", "elllast", "newfirst"}
  MaxNonAll = 1
  MaxNonAll3 = 1
  TargetRank = 2
  LiteOthers = TRUE
  RedSet = {"sum"}
  Lite = TRUE
  Depth = 3
  Ctors = {"ctor_a", "ctor_am", "ctor_q", "mul_unit"}
  RichCtors = {"ctor_a"}
INIT Init
NEXT Next
INVARIANT Export
CHECK_DEADLOCK FALSE
