CONSTANTS
  Thin = TRUE
  CoefIdx = 2
  VarMod = 4
  VarSel = 0
INIT Init
NEXT Next
INVARIANT Sane
INVARIANT Export
CHECK_DEADLOCK FALSE
