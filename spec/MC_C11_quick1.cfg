CONSTANTS
  MaxChain = 1
  PathSet <- AllPaths
  Combos <- QuickCombos
  ClsSet <- Classes
  OrderSet <- BothOrders
INIT Init
NEXT Next
INVARIANT Export
CHECK_DEADLOCK FALSE
