#!/usr/bin/env python3
"""usage: tools/adversary_msg.py C12 /tmp/adv_C12 -> prints the task message for an independent 'seeded change' author.
The author gets only the property text and a scratch worktree (nothing from /verif)."""
import json, sys
pid, wt = sys.argv[1], sys.argv[2]
letters = sys.argv[3] if len(sys.argv) > 3 else "a, b"
import glob, os
PRIOR = []
for mf in sorted(glob.glob(f'/verif/seeded/{pid}-*/meta.json')):
    m = json.load(open(mf))
    PRIOR.append("  * " + (m.get("summary") or "").replace("\n", " ")[:400])
prior_txt = ""
if PRIOR and len(sys.argv) > 3:
    prior_txt = "Mechanisms other authors have ALREADY delivered for this property (do not repeat these or close variants; pick different code paths and different triggering conditions):\n" + "\n".join(PRIOR) + "\n\n"
p = [json.loads(l) for l in open('/verif/properties.jsonl') if json.loads(l)['id'] == pid][0]
print(f"""You are testing how well an (unseen) verification suite for the Python units library `unyt` (yt-project/unyt) detects realistic regressions. You have your own scratch git worktree of the library at {wt} (a checkout of the pinned commit; work ONLY inside it; do not look at or touch /repo, /verif or any other directory outside {wt} except the Python interpreter /venv/bin/python). There is no network.

The semantic property under test ({pid}: {p['title']}):

\"\"\"{p['statement']}\"\"\"

Your job: produce TWO different, independent changes to the library source (under {wt}/unyt/, not the tests) each of which BREAKS this property while the library still imports and the existing test-suite still passes exactly as before. Each change should be the kind of regression a plausible refactoring, optimisation or "small fix" could introduce, and should need something specific to manifest - a particular multi-step sequence of operations, an unusual input, a particular branch/dtype/unit/prefix, warm-vs-cold cache state, or two cooperating sites that each look fine alone - not something ordinary use would expose at once, and not something the existing tests check. The two changes must use different mechanisms in different parts of the code relevant to the property.

{prior_txt}Baseline: `cd {wt} && /venv/bin/python -m pytest -q -p no:cacheprovider --timeout=900 unyt 2>&1 | tail -3` gives 652 passed, 28 failed on the unchanged tree (the 28 failures are pre-existing, listed in {wt}/BASELINE_FAILED.txt). With each of your changes applied the result must be exactly the same: 652 passed and the same 28 failures (check with `-rf` and compare the FAILED test ids).

For each change k in ({letters}) deliver, in {wt}/out/{pid}-<k>/ :
  * patch.diff   - `git -C {wt} diff` of ONLY that change (apply cleanly with `git apply` on the pinned commit; source files under unyt/ only)
  * demo.py      - a small standalone program (run as `PYTHONPATH=<tree> /venv/bin/python demo.py`) that exits 0 on the unchanged tree and exits 1 (printing what went wrong) with the change applied; it must exercise the property as stated, through the public API
  * meta.json    - {{"property": "{pid}", "summary": "...what the change does...", "needs": "...what specific input/sequence/state it needs to manifest...", "files": [...], "suite": "652 passed, 28 failed (same set)"}}
Do NOT use `git stash` (the stash is shared between worktrees of one repository and other authors work in sibling worktrees): switch between changed and pristine tree with `git diff > file`, `git checkout -- unyt`, `git apply file`. Procedure for each: make the change, run the test-suite, run demo.py with and without the change (use `git diff > file` + `git checkout -- unyt` + `git apply file` to switch), save the files, then `git checkout -- unyt` so the worktree is pristine before starting the next one. Verify at the end that both patches apply to a pristine tree with `git apply --check`.
Finish with a short report: for each change, the summary, what it needs to manifest, and the observed outputs of demo.py with/without the change and of the test-suite.""")
