"""C02 helpers: the independent definition table (data/C02_definitions.json) -> integer-indexed data for TLC, and the
exact evaluator of the symbolic results TLC sends back (exponent vectors over generators).

Nothing here decides a verdict: TLC flattens the definitional DAG, computes dimensions, classes and the
tolerance multiplier K, and compares; this module only (a) turns exact decimal strings into exponent vectors over
primes (TLC integers are 32 bit), (b) evaluates  prod(generator ^ (n/d))  with 60 significant digits, and (c) expresses
the distance between a float of the library and that value in units of each class tolerance (integers)."""

import json
import os
import re
from fractions import Fraction

import mpmath

mpmath.mp.dps = 60

HERE = os.path.dirname(os.path.abspath(__file__))
DEFS_PATH = os.path.join(os.path.dirname(HERE), "data", "C02_definitions.json")
VOCAB_PATH = os.path.join(os.path.dirname(HERE), "data", "C02_vocabulary.json")
# names users give their own symbols (single letters, cosmology / simulation-code style names); TLC decides which of them
# (and which names of the tree, and which plural / upper-case variants of the tree's alternative names) are outside the
# frozen vocabulary and generates the cases (DefsReg.tla: UDemanded)
USER_WORDS = ["foo", "Foo", "FOO", "foos", "code_length", "code_mass", "code_time", "unitary", "pccm", "kpccm", "Mpccm", "mcm", "cmcm",
              "kmcm", "aucm", "H0", "h70", "littleh", "hh", "hubble", "x1", "u_", "my_unit", "au_", "deg_", "delta", "percent_", "sqrt_"]


def user_name_candidates(ex):
    import string

    out = [{"name": c, "cls": "core"} for c in string.ascii_letters] + [{"name": w, "cls": "core"} for w in USER_WORDS]
    seen = {o["name"] for o in out}
    for key, alts in ex["default_name_alternatives"].items():
        for w in [key] + list(alts):
            if not re.fullmatch(r"[A-Za-z_][A-Za-z0-9_]*", w):
                continue
            for v in (w + "s", w.upper(), w.lower(), w.capitalize()):
                if v != w and v not in seen:
                    seen.add(v)
                    out.append({"name": v, "cls": "variant"})
    return out

BASE_DIM_ORDER = ["(mass)", "(length)", "(time)", "(temperature)", "(angle)", "(current_mks)", "1", "(luminous_intensity)", "(logarithmic)"]
CLIP = 1000000


def _factor(n):
    """prime factorisation by trial division (numbers in the table are small or have small cofactors)"""
    out = {}
    p = 2
    while p * p <= n and p < 200000:
        while n % p == 0:
            out[p] = out.get(p, 0) + 1
            n //= p
        p += 1 if p == 2 else 2
    if n > 1:
        out[n] = out.get(n, 0) + 1
    return out


class Defs:
    def __init__(self, path=DEFS_PATH):
        self.raw = json.load(open(path, encoding="utf-8"))
        self.classes = [c["name"] for c in self.raw["classes"]]
        self.tol = [mpmath.mpf(c["tol"]) for c in self.raw["classes"]]
        self.gens = []  # {"name", "kind", "value" (str), "cls"}
        self.gid = {}
        self.nodes = []  # {"name","kind","base","gens","of","cls"}
        self.nid = {}
        self._gen("2", "prime", "2", 0)
        self._gen("5", "prime", "5", 0)
        self._build()

    def _gen(self, name, kind, value, cls):
        if name not in self.gid:
            self.gens.append({"name": name, "kind": kind, "value": value, "cls": cls})
            self.gid[name] = len(self.gens)
        return self.gid[name]

    def _coef_terms(self, terms):
        vec = {}
        for val, n, d in terms:
            e = Fraction(n, d)
            if val in self.raw["transcendental"]:
                g = self._gen(val, "transc", self.raw["transcendental"][val], 0)
                vec[g] = vec.get(g, 0) + e
                continue
            f = Fraction(val)
            if f < 0:
                g = self._gen("-1", "neg", "-1", 0)
                vec[g] = vec.get(g, 0) + e
                f = -f
            for part, sgn in ((f.numerator, 1), (f.denominator, -1)):
                for p, k in _factor(part).items():
                    g = self._gen(str(p), "prime", str(p), 0)
                    vec[g] = vec.get(g, 0) + sgn * k * e
        return vec

    def _build(self):
        raw = self.raw
        order = []
        for name, dim in raw["base"].items():
            order.append((name, "base", {"base": BASE_DIM_ORDER.index(dim) + 1}))
        for name, d in raw["constants"].items():
            order.append((name, "const", d))
        for name, d in raw["units"].items():
            order.append((name, "unit", d))
        for name, kind, d in order:
            if name in self.nid:
                raise ValueError("duplicate definition " + name)
            self.nid[name] = len(self.nid) + 1
        for name, kind, d in order:
            node = {"name": name, "kind": kind, "base": d.get("base", 0), "gens": [], "of": [], "cls": 0}
            if kind != "base":
                vec = self._coef_terms(d.get("coef", []))
                if "measured" in d:
                    val, cls = d["measured"]
                    g = self._gen("val:" + name, "measured", val, self.classes.index(cls))
                    vec[g] = vec.get(g, 0) + 1
                if "class" in d:
                    node["cls"] = self.classes.index(d["class"])
                node["gens"] = [[g, e.numerator, e.denominator] for g, e in sorted(vec.items()) if e != 0]
                of = []
                for f, (n, dd) in d.get("of", {}).items():
                    if f not in self.nid:
                        raise ValueError(f"definition of {name} refers to unknown {f}")
                    e = Fraction(n, dd)
                    of.append([self.nid[f], e.numerator, e.denominator])
                node["of"] = sorted(of)
            self.nodes.append(node)

    # ---- data for TLC ------------------------------------------------------------------------------------
    def tlc_data(self, ex):
        """ex = ck.extract().  Everything TLC needs, as ints/strings/bools."""
        table = []
        for r in ex["lut"]:
            if r["dim"] is None:
                dim = None
            else:
                dim = []
                for e12 in r["dim"]:
                    f = Fraction(e12, 12)
                    dim.append([f.numerator, f.denominator])
            table.append({"sym": r["sym"], "dim": dim if dim is not None else [[99, 1]] * 9, "pfx": bool(r["prefixable"]), "off": float(r["offset"]["repr"]) != 0.0})
        names = []
        keys = []
        for key, alts in ex["name_alternatives"].items():
            keys.append(key)
            for a in alts:
                names.append({"name": a, "key": len(keys)})
        prefixes = [{"p": p, "k": k} for p, k in self.raw["prefixes"].items()]
        # the library's own prefix keys (for the implementation-shaped side: _split_prefix looks the candidate up in unit_prefixes)
        libpfx = [r["p"] for r in ex["prefixes"]]
        # the named unit systems of the tree: base units in the order of UnitSystem.units_map and every atom their units are
        # spelled with (identifiers of the unit strings; TLC reads them through the name table)
        ident = re.compile(r"[^\W\d]\w*|[%\u00b0]\w*", re.UNICODE)
        systems = []
        for name, srec in ex.get("unit_systems", {}).items():
            if "error" in srec:
                continue
            base = [("" if v is None else v) for v in srec["base_units"].values()]
            atoms = []
            for v in list(srec["base_units"].values()) + list(srec["units_map"].values()):
                for a in ident.findall(v or ""):
                    if a != "sqrt" and a not in atoms:
                        atoms.append(a)
            systems.append({"name": name, "base": base, "atoms": atoms})
        em = [{"from": r["from"], "to": r["to"]} for r in ex.get("em_conversions", [])]
        return {
            "nodes": self.nodes,
            "gens": [{"kind": g["kind"], "cls": g["cls"]} for g in self.gens],
            "table": table,
            "names": names,
            "keys": keys,
            "vocab": json.load(open(VOCAB_PATH, encoding="utf-8"))["names"],
            "uextra": user_name_candidates(ex),
            "prefixes": prefixes,
            "libprefixes": libpfx,
            "systems": systems,
            "em": em,
            "nbase": len(BASE_DIM_ORDER),
            "nclasses": len(self.classes),
            "g2": self.gid["2"],
            "g5": self.gid["5"],
        }

    # ---- exact evaluation of TLC's symbolic results ------------------------------------------------------
    def gen_value(self, g):
        gen = self.gens[g - 1]
        return mpmath.mpf(gen["value"]) if gen["kind"] != "prime" else mpmath.mpf(int(gen["value"]))

    def eval_gens(self, vec):
        """prod(generator ^ (n/d)) with 60 digits; integer exponents of rationals are exact"""
        num = Fraction(1)
        rest = mpmath.mpf(1)
        sign = 1
        for g, n, d in vec:
            gen = self.gens[g - 1]
            if gen["kind"] == "neg":
                if d != 1:
                    raise ValueError("fractional power of a negative coefficient")
                if n % 2:
                    sign = -sign
                continue
            if d == 1 and gen["kind"] in ("prime", "measured"):
                num *= Fraction(gen["value"]) ** n
            else:
                rest *= mpmath.power(self.gen_value(g), mpmath.mpf(n) / d)
        return sign * rest * mpmath.mpf(num.numerator) / mpmath.mpf(num.denominator)

    def err_units(self, observed, expected):
        """distance |observed/expected - 1| in units of each class tolerance (ceil, clipped): list of ints"""
        return err_units(observed, expected, self.tol)


def exact(x):
    """float -> mpf exactly"""
    f = Fraction(float(x))
    return mpmath.mpf(f.numerator) / mpmath.mpf(f.denominator)


def err_units(observed, expected, tols):
    import math

    try:
        o = float(observed)
    except Exception:  # noqa: BLE001
        return [CLIP] * len(tols)
    if math.isnan(o) or math.isinf(o) or expected == 0:
        return [CLIP] * len(tols)
    rel = abs(exact(o) / expected - 1)
    out = []
    for t in tols:
        u = mpmath.ceil(rel / t)
        out.append(int(min(u, CLIP)))
    return out


def in_range(expected):
    a = abs(expected)
    return bool(a > mpmath.mpf("1e-290") and a < mpmath.mpf("1e290"))
