CONSTANTS
  Factors <- F2
  IntFactors <- FI1
  RealIdx <- R1
  Bases <- B1
  Fams <- FamsAll
  DTypes <- DT0
  DataSets <- DS1
  TempPairs <- TP2
  TmPairs <- TM1
  OneOpFactors <- OF1
  BareKinds <- BK1
  Fixes <- NoFixes
INIT Init
NEXT Next
INVARIANT Export
INVARIANT WellFormed
INVARIANT ReexpressionProper
INVARIANT SigCovariant
CHECK_DEADLOCK FALSE
