----------------------------- MODULE MC_C02_reg -----------------------------
(* Bounded instance of DefsReg: all histories of registry calls up to MaxLen *)
(* over the argument sets of the cfg, explored by state (VIEW hides the       *)
(* history; the route by which a symbol was defined is part of the state).    *)
(* One witness history per distinct state is exported together with what TLC  *)
(* derives for it: the scale (generator vector) and dimension every call      *)
(* carries, the probes (names / prefixed names / compounds over user +        *)
(* default symbols, per registry) with the scale and dimension the            *)
(* definitions imply, and the conversion pairs.  Also used with -simulate.    *)
EXTENDS DefsReg
CONSTANTS MaxLen, SysCodes, FooTmpls, QuxTmpls, C1, C2, CMod, Forms1, Forms2, AddRegs, ModForms, Pfx1, Pfx2
VARIABLES st, hist
vars == <<st, hist>>
View == st

SysOf(code) == <<Systems[code \div 10], Systems[code % 10]>>
Init == \E code \in SysCodes : st = InitSt(SysOf(code)) /\ hist = <<>>
Ev(op, r, sym, t, c, form, pfx) == [op |-> op, r |-> r, sym |-> sym, t |-> t, c |-> c, form |-> form, pfx |-> pfx]
Cands ==
  {Ev("define", r, "foo", t, c, f, p) : r \in {1}, t \in FooTmpls, c \in C1, f \in Forms1, p \in Pfx1}
  \cup {Ev("define", r, "foo", t, c, f, p) : r \in {2}, t \in FooTmpls, c \in C2, f \in Forms2, p \in Pfx2}
  \cup UNION {{Ev("add", r, "foo", t, c, "number", p) : t \in FooTmpls, c \in IF r = 1 THEN C1 ELSE C2, p \in IF r = 1 THEN Pfx1 ELSE Pfx2} : r \in AddRegs}
  \cup {Ev("define", r, "qux", t, c, f, p) : r \in {1}, t \in QuxTmpls, c \in C2, f \in Forms1 \ {"qdef"}, p \in Pfx1}
  \cup {Ev("add", r, "qux", t, c, "number", FALSE) : r \in AddRegs \cap {1}, t \in QuxTmpls, c \in C2}
  \cup {Ev("modify", r, "foo", 0, c, f, FALSE) : r \in 1..2, c \in CMod, f \in ModForms}
Next == /\ Len(hist) < MaxLen
        /\ \E e \in Cands : Enabled(st, e) /\ st' = Apply(st, e) /\ hist' = Append(hist, e)

\* TLC: the state is the pure function of the history that the trace validation recomputes, and the generator is sane
RunAgrees == Run(st.sys, hist) = st
Sane == PairsCommensurable(st)

RECURSIVE Enrich(_, _, _)
Enrich(s, h, i) == IF i > Len(h) THEN <<>>
                   ELSE <<[op |-> h[i].op, r |-> h[i].r, sym |-> h[i].sym, t |-> h[i].t, c |-> h[i].c, form |-> h[i].form, pfx |-> h[i].pfx,
                           gens |-> EventGens(s, h[i]), dim |-> EventDim(s, h[i]),
                           text |-> IF h[i].op = "modify" THEN Tmpl[s.slot[h[i].r]["foo"].t] ELSE Tmpl[h[i].t]]>>
                        \o Enrich(Apply(s, h[i]), h, i + 1)
Export == PrintT(ToJson([tag |-> "HIST", sys |-> st.sys, h |-> Enrich(InitSt(st.sys), hist, 1),
             probes |-> [i \in DOMAIN Probes(st) |-> LET p == Probes(st)[i] IN
                          [r |-> p.r, toks |-> p.toks, gens |-> ExprGens(p.toks, st.slot[p.r]), dim |-> Dense(ExprDimV(p.toks, st.slot[p.r]))]],
             pairs |-> Pairs(st), snap |-> SnapExprs,
             names |-> RegNames \o UserNames, coefs |-> Coefs, exps |-> Exps]))
=============================================================================
