#!/bin/bash
# usage: tools/seeded_check.sh <dir with patch.diff [demo.py]> <Cxx> [more Cxx...]   [TIER=quick|thorough]
# Applies the seeded change to a scratch copy of /repo (outside /repo and /verif), confirms the repository's
# test-suite is still at the baseline, runs demo.py without/with the change, then runs the listed checks against
# the copy (UNYT_VERIF_REPO).  Prints one line per step; removes the copy afterwards.
S="$(cd "$1" && pwd)"; shift
HERE="$(cd "$(dirname "$0")/.." && pwd)"
T=$(mktemp -d /tmp/seed_XXXXXX)
trap 'rm -rf "$T"' EXIT
rsync -a --exclude .git --exclude __pycache__ /repo/ "$T/"
( cd "$T" && git init -q . 2>/dev/null && git apply --whitespace=nowarn "$S/patch.diff" ) || { echo "PATCH-DOES-NOT-APPLY"; exit 2; }
if [ -z "$SKIP_SUITE" ]; then "$HERE/tools/mutant_tests.sh" "$T" | tail -2; fi
if [ -f "$S/demo.py" ]; then
  ( cd /tmp && PYTHONPATH=/repo /venv/bin/python "$S/demo.py" >/dev/null 2>&1 ); echo "demo on unchanged tree: exit $?"
  ( cd /tmp && PYTHONPATH="$T" /venv/bin/python "$S/demo.py" >/dev/null 2>&1 ); echo "demo on changed tree:   exit $?"
fi
for P in "$@"; do
  out=$(cd "$HERE" && UNYT_VERIF_REPO="$T" VERIF_EVIDENCE_DIR="$T/.evidence" ./check "$P" --tier "${TIER:-quick}" 2>&1); rc=$?
  echo "check $P on changed tree: exit $rc"
  echo "$out" | grep -E "^(VIOLATION|  key=|MACHINERY|DRIFT)" | head -8
  echo "$out" | tail -1
done
