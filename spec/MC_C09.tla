------------------------------ MODULE MC_C09 ------------------------------
(* Bounded instances of Equiv for C09.  Two uses, selected by the cfg:      *)
(*   MC_C09_laws : one state per (equivalence, a, b, c, keyword setting);   *)
(*                 the invariants are the model-level laws Total, Formula,  *)
(*                 Inv, Path, Twin, Value (incl. Lorentz on Pythagorean     *)
(*                 rationals) and Gate of the transcribed branch tables.    *)
(*   MC_C09_*    : histories of conversion calls on one object (initial     *)
(*                 object x sequence of requests up to MaxLen); every       *)
(*                 history of length ExportLen is exported with the model's *)
(*                 outcome and the formula values of every step.            *)
EXTENDS Equiv
CONSTANTS MaxLen, ExportLen, NUin, NUout, Profile, Diag, Part
VARIABLES init, obj, hist
vars == <<init, obj, hist>>

ASSUME PrintT(ToJson([tag |-> "TABLES", gens |-> GenName, nums |-> GenNum, units |-> Units, eqs |-> EqNames, offsets |-> Offsets]))

\* ------------------------------------------------------------ alphabets per profile
\*  single : one step, every entry point, wide unit/value/dtype/shape alphabet
\*  hist   : up to MaxLen steps inside one equivalence, narrow alphabet
\*  sim    : for -simulate, wide alphabet, any chain
Entries == IF Profile = "hist" THEN {"to", "to_value", "convert_to_units", "convert_to_equivalent"} ELSE AllEntries
\* dtype x shape: every dtype as quantity and array; views only of float/complex buffers (retyping an integer view is C18's subject)
WideDtShs == ((AllDts \ {"f8"}) \X {"a"}) \cup ({"i8", "u1", "i2", "f4", "c16"} \X {"q"}) \cup ({"f8"} \X Shapes) \cup ({"f4", "c16"} \X {"v2"})
DtShs == IF Profile = "hist" THEN {<<"f8", "a">>, <<"i8", "q">>, <<"f8", "v2">>, <<"i2", "a">>, <<"f4", "a">>, <<"u1", "q">>}
         ELSE WideDtShs
\* hist: float64 objects hold value pair 1 (velocity: also a beta pair), int64 objects the large pair 3, narrow dtypes pair 5
\* (round 7) the float64 array of the default registry also holds the pair with an exact zero (the last pair of its dimension)
PairIdx(d) == IF Profile = "hist" THEN (IF d = "velocity" THEN {1, 3, 5, 6, Len(ValPairs(d))} ELSE IF d = "dimensionless" THEN {1} ELSE {1, 3, 5, Len(ValPairs(d))}) ELSE DOMAIN ValPairs(d)
\* which value pairs a dtype may hold: float64 everything; 8-byte integers the integral pairs; complex128 pairs 1 and 5;
\* narrower dtypes the moderate pair 5 (exact in every dtype), float32/complex64 also a beta pair, floats a gamma pair
PairOk(d, pi, dt) ==
  CASE dt = "f8" -> TRUE
    [] dt \in {"i8", "u8"} -> TRUE
    [] d = "dimensionless" -> dt \in {"f2", "f4", "c8", "c16"} /\ pi = 1
    [] dt = "c16" -> pi \in {1, 5}
    [] dt \in {"f4", "c8"} -> pi = 5 \/ (d = "velocity" /\ pi = 6)
    [] OTHER -> pi = 5
PlainInit(i) == Units[i.u].n = 1 /\ i.pi = 1 /\ i.dt = "f8" /\ i.sh = "a" /\ i.reg = "default"
NarrowProbe(i) == Units[i.u].n = 1 /\ i.pi = 5 /\ i.sh = "a" /\ i.dt \in {"i1", "i4", "f2", "c8"}
\* Part splits the single-step instance into two TLC runs (0 = everything, 1 = float64/int64 objects, 2 = the other dtypes)
\* 3 = objects of the custom registry
PartOk(dt, reg) == \/ Part = 0
                   \/ Part = 1 /\ reg = "default" /\ dt \in {"f8", "i8"}
                   \/ Part = 2 /\ reg = "default" /\ dt \notin {"f8", "i8"}
                   \/ Part = 3 /\ reg = "custom"
\* spellings an object of the custom registry is written in / converted to: coherent SI, re-valued symbols, code units
CustomUnit(i) == Units[i].c \in {"reval", "code", "offset"} \/ (Units[i].n = 1 /\ Units[i].c = "si")
\* hist: one or two registry-valued spellings per dimension (re-valued symbols where the dimension has one, else the code unit)
HistCustomUnit(i) == \/ Units[i].c = "reval"
                     \/ Units[i].c = "code" /\ ~\E j \in UI : Units[j].d = Units[i].d /\ Units[j].c = "reval"
                     \/ Units[i].d = "dimensionless" /\ Units[i].n = 1
                     \/ IsOffset(i)
GateOn(i) == Profile # "single" \/ PlainInit(i) \/ NarrowProbe(i) \/ (i.reg = "custom" /\ i.pi = 1 /\ i.sh = "a" /\ Units[i.u].c # "si")
             \/ (IsOffset(i.u) /\ i.pi = 1 /\ i.sh = "a")
SameOn(i) == Profile # "single" \/ (i.pi = 1 /\ i.dt = "f8") \/ NarrowProbe(i)

InitOk(d, u, pi, dt, sh, reg) ==
  /\ IF reg = "default" THEN (Units[u].n <= NUin \/ IsOffset(u)) /\ Units[u].c # "code"
     ELSE /\ dt = "f8" /\ d \notin OutsideDims /\ pi \in (IF d = "velocity" THEN {1, 6} ELSE {1})
          /\ IF Profile = "hist" THEN HistCustomUnit(u) /\ sh = "a" ELSE CustomUnit(u) /\ sh \in {"a", "q"}
  /\ dt # "f8" => Units[u].c = "si"
  \* a reading on an offset scale cannot hold, to the relative precision of its float type, an absolute temperature much
  \* smaller than the offset: objects written in degC/degF hold the pairs whose numbers are >= 1 K
  /\ IsOffset(u) => pi \in {1, 3, 5}
  /\ PairOk(d, pi, dt)
  /\ dt \in IntDts => \A j \in 1..NElem(sh) : IntOk(ValPairs(d)[pi][j])
  /\ d \in OutsideDims => (Units[u].n = 1 /\ pi = 1 /\ dt = "f8" /\ sh = "a")
  /\ Profile = "hist" => ((dt = "i8") <=> (pi = 3)) /\ (dt = "f8" => pi # 5)
  /\ (Profile = "hist" /\ IsSpecPair(d, pi)) => (dt = "f8" /\ sh = "a")
Init == \E d \in AllDims : \E u \in UnitsOfDim(d), pi \in PairIdx(d), ds \in DtShs, reg \in Regs :
          /\ InitOk(d, u, pi, ds[1], ds[2], reg) /\ PartOk(ds[1], reg)
          /\ init = [d |-> d, u |-> u, pi |-> pi, dt |-> ds[1], sh |-> ds[2], reg |-> reg, v |-> MkObj(d, u, ValPairs(d)[pi], ds[1], ds[2]).v]
          /\ obj = [MkObj(d, u, ValPairs(d)[pi], ds[1], ds[2]) EXCEPT !.reg = reg]
          /\ hist = <<>>

Targets(o, eq) ==
  {tu \in UI :
     LET tb == Units[tu].d IN
     \/ /\ Covered(eq, o.d, tb)
        /\ IF o.reg = "default" THEN (Units[tu].n <= NUout \/ IsOffset(tu)) /\ Units[tu].c # "code"
           ELSE IF Profile = "hist" THEN HistCustomUnit(tu) \/ (Units[tu].n = 1 /\ Units[tu].c = "si") ELSE CustomUnit(tu)
        /\ o.dt # "f8" => Units[o.u].c = "si"      \* narrow/integer/complex objects are only converted from coherent SI units
     \/ /\ Uncovered(eq, o.d, tb) /\ (Units[tu].n = 1 \/ (IsOffset(tu) /\ Profile = "single")) /\ GateOn(init)
        /\ Profile = "single" \/ (tb \in {"time", "energy"} /\ eq \in {"thermal", "lorentz"})
     \/ /\ tb = o.d /\ tu # o.u /\ (Units[tu].n <= 2 \/ IsOffset(tu)) /\ SameOn(init) /\ Bytes(o.dt) >= 4
        /\ eq = "thermal"}
\* keyword settings: all for float64/int64 single steps; the dtype dimension is crossed with the default setting only
Kws(o, eq, tu) == IF ~Covered(eq, o.d, Units[tu].d) THEN {1}
                  ELSE IF Profile = "single" THEN (IF init.dt \in {"f8", "i8"} THEN KwOk(eq) ELSE {1})
                  ELSE KwOk(eq) \cap {1, 4}
Follows(en, last) == IF en \in InPlaceEntries THEN {TRUE} ELSE IF en = "to_value" \/ last THEN {FALSE} ELSE {TRUE, FALSE}

EnIdx(en) == CASE en = "to" -> 0 [] en = "in_units" -> 1 [] en = "to_equivalent" -> 2 [] en = "to_value" -> 3
               [] en = "convert_to_units" -> 4 [] en = "convert_to_equivalent" -> 5
ShIdx(sh) == CASE sh = "q" -> 0 [] sh = "a" -> 1 [] sh = "v1" -> 2 [] sh = "v2" -> 3
EqIdx(eq) == CHOOSE i \in DOMAIN EqNames : EqNames[i] = eq
\* form of the target: objects of the custom registry get all forms (a default-registry Unit object cannot spell a code
\* unit); objects of the default registry alternate between a string and a Unit object along the diagonal
TfIdx(tf) == CASE tf = "str" -> 0 [] tf = "uin" -> 1 [] tf = "udef" -> 2
\* (a Unit object of ANOTHER registry is re-read by its expression in the array's registry - unyt's way of adopting
\* foreign units, C13's subject - so that form is generated only for spellings that mean the same in both registries)
TFs(en, tu) == IF init.reg = "custom" /\ Profile # "hist" THEN (IF Units[tu].c \in {"si", "offset"} THEN TForms ELSE {"str", "uin"})
               ELSE IF Profile = "sim" THEN {"str", "uin"}
               ELSE IF (Units[tu].n + Units[init.u].n + init.pi + EnIdx(en) + Len(hist)) % 2 = 0 THEN {"str"} ELSE {"uin"}
\* (round 7) twins in the single-step instance: a covered in-place request on a float64 object is preceded, in the same
\* history, by the copying form of the same request (to for convert_to_units, to_equivalent for convert_to_equivalent),
\* result not followed - so "the in-place form yields the same numbers and unit as the copying form" is judged over the
\* wide alphabet of units, registries and target forms (all objects of the custom registry; value pairs 1, 2 and the zero
\* pair of the default registry)
TwinOf(en) == IF en = "convert_to_units" THEN "to" ELSE "to_equivalent"
TwinOn(en, eq, tu) == /\ Profile = "single" /\ en \in InPlaceEntries /\ init.dt = "f8" /\ Covered(eq, obj.d, Units[tu].d)
                      /\ (init.reg = "custom" \/ init.pi \in {1, 2} \/ IsSpecPair(init.d, init.pi))
Step(en, eq, k, tu, fo, tf) ==
  LET q == [en |-> en, eq |-> eq, k |-> k, tu |-> tu, fo |-> fo]
      out == Outcome(obj, q)
      tb == Units[tu].d
      fv == IF Covered(eq, obj.d, tb) THEN FormulaVals(eq, obj.d, tb, k, obj.v) ELSE <<>>
      rec(e, f, o) == [en |-> e, eq |-> eq, k |-> k, tu |-> tu, fo |-> f, tf |-> tf, kw |-> KwRec(k), exp |-> o, cand |-> fv, so |-> IsOffset(obj.u)]
      qc == [en |-> TwinOf(en), eq |-> eq, k |-> k, tu |-> tu, fo |-> FALSE] IN
  /\ out.k # "undef"
  /\ Covered(eq, obj.d, tb) => fv # <<>>
  /\ hist' = IF TwinOn(en, eq, tu) THEN hist \o <<rec(TwinOf(en), FALSE, Outcome(obj, qc)), rec(en, fo, out)>>
             ELSE Append(hist, rec(en, fo, out))
  /\ obj' = After(obj, q, out)
  /\ init' = init
\* profile hist: every step of a history uses one equivalence (keywords free); mixed chains are left to the simulator
EqsNow == IF Profile = "hist" /\ Len(hist) > 0 THEN {hist[1].eq} ELSE EqSet
\* thinning (Diag > 1): a covering-array style diagonal over (input unit, target unit, value pair, entry point, shape,
\* equivalence); Diag = 0 or 1 keeps everything.  Every (equivalence, from, to, keyword setting) cell keeps 1/Diag of its cases.
DiagOk(eq, tu, en, tf) == IF Diag <= 1 \/ Profile = "sim" THEN TRUE
                          ELSE (Units[tu].n + Units[init.u].n + init.pi + EnIdx(en) + ShIdx(init.sh) + EqIdx(eq) + Len(hist)
                                + (IF init.reg = "custom" THEN TfIdx(tf) ELSE 0)) % Diag = 0
Next == /\ Len(hist) < MaxLen
        /\ \E eq \in EqsNow : \E tu \in Targets(obj, eq) : \E k \in Kws(obj, eq, tu), en \in Entries :
             \E tf \in TFs(en, tu) :
             /\ DiagOk(eq, tu, en, tf)
             /\ \E fo \in Follows(en, Len(hist) + 1 = MaxLen) : Step(en, eq, k, tu, fo, tf)
Spec == Init /\ [][Next]_vars

ExportHist == (Len(hist) >= ExportLen /\ Len(hist) > 0) => PrintT(ToJson([tag |-> "HIST", init |-> init, h |-> hist]))
\* model-level: along every history the transcription agrees with the defining formula
\* (the only refusals of a covered request in the transcription: in place on 1-byte integers; an input that is a reading
\* on an offset scale - the library refuses arithmetic on degC/degF readings)
ModelFormula == \A i \in DOMAIN hist : hist[i].cand # <<>> =>
                   \/ hist[i].exp.k = "ok" /\ hist[i].exp.v = hist[i].cand
                   \/ hist[i].exp.k = "raise" /\ hist[i].exp.exc = "TypeError" /\ hist[i].en \in InPlaceEntries
                   \/ hist[i].exp.k = "raise" /\ hist[i].exp.exc = "InvalidUnitOperation" /\ hist[i].so

\* ------------------------------------------------------------ the laws instance
LInit == \E eq \in EqSet, a \in AllDims, b \in AllDims : \E c \in (IF Cardinality(EqDims(eq)) > 2 THEN EqDims(eq) \cup {a} ELSE {a}), k \in KwOk(eq) :
           /\ init = [eq |-> eq, a |-> a, b |-> b, c |-> c, k |-> k]
           /\ obj = 0 /\ hist = <<>>
LNext == FALSE /\ UNCHANGED vars
L_Total == LawTotal(init.eq, init.a, init.b, init.k)
L_Formula == LawFormula(init.eq, init.a, init.b, init.k)
L_Inv == LawInv(init.eq, init.a, init.b, init.k)
L_Path == LawPath(init.eq, init.a, init.b, init.c, init.k)
L_Twin == LawTwin(init.eq, init.a, init.b, init.k)
L_Gate == LawGate(init.eq, init.a, init.b)
L_Value == \A pi \in DOMAIN ValPairs(init.a) : \A j \in 1..2 : LawValue(init.eq, init.a, init.b, init.k, ValPairs(init.a)[pi][j])
\* non-vacuity: the covered requests and their monomials are exported and counted by the harness
ExportLaw == (init.c = init.a /\ Covered(init.eq, init.a, init.b)) =>
               PrintT(ToJson([tag |-> "LAW", eq |-> init.eq, a |-> init.a, b |-> init.b, k |-> init.k,
                              mono |-> IF init.eq = "lorentz" THEN One ELSE FormulaMono(init.eq, init.a, init.b, init.k),
                              nvals |-> Cardinality({<<pi, j>> \in (DOMAIN ValPairs(init.a)) \X {1, 2} :
                                                       FormulaOk(init.eq, init.a, init.b, init.k, ValPairs(init.a)[pi][j])})]))
=============================================================================
