#!/usr/bin/env python3
"""Rebuild the 'as built' part of DESIGN.md (between the AS-BUILT markers) from design_parts/*.md."""
import glob, os, re
HERE = os.path.dirname(os.path.dirname(os.path.abspath(__file__)))
B, E = "<!-- AS-BUILT-BEGIN (generated from design_parts/ by tools/merge_design.py; edit the parts, not this section) -->", "<!-- AS-BUILT-END -->"
d = open(os.path.join(HERE, "DESIGN.md"), encoding="utf-8").read()
parts = []
for f in sorted(glob.glob(os.path.join(HERE, "design_parts", "*.md"))):
    t = open(f, encoding="utf-8").read().strip()
    # demote headings so that each part sits under "### <id>"
    t = re.sub(r"^(#+) ", lambda m: "#" * min(6, len(m.group(1)) + 2) + " ", t, flags=re.M)
    parts.append(f"### {os.path.basename(f)[:-3]} (as built)\n\n{t}\n")
body = B + "\n\n" + "\n".join(parts) + "\n" + E
if B in d:
    d = d[: d.index(B)] + body + d[d.index(E) + len(E):]
else:
    sec = "## 13. As built (per property)\n\nWhat each check actually is, as implemented (sections 1-12 are the plan; where the two differ, this section is right).\n\n" + body + "\n\n---------------------------------------------------------------------------\n\n"
    k = d.index("## Appendix A.")
    d = d[:k] + sec + d[k:]
open(os.path.join(HERE, "DESIGN.md"), "w", encoding="utf-8").write(d)
print("DESIGN.md: merged", len(parts), "parts")
